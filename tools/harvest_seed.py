#!/usr/bin/env python3
"""Confirm and store a seeded change produced in a scratch worktree.
   tools/harvest_seed.py C02 "<what it needs to manifest>" [--no-suite]
Steps: demo fails with the change / passes without; the unedited test suite still passes its stable set
with the change; then the change is applied to /repo, the property's check is run, and /repo is restored."""
import json
import os
import shutil
import subprocess
import sys
import xml.etree.ElementTree as ET

VERIF = os.path.dirname(os.path.dirname(os.path.abspath(__file__)))
ENV = dict(os.environ, OMP_NUM_THREADS='1', MKL_NUM_THREADS='1')


def sh(cmd, cwd=None, env=None):
    p = subprocess.run(cmd, cwd=cwd, env=env, shell=True, stdout=subprocess.PIPE, stderr=subprocess.STDOUT)
    return p.returncode, p.stdout.decode(errors='replace')


def main():
    pid = sys.argv[1]
    needs = sys.argv[2] if len(sys.argv) > 2 and not sys.argv[2].startswith('--') else ''
    suite = '--no-suite' not in sys.argv
    rnd = os.environ.get('SEED_ROUND', '')          # '' = first round, '2' = second round (/tmp/seed2, agent2-Cnn)
    wt = f'/tmp/seed{rnd}/{pid}'
    out = os.path.join(VERIF, 'seeded', f'agent{rnd}-{pid}')
    os.makedirs(out, exist_ok=True)
    rc, diff = sh('git diff -- lazy_dataset', cwd=wt)
    assert diff.strip(), 'no change in the worktree'
    open(os.path.join(out, 'patch.diff'), 'w').write(diff)
    demo = f'demo_{pid}.py'
    shutil.copy(os.path.join(wt, demo), os.path.join(out, demo))
    env = dict(ENV, PYTHONPATH=wt)
    rc_with, out_with = sh(f'/venv/bin/python {demo}', cwd=wt, env=env)
    # (not `git stash`: the stash is shared by all worktrees of a repository)
    sh('git checkout -- lazy_dataset', cwd=wt)
    rc_without, out_without = sh(f'/venv/bin/python {demo}', cwd=wt, env=env)
    rc_ap, o_ap = sh(f'git apply {os.path.join(out, "patch.diff")}', cwd=wt)
    assert rc_ap == 0, o_ap
    res = {'demo_exit_with_change': rc_with, 'demo_exit_without_change': rc_without,
           'demo_output_with_change': out_with[-1500:]}
    if suite:
        junit = f'/tmp/seed{rnd}/{pid}.junit.xml'
        sh(f'/venv/bin/python -m pytest -q -p no:cacheprovider --timeout=900 --continue-on-collection-errors --junitxml={junit}', cwd=wt, env=env)
        base = json.load(open('/root/.vp/BASELINE.json'))
        got = {}
        for tc in ET.parse(junit).getroot().iter('testcase'):
            got[f"{tc.get('classname')}::{tc.get('name')}"] = not any(ch.tag in ('failure', 'error', 'skipped') for ch in tc)
        missing = [n for n in base['stable_pass'] if not got.get(n)]
        res['suite_stable_failing_with_change'] = missing
    # our checks
    REPO = os.environ.get('HARVEST_REPO', '/repo')       # a clean worktree can stand in while /repo is busy
    assert sh(f'git -C {REPO} status --porcelain --untracked-files=no')[1].strip() == '', f'{REPO} not clean'
    rc, o = sh(f'git -C {REPO} apply {os.path.join(out, "patch.diff")}')
    res['applies_to_repo_head'] = rc == 0
    caught = {}
    if rc == 0:
        try:
            props = [pid] + [p for p in sys.argv[3:] if p.startswith('C')]
            for p in props:
                c, o = sh(f'./check {p} --tier quick', cwd=VERIF, env=dict(os.environ, VERIF_SEED=os.environ.get('VERIF_SEED', '1'), VERIF_REPO=REPO, VERIF_REPLAY_DIR=('replays' if REPO == '/repo' else 'replays/harvest')))
                line = [l for l in o.splitlines() if l.startswith('VIOLATION')]
                caught[p] = (line[0] if line else ('exit %d' % c))
        finally:
            sh(f'git -C {REPO} checkout -- .')
    res['checks'] = caught
    meta = {'id': f'agent{rnd}-{pid}', 'property': pid, 'origin': 'independent sub-agent given only the property text and a scratch worktree',
            'what': '', 'needs_to_manifest': needs, 'ran': res}
    json.dump(meta, open(os.path.join(out, 'meta.json'), 'w'), indent=1)
    print(json.dumps(res, indent=1)[:3000])


if __name__ == '__main__':
    main()

#!/usr/bin/env python3
"""Apply every seeded change to /repo in turn, run the check of its property (and optionally all
checks), undo the change, and print which checks raised a violation.   tools/seeded.py [--all] [ids…]"""
import json
import os
import subprocess
import sys

VERIF = os.path.dirname(os.path.dirname(os.path.abspath(__file__)))
REPO = '/repo'


def run(cmd, **kw):
    return subprocess.run(cmd, stdout=subprocess.PIPE, stderr=subprocess.STDOUT, **kw)


def main():
    args = [a for a in sys.argv[1:] if not a.startswith('--')]
    every = '--all' in sys.argv
    props = [json.loads(l)['id'] for l in open(os.path.join(VERIF, 'properties.jsonl'))]
    assert run(['git', '-C', REPO, 'status', '--porcelain', '--untracked-files=no']).stdout.strip() == b'', '/repo is not clean'
    rows = []
    for sid in sorted(os.listdir(os.path.join(VERIF, 'seeded'))):
        d = os.path.join(VERIF, 'seeded', sid)
        if not os.path.isdir(d) or (args and sid not in args):
            continue
        meta = json.load(open(os.path.join(d, 'meta.json')))
        r = run(['git', '-C', REPO, 'apply', os.path.join(d, 'patch.diff')])
        if r.returncode != 0:
            rows.append((sid, meta['property'], 'PATCH DOES NOT APPLY', ''))
            continue
        try:
            caught = []
            for p in (props if every else [meta['property']]):
                c = run([os.path.join(VERIF, 'check'), p], cwd=VERIF)
                out = c.stdout.decode()
                if c.returncode == 1 and 'VIOLATION' in out:
                    line = [l for l in out.splitlines() if l.startswith('VIOLATION')][0]
                    caught.append(p + ('*' if 'no-failing-input-found' in line else ''))
                elif c.returncode not in (0, 1):
                    caught.append(p + '(infra-error)')
            rows.append((sid, meta['property'], ' '.join(caught) or 'MISSED', meta['what'][:70]))
        finally:
            run(['git', '-C', REPO, 'checkout', '--', '.'])
    for r in rows:
        print('%-16s %-4s %-28s %s' % r)


if __name__ == '__main__':
    main()

#!/usr/bin/env python3
"""Regenerate the table of DESIGN.md section 12 (between the two marker comments) from seeded/*/meta.json
and, when given, the output of tools/seeded.py:   tools/mkseedtable.py [matrix.txt]"""
import json
import os
import re
import sys

VERIF = os.path.dirname(os.path.dirname(os.path.abspath(__file__)))
BEGIN, END = '<!-- seeded-table-begin -->', '<!-- seeded-table-end -->'


def main():
    caught = {}
    if len(sys.argv) > 1:
        for line in open(sys.argv[1]):
            m = re.match(r'(\S+)\s+(C\d\d)\s+(.{28})', line)
            if m:
                caught[m.group(1)] = m.group(3).strip()
    rows = ['| seeded change | property | what it is | needs to manifest | caught by |', '|---|---|---|---|---|']
    for sid in sorted(os.listdir(os.path.join(VERIF, 'seeded'))):
        mp = os.path.join(VERIF, 'seeded', sid, 'meta.json')
        if not os.path.exists(mp):
            continue
        m = json.load(open(mp))
        c = caught.get(sid)
        if c is None:
            cs = m.get('ran', {}).get('checks', {})
            c = ' '.join(p + ('*' if 'no-failing-input-found' in v else '') for p, v in cs.items() if 'VIOLATION' in v) or '?'
        rows.append(f"| {sid} | {m['property']} | {m['what']} | {m.get('needs_to_manifest', '')} | {c} |".replace('\n', ' '))
    p = os.path.join(VERIF, 'DESIGN.md')
    s = open(p).read()
    a, b = s.index(BEGIN) + len(BEGIN), s.index(END)
    s = s[:a] + '\n' + '\n'.join(rows) + '\n' + s[b:]
    open(p, 'w').write(s)
    print(len(rows) - 2, 'rows')


if __name__ == '__main__':
    main()

#!/usr/bin/env python3
"""Regenerates MANIFEST.json from the table below (kept here so that it stays consistent)."""
import json
import os

VERIF = os.path.dirname(os.path.dirname(os.path.abspath(__file__)))
PROPS = [json.loads(l)['id'] for l in open(os.path.join(VERIF, 'properties.jsonl'))]

PROOF = 'machine-checked proof in Lean 4 (kernel-checked theorems about a hand-written executable model) + correspondence check (differential execution of the real code and the compiled model) + failing-input search with a property oracle on the implementation'

CHECKS = {
 'C01': dict(
  text='Lean theorem C01_iter_eq_ref: for EVERY admissible pipeline (any composition/depth), source and user function, iteration of the model of the lazy code equals the stream of the eager list semantics `ref` (central refinement theorem build_ref, by structural induction over the pipeline AST with one lemma per Dataset class); the model is tied to /repo on every run by executing the real classes and the compiled model on corpus + bounded-exhaustive + random pipelines and diffing iter/items; an independent Python eager reference is the oracle for the failing-input search.',
  note='Trusted: Lean kernel; axioms propext/Classical.choice/Quot.sound; the harness, canonicalisation and driver; CPython/numpy semantics (DESIGN.md 5). Proved under the side conditions of `Adm` (batch_size>=1, drop_last tail evaluates, items() has a key table, catch/multi-worker prefetch/key_zip over indexable inputs, no cycle) and for user functions that do not raise IndexError; reshuffle/local shuffle/dynamic buckets are decided under C12/C17; repeatability of stateless stages is established by the correspondence (every pipeline is iterated twice), of the cache by C10.',
  ref='7 C01'),
 'C02': dict(
  text='Lean theorems C02_len_eq_count, C02_getitem_eq_iter, C02_getitem_negative, C02_out_of_range_IndexError, C02_complete for every admissible pipeline and EVERY integer index (corollaries of build_ref + ref_wf), plus counterexample theorems for the two places where the full statement is false (items() over a refused key table: known finding F18; drop_last tail). Correspondence on `ds[i]` for all i in [-n-2, n+2) of every generated pipeline; oracle: len/index versus iteration on the implementation alone.',
  note='Trusted base as C01. CycleDataset is outside (infinite). `wu` storage (NumpySerializedList) is covered by the correspondence/oracle only (source_mode runs), not by a separate theorem.',
  ref='7 C02'),
 'C03': dict(
  text='Lean theorems C03_keys_aligned, C03_keys_one_per_example, C03_items_pair_or_refuse, C03_getKey_present, C03_getKey_is_iterated_example for every admissible pipeline; absent-key clause proved per stage in Lemmas/AbsentKey.lean and refuted for slice-like stages (C03_getKey_absent_slice_counterexample: known finding F15). Correspondence on keys/items/ds[key] (present and absent keys); oracle on the implementation.',
  note='Trusted base as C01. "raises a lookup error" is read as "raises and returns nothing" (DESIGN.md 9).',
  ref='7 C03'),
 'C04': dict(
  text='Lean transition systems for single_thread_prefetch (Conc/Stp.lean) and lazy_parallel_map (Conc/Lpm.lean); theorems stp_fifo_content, stp_complete, stp_delivered_prefix, lpm_delivered_prefix, lpm_complete, lpm_once hold in every reachable state of EVERY interleaving / completion order (inductive invariants). The real functions are run under a deterministic token-passing scheduler (cooperative queue/threading shims + sys.settrace; simulated pool for the executor) and every recorded trace must be a trace of the model with the same delivered list.',
  note='Trusted: as C01 plus queue.Queue atomic FIFO, GIL-atomic closure variable, the concurrent.futures contract (DESIGN.md 5). Process-pool back ends (mp, dill_mp, multiprocessing, concurrent_mp) are covered only through that executor contract and a small real-pool contract test; OS scheduling itself is not modelled (not needed: all schedules are covered).',
  ref='7 C04'),
 'C05': dict(
  text='Lean: stp_no_deadlock, stp_terminates (strictly decreasing measure on every transition of every thread: all schedules finite without fairness), stp_stops_after_close (measure independent of the source), stp_worker_exited; lpm_no_deadlock, lpm_terminates, lpm_quiescent, lpm_close_terminates_pool, lpm_cancelled_never_runs; lpm_quiescent_pathos_fixed / lpm_quiescent_exit for the repaired pathos flavour (`killOnError`) and the counterexample theorem for the flavour before the repair of F16. Controlled schedules of the real code with every stop point: DFS with preemption bound + random; deadlock = no enabled thread; oracle: thread liveness, no source pull / no function call after control returned.',
  note='Trusted as C04. GC-triggered close and OS thread exit are observed, not modelled. "cancelled rather than executed" is proved as: a future whose cancel() succeeded never runs and nothing is pending after terminate (DESIGN.md 9).',
  ref='7 C05'),
 'C06': dict(
  text='Lean: stp_complete (every item before the failing one is delivered, then exactly the source exception, for every schedule), lpm_error_position (at an error exit the delivered list is the longest all-ok prefix and the error is that of the first failing result, or, when the source itself raised, every element was delivered first), lpm_error_first_failure, lpm_source_error_delivers_all, lpm_source_error_position (the repaired F17: the error drain `drainErr`/`yieldedErr`). catch_filter_exception: C14 theorems on catchOuts. Correspondence/oracle: controlled runs with failing sources and functions.',
  note='Trusted as C04. The identity test of the in-process marker across pickling back ends (finding F12) is outside the model; covered by the real-pool contract test.',
  ref='7 C06'),
 'C07': dict(
  text='Lean: stp_pulled_bound (pulled <= delivered + buffer_size + 2, tight), stp_queue_bound, lpm_pulled_bound, lpm_started_bound, lpm_queue_bound, lpm_running_bound in every reachable state of every schedule, independent of the source length. Correspondence: recorded pull/start/deliver events of the real code are replayed through the model; oracle: max read-ahead over the event log, also through the dataset API (parallel map, batch_map, pool prefetch with and without a catching stage, copies); C07_prefetch_built_config / C07_prefetch_refuses_small_buffer (a built prefetch stage has 1 <= workers <= buffer) and 79 degenerate configurations with real threads: refused or within the bound.',
  note='Trusted as C04.', ref='7 C07'),
 'C10': dict(
  text='Lean state machine of CacheDataset/_CacheWrapper over access histories with the memory oracle as input (Model/Cache.lean); theorems C10_transparent_once, C10_value_is_produced, C10_entries_frozen(_run), C10_negative_index, C10_after_latch, C10_latch_monotone, C10_hit_no_call for EVERY history. Correspondence: histories executed on the real class with psutil patched to follow the oracle, outputs + upstream call counts + stored keys diffed; oracle: model-free (first value, produced values, frozen entries, nothing stored once an instance saw the threshold crossed; every spelling of the threshold; mutable examples modified by the consumer; a decoy cache with the same key names alive).',
  note='Trusted as C01. Racing threads on the SAME index are outside (prefetch workers address distinct indices); pickle fidelity is an assumption (C09).',
  ref='7 C10'),
 'C14': dict(
  text='Lean: C14_catchOuts_spec (catch = filter out exactly the outcomes failing with a listed class; first other failure raised at its position), C14_catch_pipeline (for every admissible upstream pipeline, value and key iteration), C14_subclass/C14_isA_trans (class matching), C14_three_filters_agree. Correspondence: pipe family weighted towards raising maps, catch, prefetch(catch_filter_exception), filters; oracle: independent eager reference + lazy/eager/catch/prefetch agreement on the implementation.',
  note='Trusted as C01. `catch([A,B])` with a list is outside (Python `except` needs a tuple).', ref='7 C14'),
 'C15': dict(
  text='Lean: C15_sections_concat, C15_section_length, C15_sizes_differ_by_one, C15_sections_disjoint, C15_split_parts, C15_split_count, C15_reject, C15_shard_eq_split for ALL n, k, i. Correspondence: real split/shard versus the model on every (n,k) up to a bound with representative i + random larger n; oracle: partition / order / sizes / rejection on the implementation.',
  note='Trusted as C01; np.array_split sizes are an assumption validated by the correspondence.', ref='7 C15'),
 'C17': dict(
  text='Lean fold model of DynamicBucketDataset.__iter__ generic in the bucket class + exact-arithmetic DynamicTimeSeriesBucket; theorems C17_conservation(_nodrop), C17_nonempty, C17_batch_size, C17_expiration, C17_buffer_bound, C17_drop_exact, C17_padding, C17_total_size, C17_sort_key, C17_count_inv for EVERY input sequence and parameter record. Correspondence: per-pass outputs of the real class versus the model with IEEE doubles (bit-exact) on a grid + random; oracle: clause-by-clause on the implementation.',
  note='Trusted as C01; the padding/total-size theorems are about exact arithmetic, the float decisions are checked to coincide on the explored grid each run.', ref='7 C17'),
 'C18': dict(
  text='Lean: C18_sort_perm, C18_sort_monotone(_reverse), C18_sort_stable_ties, C18_sort_int/str, C18_sortKeys_perm/sorted, C18_groupby_partition/ids/complete/order for all inputs. Correspondence: sort pipelines (pipe family) and groupby; oracle: permutation/monotone/keys attached/reverse/partition on datasets with ties and incomparable dict payloads.',
  note='Trusted as C01; CPython `sorted` being a correct stable sort is an assumption.', ref='7 C18'),
 'C08': dict(
  text='Lean chunked-trace semantics of the lazy generators (Model/Trace.lean: every yielded value carries the user-function calls made since the previous yield); theorems C08_prefix, erasure to the untraced semantics, no-lookahead / once-in-order per stage, indexing footprint. Correspondence: every user function logs (stage, argument); the call log of the real pipeline is compared with the model after construction, after EVERY next() and for every ds[i]; oracle: nothing at construction, per stage each input once and in order.',
  note='Trusted as C01 plus: code of a Python generator runs only between a resumption and the next yield. Scope: source, map, lazy filter, batch, unbatch, concatenate, zip, index slices, buffer-local shuffle; sort/groupby/eager filter/eager cache/one-time shuffle are eager by contract; prefetch read-ahead is bounded by C07.',
  ref='7 C08'),
 'C09': dict(
  text='Lean heap model with addresses (Model/Heap.lean): pickle.dumps = immutable tree, loads/deepcopy = fresh cells; theorems C09_isolated_serialising (every history, incl. mutating the original container), C09_isolated_copy (separation below/above the construction watermark), C09_handed_out_fresh/distinct, C09_mutate_handed_does_not_touch_store, and the counterexample for copy mode + original mutation. Check: random histories on real datasets in every mode (pickle, copy, wu, memory cache, disk cache) with in-place mutations of everything handed out, every access by every path compared with the pristine snapshot = the model prediction.',
  note='Trusted as C01; fidelity and freshness of pickle / deepcopy / np.frombuffer are assumptions exercised by the harness (no separate driver family: the model predicts "the stored tree", which is exactly what the harness compares with).',
  ref='7 C09'),
 'C11': dict(
  text='Lean state machine of DiskCacheDataset/_DiskCacheWrapper with persistent directories, shared wrappers with holder counts, finalisation and process death (Model/Disk.lean); invariant Good preserved by EVERY operation incl. kill (C11_good_step/run), C11_values, C11_reuse_no_recompute, C11_reuse_after_kill, C11_kill_anywhere, C11_refuse_nonempty, C11_clear_iff, C11_clear_only, C11_calls_only_on_miss. Correspondence: histories executed by a child process on real diskcache directories, SIGKILLed at the kill points; outputs, upstream call counts (logged to a file that survives the kill) and directory existence diffed with the model; kills at random instants during a store are judged by the oracle (values never corrupt).',
  note='Trusted as C01 plus SQLite/diskcache commit atomicity and durability under SIGKILL, CPython running __del__ when the last reference disappears; two caches on one directory at the same time in one process are not modelled.',
  ref='7 C11'),
 'C12': dict(
  text='Lean: C12_shuffle_perm, C12_tile_shuffle_perm, C12_choice_nodup/positions, C12_local_perm and C12_local_displacement for every oracle sequence, C12_arr_perm_inv, C12_frozen_copy_snapshot, C12_reshuffle_perm_partial (no other iterator started while in progress) and C12_reshuffle_interleaved_counterexample (known finding F10). Correspondence: all interleavings of two iterators over one ReShuffleDataset of length <= 3 + random ones, local shuffle with the draws of the real generator recorded and fed to the model; oracle: multiset / displacement / frozen copies on the implementation.',
  note='Trusted as C01 plus numpy generators (shuffle permutes in place, choice in range, replace=False duplicate free).',
  ref='7 C12'),
 'C13': dict(
  text='Lean: C13_copy_preserves_cfg (copy() of every class forwards every configuration parameter, for every pipeline tree; table transcribed from the code), C13_seed_determinism and C13_epoch_global_independent (equal explicit seeds give equal orders in every epoch whatever is written into the global state between epochs, by induction over epochs and stages), C13_frozen_fixed. Correspondence: the table is compared with the configuration attributes of real objects of every class; oracle: copy()/copy().copy() attribute by attribute on every class and on random pipelines, seeded pipelines built twice / copied / behind prefetch over 3 epochs with the global numpy state reseeded adversarially.',
  note='Trusted as C01 plus determinism of a seeded numpy RandomState. CycleDataset has no copy(): refusing is not an unfaithful copy. LocalShuffleDataset.copy(freeze=True) stays random (DESIGN.md 9).',
  ref='7 C13'),
 'C16': dict(
  text='Lean: the laws proved on the reference data for all inputs and lifted to the model through build_ref (C16_batch_unbatch(_general), C16_concat_split, C16_slice_slice(_spec,_range), C16_map_slice/shuffle/shard/sort, C16_map_concat, C16_map_batch_*, C16_map_cache, C16_map_map, C16_filter_select*, C16_filter_filter, C16_filter_concat, C16_items_map_snd, C16_tile_eq_concat, C16_model_*), with counterexample theorems where a law needs error-free inputs. Check: 18 laws instantiated on random base pipelines, both sides observed on the implementation (iteration, len, keys, ds[i]).',
  note='Trusted as C01; laws are stated for datasets with distinct examples (a concatenation refuses duplicate keys by design).',
  ref='7 C16'),
 'C19': dict(
  text='Lean model of database.py on association lists (Model/Db.lean): C19_examples_once_in_order, C19_augmented, C19_alias_concat, C19_list_concat, C19_reject_overlap(_anywhere), C19_reject_duplicates, C19_reject_extra, C19_merge_total, C19_merged_dataset_lookup, C19_memo_shared, C19_memo_fresh_after_gc, C19_memo_examples_independent. Correspondence: random descriptions and requests on DictDatabase (both calling conventions) versus the model; oracle: JsonDatabase on temp files and its pickle answer identically, memo identity, deep comparison of the source dictionaries.',
  note='Trusted as C01; "never changes the source dictionaries" is established by the correspondence/oracle (a functional model cannot mutate); Database.alias adds an empty alias entry to a single source dict (not flagged, DESIGN.md 9).',
  ref='7 C19'),
 'C20': dict(
  text='Lean model of the wrapper generator loop and __getitem__ (Model/Profile.lean): C20_iter_transparent, C20_iter_prefix, C20_hits_full, C20_hits_partial, C20_getitem_transparent, C20_shared_counts_under_copy, C20_failed_le_hits; C20_loop_eq_closed_form: the loop as written (count before the fetch, take it back on StopIteration, count an Exception as failed, a generator that is not resumed executes nothing) equals the closed form for every stream, demand and counter state. Check: random pipelines plain versus profiled (iteration twice, len, ds[i], items(), behind thread prefetch), original object tree unchanged, counters of every wrapper compared with the number of examples fetched (formula of C20_hits_full), early stop, indexing.',
  note='Trusted as C01; timing is not modelled; per-node counts are checked for pipelines of iterating stages whose iteration ends normally (with an error only the top node is fully consumed).',
  ref='7 C20'),
}

m = {
 'version': 1,
 'setup_cmd': 'cd lean && lake build',
 'hooks': {'guard': 'LAZY_DATASET_VERIF',
           'enable': 'none needed: no instrumentation is committed to the repository; call logging, queue/threading shims, psutil and kill points are installed from the harness process at run time',
           'baseline_off_cmd': 'cd /repo && /venv/bin/python -m pytest -ra -q -p no:cacheprovider --timeout=900 --continue-on-collection-errors',
           'source_commits': [], 'add_only': True},
 'engines': [
  {'name': 'lean4-proofs', 'path': 'lean/', 'serves_properties': PROPS,
   'kind_free_text': 'Lean 4.33 kernel-checked theorems about a hand-written executable model of lazy_dataset'},
  {'name': 'correspondence', 'path': 'harness/', 'serves_properties': PROPS,
   'kind_free_text': 'differential execution of the real code and the compiled Lean model driver on generated pipelines / histories / schedules, plus property oracles on the implementation'}],
 'checks': [],
 'notes': 'see DESIGN.md',
 'not_applicable': [],
}
for p in PROPS:
    if p in CHECKS:
        c = CHECKS[p]
        m['checks'].append({
            'property_id': p,
            'quick_cmd': f'./check {p} --tier quick',
            'thorough_cmd': f'./check {p} --tier thorough',
            'evidence_file': f'evidence/{p}.json',
            'replay_cmd_template': f'./check {p} --replay {{path}}',
            'engine': 'lean4-proofs',
            'level_claimed': {'category': 'proof', 'text': c['text'], 'design_ref': c['ref']},
            'level_note': c['note'],
            'technique': PROOF,
        })
    else:
        m['not_applicable'].append({'property_id': p, 'reason': 'check under construction in this round (model and theorems exist or are being written; not yet registered)'})
json.dump(m, open(os.path.join(VERIF, 'MANIFEST.json'), 'w'), indent=1)
print('checks', len(m['checks']), 'not_applicable', len(m['not_applicable']))

#!/usr/bin/env python3
"""Write the task files for a round of seeding sub-agents:  tools/mkseedprompts.py <round>
Each agent gets ONLY the text of one property, the list of one-line descriptions of the changes already
used for it (so that rounds do not repeat each other) and its own scratch worktree /tmp/seed<round>/Cnn
(create them with `git -C /repo worktree add --detach /tmp/seed<round>/Cnn HEAD`); nothing about the checks."""
import glob
import json
import os
import sys

VERIF = os.path.dirname(os.path.dirname(os.path.abspath(__file__)))

T = '''You are helping to evaluate a verification tool for the Python library fgnt/lazy_dataset. Your job: introduce ONE realistic regression ("seeded change") into a scratch copy of the library that BREAKS the semantic property given below, while the library still imports and its existing test suite still passes.

Your scratch copy is the git worktree {wt} (a checkout of the library; work ONLY inside that directory; do not touch /repo or any other directory; do not look for or read anything under /verif). The Python to use is /venv/bin/python; always run with the environment PYTHONPATH={wt} OMP_NUM_THREADS=1 MKL_NUM_THREADS=1 so that `import lazy_dataset` resolves to YOUR worktree (verify with `python -c "import lazy_dataset; print(lazy_dataset.__file__)"`). There is no network.

The property (id {id}): {title}

Statement: {statement}

Quantifier: {quantifier}

Code anchors (line numbers may have shifted a little): {anchors}

This is round {rnd} of this exercise. The following changes were already used for this property in earlier rounds; do NOT repeat them or close variants of them (same function and same idea):
{used}

What to produce:
1. Read the anchored code and everything the property depends on (follow the calls: helper functions at the top of core.py such as `_get_serialize_and_deserialize`, `NumpySerializedList`, the `new` / `from_*` constructors, `Dataset.__getitem__` of the base class, `_zip` / `key_zip` / `concatenate` / `intersperse` module functions, `Dataset.apply`, `Dataset.random_choice`, `Dataset.tile`, `Dataset.unbatch`, `ItemsDataset`, `KeyZipDataset`, `ZipDataset`, `IntersperseDataset`, `CycleDataset`, `parallel_utils`, `database.py`), then find a way to break the property that is DIFFERENT from the list above: another class or function, another parameter, another access path (iteration / keyed `.items()` iteration / integer, negative or numpy-typed index / key lookup / `len` / `keys()` / `copy()` / `copy(freeze=True)` / module-level function style / another back end), shared state between objects, or an interaction between two stages. The change must be something a developer could plausibly do by mistake (refactoring, optimisation, "simplification", removing a seemingly redundant line, changed default, off-by-one, wrong variable, wrong operator, swapped arguments, missing forwarding of a parameter, wrong exception class, mutable default / shared state). It must only manifest on SOME inputs / schedules / histories (say which) and should be silent where possible (wrong result rather than a crash). It must not be a syntax error, must not break import, must not change test files. Keep it small (a few lines).
2. The existing test suite must still pass with your change. Run it inside the worktree: `cd {wt} && PYTHONPATH={wt} OMP_NUM_THREADS=1 MKL_NUM_THREADS=1 /venv/bin/python -m pytest -q -p no:cacheprovider --timeout=900 --continue-on-collection-errors -q 2>&1 | tail -15`. (On the unchanged checkout exactly two tests fail, tests/test_cache.py::test_cache_mem_abs and ::test_cache_mem_percent (psutil); tests/test_parallel_utils.py::test_break_backend[...] and the ProfilingDataset doctest are occasionally flaky under load. What matters is that your change adds no new failure.) If your change makes a test fail, choose a different change.
3. Write a demonstration script {wt}/demo_{id}.py that uses only the public behaviour of lazy_dataset, exits with status 1 (printing what went wrong) when the property is violated and status 0 when it holds. It must exit 1 with your change and 0 on the unchanged code (check both). Keep the demo deterministic and quick (< 60 s). Protect its body with `if __name__ == '__main__':` (pytest imports every .py file of the worktree for doctests).
4. Leave your change UNCOMMITTED in the worktree (so that `git diff -- lazy_dataset` shows exactly it) and leave demo_{id}.py there.

IMPORTANT - how to switch your change off and on: NEVER use `git stash` (the stash is shared with other people's worktrees of the same repository). Use instead, inside your worktree: `git diff -- lazy_dataset > {root}/{id}.mine.patch; git checkout -- lazy_dataset` (now unchanged), run what you need, then `git apply {root}/{id}.mine.patch` (change is back).

Final answer (short): the one-paragraph description of the change, on which inputs / schedules / histories it manifests and on which it does not, and the output of the demo with and without the change.'''


def main():
    rnd = sys.argv[1]
    root = f'/tmp/seed{rnd}'
    os.makedirs(os.path.join(root, 'prompts'), exist_ok=True)
    props = [json.loads(l) for l in open(os.path.join(VERIF, 'properties.jsonl'))]
    used = {}
    for mp in sorted(glob.glob(os.path.join(VERIF, 'seeded', '*', 'meta.json'))):
        m = json.load(open(mp))
        used.setdefault(m['property'], []).append(m['what'].split(' (')[0][:110])
    for p in props:
        u = '\n'.join('  - ' + w for w in used.get(p['id'], []))
        open(os.path.join(root, 'prompts', p['id'] + '.txt'), 'w').write(T.format(
            wt=f"{root}/{p['id']}", root=root, rnd=rnd, id=p['id'], title=p['title'], statement=p['statement'],
            quantifier=p['quantifier'], anchors=json.dumps(p['anchors']), used=u))
    print(len(props), 'prompts in', root)


if __name__ == '__main__':
    main()

"""Runner shared by the properties decided on the `pipe` family (C01 C02 C03 C14 C16 ...):
corpus -> bounded-exhaustive small pipelines -> seeded random pipelines;
each case is observed on the real code and on the Lean model (correspondence) and judged by
the property's oracle on the implementation alone."""
import copy
import json
import multiprocessing as mp
import os
import random
import sys

HERE = os.path.dirname(os.path.abspath(__file__))
if HERE not in sys.path:
    sys.path.insert(0, HERE)

import common
import gen as G
import model
import pipefam


OBS_TIMEOUT_S = int(os.environ.get('VERIF_OBS_TIMEOUT_S', 60))


def _observe_inner(req):
    try:
        mode = req.get('source_mode', 'pickle')
        if mode != 'pickle' or req.get('view', 'direct') != 'direct':
            import warnings
            import impl
            with warnings.catch_warnings():
                warnings.simplefilter('ignore')
                obs, _ = impl.observe(req['p'], req['idx'], req['keys'], req.get('cycle_k', 0), ctx=impl.Ctx(source_mode=mode, view=req.get('view', 'direct')))
            return obs
        return pipefam.observe_impl(req)
    except Exception as e:  # noqa  harness failure, reported as such
        import traceback
        repo = os.path.realpath(common.REPO) + os.sep
        lib = [f for f in traceback.extract_tb(e.__traceback__) if os.path.realpath(f.filename).startswith(repo)]
        return {'harness_error': repr(e), 'from_library': bool(lib), 'traceback': traceback.format_exc()[-2500:]}


def observe_many(reqs, procs):
    """every observation runs in a watched worker process (common.robust_map): one that does not come
    back within OBS_TIMEOUT_S (normal ones take milliseconds) is killed and reported as {'hang': True}"""
    return common.robust_map(_observe_inner, reqs, procs=max(1, procs), timeout=OBS_TIMEOUT_S,
                             short_timeout=max(3, OBS_TIMEOUT_S // 12))


def _observe(req):
    return observe_many([req], 1)[0]


def load_corpus(prop):
    d = os.path.join(common.VERIF, 'corpus', prop)
    out = []
    if os.path.isdir(d):
        for f in sorted(os.listdir(d)):
            if f.endswith('.json'):
                j = json.load(open(os.path.join(d, f)))
                for c in (j if isinstance(j, list) else [j]):
                    out.append(c['p'] if 'p' in c and 'op' not in c else c)
    return out


# ---- bounded-exhaustive enumeration ------------------------------------------------------------

def small_sources():
    return [
        {'op': 'list', 'xs': []},
        {'op': 'list', 'xs': [4]},
        {'op': 'list', 'xs': [3, 1, 2]},
        {'op': 'dict', 'kvs': []},
        {'op': 'dict', 'kvs': [['a', 7]]},
        {'op': 'dict', 'kvs': [['b', 2], ['a', 5], ['c', 2]]},
        {'op': 'dict', 'kvs': [['d', 1], ['a', 0], ['c', 3], ['e', 4]]},
    ]


def unary_menu(p, n):
    """a fixed, small menu of stage instances to wrap around `p` (n = a length hint)"""
    m = [
        {'op': 'map', 'f': {'fn': 'add', 'c': 10}, 'p': p},
        {'op': 'map', 'f': {'fn': 'raiseIfMod', 'm': 2, 'r': 0, 'cls': 'UserA'}, 'p': p},
        {'op': 'filterLazy', 'f': {'pred': 'keepMod', 'm': 2, 'r': 1}, 'p': p},
        {'op': 'filterEager', 'f': {'pred': 'dropMod', 'm': 2, 'r': 1}, 'p': p},
        {'op': 'slice', 's': {'kind': 'range', 'start': 1, 'stop': None, 'step': None}, 'p': p},
        {'op': 'slice', 's': {'kind': 'range', 'start': None, 'stop': None, 'step': -1}, 'p': p},
        {'op': 'slice', 's': {'kind': 'range', 'start': 0, 'stop': 0, 'step': None}, 'p': p},
        {'op': 'slice', 's': {'kind': 'idx', 'is': [-1, 0, 0], 'form': 'list'}, 'p': p},
        {'op': 'slice', 's': {'kind': 'keys', 'ks': ['a'], 'form': 'list'}, 'p': p},
        {'op': 'slice', 's': {'kind': 'idx', 'is': ([n - 1, 0, 0] if n else []), 'form': 'ndarray'}, 'p': p},
        {'op': 'concat', 'ps': [p, {'op': 'dict', 'kvs': [['x', 8], ['y', 9]]}], 'style': 'method'},
        {'op': 'concat', 'ps': [p, copy.deepcopy(p)], 'style': 'function'},
        {'op': 'intersperse', 'ps': [p, {'op': 'dict', 'kvs': [['x', 8], ['y', 9]]}], 'style': 'method'},
        {'op': 'zip', 'ps': [p, copy.deepcopy(p)]},
        {'op': 'zip', 'ps': [p, {'op': 'list', 'xs': [4, 6]}], 'style': 'function'},       # (refused unless len(p) == 2)
        {'op': 'keyZip', 'ps': [p, {'op': 'map', 'f': {'fn': 'add', 'c': 1}, 'p': copy.deepcopy(p)}]},
        {'op': 'batch', 'n': 2, 'dropLast': False, 'p': p},
        {'op': 'batch', 'n': 2, 'dropLast': True, 'p': p},
        {'op': 'unbatch', 'p': p},
        {'op': 'items', 'p': p},
        {'op': 'tile', 'reps': 2, 'p': p},
        {'op': 'sort', 'key': None, 'reverse': True, 'p': p},
        {'op': 'sort', 'key': {'fn': 'keyMod', 'm': 2}, 'reverse': False, 'p': p},
        {'op': 'shard', 'k': 2, 'i': 1, 'p': p},
        {'op': 'shuffleOnce', 'perm': list(range(n))[::-1], 'p': p},
        {'op': 'cache', 'p': p},
        {'op': 'cacheEager', 'p': p},
        {'op': 'catch', 'E': ['UserA'], 'p': p},
        {'op': 'copy', 'freeze': True, 'p': p},
        {'op': 'prefetch', 'w': 1, 'b': 2, 'thread': True, 'catchE': None, 'p': p},
        {'op': 'prefetch', 'w': 2, 'b': 2, 'thread': True, 'catchE': ['UserA'], 'p': p},
        {'op': 'parMap', 'f': {'fn': 'add', 'c': 1}, 'w': 2, 'b': 2, 'p': p},
    ]
    return m


def source_variants(p, limit=400):
    """`p` with its sources replaced by the small sources: one leaf at a time, and every pair of leaves"""
    leaves = []

    def walk(q, path):
        if q['op'] in ('list', 'dict'):
            leaves.append(path)
        if 'p' in q:
            walk(q['p'], path + [('p', None)])
        for i, c in enumerate(q.get('ps', [])):
            walk(c, path + [('ps', i)])

    def put(q, path, s):
        q = copy.deepcopy(q)
        if not path:
            return copy.deepcopy(s)
        cur = q
        for k, i in path[:-1]:
            cur = cur[k] if i is None else cur[k][i]
        k, i = path[-1]
        if i is None:
            cur[k] = copy.deepcopy(s)
        else:
            cur[k][i] = copy.deepcopy(s)
        return q

    walk(p, [])
    out = []
    srcs = small_sources()
    for lf in leaves:
        for s in srcs:
            out.append(put(p, lf, s))
    for i in range(len(leaves)):
        for j in range(i + 1, len(leaves)):
            for s in srcs:
                for t in srcs:
                    if len(out) < limit:
                        out.append(put(put(p, leaves[i], s), leaves[j], t))
    return out[:limit]


def hint_len(p):
    import pyref
    try:
        return pyref.ref(p).n
    except Exception:  # noqa
        return 3


def exhaustive(depth, ops=None):
    """all pipelines obtained by wrapping the small sources `depth` times with the unary menu"""
    level = small_sources()
    out = list(level)
    for _ in range(depth):
        nxt = []
        for p in level:
            for q in unary_menu(p, hint_len(p)):
                if ops is None or q['op'] in ops:
                    nxt.append(q)
        out += nxt
        level = nxt
    return out


# ---- shrinking ---------------------------------------------------------------------------------

def children(p):
    """structurally smaller variants of a pipeline"""
    out = []
    if 'p' in p:
        out.append(p['p'])
        for c in children(p['p']):
            q = dict(p)
            q['p'] = c
            out.append(q)
    if 'ps' in p:
        for i, q in enumerate(p['ps']):
            out.append(q)
            if len(p['ps']) > 1:
                r = dict(p)
                r['ps'] = p['ps'][:i] + p['ps'][i + 1:]
                out.append(r)
            for c in children(q):
                r = dict(p)
                r['ps'] = p['ps'][:i] + [c] + p['ps'][i + 1:]
                out.append(r)
    if p['op'] == 'list' and len(p['xs']) > 0:
        out.append({'op': 'list', 'xs': p['xs'][:-1]})
        out.append({'op': 'list', 'xs': p['xs'][1:]})
    if p['op'] == 'dict' and len(p['kvs']) > 0:
        out.append({'op': 'dict', 'kvs': p['kvs'][:-1]})
        out.append({'op': 'dict', 'kvs': p['kvs'][1:]})
    return out


def shrink(p, fails, budget=150):
    """greedy structural shrinking while `fails(p)` stays true"""
    cur = p
    steps = 0
    improved = True
    while improved and steps < budget:
        improved = False
        for c in children(cur):
            steps += 1
            if steps >= budget:
                break
            try:
                if fails(c):
                    cur = c
                    improved = True
                    break
            except Exception:  # noqa
                continue
    return cur


# ---- the runner ----------------------------------------------------------------------------------

class PipeProperty:
    """configuration of one pipe-family property"""
    prop = None
    fields = pipefam.OBS_KEYS          # observations compared with the model
    stages = None                      # generator alphabet (None = all)
    weights = None
    exhaustive_depth = {'quick': 2, 'thorough': 3}
    n_random = {'quick': 2500, 'thorough': 20000}
    max_len = {'quick': 6, 'thorough': 10}
    required_ops = ()                  # generator self-test: ops that must occur at least `floor` times
    floor = 5
    source_modes = ('pickle',)         # immutable_warranty of the sources, cycled over the cases
    views = ('direct',)                # transparent views through which the pipeline is observed, cycled over the cases

    def oracle(self, p, obs):
        """list of (clause, detail)"""
        return []

    def known(self, p, obs, clause, detail, findings):
        """id of the known finding this oracle failure is an instance of, or None"""
        return None

    def relevant(self, p):
        return True


def restrict(d, fields):
    return [x for x in d if x[0].split('[')[0] in fields or x[0] in ('build', 'driver')]


def run(pp, rep):
    tier, seed = rep.tier, rep.seed
    rng = random.Random(seed * 1000003 + sum(map(ord, pp.prop)))
    findings = [f for f in common.load_known() if f.get('status') == 'known']
    corpus = load_corpus(pp.prop)
    ex = exhaustive(pp.exhaustive_depth[tier])
    g = G.Gen(rng, max_len=pp.max_len[tier], stages=pp.stages, weights=pp.weights)
    rnd = [g.pipeline() for _ in range(pp.n_random[tier])]
    cases = [p for p in corpus + ex + rnd if pp.relevant(p)]
    procs = min(16, os.cpu_count() or 1)

    dist = {}
    depth_hist = {}
    err_hist = {}
    distinct = set()
    n_built = 0
    disagreements = []
    oracle_fails = []
    harness_errors = 0
    lib_errors = []
    mode_of = {}
    samples = []
    CHUNK = 20000                      # bounds the memory of a depth-3 enumeration (~200 000 cases)
    for c0 in range(0, len(cases), CHUNK):
        reqs = [pipefam.make_request(p) for p in cases[c0:c0 + CHUNK]]
        for i, r in enumerate(reqs):
            r['source_mode'] = pp.source_modes[(c0 + i) % len(pp.source_modes)]
            r['view'] = pp.views[(c0 + i) % len(pp.views)]
        impl_obs = observe_many(reqs, procs)
        model_obs = model.ask(reqs)
        if c0 == 0:
            for req, a, b in list(zip(reqs, impl_obs, model_obs))[len(corpus) + 40:len(corpus) + 43]:
                samples.append({'request': req, 'implementation': {k: a.get(k) for k in ('build', 'len', 'keys', 'iter')},
                                'model': {k: b.get(k) for k in ('build', 'len', 'keys', 'iter')}})
        for req, a, b in zip(reqs, impl_obs, model_obs):
            p = req['p']
            if 'harness_error' in a:
                harness_errors += 1
                if a.get('from_library') and not lib_errors:
                    lib_errors.append((p, a))
                continue
            if a.get('hang'):
                mode_of[id(p)] = req.get('source_mode', 'pickle') + '|' + req.get('view', 'direct')
                oracle_fails.append((p, 'no_termination', {'timeout_s': OBS_TIMEOUT_S}, a))
                continue
            for o in set(G.ops_of(p)):
                dist[o] = dist.get(o, 0) + 1
            dp = G.depth_of(p)
            depth_hist[dp] = depth_hist.get(dp, 0) + 1
            if a.get('build') == 'ok':
                n_built += 1
                e = a['iter']['err']
                err_hist[str(e)] = err_hist.get(str(e), 0) + 1
                if dp >= 1:
                    distinct.add(hash(json.dumps(p, sort_keys=True)))
            else:
                err_hist['build:' + str(a.get('build'))] = err_hist.get('build:' + str(a.get('build')), 0) + 1
            d = restrict(pipefam.diff(a, b), pp.fields)
            if d and len(disagreements) < 500:
                mode_of[id(p)] = req.get('source_mode', 'pickle') + '|' + req.get('view', 'direct')
                disagreements.append((p, d))
            for clause, detail in pp.oracle(p, a):
                fid = pp.known(p, a, clause, detail, findings)
                if fid is not None:
                    rep.known(fid, next((f['what'] for f in findings if f['id'] == fid), ''))
                elif len(oracle_fails) < 500:
                    mode_of[id(p)] = req.get('source_mode', 'pickle') + '|' + req.get('view', 'direct')
                    oracle_fails.append((p, clause, detail, a))
        del impl_obs, model_obs, reqs
    if lib_errors:
        # the observation itself was aborted by an exception raised inside the library (outside every place where
        # the harness expects one): the unchanged code raises none there
        p, a = lib_errors[0]
        rep.violation({'property': pp.prop, 'kind': 'library-raised-in-harness', 'pipeline': p,
                       'what_no_longer_checks': f'the observation of {harness_errors} pipelines was aborted by an exception raised inside the library: '
                                                + a['harness_error'][:300],
                       'traceback': a.get('traceback')}, no_input=True)
        return rep
    if harness_errors:
        raise common.Infra(f'{harness_errors} harness errors while observing the implementation')

    # generator self-test
    for o in pp.required_ops:
        if dist.get(o, 0) < pp.floor:
            raise common.Infra(f'generator self-test: stage {o} generated only {dist.get(o, 0)} times')

    # ---- judge ----------------------------------------------------------------------------
    def oracle_fails_on(p, mode='pickle'):
        req = pipefam.make_request(p)
        req['source_mode'], _, vw = mode.partition('|')
        req['view'] = vw or 'direct'
        obs = _observe(req)
        if obs.get('hang'):
            return [('no_termination', {'timeout_s': OBS_TIMEOUT_S})], obs
        return [(c, d) for c, d in pp.oracle(p, obs)
                if pp.known(p, obs, c, d, findings) is None], obs

    reported = 0
    seen_sig = set()
    for p, clause, detail, a in oracle_fails:
        fid = pp.known(p, a, clause, detail, findings)
        if fid is not None:
            what = next((f['what'] for f in findings if f['id'] == fid), '')
            rep.known(fid, what)
            continue
        sig = (clause, p['op']) if clause != 'no_termination' else (clause,)
        if sig in seen_sig or reported >= 5:
            continue
        seen_sig.add(sig)
        mode = mode_of.get(id(p), 'pickle')
        small = shrink(p, lambda q: any(c == clause for c, _ in oracle_fails_on(q, mode)[0]),
                       budget=(150 if clause != 'no_termination' else 20))
        fails, obs = oracle_fails_on(small, mode)
        rep.violation({'property': pp.prop, 'kind': 'oracle-failure', 'clause': clause, 'source_mode': mode,
                       'pipeline': small, 'original_pipeline': p,
                       'oracle_failures': [{'clause': c, 'detail': d} for c, d in fails][:5],
                       'observation': obs,
                       'how_to_replay': f'./check {pp.prop} --replay <this file>'})
        reported += 1

    searched = 0
    if disagreements and not rep.violations:
        # the tie between model and code is broken: look for an input on which the PROPERTY fails
        for p, d in disagreements[:3]:
            def still(q):
                rq = pipefam.make_request(q)
                return bool(restrict(pipefam.diff(_observe(rq), model.ask([rq])[0]), pp.fields))
            small = shrink(p, still, budget=80)
            found = None
            # neighbourhood search: wrap / vary the disagreeing pipeline and ask the oracle
            # every case on which model and code disagree is a candidate first, then their neighbourhood
            cand = [q for q, _ in disagreements[:200]] + [small] + source_variants(small) + unary_menu(small, hint_len(small))
            for s in small_sources():
                for q in unary_menu(s, hint_len(s)):
                    if q['op'] == small['op']:
                        cand.append(q)
            g2 = G.Gen(random.Random(seed + 17), max_len=pp.max_len[tier], stages=pp.stages,
                       weights={small['op'] if small['op'] in G.ALL_STAGES else 'map': 6.0})
            cand += [g2.pipeline() for _ in range(150 if tier == 'quick' else 1500)]
            for q in cand:
                searched += 1
                fails, obs = oracle_fails_on(q)
                if fails:
                    found = (q, fails, obs)
                    break
            rq = pipefam.make_request(small)
            replay = {'property': pp.prop, 'kind': 'correspondence',
                      'what_no_longer_checks': f'correspondence family `pipe` (fields {list(pp.fields)}) between '
                                               f'lean/LazyDs/Model/Stage.lean and /repo/lazy_dataset/core.py; '
                                               f'theorems of LazyDs/Props/{pp.prop}.lean are therefore not tied to this code',
                      'pipeline': small, 'original_pipeline': p,
                      'differences': [{'field': f, 'impl': x, 'model': y} for f, x, y in
                                      restrict(pipefam.diff(_observe(rq), model.ask([rq])[0]), pp.fields)][:6]}
            if found:
                q, fails, obs = found
                q2 = shrink(q, lambda z: bool(oracle_fails_on(z)[0]), budget=80)
                fails2, obs2 = oracle_fails_on(q2)
                replay.update({'kind': 'oracle-failure-after-correspondence-break', 'failing_pipeline': q2,
                               'oracle_failures': [{'clause': c, 'detail': dd} for c, dd in fails2][:5],
                               'observation': obs2})
                rep.violation(replay)
            else:
                rep.violation(replay, no_input=True)
            break

    rep.coverage.update({
        'programs': len(cases),
        'disagreements_checked': len(cases),
        'disagreements_found': len(disagreements),
        'evaluations': len(cases),
        'distinct_nontrivial': len(distinct),
        'rule': 'corpus + bounded-exhaustive wrapping of 7 small sources with a 30-entry stage menu to depth '
                f'{pp.exhaustive_depth[tier]} + {pp.n_random[tier]} seeded random pipelines; a case counts as '
                'distinct non-trivial when its canonical JSON is new, it has at least one stage and it builds on the implementation',
        'exhaustive': False,
        'samples': samples,
        'distribution': {'stage_kinds': dist, 'depth': depth_hist, 'iteration_outcome': err_hist,
                         'built_ok': n_built, 'corpus': len(corpus), 'exhaustive_small': len(ex),
                         'random': len(rnd)},
        'oracle_failures': len(oracle_fails),
        'failing_input_search_cases': searched,
    })
    return rep


def replay(pp, j):
    """re-run a replay file: print what the implementation, the model and the oracle say now"""
    p = j.get('failing_pipeline') or j.get('pipeline')
    if p is None:
        print('replay names a proof obligation, nothing to execute:', j.get('what_no_longer_checks'))
        return 1
    req = pipefam.make_request(p)
    req['source_mode'], _, vw = j.get('source_mode', 'pickle').partition('|')
    req['view'] = vw or 'direct'
    a = _observe(req)
    b = model.ask([req])[0]
    d = restrict(pipefam.diff(a, b), pp.fields)
    fails = pp.oracle(p, a)
    print(json.dumps({'pipeline': p, 'implementation': a, 'model': b,
                      'differences': d, 'oracle_failures': fails}, indent=1, default=str))
    if fails or d:
        print(f'VIOLATION property={pp.prop} replay=(replayed)')
        return 1
    return 0

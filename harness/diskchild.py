"""Child process of the C11 check: executes disk-cache operations on the real DiskCacheDataset on
command (one JSON line per operation on stdin, one reply per line on stdout).  It is killed with
SIGKILL by the parent at the `kill` points."""
import gc
import json
import os
import sys
import warnings

REPO = os.environ.get('VERIF_REPO', '/repo')
sys.path.insert(0, REPO)
warnings.simplefilter('ignore')
import lazy_dataset  # noqa


def main():
    n = int(sys.argv[1])
    calls_log = sys.argv[2]

    def f(x):
        with open(calls_log, 'a') as fd:
            fd.write(f'{x}\n')
            fd.flush()
            os.fsync(fd.fileno())
        if x % 3 == 0:
            return None                                # None is a legal example value
        if x % 4 == 1:
            # a large example: diskcache keeps values of 32 KiB and more as files in sub-directories of the cache directory
            return (x * 7 + 3, 'p' * 40000)
        return x * 7 + 3

    def small(v):
        return v[0] if isinstance(v, tuple) and len(v) == 2 and isinstance(v[1], str) and len(v[1]) == 40000 else v
    base = lazy_dataset.new({f'k{j}': j for j in range(n)}).map(f)      # keyed: examples are read by position and by key
    holders = {}
    its = {}          # iterators in flight: id -> (wrapper, iterator)
    out = sys.stdout
    for line in sys.stdin:
        op = json.loads(line)
        k = op['k']
        try:
            if k == 'open':
                ds = base.diskcache(cache_dir=op['path'], reuse=op['reuse'], clear=op['clear'])
                holders[op['w']] = [ds]
                rep = {'opened': op['w']}
                del ds
            elif k == 'get':
                ds_ = holders[op['w']][0]
                if op.get('how') == 'np':               # the index as numpy integer
                    import numpy as np
                    rep = {'val': small(ds_[np.int64(op['i'])])}
                elif op.get('how') == 'neg':            # the same position counted from the end
                    rep = {'val': small(ds_[op['i'] - n])}
                elif op.get('how') == 'slice':          # through a slice (which indexes with numpy integers)
                    rep = {'val': small(list(ds_[op['i']:op['i'] + 1])[0])}
                else:
                    rep = {'val': small(ds_[f"k{op['i']}" if op.get('by_key') else op['i']])}
                del ds_           # (no stray reference: the wrapper must die with its last holder)
            elif k == 'next':
                # the same access made by a plain iteration in flight (position op['i'])
                if op['it'] not in its:
                    d_ = holders[op['w']][0]
                    its[op['it']] = (op['w'], iter(d_.items()) if op.get('items') else iter(d_))
                    del d_
                v_ = next(its[op['it']][1])
                if op.get('items'):
                    # keyed iteration: the pair must carry the key of its position
                    rep = {'val': small(v_[1])} if v_[0] == f"k{op['i']}" else {'err': 'mispaired key ' + str(v_[0])}
                else:
                    rep = {'val': small(v_)}
            elif k == 'copy':
                holders[op['w']].append(holders[op['w']][0].copy())
                rep = 'ok'
            elif k == 'release':
                for i in [i for i, (w, _) in its.items() if w == op['w']]:
                    its.pop(i)[1].close()
                holders[op['w']].pop()
                if not holders[op['w']]:
                    del holders[op['w']]
                gc.collect()
                rep = 'ok'
            else:
                rep = 'bad'
        except RuntimeError as e:
            rep = 'refused' if 'already exists' in str(e) else {'err': 'RuntimeError'}
            gc.collect()
        except BaseException as e:  # noqa
            rep = {'err': type(e).__name__}
        out.write(json.dumps(rep) + '\n')
        out.flush()


if __name__ == '__main__':
    main()

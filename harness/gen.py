"""Type-directed random generator of pipeline ASTs.

All random choices come from one `random.Random`; the generator uses the independent
reference (`pyref`) only to know what can be put where (lengths, keys, element kinds) so that
most generated programs are well-formed; a separate share is deliberately malformed."""
import copy
import pyref

KEY_POOL = ['a', 'b', 'c', 'd', 'e', 'f', 'g', 'h', 'k1', 'k2', 'zz']
RAISE_CLASSES = ['UserA', 'UserB', 'UserC', 'ValueError', 'FilterException', 'UserBase', 'RuntimeError']
CATCH_SETS = [['FilterException'], ['UserA'], ['UserB'], ['UserA', 'UserC'], ['Exception'],
              ['ValueError', 'FilterException'], ['UserC']]

ALL_STAGES = ['map', 'mapRaise', 'parMap', 'filterLazy', 'filterEager', 'slice', 'concat', 'intersperse',
              'zip', 'keyZip', 'batch', 'unbatch', 'items', 'tile', 'shuffleOnce', 'sort', 'shard',
              'cache', 'cacheEager', 'catch', 'copy', 'prefetch']


class Gen:
    def __init__(self, rng, max_len=6, stages=None, malformed=0.12, raising=0.25, weights=None):
        self.rng = rng
        self.max_len = max_len
        self.stages = list(stages or ALL_STAGES)
        self.malformed = malformed
        self.raising = raising
        self.weights = weights or {}
        self.stats = {}

    # ---- sources -------------------------------------------------------------------------
    def source(self, n=None, kind=None):
        r = self.rng
        if n is None:
            n = r.choice([0, 1, 1, 2, 2, 3, 3, 4, 5, self.max_len])
            n = min(n, self.max_len)
        vals = [r.randint(-3, 12) for _ in range(n)]
        if r.random() < 0.3 and n > 1:      # duplicate values
            vals[r.randrange(n)] = vals[r.randrange(n)]
        if r.random() < 0.08 and n > 0:     # an example may be None (a legitimate value, not an end marker)
            for _ in range(r.choice([1, 1, 2])):
                vals[r.randrange(n)] = None
        kind = kind or r.choice(['list', 'dict', 'dict'])
        if kind == 'list':
            return {'op': 'list', 'xs': vals}
        keys = r.sample(KEY_POOL, n) if n <= len(KEY_POOL) else [f'x{i}' for i in range(n)]
        return {'op': 'dict', 'kvs': [[k, v] for k, v in zip(keys, vals)]}

    def _ref(self, p):
        try:
            return pyref.ref(p)
        except pyref.RefUndefined:
            return None

    def _kind(self, rf):
        if rf is None or not rf.stream[0]:
            return 'int'
        v = rf.stream[0][0]
        if isinstance(v, bool):
            return 'other'
        if isinstance(v, int):
            return 'int'
        if isinstance(v, tuple):
            return 'tuple'
        if isinstance(v, list):
            return 'list'
        if isinstance(v, dict):
            return 'dict'
        return 'other'

    # ---- parameters ------------------------------------------------------------------------
    def slice_spec(self, n, keys):
        r = self.rng
        kind = r.choice(['range', 'range', 'idx', 'idx', 'mask', 'keys'])
        if kind == 'keys' and not keys:
            kind = 'idx'

        def bound():
            return r.choice([None, None] + list(range(-n - 2, n + 3)))
        if kind == 'range':
            step = r.choice([None, None, 1, 2, 3, -1, -1, -2, -3])
            if r.random() < 0.03:
                step = 0
            return {'kind': 'range', 'start': bound(), 'stop': bound(), 'step': step}
        if kind == 'idx':
            m = r.choice([0, 1, 1, 2, 3, n, n + 1])
            if n == 0:
                ids = [] if r.random() < 0.8 else [0]
            else:
                ids = [r.randint(-n, n - 1) for _ in range(m)]
                if r.random() < 0.06:
                    ids.append(r.choice([n, -n - 1, n + 3]))
            return {'kind': 'idx', 'is': ids, 'form': r.choice(['list', 'list', 'tuple', 'ndarray', 'np32', '2d'])}
        if kind == 'mask':
            m = n if r.random() < 0.93 else n + 1
            bs = [r.random() < 0.5 for _ in range(m)]
            form = r.choice(['list', 'ndarray'])
            if m == 0:
                form = 'ndarray'
            return {'kind': 'mask', 'bs': bs, 'form': form}
        m = r.choice([1, 1, 2, 3, len(keys)])
        ks = [r.choice(keys) for _ in range(min(m, len(keys)))]
        if r.random() < 0.08:
            ks.append('absent')
        if r.random() < 0.08:
            ks = []
        return {'kind': 'keys', 'ks': ks, 'form': r.choice(['list', 'tuple'])}

    def map_fn(self, kind, raising):
        r = self.rng
        if raising and kind == 'int':
            m = r.choice([2, 3, 4])
            return {'fn': 'raiseIfMod', 'm': m, 'r': r.randrange(m), 'cls': r.choice(RAISE_CLASSES), 'noargs': r.random() < 0.4}
        if kind == 'int':
            return r.choice([{'fn': 'add', 'c': r.randint(-5, 20)}, {'fn': 'identity'},
                             {'fn': 'tag', 's': 'v'}, {'fn': 'neg'}, {'fn': 'add', 'c': 1}])
        if kind in ('tuple', 'list'):
            return r.choice([{'fn': 'first'}, {'fn': 'identity'}, {'fn': 'tag', 's': 'v'}])
        return r.choice([{'fn': 'identity'}, {'fn': 'tag', 's': 'w'}])

    def pred(self, kind, raising):
        r = self.rng
        if raising and kind == 'int':
            m = r.choice([2, 3, 4])
            return {'pred': 'raiseIfMod', 'm': m, 'r': r.randrange(m), 'cls': r.choice(RAISE_CLASSES)}
        m = r.choice([2, 2, 3])
        return r.choice([{'pred': 'keepMod', 'm': m, 'r': r.randrange(m)},
                         {'pred': 'dropMod', 'm': m, 'r': r.randrange(m)},
                         {'pred': 'always', 'b': True}, {'pred': 'always', 'b': False}])

    # ---- stages ----------------------------------------------------------------------------
    def sibling(self, p, rf, depth, same_keys=False, same_len=False):
        """another pipeline to combine with `p`"""
        r = self.rng
        if r.random() < 0.2:
            return copy.deepcopy(p)
        n = rf.n if (rf is not None and (same_len or same_keys)) else None
        if same_keys and rf is not None and rf.keys is not None:
            ks = list(dict.fromkeys(rf.keys))      # a dict source cannot repeat a key
            r.shuffle(ks)
            q = {'op': 'dict', 'kvs': [[k, r.randint(-3, 12)] for k in ks]}
        else:
            q = self.source(n=n, kind=('dict' if (rf is not None and rf.keys is not None and r.random() < 0.7) else None))
            if q['op'] == 'dict' and rf is not None and rf.keys is not None and r.random() < 0.6:
                # avoid key collisions most of the time
                used = set(rf.keys)
                free = [k for k in KEY_POOL + [f'y{i}' for i in range(8)] if k not in used]
                q['kvs'] = [[free[i % len(free)] if i < len(free) else f'q{i}', v] for i, (_, v) in enumerate(q['kvs'])]
        for _ in range(r.choice([0, 0, 1]) if depth > 1 else 0):
            q = self.stage(q, depth - 1, allowed=['map', 'slice', 'copy', 'cache'])
        return q

    def stage(self, p, depth, allowed=None):
        r = self.rng
        rf = self._ref(p)
        n = rf.n if rf is not None else 3
        keys = rf.keys if (rf is not None and rf.keys_api) else None
        kind = self._kind(rf)
        stages = [s for s in (allowed or self.stages) if s in self.stages or allowed]
        for _attempt in range(12):
            ws = [self.weights.get(s_, 1.0) for s_ in stages]
            s = r.choices(stages, weights=ws)[0]
            raising = r.random() < self.raising
            if s == 'map':
                q = {'op': 'map', 'f': self.map_fn(kind, False), 'p': p}
            elif s == 'mapRaise':
                q = {'op': 'map', 'f': self.map_fn(kind, True), 'p': p}
            elif s == 'parMap':
                w = r.choice([1, 2, 3])
                q = {'op': 'parMap', 'f': self.map_fn(kind, raising), 'w': w, 'b': r.choice([w, w + 1, w + 2]), 'p': p}
            elif s == 'filterLazy':
                q = {'op': 'filterLazy', 'f': self.pred(kind, raising), 'p': p}
            elif s == 'filterEager':
                q = {'op': 'filterEager', 'f': self.pred(kind, raising and r.random() < 0.3), 'p': p}
            elif s == 'slice':
                q = {'op': 'slice', 's': self.slice_spec(n, keys), 'p': p}
            elif s in ('concat', 'intersperse'):
                m = r.choice([1, 1, 2])
                ps = [p] + [self.sibling(p, rf, depth) for _ in range(m)]
                if r.random() < 0.05:
                    ps = [p]
                r.shuffle(ps)
                q = {'op': s, 'ps': ps, 'style': r.choice(['method', 'function'])}
            elif s == 'zip':
                m = r.choice([0, 1, 1, 2])
                q = {'op': 'zip', 'ps': [p] + [self.sibling(p, rf, depth, same_len=r.random() > 0.12) for _ in range(m)],
                     'style': r.choice(['method', 'method', 'function', 'function_list', 'class'])}
            elif s == 'keyZip':
                m = r.choice([1, 1, 2])
                q = {'op': 'keyZip', 'ps': [p] + [self.sibling(p, rf, depth, same_keys=True) for _ in range(m)],
                     'style': r.choice(['method', 'method', 'function', 'function_list', 'class'])}
            elif s == 'batch':
                q = {'op': 'batch', 'n': r.choice([1, 2, 2, 3, 4, n if n > 0 else 1, n + 1]), 'dropLast': r.random() < 0.4, 'p': p}
            elif s == 'unbatch':
                if kind not in ('list', 'tuple') and r.random() > self.malformed:
                    if kind == 'int' and r.random() < 0.7:
                        p2 = {'op': 'map', 'f': {'fn': 'fragment', 'k': r.choice([0, 1, 2, 3])}, 'p': p}
                        q = {'op': 'unbatch', 'p': p2}
                    else:
                        continue
                else:
                    q = {'op': 'unbatch', 'p': p}
            elif s == 'items':
                q = {'op': 'items', 'p': p}
            elif s == 'tile':
                q = {'op': 'tile', 'reps': r.choice([1, 2, 2, 3]), 'p': p}
            elif s == 'shuffleOnce':
                perm = list(range(n))
                r.shuffle(perm)
                q = {'op': 'shuffleOnce', 'perm': perm, 'p': p}
            elif s == 'sort':
                if r.random() < 0.4:
                    key = None
                elif kind == 'int':
                    key = r.choice([{'fn': 'keyMod', 'm': r.choice([2, 3, 5])}, {'fn': 'neg'}, {'fn': 'identity'}, {'fn': 'strOf'}])
                elif kind in ('tuple', 'list'):
                    v0 = rf.stream[0][0]
                    if len(v0) > 0 and isinstance(v0[0], int) and not isinstance(v0[0], bool):
                        key = {'fn': 'first'}
                    else:
                        key = None
                else:
                    key = None
                q = {'op': 'sort', 'key': key, 'reverse': r.random() < 0.5, 'p': p}
            elif s == 'shard':
                k = r.randint(1, max(1, n))
                if r.random() < 0.08:
                    k = r.choice([0, n + 1, -1])
                i = r.randint(-k, k - 1) if k > 0 else 0
                if r.random() < 0.05:
                    i = k
                q = {'op': 'shard', 'k': k, 'i': i, 'p': p}
            elif s == 'cache':
                q = {'op': 'cache', 'p': p}
            elif s == 'cacheEager':
                q = {'op': 'cacheEager', 'p': p}
            elif s == 'catch':
                E = r.choice(CATCH_SETS)
                raised = [c for c in raised_classes(p) if c in ('UserA', 'UserB', 'UserC', 'ValueError', 'FilterException')]
                if raised and r.random() < 0.7:
                    E = [r.choice(raised)]          # catch what the upstream actually raises, most of the time
                q = {'op': 'catch', 'E': E, 'warn': r.random() < 0.4, 'p': p}
            elif s == 'copy':
                q = {'op': 'copy', 'freeze': r.random() < 0.5, 'p': p}
            elif s == 'prefetch':
                w = r.choice([1, 1, 2, 3])
                b = r.choice([w, w + 1, w + 3])
                ce = r.choice(CATCH_SETS) if r.random() < 0.3 else None
                q = {'op': 'prefetch', 'w': w, 'b': b, 'thread': True, 'catchE': ce, 'p': p}
            else:
                raise ValueError(s)
            if self._ref(q) is not None or r.random() < self.malformed:
                self.stats[s] = self.stats.get(s, 0) + 1
                return q
        return {'op': 'copy', 'freeze': False, 'p': p}

    def pipeline(self, depth=None):
        r = self.rng
        if depth is None:
            depth = r.choice([1, 1, 2, 2, 3, 3, 4, 5, 6])
        p = self.source()
        for _ in range(depth):
            p = self.stage(p, depth)
        return p


def probe_points(rf_n, keys):
    """indices / keys to observe: all i in [-n-2, n+2), every present key and some absent ones"""
    n = rf_n
    idx = list(range(-n - 2, n + 2))
    ks = list(dict.fromkeys((keys or []) + ['absent', 'a', 'zz']))
    return idx, ks


def raised_classes(p, acc=None):
    acc = acc if acc is not None else []
    f = p.get('f')
    if isinstance(f, dict) and f.get('fn', f.get('pred')) == 'raiseIfMod':
        acc.append(f['cls'])
    if 'p' in p:
        raised_classes(p['p'], acc)
    for q in p.get('ps', []):
        raised_classes(q, acc)
    return acc


def depth_of(p):
    if 'p' in p:
        return 1 + depth_of(p['p'])
    if 'ps' in p:
        return 1 + max([depth_of(q) for q in p['ps']] + [0])
    return 0


def ops_of(p, acc=None):
    acc = acc if acc is not None else []
    acc.append(p['op'])
    if 'p' in p:
        ops_of(p['p'], acc)
    for q in p.get('ps', []):
        ops_of(q, acc)
    return acc

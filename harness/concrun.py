"""Runner shared by C04 C05 C06 C07: controlled schedules of the real `single_thread_prefetch`
and `lazy_parallel_map('t')`, each trace replayed through the Lean transition systems
(correspondence) and judged by the property oracles on the implementation alone."""
import json
import os
import random
import sys

HERE = os.path.dirname(os.path.abspath(__file__))
if HERE not in sys.path:
    sys.path.insert(0, HERE)

import common
import model
import sched
from fnmenu import exc_class

# one controlled run takes milliseconds: a run that has not come back after this many seconds never will
CASE_S = int(os.environ.get('VERIF_CONC_CASE_S', 40))


def excf(name):
    return exc_class(name)('boom')


def make_fn(m, r, cls):
    def fn(x):
        if m and x % m == r:
            raise exc_class(cls)(x)
        return x * 10
    return fn


def seq_expected(items, m, r):
    """the sequential pipeline: results before the first failing item, and whether one fails"""
    out = []
    for x in items:
        if m and x % m == r:
            return out, True
        out.append(x * 10)
    return out, False


# ---- schedule exploration ---------------------------------------------------------------------

def explore(run_with_chooser, budget, preemption_bound):
    """stateless DFS over scheduler choice points.  The default policy keeps the running thread
    running (no preemption); every branch point taken against it counts as one preemption."""
    done = []
    seen = set()
    stack = [([], 0)]
    while stack and len(done) < budget:
        prefix, dev = stack.pop(0)
        key = tuple(prefix)
        if key in seen:
            continue
        seen.add(key)
        ch = sched.PrefixChooser(prefix)
        res = run_with_chooser(ch)
        done.append(res)
        trace = ch.trace
        chosen = [c for _, c in trace]
        if dev >= preemption_bound:
            continue
        for i in range(len(prefix), len(trace)):
            enabled, c = trace[i]
            for alt in enabled:
                if alt != c:
                    newp = chosen[:i] + [alt]
                    if tuple(newp) not in seen:
                        stack.append((newp, dev + 1))
    return done


# ---- one stp case -------------------------------------------------------------------------------

def stp_case(cfg, chooser):
    common.gc_point(what=('stp', cfg), seconds=CASE_S)
    r = sched.StpRun(cfg['b'], cfg['items'], cfg['ending'], cfg['stop'], chooser, excf, gen_source=bool(cfg.get('gensrc'))).run()
    return {'proto': 'stp', 'cfg': cfg, 'run': r}


def lpm_case(cfg, chooser):
    common.gc_point(what=('lpm', cfg), seconds=CASE_S)
    fn = make_fn(cfg['fm'], cfg['fr'], cfg['fcls'])
    r = sched.LpmRun(cfg['w'], cfg['b'], cfg['items'], cfg['ending'], fn, cfg['stop'], chooser, excf).run()
    return {'proto': 'lpm', 'cfg': cfg, 'run': r}


def api_case(cfg, chooser):
    common.gc_point(what=('api', cfg), seconds=CASE_S)
    fn = make_fn(cfg['fm'], cfg['fr'], cfg['fcls'])
    r = sched.ApiLpmRun(cfg['via'], cfg['w'], cfg['b'], cfg['items'], fn, cfg['stop'], chooser, cfg['with_items'], cfg.get('view')).run()
    return {'proto': 'api', 'cfg': cfg, 'run': r}


def request_of(case):
    cfg, r = case['cfg'], case['run']
    if case['proto'] == 'stp':
        return {'fam': 'stp', 'b': cfg['b'], 'src': cfg['items'], 'ending': cfg['ending'], 'events': r.events}
    return {'fam': 'lpm', 'w': cfg['w'], 'b': cfg['b'], 'src': cfg['items'], 'ending': cfg['ending'],
            'fm': cfg['fm'], 'fr': cfg['fr'], 'fcls': cfg['fcls'], 'events': r.events}


def read_ahead(case):
    """max over the event log of (pulled - delivered) and (started - delivered)"""
    pulled = delivered = started = 0
    mp = ms = 0
    for e in case['run'].events:
        k = e['k']
        if k == 'pull' and isinstance(e['r'], int):
            pulled += 1
        elif k == 'yield' or (k == 'result' and isinstance(e['r'], int)):
            delivered += 1
        elif k == 'start':
            started += 1
        mp = max(mp, pulled - delivered)
        ms = max(ms, started - delivered)
    return mp, ms


# ---- oracles on the implementation --------------------------------------------------------------

def oracle(case, which):
    """property statements evaluated on the real run only; returns [(clause, detail)]"""
    cfg, r = case['cfg'], case['run']
    out = []
    stp = case['proto'] == 'stp'
    api = case['proto'] == 'api'
    stop = cfg['stop']
    early = stop is not None and stop <= len(r.delivered) and (stop < 10 ** 6)
    if stp:
        expected_all = list(cfg['items'])
        fails = cfg['ending'] is not None
        err = cfg['ending']
    else:
        expected_all, f_fails = seq_expected(cfg['items'], cfg['fm'], cfg['fr'])
        src_fails = cfg['ending'] is not None and not f_fails
        fails = f_fails or src_fails
        err = cfg['fcls'] if f_fails else cfg['ending']
    closed_early = stop is not None and len(r.delivered) >= stop and r.raised is None and \
        (len(r.delivered) < len(expected_all) or fails or stop == len(expected_all))
    if 'C05' in which:
        if r.deadlock:
            out.append(('deadlock', {'choices': [c for _, c in r.choices]}))
        if getattr(r, 'hung', False):
            out.append(('no_termination', {}))
        if stp:
            if r.thread_alive_after and not r.deadlock:
                out.append(('thread_alive_after_return', {}))
            if r.pulls_after_return:
                out.append(('user_code_after_return', {'pulls': r.pulls_after_return}))
        else:
            if r.pool.calls_after_return:
                out.append(('user_code_after_return', {'calls': r.pool.calls_after_return}))
            if r.pool.entered and not r.pool.exited and not r.deadlock:
                out.append(('executor_not_shut_down', {}))
            cancelled_ok = set()
            for e in r.events:
                if e['k'] == 'cancel' and e.get('ok'):
                    cancelled_ok.add(e['i'])
                if e['k'] == 'start' and e['i'] in cancelled_ok:
                    out.append(('cancelled_future_started', {'i': e['i']}))
            if any(e['k'] == 'close' for e in r.events):
                # a computation that starts after the consumer stopped must at least have been subject to the
                # cancel loop (it then lost the race against a free worker); one that is started and never
                # cancelled was simply executed instead of cancelled
                ci = next(i for i, e in enumerate(r.events) if e['k'] == 'close')
                for i, e in enumerate(r.events[ci:], ci):
                    if e['k'] == 'start' and not any(x['k'] == 'cancel' and x.get('i') == e['i'] for x in r.events[i:]):
                        out.append(('executed_instead_of_cancelled', {'future': e['i']}))
                        break
                # ... and the cancel loop is what the consumer does FIRST: a computation that starts while the consumer
                # is still busy with something else (closing its input) did not lose a race, it was not cancelled in time
                fc = next((i for i, e in enumerate(r.events) if i > ci and e['k'] == 'cancel'), len(r.events))
                busy = [i for i, e in enumerate(r.events[ci:fc], ci) if e['k'] == 'source_close']
                if busy:
                    st = [e['i'] for e in r.events[ci:busy[-1]] if e['k'] == 'start']
                    if st and not any(c == 'executed_instead_of_cancelled' for c, _ in out):
                        out.append(('executed_instead_of_cancelled', {'futures': st, 'while': 'the consumer closed its input before cancelling'}))
                left = [f.idx for f in r.pool.futs if f.state == 'pending']
                if left:
                    out.append(('pending_after_close', {'futures': left}))
    if r.deadlock or getattr(r, 'hung', False):
        return out
    if 'C04' in which:
        if r.delivered != expected_all[:len(r.delivered)]:
            out.append(('order_or_duplication', {'delivered': r.delivered, 'sequential': expected_all}))
        if not closed_early and not fails and r.delivered != expected_all:
            out.append(('lost_examples', {'delivered': r.delivered, 'sequential': expected_all}))
    if 'C06' in which and not closed_early and fails:
        if r.raised != err:
            out.append(('error_not_surfaced', {'raised': r.raised, 'expected': err, 'delivered': r.delivered}))
        elif r.delivered != expected_all:
            out.append(('truncated_before_error', {'delivered': r.delivered, 'expected_before_error': expected_all,
                                                   'source_raised': (not stp) and cfg['ending'] is not None}))
    if 'C06' in which and not fails and r.raised is not None:
        out.append(('spurious_error', {'raised': r.raised}))
    if 'C07' in which:
        mp, ms = read_ahead(case)
        if mp > cfg['b'] + 2:
            out.append(('pulled_beyond_buffer', {'max_pulled_minus_delivered': mp, 'buffer': cfg['b']}))
        if not stp and ms > cfg['b']:
            out.append(('started_beyond_buffer', {'max_started_minus_delivered': ms, 'buffer': cfg['b']}))
    return out


def known_match(case, clause, detail, findings):
    # F17: lazy_parallel_map drops buffered results when the SOURCE raises
    if clause == 'truncated_before_error' and detail.get('source_raised') and any(f['id'] == 'F17' for f in findings):
        return 'F17'
    # the same defect seen from the other side: a queued FAILING result is dropped too, so the source's
    # exception overtakes the exception of an earlier example
    if clause == 'error_not_surfaced' and case['proto'] == 'lpm' and case['cfg'].get('ending') is not None \
            and detail.get('raised') == case['cfg']['ending'] and any(f['id'] == 'F17' for f in findings):
        return 'F17'
    return None


# ---- case generation -----------------------------------------------------------------------------

def random_cfg(rng, proto, max_n):
    n = rng.choice([0, 1, 2, 3, 3, 4, max_n])
    items = [rng.randint(0, 9) for _ in range(n)]
    stop = rng.choice([None, None, None, 0, 1, 2, 3, n])
    if proto == 'stp':
        return {'b': rng.choice([1, 1, 2, 3, 4]), 'items': items,
                'ending': rng.choice([None, None, 'ValueError', 'UserA', 'UserBase']), 'stop': stop,
                'gensrc': rng.random() < 0.4}
    w = rng.choice([1, 2, 3])
    return {'w': w, 'b': w + rng.choice([0, 0, 1, 2]), 'items': items,
            'ending': rng.choice([None, None, None, 'ValueError']),
            'fm': rng.choice([0, 0, 3, 4]), 'fr': rng.randrange(3), 'fcls': rng.choice(['UserA', 'ValueError']),
            'stop': stop}


def small_cfgs(proto):
    out = []
    if proto == 'stp':
        for b in (1, 2):
            for items in ([], [1], [1, 2], [1, 2, 3]):
                for ending in (None, 'ValueError'):
                    for stop in (None, 1, 2):
                        out.append({'b': b, 'items': items, 'ending': ending, 'stop': stop})
    else:
        for w, b in ((1, 1), (2, 2), (2, 3)):
            for items in ([], [1], [1, 2, 3], [3, 1, 2, 4]):
                for fm in (0, 3):
                    for stop in (None, 1):
                        out.append({'w': w, 'b': b, 'items': items, 'ending': None, 'fm': fm, 'fr': 0,
                                    'fcls': 'UserA', 'stop': stop})
    return out


def run(rep, prop, which):
    tier, seed = rep.tier, rep.seed
    rng = random.Random(seed * 7919 + sum(map(ord, prop)))
    findings = [f for f in common.load_known() if f.get('status') == 'known']
    n_random = {'quick': 500, 'thorough': 6000}[tier]
    dfs_budget = {'quick': 30, 'thorough': 200}[tier]
    bound = {'quick': 2, 'thorough': 4}[tier]
    cases = []
    # corpus: the schedule of the documented deadlock of a guard-less worker (b = 1, close after 1)
    for proto, mk in (('stp', stp_case), ('lpm', lpm_case)):
        for cfg in small_cfgs(proto):
            cases += explore(lambda ch, cfg=cfg, mk=mk: mk(cfg, ch), dfs_budget, bound)
        for i in range(n_random):
            cfg = random_cfg(rng, proto, 6 if tier == 'quick' else 9)
            cases.append(mk(cfg, sched.RandomChooser(rng.randrange(1 << 30))))
    replies = model.ask([request_of(c) for c in cases])

    rejected = []
    fails = []
    dist = {'stp': 0, 'lpm': 0, 'closed_early': 0, 'source_raises': 0, 'fn_raises': 0, 'exhausted': 0,
            'deadlocks': 0}
    distinct = set()
    max_choice_points = 0
    # the same pool reached through the dataset API (ParMapDataset, multi-worker PrefetchDataset): oracles only
    api_cases = []
    for i in range(n_random // 2):
        w = rng.choice([1, 2, 3])
        n = rng.choice([0, 1, 3, 5, 8, 12])
        cfg = {'via': rng.choice(['parmap', 'parmap', 'prefetch', 'batchmap', 'prefetch_catch']), 'w': w, 'b': w + rng.choice([0, 0, 1, 2]),
               'items': [rng.randint(0, 9) for _ in range(n)], 'ending': None,
               'fm': rng.choice([0, 0, 0, 3]), 'fr': rng.randrange(3), 'fcls': 'UserA',
               'stop': rng.choice([None, None, 1, 2, 3, n]), 'with_items': rng.random() < 0.5,
               'view': rng.choice([None, None, 'copy', 'freeze'])}
        if cfg['via'] in ('prefetch', 'prefetch_catch') and w == 1:
            cfg['w'], cfg['b'] = 2, 2 + rng.choice([0, 1])
        api_cases.append(api_case(cfg, sched.RandomChooser(rng.randrange(1 << 30))))
    for c in api_cases:
        for clause, detail in oracle(c, which):
            fails.append((c, clause, detail))
    dist['api'] = len(api_cases)
    for c, rp in zip(cases, replies):
        r = c['run']
        dist[c['proto']] += 1
        if c['cfg']['stop'] is not None:
            dist['closed_early'] += 1
        else:
            dist['exhausted'] += 1
        if c['cfg'].get('ending'):
            dist['source_raises'] += 1
        if c['cfg'].get('fm'):
            dist['fn_raises'] += 1
        if r.deadlock:
            dist['deadlocks'] += 1
        max_choice_points = max(max_choice_points, len(r.choices))
        if len(r.events) > 3:
            distinct.add(json.dumps([c['proto'], c['cfg'], r.events], sort_keys=True, default=str))
        ok = rp.get('accept') and rp.get('delivered') == r.delivered and (rp.get('raised') == r.raised)
        if not ok and not r.deadlock and not getattr(r, 'hung', False):
            rejected.append((c, rp))
        for clause, detail in oracle(c, which):
            fails.append((c, clause, detail))

    def replay_of(c, extra):
        r = c['run']
        d = {'property': prop, 'protocol': c['proto'], 'config': c['cfg'],
             'schedule': [ch for _, ch in r.choices], 'events': r.events,
             'delivered': r.delivered, 'raised': r.raised, 'deadlock': r.deadlock}
        d.update(extra)
        return d

    seen = set()
    for c, clause, detail in fails:
        fid = known_match(c, clause, detail, findings)
        if fid:
            rep.known(fid, next(f['what'] for f in findings if f['id'] == fid))
            continue
        if clause in seen or len(rep.violations) >= 4:
            continue
        seen.add(clause)
        rep.violation(replay_of(c, {'kind': 'oracle-failure', 'clause': clause, 'detail': detail}))
    if rejected and not rep.violations:
        c, rp = rejected[0]
        rep.violation(replay_of(c, {
            'kind': 'correspondence',
            'what_no_longer_checks': f'the recorded trace of the real {"single_thread_prefetch" if c["proto"] == "stp" else "lazy_parallel_map"} '
                                     f'is not a trace of lean/LazyDs/Conc/{"Stp" if c["proto"] == "stp" else "Lpm"}.lean; the theorems of '
                                     f'LazyDs/Props/{prop}.lean are therefore not tied to this code',
            'model_reply': rp, 'searched_runs_for_failing_schedule': len(cases)}), no_input=True)

    if prop in ('C04', 'C05', 'C06'):
        import poolrun
        poolrun.run(prop, rep, rng)
    rep.coverage.update({
        'evaluations': len(cases),
        'distinct_nontrivial': len(distinct),
        'traces_validated_against_impl': len(cases) - len(rejected),
        'rule': f'DFS over scheduler choice points (preemption bound {bound}, {dfs_budget} schedules per small configuration) + '
                f'{n_random} seeded random schedules per protocol; a run is distinct non-trivial when its (configuration, event trace) '
                'is new and has more than 3 events',
        'samples': [replay_of(c, {}) for c in cases[5:7]],
        'distribution': dist,
        'max_choice_points_in_a_run': max_choice_points,
        'model_rejections': len(rejected),
        'oracle_failures': len(fails),
    })
    return rep


def replay(prop, which, j):
    cfg = j['config']
    ch = sched.PrefixChooser(j.get('schedule', []), sticky=False)
    if j['protocol'] == 'api':
        c = api_case(cfg, ch)
        fails = oracle(c, which)
        print(json.dumps({'config': cfg, 'events': c['run'].events, 'delivered': c['run'].delivered, 'oracle_failures': fails}, indent=1, default=str))
        if fails:
            print(f'VIOLATION property={prop} replay=(replayed)')
        return 1 if fails else 0
    c = (stp_case if j['protocol'] == 'stp' else lpm_case)(cfg, ch)
    rp = model.ask([request_of(c)])[0]
    fails = oracle(c, which)
    print(json.dumps({'config': cfg, 'events': c['run'].events, 'delivered': c['run'].delivered,
                      'raised': c['run'].raised, 'deadlock': c['run'].deadlock, 'model': rp,
                      'oracle_failures': fails}, indent=1, default=str))
    if fails or not rp.get('accept'):
        print(f'VIOLATION property={prop} replay=(replayed)')
        return 1
    return 0

"""Shared plumbing of every check: Lean build + axiom audit, evidence, replays, known findings."""
import hashlib
import json
import os
import re
import subprocess
import sys
import time

HERE = os.path.dirname(os.path.abspath(__file__))
VERIF = os.path.dirname(HERE)
LEAN = os.path.join(VERIF, 'lean')
REPO = os.environ.get('VERIF_REPO', '/repo')
REPLAYS = os.environ.get('VERIF_REPLAY_DIR', 'replays')      # relative to /verif
ALLOWED_AXIOMS = {'propext', 'Classical.choice', 'Quot.sound'}
FORBIDDEN = re.compile(r'\bsorry\b|\badmit\b|^axiom\s|native_decide|bv_decide|implemented_by|\bunsafe\s|maxHeartbeats\s+0')

TRUSTED_BASE = [
    "Lean 4.33.0 kernel (lake build re-checks every proof on every run)",
    "axioms allowed in property theorems: propext, Classical.choice, Quot.sound (audited with #print axioms on every run)",
    "the correspondence check (this Python harness, canonicalisation, the compiled Lean driver) ties the hand-written model to /repo's working tree; it is differential testing and can miss a divergence",
    "CPython / numpy / pickle / queue / threading semantics as listed in DESIGN.md section 5",
]


class Infra(Exception):
    """the machinery itself failed (exit 2, never a violation)"""


def sh(cmd, cwd=None, timeout=None, env=None):
    p = subprocess.run(cmd, cwd=cwd, stdout=subprocess.PIPE, stderr=subprocess.STDOUT, timeout=timeout,
                       env=env, shell=isinstance(cmd, str))
    return p.returncode, p.stdout.decode(errors='replace')


def lean_build():
    t = time.time()
    rc, out = sh(['lake', 'build'], cwd=LEAN, timeout=3600)
    if rc != 0:
        raise Infra('lake build failed:\n' + out[-4000:])
    return time.time() - t


def strip_comments(src):
    src = re.sub(r'/-.*?-/', '', src, flags=re.S)
    return re.sub(r'--.*', '', src)


def forbidden_scan():
    hits = []
    for root, _dirs, files in os.walk(LEAN):
        if '.lake' in root:
            continue
        for f in files:
            if f.endswith('.lean'):
                path = os.path.join(root, f)
                for i, line in enumerate(strip_comments(open(path).read()).splitlines(), 1):
                    if FORBIDDEN.search(line):
                        hits.append(f'{os.path.relpath(path, LEAN)}:{i}: {line.strip()[:120]}')
    return hits


def prop_table():
    path = os.path.join(LEAN, 'PROPS.json')
    return json.load(open(path)) if os.path.exists(path) else {}


def theorem_names(prop):
    """(modules, fully qualified property theorems): from lean/PROPS.json when listed there, otherwise
    every `theorem Cnn_*` of LazyDs/Props/Cnn.lean"""
    tab = prop_table()
    mods, names = [], []
    if prop in tab:
        mods += tab[prop]['modules']
        names += tab[prop]['theorems']
    path = os.path.join(LEAN, 'LazyDs', 'Props', f'{prop}.lean')
    if os.path.exists(path):
        src = strip_comments(open(path).read())
        mods.append(f'LazyDs.Props.{prop}')
        names += ['LazyDs.' + n for n in re.findall(r'^theorem\s+(' + prop + r'_\w+)', src, flags=re.M)]
    return mods, names


def audit(prop):
    """returns (names, {name: [axioms]}, undischarged) using `#print axioms`"""
    mods, names = theorem_names(prop)
    if not names:
        raise Infra(f'no property theorems found for {prop}')
    src = ''.join(f'import {m}\n' for m in mods) + ''.join(f'#print axioms {n}\n' for n in names)
    tmp = os.path.join(LEAN, '.lake', f'audit_{prop}_{os.getpid()}.lean')
    os.makedirs(os.path.dirname(tmp), exist_ok=True)
    with open(tmp, 'w') as f:
        f.write(src)
    try:
        rc, out = sh(['lake', 'env', 'lean', tmp], cwd=LEAN, timeout=1800)
    finally:
        os.unlink(tmp)
    if rc != 0:
        raise Infra('axiom audit failed:\n' + out[-3000:])
    axioms = {}
    for m in re.finditer(r"'([\w.]+)' depends on axioms: \[([^\]]*)\]", out):
        axioms[m.group(1)] = [a.strip() for a in m.group(2).replace('\n', ' ').split(',') if a.strip()]
    for m in re.finditer(r"'([\w.]+)' does not depend on any axioms", out):
        axioms[m.group(1)] = []
    bad = [n for n in names if n not in axioms or not set(axioms[n]) <= ALLOWED_AXIOMS]
    return names, axioms, bad


def model_fingerprint():
    h = hashlib.sha256()
    for root, _dirs, files in sorted(os.walk(LEAN)):
        if '.lake' in root:
            continue
        for f in sorted(files):
            if f.endswith('.lean') or f == 'lakefile.toml':
                h.update(open(os.path.join(root, f), 'rb').read())
    return h.hexdigest()[:16]


def repo_fingerprint():
    h = hashlib.sha256()
    d = os.path.join(REPO, 'lazy_dataset')
    for f in sorted(os.listdir(d)):
        if f.endswith('.py'):
            h.update(open(os.path.join(d, f), 'rb').read())
    return h.hexdigest()[:16]


# ---- runtime guards -------------------------------------------------------------------------

def install_gc_guard():
    """CPython 3.12 runs `Thread._set_tstate_lock` / `Thread._stop` under the non-reentrant
    `threading._shutdown_locks_lock`. If the cyclic GC fires inside that window and finalises an
    abandoned `lazy_parallel_map` generator, its `with Executor` exit joins threads, needs the same
    lock, and the interpreter deadlocks (seen about once in 5 runs of 7000 pipelines). That is a property
    of the interpreter's thread bookkeeping (the lock is gone in 3.13), not of any property decided
    here. The harness therefore switches the automatic collector off and collects explicitly at
    `gc_point()`s: top-level points of the main thread between two cases, where no lock is held."""
    import gc
    gc.collect()
    gc.freeze()
    gc.disable()


_gc_n = [0]
_gc_pid = [0]
CASE_TIMEOUT_S = int(os.environ.get('VERIF_CASE_TIMEOUT_S', 300))
_case = [None]


_armed = [False]


def _case_alarm(_sig, _frm):
    import canon
    if _armed[0]:
        raise canon.Hang(_case[0])


def arm_case_timeout(what=None, seconds=None):
    """(re)start the per-case clock: a single case of a check takes milliseconds to seconds; one that
    has not come back after CASE_TIMEOUT_S is reported by main.py as non-termination"""
    import signal
    import threading
    if threading.current_thread() is not threading.main_thread():
        return
    _case[0] = what
    _armed[0] = True
    if signal.getsignal(signal.SIGALRM) is not _case_alarm:
        signal.signal(signal.SIGALRM, _case_alarm)
    # repeating: the clean-up of the abandoned case (joins of threads that never end) is interrupted too
    signal.setitimer(signal.ITIMER_REAL, min(seconds or CASE_TIMEOUT_S, CASE_TIMEOUT_S), 5)


def disarm_case_timeout():
    import signal
    import threading
    _armed[0] = False
    if threading.current_thread() is threading.main_thread():
        signal.setitimer(signal.ITIMER_REAL, 0)


def gc_point(every=1, what=None, seconds=None):
    import gc
    import threading
    if gc.isenabled() or threading.current_thread() is not threading.main_thread():
        return
    arm_case_timeout(what, seconds)
    _gc_n[0] += 1
    if _gc_n[0] % every == 0:
        gc.collect()
        if _gc_pid[0] != os.getpid() or _gc_n[0] % 64 == 0:
            # what survived a full collection here (imported modules, the harness's own tables) is
            # moved out of the collector's sight, so that the next collections cost microseconds
            _gc_pid[0] = os.getpid()
            gc.freeze()


def install_watchdog(seconds, prop):
    """a check that does not come back is an infrastructure failure (exit 2), never a verdict"""
    import faulthandler
    import threading

    def fire():
        sys.stderr.write(f'INFRASTRUCTURE-ERROR property={prop}: no result after {seconds} s\n')
        try:
            faulthandler.dump_traceback(file=sys.stderr)
        except Exception:  # noqa
            pass
        sys.stderr.flush()
        try:
            import psutil
            for c in psutil.Process().children(recursive=True):
                try:
                    c.kill()
                except Exception:  # noqa
                    pass
        except Exception:  # noqa
            pass
        os._exit(2)

    t = threading.Timer(seconds, fire)
    t.daemon = True
    t.start()
    return t


def _robust_child(fn, items, conn):
    try:
        for it in items:
            conn.send(fn(it))
    finally:
        conn.close()
        sys.stdout.flush()
        os._exit(0)          # do not wait for threads the code under test may have left behind


def _kill_tree(p):
    try:
        import psutil
        for c in psutil.Process(p.pid).children(recursive=True):
            try:
                c.kill()
            except Exception:  # noqa
                pass
    except Exception:  # noqa
        pass
    try:
        p.kill()
    except Exception:  # noqa
        pass
    p.join(5)


_HANGS = [0]          # hangs seen by this process so far (all calls)


def robust_map(fn, items, procs=16, timeout=60, short_timeout=5, hang_value=None):
    """[fn(x) for x in items] computed in forked worker processes that are watched from here: a worker
    that delivers nothing for `timeout` seconds is killed (with everything it started), the case it
    was working on gets `hang_value`, and the rest of its chunk goes to a fresh worker. After three
    hangs the clock is `short_timeout` so that a code base that hangs often still finishes in minutes."""
    import collections
    import multiprocessing as mp
    from multiprocessing.connection import wait
    disarm_case_timeout()
    hang_value = hang_value if hang_value is not None else {'hang': True, 'build': 'hang'}
    n = len(items)
    results = [None] * n
    size = max(1, min(64, n // (procs * 6) or 1))
    chunks = collections.deque([list(range(i, min(n, i + size))) for i in range(0, n, size)])
    ctx = mp.get_context('fork')
    children = {}

    def spawn(chunk):
        rd, wr = ctx.Pipe(duplex=False)
        p = ctx.Process(target=_robust_child, args=(fn, [items[i] for i in chunk], wr))
        p.start()
        wr.close()
        children[rd] = {'p': p, 'chunk': chunk, 'pos': 0, 't': time.time()}

    try:
        while chunks or children:
            while chunks and len(children) < procs:
                spawn(chunks.popleft())
            for c in wait(list(children), timeout=0.5):
                st = children[c]
                try:
                    msg = c.recv()
                except (EOFError, OSError):
                    st['p'].join(5)
                    del children[c]
                    c.close()
                    if st['pos'] < len(st['chunk']):      # died while working on an item
                        results[st['chunk'][st['pos']]] = {'harness_error': 'observation process died'}
                        rest = st['chunk'][st['pos'] + 1:]
                        if rest:
                            chunks.appendleft(rest)
                    continue
                results[st['chunk'][st['pos']]] = msg
                st['pos'] += 1
                st['t'] = time.time()
            now = time.time()
            for c, st in list(children.items()):
                lim = timeout if _HANGS[0] < 3 else short_timeout
                if now - st['t'] > lim and st['pos'] < len(st['chunk']):
                    _kill_tree(st['p'])
                    results[st['chunk'][st['pos']]] = hang_value
                    _HANGS[0] += 1
                    rest = st['chunk'][st['pos'] + 1:]
                    if rest:
                        chunks.appendleft(rest)
                    del children[c]
                    c.close()
    finally:
        for st in children.values():
            _kill_tree(st['p'])
    return results


# ---- known findings ------------------------------------------------------------------------

def load_known():
    path = os.path.join(VERIF, 'known_findings.json')
    if not os.path.exists(path):
        return []
    return json.load(open(path))['findings']


# ---- evidence / replays ---------------------------------------------------------------------

class Report:
    """collects what one run of one check did"""

    def __init__(self, prop, tier, seed):
        self.prop = prop
        self.tier = tier
        self.seed = seed
        self.t0 = time.time()
        self.violations = []          # (replay path, tail)
        self.known_seen = {}          # finding id -> what
        self.coverage = {}
        self.assumptions = []
        self.replay_n = 0
        d = os.path.join(VERIF, REPLAYS)
        if os.path.isdir(d):
            for f in os.listdir(d):
                if f.startswith(f'{prop}-{tier}-'):
                    os.unlink(os.path.join(d, f))

    def replay_path(self):
        d = os.path.join(VERIF, REPLAYS)
        os.makedirs(d, exist_ok=True)
        self.replay_n += 1
        return os.path.join(REPLAYS, f'{self.prop}-{self.tier}-{self.seed}-{self.replay_n}.json')

    def violation(self, replay_obj, no_input=False):
        disarm_case_timeout()
        rel = self.replay_path()
        with open(os.path.join(VERIF, rel), 'w') as f:
            json.dump(replay_obj, f, indent=1, default=str)
        self.violations.append((rel, ' no-failing-input-found' if no_input else ''))

    def known(self, fid, what):
        self.known_seen[fid] = what

    def finish(self, level='proof'):
        wall = time.time() - self.t0
        cov = dict(self.coverage)
        cov.setdefault('trusted_base', TRUSTED_BASE)
        cov['known_findings_seen'] = sorted(self.known_seen)
        ev = {
            'property_id': self.prop,
            'tier': self.tier,
            'seed': self.seed,
            'level': level,
            'coverage': cov,
            'assumptions': self.assumptions,
            'wall_s': round(wall, 2),
            'violations': len(self.violations),
        }
        os.makedirs(os.path.join(VERIF, 'evidence'), exist_ok=True)
        with open(os.path.join(VERIF, 'evidence', f'{self.prop}.json'), 'w') as f:
            json.dump(ev, f, indent=1, default=str)
        for fid, what in sorted(self.known_seen.items()):
            print(f'KNOWN-FINDING: property={self.prop} {fid} {what}')
        for rel, tail in self.violations[:20]:
            print(f'VIOLATION property={self.prop} replay={rel}{tail}')
        sys.stdout.flush()
        return 1 if self.violations else 0

"""Builds REAL lazy_dataset objects from a pipeline AST (the same JSON the Lean driver reads)
and observes them."""
import itertools
import common
import numpy as np
import lazy_dataset
from canon import canon, decode, outcome, run_stream
from fnmenu import Fn, Pred, exc_class


class FixedRng:
    """stands in for numpy's generator: `shuffle` writes a prescribed permutation"""

    def __init__(self, perm):
        self.perm = list(perm)

    def shuffle(self, a):
        if len(a) == len(self.perm):
            a[:] = self.perm


def py_slice(s):
    kind = s['kind']
    form = s.get('form', 'list')
    if kind == 'range':
        return slice(s['start'], s['stop'], s['step'])
    if kind == 'idx':
        v = list(s['is'])
        if form == 'tuple':
            return tuple(v)
        if form == 'ndarray':
            return np.array(v, dtype=np.int64)
        if form == 'np32':
            return np.array(v, dtype=np.int32)
        if form == '2d':
            return [v]
        return v
    if kind == 'mask':
        v = list(s['bs'])
        if form == 'ndarray':
            return np.array(v, dtype=bool)
        return v
    if kind == 'keys':
        v = list(s['ks'])
        if form == 'tuple':
            return tuple(v)
        return v
    raise ValueError(s)


def exc_tuple(names):
    cs = tuple(exc_class(n) for n in names)
    return cs[0] if len(cs) == 1 else cs


class Ctx:
    """per-build context: call log shared by all menu functions of this pipeline"""

    def __init__(self, log=None, source_mode='pickle', view='direct'):
        self.log = log
        self.counter = itertools.count()
        self.source_mode = source_mode
        self.view = view

    def fn(self, spec):
        return Fn(spec, self.log, next(self.counter) if self.log is not None else None)

    def pred(self, spec):
        return Pred(spec, self.log, next(self.counter) if self.log is not None else None)


def build(p, ctx=None):
    ctx = ctx or Ctx()
    op = p['op']
    if op == 'list':
        xs = [decode(v) for v in p['xs']]
        if ctx.source_mode == 'from':          # the explicit constructors instead of `new`
            return lazy_dataset.from_list(xs)
        if ctx.source_mode == 'from_dataset':
            return lazy_dataset.from_dataset(lazy_dataset.new(xs))
        return lazy_dataset.new(xs, immutable_warranty=ctx.source_mode)
    if op == 'dict':
        kvs = {k: decode(v) for k, v in p['kvs']}
        if ctx.source_mode == 'from':
            return lazy_dataset.from_dict(kvs)
        if ctx.source_mode == 'from_dataset':
            return lazy_dataset.from_dataset(lazy_dataset.new(kvs))
        mode = 'pickle' if ctx.source_mode == 'wu' else ctx.source_mode
        return lazy_dataset.new(kvs, immutable_warranty=mode)
    if op in ('concat', 'intersperse', 'zip', 'keyZip'):
        parts = [build(q, ctx) for q in p['ps']]
        style = p.get('style', 'method')
        if op == 'concat':
            if style == 'function' or not parts:
                return lazy_dataset.concatenate(*parts)
            return parts[0].concatenate(*parts[1:])
        if op == 'intersperse':
            if style == 'function' or not parts:
                return lazy_dataset.intersperse(*parts)
            return parts[0].intersperse(*parts[1:])
        # the module-level functions (with the datasets as arguments or as one list) and the stage classes are
        # further ways to the same stage: every one must refuse what the method refuses
        if op == 'zip':
            if not parts or style == 'function':
                return lazy_dataset.zip(*parts)
            if style == 'function_list':
                return lazy_dataset.zip(parts)
            if style == 'class':
                return lazy_dataset.core.ZipDataset(*parts)
            return parts[0].zip(*parts[1:])
        if not parts or style == 'function':
            return lazy_dataset.key_zip(*parts)
        if style == 'function_list':
            return lazy_dataset.key_zip(parts)
        if style == 'class':
            return lazy_dataset.core.KeyZipDataset(*parts)
        return parts[0].key_zip(*parts[1:])
    ds = build(p['p'], ctx)
    if op == 'map':
        return ds.map(ctx.fn(p['f']))
    if op == 'parMap':
        return ds.map(ctx.fn(p['f']), num_workers=p['w'], buffer_size=p['b'])
    if op == 'filterLazy':
        return ds.filter(ctx.pred(p['f']))
    if op == 'filterEager':
        return ds.filter(ctx.pred(p['f']), lazy=False)
    if op == 'slice':
        ix = py_slice(p['s'])
        out = ds[ix]
        # the selection is made when the slice is taken (the eager reference is `xs[ix]` at this moment): what the
        # caller does to its own index container afterwards must not reach the dataset
        if isinstance(ix, np.ndarray) and ix.size > 1:
            ix[:] = ix[::-1].copy()
        elif isinstance(ix, list) and len(ix) == 1 and isinstance(ix[0], list):
            ix[0].reverse()
        elif isinstance(ix, list):
            ix.reverse()
        return out
    if op == 'batch':
        return ds.batch(p['n'], drop_last=p['dropLast'])
    if op == 'unbatch':
        return ds.unbatch()
    if op == 'items':
        return ds.items()
    if op == 'tile':
        return ds.tile(p['reps'])
    if op == 'shuffleOnce':
        return ds.shuffle(rng=FixedRng(p['perm']))
    if op == 'sort':
        key = ctx.fn(p['key']) if p['key'] is not None else None
        return ds.sort(key, reverse=p['reverse'])
    if op == 'shard':
        return ds.shard(p['k'], p['i'])
    if op == 'cache':
        return ds.cache()
    if op == 'cacheEager':
        return ds.cache(lazy=False)
    if op == 'catch':
        return ds.catch(exc_tuple(p['E']), warn=bool(p.get('warn')))
    if op == 'copy':
        return ds.copy(freeze=p['freeze'])
    if op == 'prefetch':
        ce = exc_tuple(p['catchE']) if p['catchE'] is not None else None
        return ds.prefetch(p['w'], p['b'], backend='t' if p['thread'] else 'dill_mp',
                           catch_filter_exception=ce)
    if op == 'cycle':
        return ds.cycle()
    raise ValueError(op)


def decoy_of(p):
    """the same pipeline over other data: every dict source keeps its key names but in reversed order and with
    other values, every list source is reversed and shifted"""
    import copy as _copy
    q = _copy.deepcopy(p)

    def walk(n):
        if n['op'] == 'dict':
            n['kvs'] = [[k, (v + 1000 if isinstance(v, int) and not isinstance(v, bool) else v)] for k, v in reversed(n['kvs'])]
        elif n['op'] == 'list':
            n['xs'] = [(v + 1000 if isinstance(v, int) and not isinstance(v, bool) else v) for v in reversed(n['xs'])]
        if 'p' in n:
            walk(n['p'])
        for c in n.get('ps', []):
            walk(c)
    walk(q)
    return q


def run_decoy(p, idx, keys, ctx):
    """another dataset of the same shape (same classes, same key names at other positions) is built, read by every
    path and kept alive while the one under test is observed: nothing a dataset learnt may leak into another one"""
    try:
        d = build(decoy_of(p), Ctx(source_mode=getattr(ctx, 'source_mode', 'pickle')))
    except (KeyboardInterrupt, SystemExit):
        raise
    except BaseException:  # noqa
        return None
    for probe in ([lambda: list(itertools.islice(iter(d), 50)), lambda: list(d.keys()), lambda: list(itertools.islice(iter(d.items()), 50))]
                  + [lambda k=k: d[k] for k in keys] + [lambda i=i: d[i] for i in idx[:6]]):
        try:
            probe()
        except (KeyboardInterrupt, SystemExit):
            raise
        except BaseException:  # noqa
            pass
    return d


def observe(p, idx, keys, cycle_k=0, ctx=None):
    """the `pipe` observation record; same shape as the driver's reply"""
    common.gc_point()
    decoy = run_decoy(p, idx, keys, ctx) if getattr(ctx, 'source_mode', 'pickle') in ('copy', 'from', 'wu') else None
    try:
        ds = build(p, ctx)
    except (KeyboardInterrupt, SystemExit):
        raise
    except BaseException as e:  # noqa
        from fnmenu import exc_name
        return {'build': exc_name(e)}, None
    # the pipeline observed directly or through a view that must be transparent: a copy, a frozen copy
    # (nothing in this family is random per epoch), a profiling wrapper
    view = getattr(ctx, 'view', 'direct')
    if view != 'direct' and p['op'] != 'cycle':
        try:
            if view == 'copy':
                ds = ds.copy()
            elif view == 'freeze':
                ds = ds.copy(freeze=True)
            elif view == 'profiled':
                ds = lazy_dataset.core.ProfilingDataset(ds)
            elif view == 'lazy_apply':
                pass        # (below: only iteration goes through the lazily applied identity)
        except NotImplementedError:
            pass                # a stage without copy() (CycleDataset) refuses loudly: observed directly
    limit = cycle_k if p['op'] == 'cycle' else None
    r = {'build': 'ok'}
    r['indexable'] = outcome(lambda: bool(ds.indexable), lambda b: b)
    r['ordered'] = outcome(lambda: bool(ds.ordered), lambda b: b)
    r['len'] = outcome(lambda: len(ds))
    r['keys'] = outcome(lambda: list(ds.keys()))
    dsi = ds.apply(lambda d: d, lazy=True) if (view == 'lazy_apply' and p['op'] != 'cycle') else ds
    r['iter'] = run_stream(lambda: dsi, limit=limit)
    r['items'] = run_stream(lambda: dsi.items(), limit=limit)
    # integer indices arrive as Python ints and as numpy integers (what slices / shuffles pass down)
    typed = (lambda i: i, lambda i: i, np.int64, np.int32) if getattr(ctx, 'source_mode', 'pickle') != 'pickle' else (lambda i: i,)
    r['gets'] = [[i, outcome(lambda: ds[typed[t % len(typed)](i)])] for t, i in enumerate(idx)]
    r['getkeys'] = [[k, outcome(lambda: ds[k])] for k in keys]
    # repeatability (C01): iterate again after every other observation
    r['iter2'] = run_stream(lambda: dsi, limit=limit)
    r['keys2'] = outcome(lambda: list(ds.keys()))      # asking again must not change the answer
    del decoy
    return r, ds

"""Module-level (hence picklable) user functions for the real process-pool runs."""
import os
import time


class PoolUserError(Exception):
    pass


def times10(x):
    return x * 10


def slow_times10(x):
    time.sleep(0.002 * ((x * 7) % 5))
    return x * 10


def fail_at_3(x):
    if x == 3:
        raise PoolUserError(x)
    return x * 10


def filter_at_odd(x):
    import lazy_dataset
    if x % 2 == 1:
        raise lazy_dataset.FilterException(x)
    return x * 10


def marker(x, d, delay, fail_at=None):
    """leaves a file when it runs, so that the parent can see WHEN user code ran"""
    time.sleep(delay)
    open(os.path.join(d, f'm{x}'), 'w').close()
    if fail_at is not None and x == fail_at:
        raise PoolUserError(x)
    return x * 10

"""Property oracles evaluated on observations of the IMPLEMENTATION alone.

Each returns a list of (clause, detail) failures; an empty list means the property's statement
held on this case.  They use the independent eager reference (`pyref`) where the property
speaks of "the corresponding eager list operations" and nothing but the observations
otherwise."""
from canon import canon
import pyref

F15_OPS = ('slice', 'filterEager', 'sort', 'shard', 'shuffleOnce')


def _ref(p):
    try:
        return pyref.ref(p)
    except pyref.RefUndefined:
        return None
    except RecursionError:
        return None


def canon_stream(st):
    return {'vals': [canon(v) for v in st[0]], 'err': st[1]}


def c01(p, obs, cycle_k=5):
    """iteration equals the eager reference, and again on the second iteration"""
    out = []
    if obs.get('build') != 'ok':
        return out
    if obs['iter'] != obs['iter2']:
        out.append(('repeat', {'first': obs['iter'], 'second': obs['iter2']}))
    rf = _ref(p)
    if rf is None:
        return out
    want = canon_stream(rf.stream)
    if p['op'] == 'cycle':
        vals = want['vals']
        if not vals or want['err'] is not None:
            return out
        want = {'vals': [vals[i % len(vals)] for i in range(cycle_k)], 'err': None}
    if obs['iter'] != want:
        out.append(('iter_eq_ref', {'impl': obs['iter'], 'ref': want}))
    return out


def failing_dropped_tails(p, acc=None):
    """exception names raised by examples in the dropped tail of a `batch(n, drop_last=True)` anywhere in
    `p`: indexing such a batch (or anything stacked on it) at or past its end walks into that tail and
    surfaces ITS exception where a plain list would say IndexError; the batch's own iteration raises the
    same exception (DESIGN.md section 8, "looked at and not counted": C02_batch_droplast_tail_counterexample)"""
    acc = acc if acc is not None else set()
    if p['op'] == 'batch' and p.get('dropLast') and p.get('n', 0) >= 1:
        r = _ref(p['p'])
        if r is not None and r.outs is not None:
            full = (len(r.outs) // p['n']) * p['n']
            acc.update(o[1] for o in r.outs[full:] if o[0] == 'err')
        elif r is not None and r.stream[1] is not None:
            acc.add(r.stream[1])
    for k in ('p',):
        if k in p:
            failing_dropped_tails(p[k], acc)
    for q in p.get('ps', []):
        failing_dropped_tails(q, acc)
    return acc


def c02(p, obs):
    """len / integer indexing agree with iteration (finite datasets)"""
    out = []
    tails = failing_dropped_tails(p)
    if obs.get('build') != 'ok' or p['op'] == 'cycle':
        return out
    it = obs['iter']
    ln = obs['len']
    indexable = obs['indexable'].get('ok') is True
    if 'ok' in ln and it['err'] is None and ln['ok'] != len(it['vals']):
        out.append(('len_eq_count', {'len': ln['ok'], 'count': len(it['vals'])}))
    if not indexable:
        return out
    if 'ok' not in ln:
        out.append(('indexable_has_len', {'len': ln}))
        return out
    n = ln['ok']
    rf = _ref(p)
    outs = None
    if rf is not None and rf.outs is not None and len(rf.outs) == n:
        outs = [({'ok': canon(o[1])} if o[0] == 'ok' else {'err': o[1]}) for o in rf.outs]
    for i, got in obs['gets']:
        if i >= n or i < -n:
            # a dataset whose iteration itself refuses (e.g. items() without keys) must still
            # not hand out an example; IndexError is demanded wherever iteration works
            if got.get('err') in tails:
                continue
            if (got != {'err': 'IndexError'}) if it['err'] is None else ('ok' in got):
                out.append(('out_of_range_IndexError', {'i': i, 'n': n, 'got': got}))
            continue
        j = i if i >= 0 else i + n
        if it['err'] is None or j < len(it['vals']):
            if j < len(it['vals']):
                if got != {'ok': it['vals'][j]}:
                    out.append(('getitem_eq_iter', {'i': i, 'n': n, 'got': got, 'iter': it['vals'][j]}))
            elif outs is not None and got != outs[j] and got.get('err') not in tails:
                out.append(('getitem_eq_ref', {'i': i, 'got': got, 'ref': outs[j]}))
        elif outs is not None and got != outs[j] and got.get('err') not in tails:
            out.append(('getitem_eq_ref', {'i': i, 'got': got, 'ref': outs[j]}))
    return out


def has_f15_stage(p):
    """does `ds[key]` of this pipeline reach a SliceDataset.__getitem__(str) without passing a stage that
    resolves the key against its own key table first (known finding F15)?"""
    op = p['op']
    if op in F15_OPS:
        return True
    if op in ('map', 'parMap', 'copy', 'filterLazy', 'catch', 'cycle', 'tile'):
        return has_f15_stage(p['p'])
    if op == 'keyZip':
        return any(has_f15_stage(q) for q in p['ps'])
    if op in ('concat', 'intersperse'):
        # `if item in dataset.keys(): return dataset[item]` consults the part's key table first; a single part is returned as is
        return len(p['ps']) == 1 and has_f15_stage(p['ps'][0])
    return False          # items / cache resolve the key through keys().index; sources know their keys


def c03(p, obs):
    """keys(), items() and key lookup are aligned with iteration"""
    out = []
    if obs.get('build') != 'ok' or p['op'] == 'cycle':
        return out
    it, items, keys = obs['iter'], obs['items'], obs['keys']
    if 'keys2' in obs and obs['keys2'] != keys:
        out.append(('keys_changed_on_second_call', {'first': keys, 'second': obs['keys2']}))
    # items(): either refuses loudly or pairs every yielded example with a key
    if items['err'] is None and it['err'] is None:
        if len(items['vals']) != len(it['vals']):
            out.append(('items_len', {'items': len(items['vals']), 'iter': len(it['vals'])}))
        else:
            for pair, v in zip(items['vals'], it['vals']):
                if not (isinstance(pair, dict) and 't' in pair and len(pair['t']) == 2
                        and isinstance(pair['t'][0], str) and pair['t'][1] == v):
                    out.append(('items_pairs', {'pair': pair, 'value': v}))
                    break
    elif items['err'] is None and it['err'] is not None:
        out.append(('items_swallowed_error', {'items': items, 'iter': it}))
    if 'ok' in keys and it['err'] is None:
        ks = keys['ok']
        if len(ks) != len(it['vals']):
            out.append(('keys_len', {'keys': ks, 'iter_count': len(it['vals'])}))
        elif items['err'] is None:
            if [pr['t'][0] for pr in items['vals'] if isinstance(pr, dict) and 't' in pr] != ks:
                out.append(('keys_order', {'keys': ks, 'items': items['vals']}))
        for k, got in obs['getkeys']:
            if len(ks) != len(it['vals']):
                break               # (already reported as keys_len: positions cannot be compared)
            if k in ks:
                want = it['vals'][ks.index(k)]
                if ks.count(k) == 1 and got != {'ok': want}:
                    out.append(('getkey_present', {'k': k, 'got': got, 'want': want}))
            else:
                if 'ok' in got:
                    out.append(('getkey_absent_returns', {'k': k, 'got': got}))
    rf = _ref(p)
    if rf is not None and rf.keys is not None and rf.stream[1] is None:
        # the reference knows the key of every example: items() may refuse but not mispair
        if items['err'] is None:
            want = [canon((k, v)) for k, v in zip(rf.keys, rf.stream[0])]
            if items['vals'] != want:
                out.append(('items_eq_ref', {'impl': items['vals'], 'ref': want}))
        if rf.keys_api and 'ok' in keys and keys['ok'] != list(rf.keys):
            out.append(('keys_eq_ref', {'impl': keys['ok'], 'ref': list(rf.keys)}))
        if rf.keys_api and 'ok' not in keys and keys.get('err') not in ('NotImplementedError',):
            out.append(('keys_refused', {'impl': keys}))
    return out


def c14(p, obs):
    """catch drops exactly the failing examples: iteration and items() against the reference"""
    import gen
    out = []
    if obs.get('build') != 'ok':
        return out
    ops = gen.ops_of(p)
    if not any(o in ops for o in ('catch', 'prefetch', 'filterLazy', 'filterEager')):
        return out
    rf = _ref(p)
    if rf is None:
        return out
    want = canon_stream(rf.stream)
    if p['op'] != 'cycle' and obs['iter'] != want:
        out.append(('catch_stream', {'impl': obs['iter'], 'ref': want}))
    if rf.keys is not None and rf.stream[1] is None and obs['items']['err'] is None:
        wantk = [canon((k, v)) for k, v in zip(rf.keys, rf.stream[0])]
        if obs['items']['vals'] != wantk:
            out.append(('catch_items', {'impl': obs['items']['vals'], 'ref': wantk}))
    return out

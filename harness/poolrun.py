"""Contract tests of the real executor back ends of lazy_parallel_map / PrefetchDataset
(threads and the four process pools).  These are TESTS of the adapter code around the executor
contract that the Lean model assumes (DESIGN.md 5); they are labelled as such in the evidence."""
import functools
import glob
import os
import shutil
import tempfile
import time
import warnings

import lazy_dataset
import poolfns
from fnmenu import exc_name

BACKENDS = ['t', 'dill_mp', 'multiprocessing', 'concurrent_mp', 'mp']


def _ds(n):
    return lazy_dataset.new(list(range(n)))


def c04(backends, rng):
    fails = []
    runs = 0
    for be in backends:
        n = rng.choice([0, 1, 5, 9]) if be != 'mp' else rng.choice([5, 9])
        w = rng.choice([1, 2, 3])
        b = w + rng.choice([0, 2])
        want = [x * 10 for x in range(n)]
        with warnings.catch_warnings():
            warnings.simplefilter('ignore')
            for how in ('prefetch', 'parmap'):
                runs += 1
                try:
                    if how == 'prefetch':
                        ds = _ds(n).map(poolfns.slow_times10).prefetch(w, b, backend=be)
                    else:
                        ds = _ds(n).map(poolfns.slow_times10, num_workers=w, buffer_size=b, backend=be)
                    got = list(ds)
                    if got != want:
                        fails.append(('pool_transparent', {'backend': be, 'how': how, 'w': w, 'b': b, 'got': got, 'want': want}))
                    if len(ds) != n:
                        fails.append(('pool_len', {'backend': be, 'how': how, 'len': len(ds), 'n': n}))
                    # history: stop early, then iterate again with the same worker count
                    if n >= 2:
                        it = iter(ds)
                        next(it)
                        it.close()
                        again = list(ds)
                        if again != want:
                            fails.append(('pool_after_early_stop', {'backend': be, 'how': how, 'got': again, 'want': want}))
                except Exception as e:  # noqa
                    fails.append(('pool_raises', {'backend': be, 'how': how, 'w': w, 'b': b, 'err': repr(e)[:200]}))
    return fails, runs


def c05(backends, rng):
    """after control is back (early close, error) no user code runs; not yet started work is not executed"""
    fails = []
    runs = 0
    for be in backends:
        for scenario in ('close', 'error'):
            d = tempfile.mkdtemp(prefix='verif_pool_')
            runs += 1
            try:
                # more submitted than can be in flight: queued work must not run after control is back.
                # (a ProcessPoolExecutor moves up to max_workers + 1 items into its call queue, where cancel() no
                #  longer reaches them, so up to 1 delivered + w running + w + 1 queued may legitimately execute)
                n, w, b = 16, 2, 10
                f = functools.partial(poolfns.marker, d=d, delay=0.25, fail_at=0 if scenario == 'error' else None)
                with warnings.catch_warnings():
                    warnings.simplefilter('ignore')
                    ds = _ds(n).map(f).prefetch(w, b, backend=be)
                    t0 = time.time()
                    it = iter(ds)
                    try:
                        next(it)
                        it.close()
                    except poolfns.PoolUserError:
                        pass
                    took = time.time() - t0
                at_return = sorted(os.listdir(d))
                time.sleep(0.9)
                later = sorted(os.listdir(d))
                if later != at_return:
                    fails.append(('user_code_after_return', {'backend': be, 'scenario': scenario, 'at_return': at_return, 'later': later}))
                if scenario == 'close' and len(later) > 2 * w + 3:
                    fails.append(('not_cancelled', {'backend': be, 'scenario': scenario, 'executed': later, 'buffer': b}))
                if took > 20:
                    fails.append(('slow_return', {'backend': be, 'scenario': scenario, 'seconds': took}))
            except Exception as e:  # noqa
                fails.append(('pool_raises', {'backend': be, 'scenario': scenario, 'err': repr(e)[:200]}))
            finally:
                shutil.rmtree(d, ignore_errors=True)
    return fails, runs


def c06(backends, rng):
    fails = []
    runs = 0
    for be in backends:
        with warnings.catch_warnings():
            warnings.simplefilter('ignore')
            runs += 1
            got, err = [], None
            try:
                for x in _ds(7).map(poolfns.fail_at_3).prefetch(2, 3, backend=be):
                    got.append(x)
            except BaseException as e:  # noqa
                err = type(e).__name__
            if got != [0, 10, 20] or err != 'PoolUserError':
                fails.append(('pool_error_position', {'backend': be, 'delivered': got, 'raised': err}))
            runs += 1
            try:
                got = list(_ds(7).map(poolfns.filter_at_odd).prefetch(2, 3, backend=be, catch_filter_exception=True))
                if got != [0, 20, 40, 60]:
                    fails.append(('pool_catch_filter', {'backend': be, 'got': [repr(g) for g in got]}))
            except (AttributeError, TypeError) as e:
                # concurrent_mp / multiprocessing cannot pickle the local catcher: a loud refusal, not a wrong stream
                if be not in ('multiprocessing', 'concurrent_mp'):
                    fails.append(('pool_catch_filter_raises', {'backend': be, 'err': repr(e)[:200]}))
            except Exception as e:  # noqa
                fails.append(('pool_catch_filter_raises', {'backend': be, 'err': repr(e)[:200]}))
    return fails, runs


def run(which, rep, rng):
    backends = BACKENDS          # every back end in both tiers: a change may concern a single adapter
    fn = {'C04': c04, 'C05': c05, 'C06': c06}[which]
    t0 = time.time()
    fails, runs = fn(backends, rng)
    rep.coverage['real_pool_contract_tests'] = {'backends': backends, 'runs': runs, 'failures': len(fails),
                                                'seconds': round(time.time() - t0, 1),
                                                'note': 'tests of the executor adapters (not schedule controlled); not part of the proof'}
    seen = set()
    for cl, det in fails:
        if (cl, det.get('backend')) not in seen and len(rep.violations) < 5:
            seen.add((cl, det.get('backend')))
            rep.violation({'property': which, 'kind': 'oracle-failure', 'clause': cl, 'detail': det, 'family': 'real process pools'})

"""Entry point of every check:  main.py Cnn --tier quick|thorough [--replay file]"""
import argparse
import importlib
import json
import os
import sys
import time
import traceback

HERE = os.path.dirname(os.path.abspath(__file__))
sys.path.insert(0, HERE)
os.environ.setdefault('OMP_NUM_THREADS', '1')
os.environ.setdefault('MKL_NUM_THREADS', '1')
REPO = os.environ.get('VERIF_REPO', '/repo')
sys.path.insert(0, REPO)          # the working tree is what is executed
os.environ['PYTHONPATH'] = REPO + os.pathsep + os.environ.get('PYTHONPATH', '')

import common
import logging
logging.getLogger('lazy_dataset').setLevel(logging.CRITICAL)


def main():
    ap = argparse.ArgumentParser()
    ap.add_argument('prop')
    ap.add_argument('--tier', default=os.environ.get('VERIF_TIER', 'quick'), choices=['quick', 'thorough'])
    ap.add_argument('--replay', default=None)
    ap.add_argument('--no-build', action='store_true')
    args = ap.parse_args()
    seed = int(os.environ.get('VERIF_SEED', '0') or 0)
    prop = args.prop
    mod = importlib.import_module(f'props.{prop.lower()}')
    if args.replay:
        return mod.replay(json.load(open(args.replay)))
    common.install_watchdog(int(os.environ.get('VERIF_WATCHDOG_S', 2400 if args.tier == 'quick' else 6 * 3600)), prop)
    rep = common.Report(prop, args.tier, seed)
    hung = False
    try:
        import lazy_dataset
        if not os.path.realpath(lazy_dataset.__file__).startswith(os.path.realpath(REPO)):
            raise common.Infra(f'lazy_dataset imported from {lazy_dataset.__file__}, not from {REPO}')
        build_s = 0.0 if args.no_build else common.lean_build()
        hits = common.forbidden_scan()
        if hits:
            raise common.Infra('forbidden constructs in lean/: ' + '; '.join(hits[:5]))
        names, axioms, bad = common.audit(prop)
        rep.coverage.update({
            'obligations': len(names),
            'discharged': len(names) - len(bad),
            'theorems': {n: axioms.get(n) for n in names},
            'checker_cmd': 'cd lean && lake build && lake env lean <file with `#print axioms` for every theorem of '
                           f'LazyDs/Props/{prop}.lean>' + (' && lake env leanchecker <the modules of the property>' if args.tier == 'thorough' else ''),
            'lean_build_s': round(build_s, 1),
            'model_fingerprint': common.model_fingerprint(),
            'repo_fingerprint': common.repo_fingerprint(),
        })
        if bad:
            rep.violation({'property': prop, 'kind': 'proof-obligation',
                           'what_no_longer_checks': [f'theorem {n}: axioms {axioms.get(n)}' for n in bad]},
                          no_input=True)
        if args.tier == 'thorough' and os.environ.get('VERIF_LEANCHECKER', '1') == '1':
            mods, _ = common.theorem_names(prop)
            rc, out = common.sh(['lake', 'env', 'leanchecker'] + mods, cwd=common.LEAN, timeout=3000)
            rep.coverage['leanchecker'] = 'ok' if rc == 0 else out[-500:]
            if rc != 0:
                raise common.Infra('leanchecker rejected ' + ' '.join(mods) + ': ' + out[-1500:])
        common.install_gc_guard()
        import canon
        try:
            mod.run(rep)
        except canon.Hang as h:
            # the code under test did not come back: on the unchanged tree every case takes
            # milliseconds to seconds
            rep.violation({'property': prop, 'kind': 'no-termination',
                           'what_no_longer_checks': f'a single case of the correspondence / oracle run of {prop} did not return within '
                                                    f'{common.CASE_TIMEOUT_S} s (case: {h.args[0] if h.args else None!r}); '
                                                    'the run was abandoned there',
                           'case': (h.args[0] if h.args else None),
                           'traceback': traceback.format_exc()[-3000:]}, no_input=not (h.args and h.args[0] is not None))
            hung = True
        finally:
            common.disarm_case_timeout()
        rc = rep.finish(level='proof')
        if hung:
            sys.stdout.flush()
            sys.stderr.flush()
            os._exit(rc)          # threads of the abandoned case may never end
    except common.Infra as e:
        print(f'INFRASTRUCTURE-ERROR property={prop}: {e}', file=sys.stderr)
        sys.stderr.flush()
        return 2
    except Exception as e:
        traceback.print_exc()
        # an exception that comes OUT OF the library (a frame of /repo is on the traceback) at a place where the
        # unchanged code raises nothing: the run cannot be completed, so the property is no longer shown to hold
        frames = traceback.extract_tb(e.__traceback__)
        lib = [f for f in frames if os.path.realpath(f.filename).startswith(os.path.realpath(REPO) + os.sep)]
        if lib:
            try:
                rep.violation({'property': prop, 'kind': 'library-raised-in-harness',
                               'what_no_longer_checks': f'the correspondence / oracle run of {prop} was aborted by an exception raised inside '
                                                        f'the library where the unchanged code raises none: {type(e).__name__}: {str(e)[:300]}',
                               'innermost_library_frame': f'{lib[-1].filename}:{lib[-1].lineno} in {lib[-1].name}',
                               'traceback': traceback.format_exc()[-4000:]}, no_input=True)
                return rep.finish(level='proof')
            except Exception:  # noqa
                traceback.print_exc()
        print(f'INFRASTRUCTURE-ERROR property={prop}: harness crashed', file=sys.stderr)
        return 2
    return rc


if __name__ == '__main__':
    _rc = main()
    # never wait for threads at interpreter exit: a changed library may have left non-daemon threads behind that
    # never end (a prefetch worker blocked in `put`); the verdict has been printed and the evidence written
    sys.stdout.flush()
    sys.stderr.flush()
    os._exit(_rc if isinstance(_rc, int) else 0)

"""Deterministic scheduling of the REAL, unmodified `lazy_dataset.parallel_utils` functions.

single_thread_prefetch: the names `queue` and `threading` inside `parallel_utils` are replaced
(from outside, in this process only) by cooperative shims, and a `sys.settrace` hook turns the
flag reads / the flag write into scheduling points.  Exactly one thread runs between two
scheduling points (token passing); the chooser decides who runs next; a state in which no
thread can move is a detected deadlock.  Every shared-memory action is recorded as an event;
the event list is what the Lean model (`Conc/Stp.lean`) is asked to accept.

lazy_parallel_map: the executor is replaced by a simulated pool (pending -> running -> done,
at most `max_workers` running, oldest pending starts first); pool actions are interleaved
with the consumer's steps by the chooser.  No real threads are needed because `q` is only
touched by the consumer.
"""
import linecache
import queue as real_queue
import random
import sys
import threading

import lazy_dataset.parallel_utils as PU


class Deadlock(Exception):
    pass


class Abort(BaseException):
    pass


class RandomChooser:
    def __init__(self, seed):
        self.rng = random.Random(seed)
        self.trace = []

    def __call__(self, enabled):
        c = self.rng.choice(enabled)
        self.trace.append((list(enabled), c))
        return c


class PrefixChooser:
    """follow a prescribed list of choices, then a default policy (first enabled, or keep the
    thread that ran last when `sticky`)"""

    def __init__(self, prefix, sticky=True):
        self.prefix = list(prefix)
        self.i = 0
        self.trace = []
        self.last = None
        self.sticky = sticky

    def __call__(self, enabled):
        if self.i < len(self.prefix) and self.prefix[self.i] in enabled:
            c = self.prefix[self.i]
        elif self.sticky and self.last in enabled:
            c = self.last
        else:
            c = enabled[0]
        self.i += 1
        self.last = c
        self.trace.append((list(enabled), c))
        return c


# =================================================================================================
# single_thread_prefetch
# =================================================================================================

from canon import Hang as _Hang   # the harness's own per-case alarm: never taken for an exception of the code under test


class TokenSched:
    def __init__(self, chooser, max_steps=5000):
        self.cv = threading.Condition()
        self.current = 'consumer'
        self.state = {'consumer': ('ready', None)}
        self.events = []
        self.chooser = chooser
        self.abort = False
        self.deadlock = False
        self.steps = 0
        self.max_steps = max_steps

    def enabled(self):
        out = []
        for t, (st, cond) in self.state.items():
            if st == 'ready' or (st == 'blocked' and cond()):
                out.append(t)
        return sorted(out)

    def _dispatch(self):
        en = self.enabled()
        if not en:
            if all(st == 'done' for st, _ in self.state.values()):
                self.current = None
            else:
                self.deadlock = True
                self.abort = True
                self.current = None
            self.cv.notify_all()
            return
        self.steps += 1
        if self.steps > self.max_steps:
            self.abort = True
            self.cv.notify_all()
            return
        self.current = self.chooser(en)
        self.cv.notify_all()

    def _wait_turn(self, tid):
        while self.current != tid:
            if self.abort:
                raise Abort()
            self.cv.wait(timeout=5.0)
        if self.abort:
            raise Abort()

    def point(self, tid):
        """a scheduling point of a thread that can run"""
        if self.abort:
            raise Abort()
        with self.cv:
            self.state[tid] = ('ready', None)
            self._dispatch()
            self._wait_turn(tid)

    def block_until(self, tid, cond):
        """give up the token until `cond()` holds (checked by the scheduler)"""
        if self.abort:
            raise Abort()
        with self.cv:
            self.state[tid] = ('blocked', cond)
            self._dispatch()
            self._wait_turn(tid)
            self.state[tid] = ('ready', None)

    def register(self, tid):
        with self.cv:
            self.state[tid] = ('ready', None)

    def first_turn(self, tid):
        with self.cv:
            self._wait_turn(tid)

    def finish(self, tid):
        with self.cv:
            self.state[tid] = ('done', None)
            if self.current == tid and not self.abort:
                self._dispatch()

    def record(self, **ev):
        self.events.append(ev)


def _tid():
    return getattr(threading.current_thread(), '_coop_tid', 'consumer')


class CoopQueue:
    """stand-in for queue.Queue(maxsize): atomic operations, blocking = waiting for the scheduler"""

    def __init__(self, sched, sentinel_probe, maxsize=0):
        self.s = sched
        self.maxsize = maxsize
        self.items = []
        self.is_sentinel = sentinel_probe

    def _full(self):
        return self.maxsize > 0 and len(self.items) >= self.maxsize

    def put(self, item, block=True, timeout=None):
        tid = _tid()
        self.s.point(tid)
        if self._full():
            if not block:
                self.s.record(k='putFull')
                raise real_queue.Full()
            if timeout is not None:
                # a timed wait may end at any moment: the thread stays enabled, and when the
                # scheduler picks it while the queue is still full the timeout has fired
                self.s.block_until(tid, lambda: True)
                if self._full():
                    self.s.record(k='putTimeout')
                    raise real_queue.Full()
            else:
                self.s.block_until(tid, lambda: not self._full())
        self.items.append(item)
        if isinstance(item, int):
            self.s.record(k='put', v=item)
        else:
            self.s.record(k='putS')

    def get(self, block=True, timeout=None):
        tid = _tid()
        if not block:
            return self.get_nowait()
        self.s.point(tid)
        if not self.items:
            if timeout is not None:
                self.s.block_until(tid, lambda: True)
                if not self.items:
                    self.s.record(k='getTimeout')
                    raise real_queue.Empty()
            else:
                self.s.block_until(tid, lambda: bool(self.items))
        item = self.items.pop(0)
        if isinstance(item, int):
            self.s.record(k='get', v=item)
        else:
            self.s.record(k='get', sentinel=True)
        return item

    def get_nowait(self):
        tid = _tid()
        self.s.point(tid)
        if not self.items:
            self.s.record(k='drain', popped=False)
            raise real_queue.Empty()
        self.items.pop(0)
        self.s.record(k='drain', popped=True)

    def qsize(self):
        self.s.point(_tid())
        self.s.record(k='qsize', v=len(self.items))
        return len(self.items)

    def empty(self):
        self.s.point(_tid())
        self.s.record(k='qempty', v=not self.items)
        return not self.items

    def full(self):
        self.s.point(_tid())
        self.s.record(k='qfull', v=self._full())
        return self._full()


class _QueueModule:
    Empty = real_queue.Empty
    Full = real_queue.Full

    def __init__(self, sched):
        self.sched = sched
        self.created = []

    def Queue(self, maxsize=0):
        q = CoopQueue(self.sched, None, maxsize)
        self.created.append(q)
        return q


class CoopThread:
    def __init__(self, sched, tracer, target, args=()):
        self.s = sched
        self.target = target
        self.args = args
        self.tracer = tracer
        self.done = False
        self.error = None
        self.real = threading.Thread(target=self._run, daemon=True)
        self.real._coop_tid = 'worker'

    def _run(self):
        try:
            self.s.first_turn('worker')
            sys.settrace(self.tracer)
            try:
                self.target(*self.args)
            finally:
                sys.settrace(None)
        except Abort:
            pass
        except BaseException as e:  # noqa
            self.error = e
        finally:
            self.done = True
            self.s.record(k='wdone')
            try:
                self.s.finish('worker')
            except Abort:
                pass

    def start(self):
        self.s.register('worker')
        self.real.start()

    def join(self, timeout=None):
        tid = _tid()
        self.s.point(tid)
        if not self.done:
            if timeout is not None:
                # a timed join may give up at any moment: the joiner stays enabled, and when it is picked
                # while the thread is still running the timeout has fired
                self.s.block_until(tid, lambda: True)
                if not self.done:
                    self.s.record(k='joinTimeout')
                    return
            else:
                self.s.block_until(tid, lambda: self.done)
        self.s.record(k='join')

    def is_alive(self):
        self.s.point(_tid())
        self.s.record(k='alive', v=not self.done)
        return not self.done


class _ThreadingModule:
    def __init__(self, sched, tracer):
        self.sched = sched
        self.tracer = tracer
        self.threads = []

    def Thread(self, target=None, args=(), **kw):
        t = CoopThread(self.sched, self.tracer, target, args)
        self.threads.append(t)
        return t

    def current_thread(self):
        return threading.current_thread()


class Source:
    """the iterable handed to the code under test: items, then StopIteration or an exception"""

    def __init__(self, sched, items, ending, exc_factory):
        self.s = sched
        self.items = list(items)
        self.ending = ending
        self.exc_factory = exc_factory
        self.pulled = 0
        self.pulls_after_return = 0
        self.control_returned = False

    def __iter__(self):
        return self

    def __next__(self):
        if self.control_returned:
            self.pulls_after_return += 1
        if self.pulled < len(self.items):
            x = self.items[self.pulled]
            self.pulled += 1
            self.s.record(k='pull', r=x)
            return x
        self.pulled += 0
        if self.ending is None:
            self.s.record(k='pull', r='stop')
            raise StopIteration
        self.s.record(k='pull', r={'raise': self.ending})
        raise self.exc_factory(self.ending)


def generator_source(src, sched):
    """the same source as a real generator object (what `ds.prefetch(1, b).items()` hands to the helper): it has a
    close() of its own, and the worker can be switched out while it is executing inside it"""
    while True:
        try:
            x = src.__next__()
        except StopIteration:
            return
        sched.point(_tid())
        yield x


def _make_tracer(sched):
    fname = PU.__file__

    def local(frame, event, arg):
        if event == 'line':
            co = frame.f_code
            text = linecache.getline(co.co_filename, frame.f_lineno).strip()
            if co.co_name == 'worker':
                if text.startswith('if shutdown') or text.startswith('if not shutdown'):
                    sched.point('worker')
                    sched.record(k='wflag', v=bool(frame.f_locals.get('shutdown')))
            elif co.co_name == 'single_thread_prefetch':
                if text.startswith('shutdown = True'):
                    sched.point('consumer')
                    sched.record(k='setflag')
        return local

    def tracer(frame, event, arg):
        co = frame.f_code
        if co.co_filename == fname and co.co_name in ('worker', 'single_thread_prefetch'):
            return local
        return None

    return tracer


class StpRun:
    """one controlled run of the real single_thread_prefetch"""

    def __init__(self, b, items, ending, stop_after, chooser, exc_factory, how='close', gen_source=False):
        self.gen_source = gen_source
        self.b, self.items, self.ending = b, list(items), ending
        self.stop_after = stop_after
        self.chooser = chooser
        self.exc_factory = exc_factory
        self.how = how
        self.delivered = []
        self.raised = None
        self.deadlock = False
        self.events = []
        self.thread_alive_after = None
        self.pulls_after_return = 0
        self.hung = False

    def run(self):
        sched = TokenSched(self.chooser)
        tracer = _make_tracer(sched)
        qmod = _QueueModule(sched)
        tmod = _ThreadingModule(sched, tracer)
        src = Source(sched, self.items, self.ending, self.exc_factory)
        old_q, old_t = PU.queue, PU.threading
        PU.queue, PU.threading = qmod, tmod
        old_trace = sys.gettrace()
        try:
            sys.settrace(tracer)
            gen = PU.single_thread_prefetch(generator_source(src, sched) if self.gen_source else src, self.b)
            try:
                k = 0
                while True:
                    if self.stop_after is not None and k >= self.stop_after:
                        if k > 0 or self.how == 'close':
                            if k > 0:
                                sched.record(k='close')
                                gen.close()
                                sched.record(k='after', raised=None)
                        break
                    try:
                        x = next(gen)
                    except StopIteration:
                        sched.record(k='after', raised=None)
                        break
                    sched.record(k='yield', v=x)
                    self.delivered.append(x)
                    k += 1
                    if self.stop_after is None or k < self.stop_after:
                        sched.record(k='resume')
            except Abort:
                pass
            except _Hang:
                raise
            except BaseException as e:  # noqa  the exception of the background work
                from fnmenu import exc_name
                self.raised = exc_name(e)
                sched.record(k='after', raised=self.raised)
        finally:
            sys.settrace(old_trace)
            PU.queue, PU.threading = old_q, old_t
        src.control_returned = True
        self.deadlock = sched.deadlock
        self.hung = sched.abort and not sched.deadlock
        self.events = [e for e in sched.events if e.get('k') != 'wdone']
        self.thread_alive_after = any(not t.done for t in tmod.threads)
        # let a surviving worker run on (abort mode lets it unwind); it must not touch the source
        for t in tmod.threads:
            t.real.join(timeout=0.2)
        self.pulls_after_return = src.pulls_after_return
        self.choices = getattr(self.chooser, 'trace', [])
        self.pulled = src.pulled
        return self


# =================================================================================================
# lazy_parallel_map with a simulated pool
# =================================================================================================

class CoopFuture:
    def __init__(self, pool, idx, fn, args, kwargs):
        self.pool, self.idx = pool, idx
        self.fn, self.args, self.kwargs = fn, args, kwargs
        self.state = 'pending'
        self.value = None
        self.exc = None

    def cancel(self):
        self.pool.sched_point('cancel')
        if self.state == 'pending':
            self.state = 'cancelled'
            self.pool.events.append({'k': 'cancel', 'i': self.idx, 'ok': True})
            return True
        self.pool.events.append({'k': 'cancel', 'i': self.idx, 'ok': False})
        return False

    def result(self, timeout=None):
        self.pool.sched_point('result')
        while self.state in ('pending', 'running'):
            if not self.pool.run_pool_action(forced=True):
                raise Deadlock('result() of a future that can never finish')
        if self.state == 'cancelled':
            raise RuntimeError('result() of a cancelled future')
        if self.exc is not None:
            self.pool.last_result = ('raise', self.exc)
            raise self.exc
        self.pool.last_result = ('ok', self.value)
        return self.value


class CoopPool:
    """stands in for concurrent.futures.ThreadPoolExecutor inside lazy_parallel_map"""

    def __init__(self, chooser, max_workers):
        self.chooser = chooser
        self.max_workers = max_workers
        self.futs = []
        self.events = []
        self.started_total = 0
        self.calls_after_return = 0
        self.control_returned = False
        self.max_running = 0
        self.entered = False
        self.exited = False

    # context manager protocol --------------------------------------------------------------
    def __call__(self, max_workers):
        self.max_workers = max_workers
        return self

    def __enter__(self):
        self.entered = True
        return self

    def __exit__(self, *exc):
        # shutdown(wait=True): every non-cancelled work item is run to completion
        self.sched_point('exit')
        while any(f.state in ('pending', 'running') for f in self.futs):
            if not self.run_pool_action(forced=True):
                raise Deadlock('executor exit cannot complete')
        self.events.append({'k': 'exit'})
        self.exited = True
        return False

    def shutdown(self, wait=True, cancel_futures=False):
        """concurrent.futures.Executor.shutdown of a thread pool: optionally cancel what has not started;
        with wait=True run everything else to completion (threads cannot be abandoned)"""
        self.sched_point('shutdown')
        if cancel_futures:
            for f in self.futs:
                if f.state == 'pending':
                    f.state = 'cancelled'
                    self.events.append({'k': 'cancelled_by_shutdown', 'i': f.idx})
        if wait:
            while any(f.state in ('pending', 'running') for f in self.futs):
                if not self.run_pool_action(forced=True):
                    raise Deadlock('executor shutdown cannot complete')

    def submit(self, fn, *args, **kwargs):
        self.sched_point('submit')
        f = CoopFuture(self, len(self.futs), fn, args, kwargs)
        self.futs.append(f)
        self.events.append({'k': 'submit', 'v': args[0] if args else None})
        return f

    # pool actions -----------------------------------------------------------------------------
    def pool_actions(self):
        acts = []
        running = [f for f in self.futs if f.state == 'running']
        pending = [f for f in self.futs if f.state == 'pending']
        if pending and len(running) < self.max_workers:
            acts.append(('start', pending[0].idx))
        for f in running:
            acts.append(('finish', f.idx))
        return acts

    def do(self, act):
        kind, i = act
        f = self.futs[i]
        if kind == 'start':
            f.state = 'running'
            self.started_total += 1
            self.max_running = max(self.max_running, sum(1 for g in self.futs if g.state == 'running'))
            self.events.append({'k': 'start', 'i': i})
        else:
            if self.control_returned:
                self.calls_after_return += 1
            try:
                f.value = f.fn(*f.args, **f.kwargs)
            except _Hang:
                raise
            except BaseException as e:  # noqa
                f.exc = e
            f.state = 'done'
            self.events.append({'k': 'finish', 'i': i})

    def run_pool_action(self, forced=False):
        acts = self.pool_actions()
        if not acts:
            return False
        c = self.chooser([f'{k}{i}' for k, i in acts])
        for k, i in acts:
            if f'{k}{i}' == c:
                self.do((k, i))
                return True
        return False

    def sched_point(self, label):
        """before a consumer step: the pool may do any number of actions first"""
        while True:
            acts = self.pool_actions()
            if not acts:
                return
            c = self.chooser(['consumer'] + [f'{k}{i}' for k, i in acts])
            if c == 'consumer':
                return
            for k, i in acts:
                if f'{k}{i}' == c:
                    self.do((k, i))


class _FuturesModule:
    def __init__(self, pool, real):
        self.ThreadPoolExecutor = pool
        self.ProcessPoolExecutor = real.ProcessPoolExecutor
        self.Future = real.Future
        self.Executor = real.Executor


class LpmSource:
    def __init__(self, pool, items, ending, exc_factory):
        self.pool, self.items, self.ending, self.exc_factory = pool, list(items), ending, exc_factory
        self.pulled = 0

    def __iter__(self):
        return self

    def __next__(self):
        self.pool.sched_point('pull')
        if self.pulled < len(self.items):
            x = self.items[self.pulled]
            self.pulled += 1
            self.pool.events.append({'k': 'pull', 'r': x})
            return x
        if self.ending is None:
            self.pool.events.append({'k': 'pull', 'r': 'stop'})
            raise StopIteration
        self.pool.events.append({'k': 'pull', 'r': {'raise': self.ending}})
        raise self.exc_factory(self.ending)

    def close(self):
        """an input iterator may offer close() and it may take its time (a prefetching input joins its thread
        there): the pool keeps working meanwhile.  The unchanged library never calls it."""
        for _ in range(3):
            self.pool.sched_point('source_close')
        self.pool.events.append({'k': 'source_close'})


class LpmRun:
    def __init__(self, w, b, items, ending, fn, stop_after, chooser, exc_factory):
        self.w, self.b, self.items, self.ending = w, b, list(items), ending
        self.fn, self.stop_after, self.chooser, self.exc_factory = fn, stop_after, chooser, exc_factory
        self.delivered = []
        self.raised = None
        self.deadlock = False
        self.events = []

    def run(self):
        import concurrent.futures as real_cf
        from fnmenu import exc_name
        pool = CoopPool(self.chooser, self.w)
        src = LpmSource(pool, self.items, self.ending, self.exc_factory)
        old = PU.concurrent.futures
        fake = _FuturesModule(pool, real_cf)

        class _Concurrent:
            futures = fake
        old_conc = PU.concurrent
        PU.concurrent = _Concurrent
        try:
            gen = PU.lazy_parallel_map(self.fn, src, backend='t', buffer_size=self.b, max_workers=self.w)
            k = 0
            try:
                while True:
                    if self.stop_after is not None and k >= self.stop_after:
                        if k > 0:
                            pool.events.append({'k': 'close'})
                            gen.close()
                        break
                    try:
                        x = next(gen)
                    except StopIteration:
                        break
                    # translate: the last `result()` call produced x
                    pool.events.append({'k': 'result', 'r': x})
                    self.delivered.append(x)
                    k += 1
                    if self.stop_after is None or k < self.stop_after:
                        pool.events.append({'k': 'resume'})
            except Deadlock:
                self.deadlock = True
            except _Hang:
                raise
            except BaseException as e:  # noqa
                self.raised = exc_name(e)
        finally:
            PU.concurrent = old_conc
        pool.control_returned = True
        self.pool = pool
        self.pulled = src.pulled
        self.events = self._normalise(pool.events)
        self.choices = getattr(self.chooser, 'trace', [])
        return self

    def _normalise(self, evs):
        """bring the raw log into the event vocabulary of the model:
        - a failing `result()` is logged where the exception leaves the loop (before the executor exit);
        - the end of the drain loop (`q.empty()`) becomes `drained`;
        - the end of the cancel loop (`queue.Empty`) becomes one more `cancel` step."""
        if not evs:
            return []
        out = [dict(e) for e in evs]
        exit_idx = [i for i, e in enumerate(out) if e['k'] == 'exit']
        at = exit_idx[0] if exit_idx else len(out)
        closed = any(e['k'] == 'close' for e in out)
        pulls = [e for e in out if e['k'] == 'pull']
        src_raised = bool(pulls) and isinstance(pulls[-1]['r'], dict)
        if closed:
            out.insert(at, {'k': 'cancel', 'end': True})
        elif self.raised is not None:
            # the exception is the source's own only if every submitted result was handed out
            # first (the error drain found the queue empty); otherwise a `result()` raised it
            n_sub = sum(1 for e in out if e['k'] == 'submit')
            n_res = sum(1 for e in out if e['k'] == 'result' and not isinstance(e.get('r'), dict))
            if src_raised and n_res == n_sub:
                out.insert(at, {'k': 'drained'})
            else:
                out.insert(at, {'k': 'result', 'r': {'raise': self.raised}})
        elif not self.deadlock:
            out.insert(at, {'k': 'drained'})
        return out


class ApiLpmRun:
    """the same simulated pool, but reached through the dataset API: `ds.map(fn, num_workers, buffer_size)`
    (ParMapDataset) and multi-worker `ds.prefetch(w, b)` (PrefetchDataset), iterated plainly or through
    `.items()`.  Judged by the oracles only (results, read-ahead bounds, clean stop)."""

    def __init__(self, via, w, b, items, fn, stop_after, chooser, with_items, view=None):
        self.view = view
        self.via, self.w, self.b, self.items = via, w, b, list(items)
        self.fn, self.stop_after, self.chooser, self.with_items = fn, stop_after, chooser, with_items
        self.delivered = []
        self.raised = None
        self.deadlock = False
        self.events = []

    def run(self):
        import concurrent.futures as real_cf
        import warnings
        import lazy_dataset
        from fnmenu import exc_name
        pool = CoopPool(self.chooser, self.w)
        fake = _FuturesModule(pool, real_cf)

        class _Concurrent:
            futures = fake
        old_conc = PU.concurrent
        PU.concurrent = _Concurrent

        def pull_log(x):
            pool.events.append({'k': 'pull', 'r': x})
            return x
        try:
            with warnings.catch_warnings():
                warnings.simplefilter('ignore')
                base = lazy_dataset.new({f'k{i}': x for i, x in enumerate(self.items)})
                if self.via == 'parmap':
                    ds = base.map(pull_log).map(self.fn, num_workers=self.w, buffer_size=self.b)
                elif self.via == 'batchmap':
                    # the same stage built by `batch_map` (batches of one example)
                    ds = base.map(pull_log).batch(1).batch_map(self.fn, num_workers=self.w, buffer_size=self.b)
                elif self.via == 'prefetch_catch':
                    # the pool path with a catching stage (an exception class no example raises here)
                    ds = base.map(pull_log).map(self.fn).prefetch(self.w, self.b, catch_filter_exception=ZeroDivisionError)
                else:
                    ds = base.map(pull_log).map(self.fn).prefetch(self.w, self.b)
                if self.view == 'copy':                  # the stage consumed through a copy of itself
                    ds = ds.copy()
                elif self.view == 'freeze':
                    ds = ds.copy(freeze=True)
                it = iter(ds.items()) if (self.with_items and self.via == 'parmap') else iter(ds)
                k = 0
                try:
                    while True:
                        if self.stop_after is not None and k >= self.stop_after:
                            if k > 0:
                                pool.events.append({'k': 'close'})
                                it.close()
                            break
                        try:
                            x = next(it)
                        except StopIteration:
                            break
                        if isinstance(x, tuple):
                            x = x[1]
                        if isinstance(x, list) and self.via == 'batchmap':
                            x = x[0]
                        pool.events.append({'k': 'result', 'r': x})
                        self.delivered.append(x)
                        k += 1
                except Deadlock:
                    self.deadlock = True
                except _Hang:
                    raise
                except BaseException as e:  # noqa
                    self.raised = exc_name(e)
        finally:
            PU.concurrent = old_conc
        pool.control_returned = True
        self.pool = pool
        self.events = pool.events
        self.choices = getattr(self.chooser, 'trace', [])
        self.pulled = sum(1 for e in pool.events if e['k'] == 'pull')
        return self

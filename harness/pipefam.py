"""The `pipe` request family: observe a pipeline on the real code and on the Lean model."""
import os
import sys
import json
import warnings

HERE = os.path.dirname(os.path.abspath(__file__))
if HERE not in sys.path:
    sys.path.insert(0, HERE)

os.environ.setdefault('OMP_NUM_THREADS', '1')
os.environ.setdefault('MKL_NUM_THREADS', '1')

import impl
import model
import pyref
import gen as G

OBS_KEYS = ['build', 'indexable', 'ordered', 'len', 'keys', 'iter', 'items', 'gets', 'getkeys']


def make_request(p, cycle_k=5):
    try:
        rf = pyref.ref(p)
        n = rf.n
        keys = rf.keys
    except pyref.RefUndefined:
        n, keys = 4, None
    except RecursionError:
        n, keys = 4, None
    # probe every key of every dict source of the pipeline too (a selection must not answer for keys it dropped)
    src_keys = []

    def walk(q):
        if q['op'] == 'dict':
            src_keys.extend(k for k, _ in q['kvs'])
        if 'p' in q:
            walk(q['p'])
        for r in q.get('ps', []):
            walk(r)
    walk(p)
    idx, ks = G.probe_points(min(n, 40), list(dict.fromkeys((list(keys) if keys else []) + src_keys))[:30])
    return {'fam': 'pipe', 'p': p, 'idx': idx, 'keys': ks, 'cycle_k': cycle_k}


def observe_impl(req):
    with warnings.catch_warnings():
        warnings.simplefilter('ignore')
        obs, ds = impl.observe(req['p'], req['idx'], req['keys'], req.get('cycle_k', 0))
    return obs


def norm_model(m):
    """bring the driver's reply into the shape of impl.observe"""
    if m.get('build') != 'ok':
        return m
    out = dict(m)
    out['indexable'] = {'ok': m['indexable']}
    out['ordered'] = {'ok': m['ordered']}
    return out


def diff(impl_obs, model_obs):
    """list of (field, impl value, model value) where the two differ"""
    m = norm_model(model_obs)
    if 'error' in m:
        return [('driver', None, m['error'])]
    if impl_obs.get('build') != 'ok' or m.get('build') != 'ok':
        if impl_obs.get('build') != m.get('build'):
            return [('build', impl_obs.get('build'), m.get('build'))]
        return []
    out = []
    for k in OBS_KEYS:
        if impl_obs.get(k) != m.get(k):
            if k in ('gets', 'getkeys'):
                for a, b in zip(impl_obs[k], m[k]):
                    if a != b:
                        out.append((f'{k}[{a[0]}]', a[1], b[1]))
                        break
            else:
                out.append((k, impl_obs.get(k), m.get(k)))
    return out


def run_cases(pipelines, cycle_k=5):
    reqs = [make_request(p, cycle_k) for p in pipelines]
    impl_obs = [observe_impl(r) for r in reqs]
    model_obs = model.ask(reqs)
    return reqs, impl_obs, model_obs


if __name__ == '__main__':
    import random
    seed = int(sys.argv[1]) if len(sys.argv) > 1 else 0
    n = int(sys.argv[2]) if len(sys.argv) > 2 else 200
    rng = random.Random(seed)
    g = G.Gen(rng)
    ps = [g.pipeline() for _ in range(n)]
    reqs, io, mo = run_cases(ps)
    bad = 0
    builds = 0
    for r, a, b in zip(reqs, io, mo):
        d = diff(a, b)
        if a.get('build') == 'ok':
            builds += 1
        if d:
            bad += 1
            if bad <= 8:
                print('DISAGREE', json.dumps(r['p']))
                for f, x, y in d[:3]:
                    print('   ', f, 'impl=', json.dumps(x), 'model=', json.dumps(y))
    print('cases', n, 'built', builds, 'disagreements', bad, 'stats', g.stats)

"""Canonical JSON form of Python values / outcomes, identical to Driver/Codec.lean."""
import numbers
import numpy as np
from fnmenu import exc_name

# exceptions that must never be swallowed by an observation
class Hang(BaseException):
    """raised by the per-observation alarm: the implementation did not come back"""


FATAL = (KeyboardInterrupt, SystemExit, MemoryError, GeneratorExit, Hang)


def canon(x):
    if x is None:
        return None
    if isinstance(x, bool):
        return {'bool': x}
    if isinstance(x, numbers.Integral):
        return int(x)
    if isinstance(x, str):
        return x
    if isinstance(x, tuple):
        return {'t': [canon(v) for v in x]}
    if isinstance(x, list):
        return [canon(v) for v in x]
    if isinstance(x, dict):
        return {'d': [[k, canon(v)] for k, v in x.items()]}
    if isinstance(x, np.ndarray):
        return [canon(v) for v in x.tolist()]
    return {'opaque': type(x).__name__}


def decode(j):
    if j is None or isinstance(j, (int, str)):
        return j
    if isinstance(j, list):
        return [decode(v) for v in j]
    if isinstance(j, dict):
        if 't' in j:
            return tuple(decode(v) for v in j['t'])
        if 'd' in j:
            return {k: decode(v) for k, v in j['d']}
    raise ValueError(j)


def outcome(thunk, conv=canon):
    try:
        return {'ok': conv(thunk())}
    except FATAL:
        raise
    except BaseException as e:  # noqa
        return {'err': exc_name(e)}


def run_stream(iterable_thunk, conv=canon, limit=None):
    """iterate to the end (or `limit` items); returns {'vals': [...], 'err': name|None}"""
    vals = []
    err = None
    try:
        it = iter(iterable_thunk())
        n = 0
        while limit is None or n < limit:
            try:
                x = next(it)
            except StopIteration:
                break
            vals.append(conv(x))
            n += 1
        if limit is not None and hasattr(it, 'close'):
            it.close()
    except FATAL:
        raise
    except BaseException as e:  # noqa
        err = exc_name(e)
    return {'vals': vals, 'err': err}

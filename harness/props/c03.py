"""C03 - keys, items and key lookup are aligned with iteration order."""
import oracles
import piperun


class P(piperun.PipeProperty):
    prop = 'C03'
    fields = ('build', 'keys', 'iter', 'items', 'getkeys')
    required_ops = ('slice', 'concat', 'intersperse', 'keyZip', 'items', 'tile', 'shard', 'cache', 'filterLazy',
                    'prefetch', 'catch', 'sort')
    weights = {'items': 2.5, 'keyZip': 2.0, 'intersperse': 1.5}

    def relevant(self, p):
        return p['op'] != 'cycle'

    views = ('direct', 'direct', 'copy', 'direct', 'freeze', 'direct', 'profiled', 'direct', 'direct', 'direct', 'direct')
    source_modes = ('pickle', 'pickle', 'wu', 'copy', 'pickle', 'from', 'from_dataset')

    def oracle(self, p, obs):
        return oracles.c03(p, obs)

    def known(self, p, obs, clause, detail, findings):
        if clause == 'getkey_absent_returns' and oracles.has_f15_stage(p):
            return 'F15' if any(f['id'] == 'F15' for f in findings) else None
        return None


def run(rep):
    return piperun.run(P(), rep)


def replay(j):
    return piperun.replay(P(), j)

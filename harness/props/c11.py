"""C11 - the disk cache is reused exactly and cleared exactly when asked."""
import json
import common
import os
import random
import shutil
import signal
import subprocess
import sys
import tempfile
import time
from concurrent.futures import ThreadPoolExecutor

import model

HERE = os.path.dirname(os.path.dirname(os.path.abspath(__file__)))
CHILD = os.path.join(HERE, 'diskchild.py')


class Child:
    def __init__(self, n, calls_log):
        env = dict(os.environ)
        env['PYTHONDONTWRITEBYTECODE'] = '1'
        self.p = subprocess.Popen([sys.executable, CHILD, str(n), calls_log], stdin=subprocess.PIPE,
                                  stdout=subprocess.PIPE, stderr=subprocess.DEVNULL, env=env)

    def ask(self, op):
        self.p.stdin.write((json.dumps(op) + '\n').encode())
        self.p.stdin.flush()
        line = self.p.stdout.readline()
        if not line:
            return {'err': 'child died'}
        return json.loads(line)

    def send_nowait(self, op):
        self.p.stdin.write((json.dumps(op) + '\n').encode())
        self.p.stdin.flush()

    def kill(self):
        self.p.send_signal(signal.SIGKILL)
        self.p.wait()

    def close(self):
        try:
            self.p.stdin.close()
            self.p.wait(timeout=20)
        except Exception:  # noqa
            self.p.kill()


def gen_history(rng, n, ndirs, length):
    """histories that the model accepts (it refuses a second live cache on one directory)"""
    ops = []
    wrappers = []          # dicts: dir, holders, alive
    iters = {}             # iterators in flight: id -> [wrapper, position]
    nit = 0
    dir_exists = [False] * ndirs
    for _ in range(length):
        alive = [w for w, x in enumerate(wrappers) if x['alive']]
        free_dirs = [d for d in range(ndirs) if not any(x['alive'] and x['dir'] == d for x in wrappers)]
        choices = ['kill']
        if free_dirs:
            choices += ['open'] * 3
        if alive:
            choices += ['get'] * 4 + ['next'] * 4 + ['copy', 'release', 'release']
        k = rng.choice(choices)
        if k == 'open':
            d = rng.choice(free_dirs)
            reuse = rng.random() < 0.6
            clear = rng.random() < 0.5
            ops.append({'k': 'open', 'dir': d, 'reuse': reuse, 'clear': clear})
            if dir_exists[d] and not reuse:
                continue
            dir_exists[d] = True
            wrappers.append({'dir': d, 'holders': 1, 'alive': True, 'clear': clear})
        elif k == 'get':
            ops.append({'k': 'get', 'w': rng.choice(alive), 'i': rng.randrange(n)})
            u = rng.random()
            if u < 0.3:
                ops[-1]['by_key'] = True          # the same example looked up by its key
            elif u < 0.45:
                ops[-1]['how'] = 'np'             # ... by a numpy integer
            elif u < 0.6:
                ops[-1]['how'] = 'slice'          # ... through a one-element slice
            elif u < 0.75:
                ops[-1]['how'] = 'neg'            # ... by its negative index
        elif k == 'next':
            live = [i for i, (w, pos) in iters.items() if wrappers[w]['alive'] and pos < n]
            if live and rng.random() < 0.75:
                it = rng.choice(live)
            else:
                it = nit
                nit += 1
                iters[it] = [rng.choice(alive), 0]
            w, pos = iters[it]
            ops.append({'k': 'next', 'w': w, 'it': it, 'i': pos})
            iters[it][1] += 1
        elif k == 'copy':
            w = rng.choice(alive)
            wrappers[w]['holders'] += 1
            ops.append({'k': 'copy', 'w': w})
        elif k == 'release':
            w = rng.choice(alive)
            for i in [i for i, (ww, _) in iters.items() if ww == w]:
                del iters[i]
            x = wrappers[w]
            x['holders'] -= 1
            if x['holders'] == 0:
                x['alive'] = False
                if x['clear']:
                    dir_exists[x['dir']] = False
            ops.append({'k': 'release', 'w': w})
        else:
            for x in wrappers:
                x['alive'] = False
            iters.clear()
            ops.append({'k': 'kill'})
    return ops


def run_history(n, ndirs, ops, async_kill_rng=None):
    """execute on the real code; returns outputs, per-example upstream call counts, directory existence"""
    common.gc_point()
    root = tempfile.mkdtemp(prefix='verif_c11_')
    try:
        paths = [os.path.join(root, f'd{d}') for d in range(ndirs)]
        calls_log = os.path.join(root, 'calls.log')
        open(calls_log, 'w').close()
        child = Child(n, calls_log)
        outs = []
        nwrap = 0
        exists_after = []
        for idx, op in enumerate(ops):
            if op['k'] == 'kill':
                if async_kill_rng is not None and idx > 0:
                    pass
                child.kill()
                child = Child(n, calls_log)
                outs.append('ok')
            elif op['k'] == 'open':
                r = child.ask({'k': 'open', 'path': paths[op['dir']], 'reuse': op['reuse'], 'clear': op['clear'], 'w': nwrap})
                if isinstance(r, dict) and 'opened' in r:
                    nwrap += 1
                outs.append(r)
            elif async_kill_rng is not None and op['k'] in ('get', 'next') and idx + 1 < len(ops) and ops[idx + 1]['k'] == 'kill':
                # the writing process is killed at a random instant DURING this access
                child.send_nowait(op)
                time.sleep(async_kill_rng.choice([0.0, 0.0005, 0.002, 0.005, 0.02]))
                outs.append('async')
            else:
                outs.append(child.ask(op))
            exists_after.append([os.path.isdir(p) and len(os.listdir(p)) > 0 for p in paths])
        exists = exists_after[-1] if exists_after else [False] * ndirs   # before the child exits normally
        child.close()
        counts = [0] * n
        for line in open(calls_log):
            line = line.strip()
            if line:
                counts[int(line)] += 1
        return outs, counts, exists, exists_after
    finally:
        shutil.rmtree(root, ignore_errors=True)


def oracle(n, ops, outs, exists_after=None):
    fails = []
    # the directory is removed when the LAST dataset sharing a cache opened with clear=True is released, and not before
    if exists_after is not None:
        wr = []          # wrappers in opening order: [dir, clear, holders]
        for t, (op, o) in enumerate(zip(ops, outs)):
            if op['k'] == 'open' and isinstance(o, dict) and 'opened' in o:
                wr.append([op['dir'], op['clear'], 1])
            elif op['k'] == 'open' and o == 'ok':
                wr.append([op['dir'], op['clear'], 1])
            elif op['k'] == 'copy' and op['w'] < len(wr):
                wr[op['w']][2] += 1
            elif op['k'] == 'kill':
                for x in wr:
                    x[2] = 0
            elif op['k'] == 'release' and op['w'] < len(wr) and wr[op['w']][2] > 0:
                x = wr[op['w']]
                x[2] -= 1
                there = exists_after[t][x[0]]
                if x[2] == 0 and x[1] and there:
                    fails.append(('clear_true_directory_survives_last_release', {'t': t, 'op': op}))
                if x[2] > 0 and not there:
                    fails.append(('directory_removed_before_last_release', {'t': t, 'op': op}))
    for t, (op, o) in enumerate(zip(ops, outs)):
        # an open that is refused (non-empty directory, reuse=False) must leave the stored examples alone
        if op['k'] == 'open' and o == 'refused' and exists_after is not None and not exists_after[t][op['dir']]:
            fails.append(('refused_open_removed_the_directory', {'t': t, 'op': op}))
        if op['k'] in ('get', 'next') and isinstance(o, dict):
            if 'val' in o and o['val'] != (None if op['i'] % 3 == 0 else op['i'] * 7 + 3):
                fails.append(('corrupt_or_misplaced_value', {'t': t, 'op': op, 'out': o}))
            if 'err' in o:
                fails.append(('read_failed', {'t': t, 'op': op, 'out': o}))
    return fails


def model_request(n, ndirs, ops):
    # a step of an iteration in flight is, for the model, the access `ds[position]`
    ops = [({'k': 'get', 'w': o['w'], 'i': o['i']} if o['k'] in ('next', 'get') else o) for o in ops]
    return {'fam': 'disk', 'n': n, 'ndirs': ndirs, 'ops': ops}


def run(rep):
    rng = random.Random(rep.seed * 17 + 11)
    tier = rep.tier
    nh = 40 if tier == 'quick' else 400
    hists = []
    # corpus: reuse after kill; refusal; clear iff last holder
    hists.append((3, 2, [{'k': 'open', 'dir': 0, 'reuse': False, 'clear': False}, {'k': 'get', 'w': 0, 'i': 1}, {'k': 'kill'},
                         {'k': 'open', 'dir': 0, 'reuse': False, 'clear': True}, {'k': 'open', 'dir': 0, 'reuse': True, 'clear': True},
                         {'k': 'get', 'w': 1, 'i': 1}, {'k': 'get', 'w': 1, 'i': 2}, {'k': 'copy', 'w': 1}, {'k': 'release', 'w': 1},
                         {'k': 'get', 'w': 1, 'i': 0}, {'k': 'release', 'w': 1}]))
    for _ in range(nh):
        n = rng.randint(1, 4)
        nd = rng.randint(1, 2)
        hists.append((n, nd, gen_history(rng, n, nd, rng.randint(3, 14))))
    # structured: the directory is filled completely in a random order (by index, key, negative index), possibly by a
    # process that is killed afterwards and reopened, then read by one full pass (plain or keyed) in flight
    for _ in range(max(6, nh // 8)):
        n = rng.randint(2, 5)
        ops = [{'k': 'open', 'dir': 0, 'reuse': True, 'clear': False}]
        order = list(range(n))
        rng.shuffle(order)
        for i in order:
            op = {'k': 'get', 'w': 0, 'i': i}
            u = rng.random()
            if u < 0.3:
                op['by_key'] = True
            elif u < 0.5:
                op['how'] = 'neg'
            ops.append(op)
        w = 0
        if rng.random() < 0.5:
            ops += [{'k': 'kill'}, {'k': 'open', 'dir': 0, 'reuse': True, 'clear': False}]
            w = 1
        elif rng.random() < 0.5:
            ops.append({'k': 'copy', 'w': 0})
        keyed_pass = rng.random() < 0.5
        for pos in range(n):
            op = {'k': 'next', 'w': w, 'it': 0, 'i': pos}
            if keyed_pass:
                op['items'] = True
            ops.append(op)
        hists.append((n, 1, ops))
    with ThreadPoolExecutor(max_workers=12) as ex:
        results = list(ex.map(lambda h: run_history(*h), hists))
    replies = model.ask([model_request(*h) for h in hists])
    disagree, fails = [], []
    kills = sum(1 for _, _, ops in hists for o in ops if o['k'] == 'kill')
    for (n, nd, ops), (outs, counts, exists, ex_after), rp in zip(hists, results, replies):
        m_exists = [d is not None for d in rp.get('dirs', [])]
        outs_m = [({'val': -1} if (isinstance(o, dict) and 'val' in o and o['val'] is None) else o) for o in outs]
        if rp.get('outs') != outs_m or rp.get('calls') != counts or m_exists != exists:
            disagree.append((n, nd, ops, outs, counts, exists, rp))
            mc = rp.get('calls')
            if rp.get('outs') == outs_m and mc is not None and len(mc) == len(counts) and any(c > m for c, m in zip(counts, mc)):
                # same answers, but the upstream ran more often than "once per example and directory
                # generation" (C11_calls_only_on_miss): a stored example was computed again
                fails.append(('recomputed_stored_example', {'upstream_calls': counts, 'calls_needed': mc}, n, nd, ops, outs))
        for cl, det in oracle(n, ops, outs, ex_after):
            fails.append((cl, det, n, nd, ops, outs))
    # asynchronous kills: the process dies at a random instant during a store; judged by the oracle only
    ah = []
    for _ in range(12 if tier == 'quick' else 150):
        n = rng.randint(2, 4)
        ops = [{'k': 'open', 'dir': 0, 'reuse': True, 'clear': False}]
        if rng.random() < 0.5:
            for _ in range(rng.randint(1, 4)):
                ops.append({'k': 'get', 'w': 0, 'i': rng.randrange(n)})
        else:
            for pos in range(rng.randint(1, n)):
                ops.append({'k': 'next', 'w': 0, 'it': 0, 'i': pos})
        ops += [{'k': 'kill'}, {'k': 'open', 'dir': 0, 'reuse': True, 'clear': False}]
        ops += [{'k': 'get', 'w': 1, 'i': i} for i in range(n)]
        ah.append((n, 1, ops))
    with ThreadPoolExecutor(max_workers=12) as ex:
        aresults = list(ex.map(lambda h: run_history(*h, async_kill_rng=random.Random(rng.random())), ah))
    for (n, nd, ops), (outs, counts, exists, _) in zip(ah, aresults):
        for cl, det in oracle(n, ops, outs):
            fails.append((cl, det, n, nd, ops, outs))
        if any(c > 2 for c in counts):
            fails.append(('recomputed_after_reuse', {'calls': counts}, n, nd, ops, outs))
    seen = set()
    for cl, det, n, nd, ops, outs in fails:
        if cl in seen or len(rep.violations) >= 4:
            continue
        seen.add(cl)
        rep.violation({'property': 'C11', 'kind': 'oracle-failure', 'clause': cl, 'detail': det, 'n': n, 'ndirs': nd,
                       'history': ops, 'implementation_outputs': outs})
    if disagree and not rep.violations:
        n, nd, ops, outs, counts, exists, rp = min(disagree, key=lambda t: len(t[2]))
        rep.violation({'property': 'C11', 'kind': 'correspondence',
                       'what_no_longer_checks': 'family `disk`: lean/LazyDs/Model/Disk.lean versus DiskCacheDataset/_DiskCacheWrapper on real directories with SIGKILL; theorems of LazyDs/Props/C11.lean are not tied to this code',
                       'n': n, 'ndirs': nd, 'history': ops,
                       'implementation': {'outs': outs, 'calls': counts, 'dir_exists': exists}, 'model': rp,
                       'searched_histories_for_failing_input': len(hists) + len(ah)}, no_input=True)
    rep.coverage.update({
        'evaluations': len(hists) + len(ah), 'programs': len(hists), 'disagreements_checked': len(hists),
        'disagreements_found': len(disagree),
        'distinct_nontrivial': len({json.dumps(h) for h in hists if len(h[2]) >= 4}),
        'rule': 'histories of open(dir, reuse, clear) / get / copy / release / kill on real directories; a child process executes them and is SIGKILLed at the kill points '
                '(between operations: compared with the model; at a random instant during a store: judged by the oracle only); distinct non-trivial = distinct history with >= 4 operations',
        'samples': [{'n': hists[i][0], 'history': hists[i][2], 'implementation_outputs': results[i][0], 'model_outputs': replies[i].get('outs')} for i in (0, 2)],
        'sigkills_between_operations': kills, 'sigkills_during_store': len(ah), 'oracle_failures': len(fails), 'exhaustive': False})
    rep.assumptions += ['SQLite/diskcache commit atomicity and file-system durability under SIGKILL', 'CPython runs __del__ when the last reference disappears']
    return rep


def replay(j):
    outs, counts, exists, ex_after = run_history(j['n'], j['ndirs'], j['history'])
    rp = model.ask([model_request(j['n'], j['ndirs'], j['history'])])[0]
    fails = oracle(j['n'], j['history'], outs, ex_after)
    print(json.dumps({'outs': outs, 'calls': counts, 'dir_exists': exists, 'model': rp, 'oracle_failures': fails}, indent=1))
    outs_m = [({'val': -1} if (isinstance(o, dict) and 'val' in o and o['val'] is None) else o) for o in outs]
    if fails or rp.get('outs') != outs_m or rp.get('calls') != counts:
        print('VIOLATION property=C11 replay=(replayed)')
        return 1
    return 0

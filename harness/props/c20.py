"""C20 - the profiling wrapper is transparent and counts truthfully."""
import json
import common
import random
import warnings

import lazy_dataset
import lazy_dataset.core as core
import gen as G
import impl
import pyref
from canon import canon, outcome, run_stream
from fnmenu import exc_class

ITER_PARENTS = ('map', 'filterLazy', 'batch', 'unbatch', 'concat')


def obs(ds, idx):
    r = {'iter': run_stream(lambda: ds), 'len': outcome(lambda: len(ds)), 'items': run_stream(lambda: ds.items())}
    r['gets'] = [outcome(lambda: ds[i]) for i in idx]
    # what stages stacked on top ask before they accept a dataset
    r['flags'] = [outcome(lambda: bool(ds.indexable), lambda b: b), outcome(lambda: bool(ds.ordered), lambda b: b)]
    r['iter2'] = run_stream(lambda: ds)
    return r


def tree_ids(ds, acc=None):
    """identity of every dataset object of a pipeline (to see that profiling leaves the original alone)"""
    acc = acc if acc is not None else []
    acc.append((id(ds), type(ds).__name__))
    v = vars(ds)
    if 'input_dataset' in v:
        tree_ids(v['input_dataset'], acc)
    for d in v.get('input_datasets', []) or []:
        tree_ids(d, acc)
    return acc


def wrappers(prof, p, out):
    """pair every ProfilingDataset wrapper with the sub-pipeline AST it wraps (pre-order)"""
    while p['op'] in ('concat', 'intersperse') and len(p['ps']) == 1:
        p = p['ps'][0]          # a concatenation of one dataset is that dataset itself
    out.append((prof, p))
    inner = prof.input_dataset
    v = vars(inner)
    if 'p' in p and 'input_dataset' in v and isinstance(v['input_dataset'], core.ProfilingDataset):
        wrappers(v['input_dataset'], p['p'], out)
    elif 'ps' in p and 'input_datasets' in v:
        for w, q in zip(v['input_datasets'], p['ps']):
            if isinstance(w, core.ProfilingDataset):
                wrappers(w, q, out)
    return out


def expected_counts(q):
    """model prediction (C20_hits_full) for a node consumed to the end by an iterating parent"""
    rf = pyref.ref(q)
    vals, err = rf.stream
    hits = len(vals) + (1 if err is not None else 0)
    failed = 1 if (err is not None and issubclass(exc_class(err), Exception)) else 0
    return hits, failed


def only_iter_parents(p):
    if p['op'] in ('list', 'dict'):
        return True
    if p['op'] not in ITER_PARENTS:
        return False
    if 'p' in p:
        return only_iter_parents(p['p'])
    return all(only_iter_parents(q) for q in p['ps'])


def one_case(rng, g, counting):
    common.gc_point()
    p = g.pipeline()
    if counting:
        g2 = G.Gen(rng, stages=['map', 'mapRaise', 'filterLazy', 'batch', 'unbatch', 'concat'], malformed=0.0)
        p = g2.pipeline(rng.choice([1, 2, 3, 4]))
    fails = []
    with warnings.catch_warnings():
        warnings.simplefilter('ignore')
        try:
            ds = impl.build(p)
        except Exception:  # noqa
            return None, fails, p
        try:
            n = pyref.ref(p).n
        except Exception:  # noqa
            n = 3
        idx = list(range(-n - 1, n + 1))
        before_ids = tree_ids(ds)
        plain = obs(ds, idx)
        try:
            prof = core.ProfilingDataset(ds)
        except NotImplementedError:
            return None, fails, p              # a stage without copy() (cycle): refusing loudly is allowed
        except Exception as e:  # noqa
            fails.append(('profiling_refuses', {'pipeline': p, 'err': repr(e)}))
            return None, fails, p
        wrapped = obs(prof, idx)
        for f in ('iter', 'len', 'gets', 'items', 'iter2', 'flags'):
            if plain[f] != wrapped[f]:
                fails.append(('not_transparent', {'pipeline': p, 'field': f, 'plain': plain[f], 'profiled': wrapped[f]}))
                break
        # behind thread prefetch
        if plain['len'].get('ok') is not None and p['op'] != 'prefetch':
            a = run_stream(lambda: ds.prefetch(2, 3))
            b = run_stream(lambda: core.ProfilingDataset(ds.prefetch(2, 3)))
            if a != b:
                fails.append(('not_transparent_behind_prefetch', {'pipeline': p, 'plain': a, 'profiled': b}))
        after_ids = tree_ids(ds)
        if before_ids != after_ids or any(nm == 'ProfilingDataset' for _, nm in after_ids):
            fails.append(('original_modified', {'pipeline': p}))
        after_plain = run_stream(lambda: ds)
        if after_plain != plain['iter']:
            fails.append(('original_behaviour_changed', {'pipeline': p}))
        # counters
        if counting and only_iter_parents(p):
            prof2 = core.ProfilingDataset(ds)
            run_stream(lambda: prof2)
            ws = wrappers(prof2, p, [])
            if plain['iter']['err'] is not None:
                ws = ws[:1]       # an error stops the consumption of everything below it early: only the top node is fully consumed
            for w, q in ws:
                try:
                    eh, ef = expected_counts(q)
                except Exception:  # noqa
                    continue
                if [w.hit_count[0], w.hit_count[1]] != [eh, ef]:
                    fails.append(('hit_count', {'pipeline': p, 'node': q, 'hit_count': list(w.hit_count), 'fetched': eh, 'failed': ef}))
                    break
            # a consumer that stops after k results: the top wrapper counted exactly k
            full = plain['iter']['vals']
            if full:
                k = rng.randint(1, len(full))
                prof3 = core.ProfilingDataset(ds)
                it = iter(prof3)
                for _ in range(k):
                    next(it)
                if prof3.hit_count[0] != k or prof3.hit_count[1] != 0:
                    fails.append(('hit_count_partial', {'pipeline': p, 'k': k, 'hit_count': list(prof3.hit_count)}))
                # indexing counts one hit per access
                prof4 = core.ProfilingDataset(ds)
                if plain['gets'] and 'ok' in plain['gets'][len(plain['gets']) // 2]:
                    try:
                        prof4[0]
                        prof4[0]
                        if prof4.hit_count[0] != 2:
                            fails.append(('hit_count_getitem', {'pipeline': p, 'hit_count': list(prof4.hit_count)}))
                    except Exception:  # noqa
                        pass
    return p, fails, p


def stateful_cases(rng):
    """pipelines with a per-epoch reshuffle below stages that freeze their input (prefetch workers, catch):
    plain versus profiled with equally seeded generators, two epochs"""
    import numpy as np
    fails = []
    n = rng.randint(2, 8)
    seed = rng.randrange(1 << 30)
    kind = rng.choice(['prefetch2', 'catch', 'prefetch2_catch', 'prefetch1', 'plain'])

    def mk():
        ds = lazy_dataset.new({f'k{i}': i for i in range(n)}).shuffle(reshuffle=True, rng=np.random.RandomState(seed)).map(lambda x: x + 1)
        if kind == 'prefetch2':
            return ds.prefetch(2, 4)
        if kind == 'catch':
            return ds.catch()
        if kind == 'prefetch2_catch':
            return ds.prefetch(2, 4, catch_filter_exception=True)
        if kind == 'prefetch1':
            return ds.prefetch(1, 2)
        return ds
    with warnings.catch_warnings():
        warnings.simplefilter('ignore')
        plain, prof = mk(), core.ProfilingDataset(mk())
        for epoch in range(2):
            a, b = run_stream(lambda: plain), run_stream(lambda: prof)
            if a != b:
                fails.append(('not_transparent_stateful', {'kind': kind, 'n': n, 'seed': seed, 'epoch': epoch, 'plain': a, 'profiled': b}))
                break
    return fails


def chain(prof):
    """the ProfilingDataset wrappers of a linear pipeline, top first"""
    out = [prof]
    while True:
        nxt = vars(out[-1].input_dataset).get('input_dataset')
        if isinstance(nxt, core.ProfilingDataset):
            out.append(nxt)
        else:
            return out


def indexed_cases(rng):
    """counters below index-driven stages (slices, one-time shuffle, sort, shard): these fetch their input
    with numpy integers, position by position; every node of the chain is fetched once per selected position"""
    import numpy as np
    fails = []
    n = rng.randint(1, 6)
    keyed = rng.random() < 0.5
    src = {f'k{j}': j for j in range(n)} if keyed else list(range(n))
    c = rng.randint(1, 5)
    bad = rng.choice([None, None, rng.randrange(n)])
    kind = rng.choice(['range', 'list', 'nparray', 'shuffle', 'sort', 'shard', 'reshuffle'])

    def f1(x):
        return x + c

    def f2(x):
        if bad is not None and x == bad + c:
            raise ValueError(x)
        return x * 2

    def mk():
        ds = lazy_dataset.new(src).map(f1).map(f2)
        if kind == 'range':
            ds = ds[rng2.choice([slice(None, None, -1), slice(1, None), slice(None, None, 2)])]
        elif kind == 'list':
            ds = ds[sel]
        elif kind == 'nparray':
            ds = ds[np.array(sel, dtype=np.int64)] if sel else ds[[]]
        elif kind == 'shuffle':
            ds = ds.shuffle(rng=np.random.RandomState(seed))
        elif kind == 'sort':
            ds = lazy_dataset.new(src).map(f1).sort(lambda x: -x).map(f2)
        elif kind == 'shard':
            ds = ds.shard(min(2, n), 0)
        else:
            ds = ds.shuffle(reshuffle=True, rng=np.random.RandomState(seed))
        return ds.map(f1) if top_map else ds
    seed = rng.randrange(1 << 30)
    sel = [rng.randrange(n) for _ in range(rng.randint(0, n + 1))]
    top_map = rng.random() < 0.5
    state = rng.getstate()
    with warnings.catch_warnings():
        warnings.simplefilter('ignore')
        rng2 = random.Random(seed)
        plain = run_stream(lambda: mk())
        rng2 = random.Random(seed)
        prof = core.ProfilingDataset(mk())
        got = run_stream(lambda: prof)
        if kind != 'reshuffle' and got != plain:
            fails.append(('not_transparent', {'kind': kind, 'n': n, 'plain': plain, 'profiled': got}))
        fetched = len(got['vals']) + (1 if got['err'] is not None else 0)
        failed = 1 if got['err'] is not None else 0
        nodes = chain(prof)
        # `sort` evaluates the key function on a pass of its own at construction: not part of this iteration
        counts = [list(w.hit_count) for w in nodes]
        below_bad = False
        for depth, w in enumerate(nodes):
            inner = type(w.input_dataset).__name__
            want_failed = failed
            if inner == 'MapDataset' and getattr(w.input_dataset, 'map_function', None) is f2:
                below_bad = True
            elif below_bad:
                want_failed = 0           # nodes below the raising function delivered their example
            if list(w.hit_count) != [fetched, want_failed]:
                fails.append(('hit_count_below_index_stage', {'kind': kind, 'n': n, 'keyed': keyed, 'sel': sel, 'node': inner, 'depth': depth,
                                                               'hit_counts_top_first': counts, 'fetched': fetched, 'failed': want_failed}))
                break
    rng.setstate(state)
    return fails


def lazy_apply_cases(rng):
    """a lazily applied function (stateful: another rotation / selection in every epoch; or random) inside the
    profiled pipeline: wrapping applies nothing, and every epoch equals the plain pipeline's; len / indexable answer
    (or refuse) alike"""
    import numpy as np
    fails = []
    n = rng.randint(1, 7)
    kind = rng.choice(['rotate', 'rotate_map', 'rotate_prefetch1', 'shuffle', 'shard'])
    seed = rng.randrange(1 << 30)

    def mk(calls):
        st = {'epoch': 0}
        rs = np.random.RandomState(seed)

        def fn(d):
            calls.append(1)
            st['epoch'] += 1
            if kind == 'shuffle':
                return d.shuffle(rng=rs)
            if kind == 'shard':
                return d.shard(min(2, len(d)), 0)
            r = st['epoch'] % len(d)
            return d[list(range(r, len(d))) + list(range(r))]
        ds = lazy_dataset.new({f'k{i}': i for i in range(n)}).apply(fn, lazy=True)
        if kind == 'rotate_map':
            ds = ds.map(lambda x: x + 1)
        if kind == 'rotate_prefetch1':
            ds = ds.prefetch(1, 2)
        return ds
    with warnings.catch_warnings():
        warnings.simplefilter('ignore')
        ca, cb = [], []
        plain, inner = mk(ca), mk(cb)
        prof = core.ProfilingDataset(inner)
        if cb:
            fails.append(('profiling_wrapper_applies_the_lazy_function', {'kind': kind, 'n': n, 'calls_at_wrapping': len(cb)}))
        for what, ask in (('len', lambda d: len(d)), ('indexable', lambda d: bool(d.indexable))):
            a, b = outcome(lambda: ask(plain)), outcome(lambda: ask(prof))
            if a != b:
                fails.append(('not_transparent_lazy_apply', {'kind': kind, 'n': n, 'question': what, 'plain': a, 'profiled': b}))
        del ca[:], cb[:]
        for epoch in range(3):
            a, b = run_stream(lambda: plain), run_stream(lambda: prof)
            if a != b:
                fails.append(('not_transparent_lazy_apply', {'kind': kind, 'n': n, 'seed': seed, 'epoch': epoch, 'plain': a, 'profiled': b}))
                break
    return fails


def run(rep):
    rng = random.Random(rep.seed * 43 + 20)
    n = 200 if rep.tier == 'quick' else 5000
    g = G.Gen(rng, malformed=0.0)
    fails = []
    built = 0
    dist = {}
    distinct = set()
    for i in range(n):
        p, f, ast = one_case(rng, g, counting=(i % 2 == 1))
        fails += f
        if p is not None:
            built += 1
            distinct.add(json.dumps(ast, sort_keys=True))
            for o in set(G.ops_of(ast)):
                dist[o] = dist.get(o, 0) + 1
    for _ in range(60 if rep.tier == 'quick' else 1000):
        fails += stateful_cases(rng)
    for _ in range(150 if rep.tier == 'quick' else 3000):
        fails += indexed_cases(rng)
    for _ in range(60 if rep.tier == 'quick' else 1000):
        fails += lazy_apply_cases(rng)
    seen = set()
    for cl, det in fails:
        if cl not in seen and len(rep.violations) < 4:
            seen.add(cl)
            rep.violation({'property': 'C20', 'kind': 'oracle-failure', 'clause': cl, 'detail': det,
                           'model_prediction': 'C20_iter_transparent / C20_hits_full / C20_hits_partial / C20_getitem_transparent'})
    rep.coverage.update({
        'evaluations': n, 'programs': built, 'disagreements_checked': built, 'disagreements_found': len(fails),
        'distinct_nontrivial': len(distinct),
        'rule': 'random pipelines: plain versus ProfilingDataset on iteration (twice), len, ds[i] for all i, items(), behind a 2-worker thread prefetch; the original object tree must be unchanged; '
                'for pipelines of iterating stages the counters of EVERY wrapper are compared with the number of examples fetched from that node (computed from the eager reference with the formula of C20_hits_full), '
                'a consumer stopping after k results, and indexing; linear pipelines with an index-driven stage (slices by range / list / numpy array, one-time shuffle, sort, shard, per-epoch reshuffle): every wrapper below it counts one fetch per selected position; distinct non-trivial = distinct pipeline that builds',
        'samples': [{'pipeline': {'op': 'map', 'f': {'fn': 'add', 'c': 1}, 'p': {'op': 'list', 'xs': [1, 2]}}, 'expected_hit_counts': {'map': [2, 0], 'source': [2, 0]}}],
        'distribution': {'stage_kinds': dist}, 'exhaustive': False})
    rep.assumptions.append('timing (perf_counter) is not modelled')
    return rep


def replay(j):
    print(json.dumps(j, indent=1)[:3000])
    return 1

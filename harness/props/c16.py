"""C16 - combinators obey their algebraic laws (both sides observed on the implementation)."""
import json
import common
import random
import warnings

import numpy as np
import lazy_dataset
import gen as G
import impl
import pyref
from canon import canon, outcome, run_stream


def observe(ds, n_hint):
    common.gc_point()
    r = {'iter': run_stream(lambda: ds)}
    r['len'] = outcome(lambda: len(ds))
    r['keys'] = outcome(lambda: list(ds.keys()))
    if 'ok' in r['keys']:
        # the keyed views: items() pairs and lookups of the dataset's own keys
        r['items'] = run_stream(lambda: ds.items())
        r['getkeys'] = [outcome(lambda: ds[k]) for k in r['keys']['ok']]
    idx = outcome(lambda: bool(ds.indexable), lambda b: b)
    if idx.get('ok'):
        r['gets'] = [outcome(lambda: ds[i]) for i in range(-n_hint - 1, n_hint + 1)]
    return r


def same(a, b, fields):
    return [f for f in fields if f in a and f in b and a[f] != b[f]]


def base_dataset(rng):
    """an error-free indexable base pipeline with distinct int examples"""
    n = rng.randint(0, 8)
    vals = rng.sample(range(-20, 60), n)
    if rng.random() < 0.6:
        keys = rng.sample(G.KEY_POOL + ['m', 'n', 'o'], n)
        p = {'op': 'dict', 'kvs': [[k, v] for k, v in zip(keys, vals)]}
    else:
        p = {'op': 'list', 'xs': vals}
    g = G.Gen(rng, stages=['map', 'slice', 'concat', 'sort', 'shuffleOnce', 'cache', 'copy', 'tile'], malformed=0.0, raising=0.0)
    for _ in range(rng.choice([0, 0, 1, 2])):
        q = g.stage(p, 2, allowed=['slice', 'sort', 'shuffleOnce', 'cache', 'copy'])
        try:
            st = pyref.ref(q).stream
            # the laws are stated for datasets with distinct examples (hence distinct keys)
            if st[1] is None and all(isinstance(v, int) for v in st[0]) and len(set(st[0])) == len(st[0]):
                p = q
        except Exception:  # noqa
            pass
    return p


def laws(rng):
    p = base_dataset(rng)
    c = rng.randint(1, 9)
    f = lambda x: x + c           # noqa
    g_ = lambda x: x * 2          # noqa
    out = []
    with warnings.catch_warnings():
        warnings.simplefilter('ignore')
        ds = impl.build(p)
        ds_b = impl.build(p)
        vals = list(ds)
        n = len(vals)
        F_ALL = ('iter', 'len', 'keys', 'gets', 'items', 'getkeys')

        def law(name, lhs, rhs, fields=F_ALL, detail=None):
            try:
                a, b = observe(lhs(), n + 2), observe(rhs(), n + 2)
            except Exception as e:  # noqa
                out.append((name, {'pipeline': p, 'error_building_sides': repr(e)}))
                return
            d = same(a, b, fields)
            if d:
                out.append((name, {'pipeline': p, 'differs_in': d, 'lhs': {k: a[k] for k in d}, 'rhs': {k: b[k] for k in d},
                                   'params': detail}))
        bs = rng.randint(1, 4)
        law('batch_unbatch_id', lambda: ds.batch(bs).unbatch(), lambda: ds, ('iter',), {'batch_size': bs})
        if n >= 1:
            k = rng.randint(1, n)
            law('concat_split_id', lambda: lazy_dataset.concatenate(*ds.split(k)), lambda: ds, F_ALL, {'k': k})
        s1 = slice(rng.choice([None] + list(range(-n - 1, n + 2))), rng.choice([None] + list(range(-n - 1, n + 2))), rng.choice([None, 1, 2, -1, -2]))
        s2 = slice(rng.choice([None] + list(range(-n - 1, n + 2))), rng.choice([None] + list(range(-n - 1, n + 2))), rng.choice([None, 1, 2, -1, 3]))
        idxs = list(range(n))[s1][s2]
        law('slice_slice', lambda: ds[s1][s2], lambda: ds[idxs], F_ALL, {'s1': str(s1), 's2': str(s2)})
        if vals[s1][s2] != [vals[i] for i in idxs] or list(ds[s1][s2]) != vals[s1][s2]:
            out.append(('slice_slice_list', {'pipeline': p, 's1': str(s1), 's2': str(s2), 'got': list(ds[s1][s2]), 'want': vals[s1][s2]}))
        law('map_slice', lambda: ds.map(f)[s1], lambda: ds[s1].map(f), F_ALL, {'s1': str(s1)})
        seed = rng.randrange(1 << 30)
        law('map_shuffle', lambda: ds.map(f).shuffle(rng=np.random.RandomState(seed)),
            lambda: ds.shuffle(rng=np.random.RandomState(seed)).map(f), F_ALL, {'seed': seed})
        m = rng.choice([2, 3, 5])
        rev = rng.random() < 0.5
        law('map_sort', lambda: ds.map(f).sort(lambda y: (y - c) % m, reverse=rev), lambda: ds.sort(lambda x: x % m, reverse=rev).map(f),
            F_ALL, {'m': m, 'reverse': rev})
        law('map_concat', lambda: ds.map(f).concatenate(ds_b.map(f)), lambda: ds.concatenate(ds_b).map(f), ('iter', 'len', 'gets'))
        law('map_batch', lambda: ds.map(f).batch(bs), lambda: ds.batch(bs).batch_map(f), ('iter', 'len', 'gets'), {'batch_size': bs})
        law('map_cache', lambda: ds.map(f).cache(), lambda: ds.cache().map(f), F_ALL)
        # the same law for a map function that works in place on mutable examples (Dataset.map allows it): every
        # access of the cached side hands the function an example of its own
        rec = ds.map(lambda x: {'x': x, 'trace': []})

        def f_inplace(e):
            e['trace'].append('f')
            e['x'] += c
            return e
        law('map_cache_inplace', lambda: rec.map(f_inplace).cache(), lambda: rec.cache().map(f_inplace), F_ALL)
        law('map_map', lambda: ds.map(f).map(g_), lambda: ds.map(lambda x: g_(f(x))), F_ALL)
        sel = sorted(rng.sample(range(n), rng.randint(0, n))) if n else []
        pm = rng.choice([2, 3])
        pred = lambda x: x % pm == 0   # noqa
        chosen = set(list(ds[sel]))
        a = list(ds[sel].filter(pred))
        b = [v for v in ds.filter(pred) if v in chosen]
        cc = list(ds.filter(pred, lazy=False)) and [v for v in ds.filter(pred, lazy=False) if v in chosen]
        if a != b or (n and a != (cc or [])):
            out.append(('filter_select_commute', {'pipeline': p, 'sel': sel, 'select_then_filter': a, 'filter_then_select': b}))
        # the same law with a predicate that answers with a number (judged by its truth value), eager and lazy
        predi = lambda x: x % pm       # noqa
        try:
            ai = [list(ds[sel].filter(predi, lazy=lz)) for lz in (True, False)]
            bi = [[v for v in ds.filter(predi, lazy=lz) if v in chosen] for lz in (True, False)]
        except Exception as e:  # noqa
            out.append(('filter_select_commute', {'pipeline': p, 'sel': sel, 'predicate': 'x %% %d' % pm, 'error': repr(e)[:200]}))
        else:
            wanti = [v for v in list(ds[sel]) if v % pm]
            if ai != [wanti, wanti] or bi != [wanti, wanti]:
                out.append(('filter_select_commute', {'pipeline': p, 'sel': sel, 'predicate': 'x %% %d' % pm, 'select_then_filter_lazy_eager': ai,
                                                      'filter_then_select_lazy_eager': bi, 'want': wanti}))
        # filter fusion and filter over concatenation, with a first predicate that may raise (Lean: C16_filter_filter,
        # C16_filter_concat): the second predicate runs exactly on the examples the first accepted, in order
        pm2 = rng.choice([2, 3, 5])
        bad_r = rng.choice([None, None, 0, 1, 2, 3, 4, 5, 6])
        g_calls = []

        def p1(x):
            if bad_r is not None and x % 7 == bad_r:
                raise ValueError('p1')
            return x % pm == 0

        def p2(x):
            g_calls.append(x)
            return x % pm2 != 1
        law('filter_filter', lambda: ds.filter(p1).filter(p2), lambda: ds.filter(lambda x: p1(x) and p2(x)), F_ALL,
            {'pm': pm, 'pm2': pm2, 'raise_at_mod7': bad_r})
        del g_calls[:]
        got = run_stream(lambda: ds.filter(p1).filter(p2))
        want_calls = []
        for v in vals:
            if bad_r is not None and v % 7 == bad_r:
                break
            if v % pm == 0:
                want_calls.append(v)
        if g_calls != want_calls:
            out.append(('filter_filter_short_circuit', {'pipeline': p, 'second_predicate_called_on': list(g_calls), 'want': want_calls,
                                                        'observed': got, 'params': {'pm': pm, 'pm2': pm2, 'raise_at_mod7': bad_r}}))
        law('filter_concat', lambda: ds.concatenate(ds_b).filter(p1), lambda: ds.filter(p1).concatenate(ds_b.filter(p1)), ('iter',),
            {'pm': pm, 'raise_at_mod7': bad_r})
        # items() and dropping the keys again (Lean: C16_items_map_snd); the first components are keys(), in order
        if 'ok' in outcome(lambda: list(ds.keys())):
            law('items_map_snd', lambda: ds.items().map(lambda kv: kv[1]), lambda: ds, ('iter', 'len', 'gets'))
            ks_it, ks_tab = run_stream(lambda: ds.items().map(lambda kv: kv[0])), outcome(lambda: list(ds.keys()))
            if ks_it.get('vals', ks_it) != ks_tab.get('ok') and canon(list(ds.items().map(lambda kv: kv[0]))) != canon(list(ds.keys())):
                out.append(('items_map_fst_is_keys', {'pipeline': p, 'items_first': ks_it, 'keys': ks_tab}))
        r = rng.randint(1, 3)
        law('tile_eq_concat', lambda: ds.tile(r), lambda: lazy_dataset.concatenate(*([ds] * r)), ('iter', 'len', 'gets'), {'reps': r})
        # tile(r, shuffle=True) is the concatenation of r independently shuffled views (same draws from the global generator)
        gseed = rng.randrange(1 << 31)

        def tile_shuffled():
            np.random.seed(gseed)
            return ds.tile(r, shuffle=True)

        def concat_shuffled():
            np.random.seed(gseed)
            return lazy_dataset.concatenate(*[ds.shuffle() for _ in range(r)]) if r > 1 else ds.shuffle()
        law('tile_shuffle_eq_concat_of_shuffles', tile_shuffled, concat_shuffled, ('iter', 'len', 'gets'), {'reps': r, 'seed': gseed})
        # the same law in front of a per-epoch reshuffle with equally seeded generators (two epochs)
        if n >= 2:
            seed2 = rng.randrange(1 << 30)

            def mk():
                return impl.build(p).shuffle(reshuffle=True, rng=np.random.RandomState(seed2)).map(f)
            # batch(n).unbatch() is the identity also for FROZEN copies of equally seeded reshuffles: one fixed order,
            # the same on both sides, in every pass
            fa, fb = mk().batch(bs).unbatch().copy(freeze=True), mk().copy(freeze=True)
            for pass_ in range(3):
                la, lb = list(fa), list(fb)
                if la != lb:
                    out.append(('batch_unbatch_id_frozen_reshuffle', {'pipeline': p, 'batch_size': bs, 'seed': seed2, 'pass': pass_, 'lhs': la, 'rhs': lb}))
                    break
            A, B = mk(), mk()
            ta, tb = A.tile(r), lazy_dataset.concatenate(*([B] * r))
            for epoch in range(2):
                la, lb = list(ta), list(tb)
                if la != lb:
                    out.append(('tile_eq_concat_reshuffle', {'pipeline': p, 'reps': r, 'seed': seed2, 'epoch': epoch, 'tile': la, 'concat': lb}))
                    break
    return out, p


def run(rep):
    rng = random.Random(rep.seed * 29 + 16)
    n = 200 if rep.tier == 'quick' else 5000
    fails = []
    dist = {}
    distinct = set()
    for _ in range(n):
        f, p = laws(rng)
        fails += f
        distinct.add(json.dumps(p, sort_keys=True))
        for o in G.ops_of(p):
            dist[o] = dist.get(o, 0) + 1
    seen = set()
    for name, det in fails:
        if name not in seen and len(rep.violations) < 5:
            seen.add(name)
            rep.violation({'property': 'C16', 'kind': 'oracle-failure', 'clause': name, 'detail': det})
    rep.coverage.update({
        'evaluations': n * 18, 'programs': n, 'disagreements_checked': n * 18, 'disagreements_found': len(fails),
        'distinct_nontrivial': len(distinct),
        'rule': '18 laws instantiated on random error-free indexable base pipelines (sources, slices, sorts, one-time shuffles, caches, copies) with distinct examples and random parameters; '
                'both sides are built on the implementation and compared on iteration, len, keys, items(), ds[key] for every key and ds[i] for all i in [-n-1, n+1); distinct non-trivial = distinct base pipeline',
        'samples': [{'law': 'map_slice', 'lhs': 'ds.map(f)[s1]', 'rhs': 'ds[s1].map(f)'}, {'law': 'concat_split_id', 'lhs': 'concatenate(*ds.split(k))', 'rhs': 'ds'}],
        'distribution': {'base_stage_kinds': dist}, 'exhaustive': False})
    return rep


def replay(j):
    print(json.dumps(j, indent=1)[:3000])
    return 1

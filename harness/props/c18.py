"""C18 - sorting and grouping reorder without losing or inventing examples."""
import json
import common
import random
import numpy as np
import warnings

import lazy_dataset
import model
import pipefam
import piperun
import oracles
from canon import canon, run_stream, outcome
from fnmenu import Fn


class P(piperun.PipeProperty):
    prop = 'C18'
    fields = ('build', 'iter', 'items', 'keys', 'len')
    required_ops = ('sort',)
    stages = ['map', 'slice', 'concat', 'sort', 'items', 'cache', 'copy', 'shuffleOnce', 'tile', 'filterEager', 'batch']
    weights = {'sort': 6.0}
    n_random = {'quick': 250, 'thorough': 5000}

    def relevant(self, p):
        import gen
        return 'sort' in gen.ops_of(p)

    def oracle(self, p, obs):
        return oracles.c01(p, obs)


def direct_cases(rng, n_cases):
    """sort / groupby on datasets with ties, dict payloads (never comparable) and example keys"""
    out = []
    for _ in range(n_cases):
        n = rng.randint(0, 8)
        vals = [rng.randint(0, 4) for _ in range(n)]
        keys = rng.sample(['a', 'b', 'c', 'd', 'e', 'f', 'g', 'h', 'i', 'j'], n)
        out.append({'vals': vals, 'keys': keys, 'dict': rng.random() < 0.7, 'reverse': rng.random() < 0.5,
                    'mod': rng.choice([2, 3, 5])})
    return out


KEYF = {m: (lambda ex, m=m: ex['v'] % m) for m in (2, 3, 5)}


def direct_oracle(c):
    common.gc_point()
    fails = []
    vals, keys = c['vals'], c['keys']
    # payloads are dicts: comparing two examples raises TypeError, so any comparison of examples shows
    examples = [{'v': v, 'pos': i} for i, v in enumerate(vals)]
    src = dict(zip(keys, examples)) if c['dict'] else examples
    keyf = KEYF[c['mod']]          # the SAME function object for many datasets (sorting must not remember earlier ones)
    with warnings.catch_warnings():
        warnings.simplefilter('ignore')
        ds = lazy_dataset.new(src)
        r = run_stream(lambda: ds.sort(keyf, reverse=c['reverse']), conv=lambda x: x)
        if r['err'] is not None:
            fails.append(('sort_raises', {'err': r['err']}))
        else:
            got = r['vals']
            if sorted(e['pos'] for e in got) != list(range(len(vals))):
                fails.append(('sort_perm', {'got': [e['pos'] for e in got]}))
            ks = [keyf(e) for e in got]
            if ks != sorted(ks, reverse=c['reverse']):
                fails.append(('sort_monotone', {'keys': ks, 'reverse': c['reverse']}))
        if c['dict']:
            it = run_stream(lambda: ds.sort(keyf, reverse=c['reverse']).items(), conv=lambda x: x)
            if it['err'] is None and any(src[k] != e for k, e in it['vals']):
                fails.append(('sort_keys_attached', {'items': [(k, e['pos']) for k, e in it['vals']]}))
            r2 = run_stream(lambda: ds.sort(reverse=c['reverse']).items(), conv=lambda x: x)
            if r2['err'] is not None:
                fails.append(('sort_by_keys_raises', {'err': r2['err']}))
            else:
                got_keys = [k for k, _ in r2['vals']]
                if got_keys != sorted(keys, reverse=c['reverse']):
                    fails.append(('sort_by_dataset_keys', {'got': got_keys, 'want': sorted(keys, reverse=c['reverse'])}))
        # a custom sort function (natural sort) without key function orders the example keys with IT
        if c['dict'] and vals:
            import re as _re

            def natkey(k):
                return [int(t) if t.isdigit() else t for t in _re.split(r'(\d+)', k)]

            def natsorted(seq, reverse=False):
                return sorted(seq, key=natkey, reverse=reverse)
            nk = [f'utt{(i * 7) % 23}' for i in range(len(vals))]
            ds2 = lazy_dataset.new(dict(zip(nk, examples)))
            r3 = run_stream(lambda: ds2.sort(sort_fn=natsorted, reverse=c['reverse']).items(), conv=lambda x: x)
            if r3['err'] is not None or [k for k, _ in r3['vals']] != natsorted(nk, reverse=c['reverse']):
                fails.append(('sort_fn_by_dataset_keys', {'keys': nk, 'got': [k for k, _ in r3['vals']], 'want': natsorted(nk, reverse=c['reverse'])}))
            # a custom sort function together with a key function: it receives what `sorted` would
            # receive (pairs of sort value and running index), so ties keep the examples apart
            def my_sorted(seq, reverse=False):
                return sorted(list(seq), reverse=reverse)
            for dsx in (ds, ds2):
                r4 = run_stream(lambda: dsx.sort(keyf, sort_fn=my_sorted, reverse=c['reverse']), conv=lambda x: x)
                if r4['err'] is not None:
                    fails.append(('sort_fn_with_key_fn_raises', {'err': r4['err']}))
                    continue
                ks4 = [keyf(e) for e in r4['vals']]
                if ks4 != sorted(ks4, reverse=c['reverse']):
                    fails.append(('sort_fn_with_key_fn', {'keys': ks4}))
                if sorted(e['pos'] for e in r4['vals']) != list(range(len(vals))):
                    fails.append(('sort_fn_with_key_fn_perm', {'got': [e['pos'] for e in r4['vals']], 'sort_values': [keyf(e) for e in examples]}))
                ref4 = run_stream(lambda: dsx.sort(keyf, reverse=c['reverse']), conv=lambda x: x)
                if ref4['err'] is None and [e['pos'] for e in ref4['vals']] != [e['pos'] for e in r4['vals']]:
                    fails.append(('sort_fn_equivalent_to_sorted_differs', {'builtin': [e['pos'] for e in ref4['vals']],
                                                                          'custom': [e['pos'] for e in r4['vals']]}))
        # groupby with group ids that are hashable but not ordered among each other
        for nm, gid in (('none_and_int', lambda ex: None if ex['v'] % 3 == 0 else ex['v'] % 3),
                        ('frozenset', lambda ex: frozenset({'A'} if ex['v'] % 2 else {'B'}) | (frozenset({'C'}) if ex['v'] % 3 == 0 else frozenset())),
                        ('str_and_int', lambda ex: str(ex['v'] % 2) if ex['v'] % 4 < 2 else ex['v'] % 2)):
            try:
                gs = ds.groupby(gid)
                got_g = {g: [e['pos'] for e in gds] for g, gds in gs.items()}
            except Exception as e:  # noqa
                if vals:
                    fails.append(('groupby_unordered_ids_raises', {'ids': nm, 'err': repr(e)[:120]}))
                continue
            want_g = {}
            for e in examples:
                want_g.setdefault(gid(e), []).append(e['pos'])
            if got_g != want_g:
                fails.append(('groupby_unordered_ids', {'ids': nm, 'values': vals, 'got': {repr(k): v for k, v in got_g.items()},
                                                        'want': {repr(k): v for k, v in want_g.items()}}))
        # groupby
        try:
            groups = ds.groupby(keyf)
        except Exception as e:  # noqa
            fails.append(('groupby_raises', {'err': repr(e)}))
            groups = {}
        seen = []
        for g, gds in groups.items():
            members = list(gds)
            if any(keyf(e) != g for e in members):
                fails.append(('groupby_wrong_group', {'group': g, 'members': [e['pos'] for e in members]}))
            pos = [e['pos'] for e in members]
            if pos != sorted(pos):
                fails.append(('groupby_order', {'group': g, 'members': pos}))
            seen += pos
            # a group is a dataset of its own: every index of either sign (Python and numpy integers) addresses ITS
            # examples, everything outside [-len, len) is refused
            m = len(members)
            for i in range(-m - 2, m + 2):
                for typ in (int, np.int64):
                    try:
                        got = gds[typ(i)]
                    except IndexError:
                        got = IndexError
                    except Exception as e:  # noqa
                        got = repr(e)[:80]
                    want = members[i] if -m <= i < m else IndexError
                    if got is not want and got != want:
                        fails.append(('group_index', {'group': repr(g), 'len': m, 'index': i, 'index_type': typ.__name__,
                                                      'got': repr(got)[:120], 'want': repr(want)[:120]}))
                        break
        if groups and sorted(seen) != list(range(len(vals))):
            fails.append(('groupby_partition', {'members': seen}))
        if not groups and vals:
            fails.append(('groupby_partition', {'members': []}))
    return fails


def groupby_requests(rng, n_cases):
    reqs = []
    for _ in range(n_cases):
        n = rng.randint(0, 7)
        vals = [rng.randint(0, 9) for _ in range(n)]
        if rng.random() < 0.6:
            keys = rng.sample(['a', 'b', 'c', 'd', 'e', 'f', 'g', 'h'], n)
            p = {'op': 'dict', 'kvs': [[k, v] for k, v in zip(keys, vals)]}
        else:
            p = {'op': 'list', 'xs': vals}
        f = rng.choice([{'fn': 'keyMod', 'm': rng.choice([2, 3])}, {'fn': 'strOf'}, {'fn': 'identity'}])
        reqs.append({'fam': 'groupby', 'p': p, 'f': f})
    return reqs


def groupby_impl(req):
    common.gc_point()
    import impl
    with warnings.catch_warnings():
        warnings.simplefilter('ignore')
        ds = impl.build(req['p'])
        try:
            groups = ds.groupby(Fn(req['f']))
        except Exception as e:  # noqa
            from fnmenu import exc_name
            return {'build': 'ok', 'groupby': exc_name(e)}
        return {'build': 'ok', 'groupby': 'ok',
                'groups': [[canon(g), run_stream(lambda: gd), outcome(lambda: list(gd.keys()))] for g, gd in groups.items()]}


def run(rep):
    piperun.run(P(), rep)
    rng = random.Random(rep.seed + 18)
    n = 300 if rep.tier == 'quick' else 6000
    cases = direct_cases(rng, n)
    seen = set()
    nf = 0
    for c in cases:
        for cl, det in direct_oracle(c):
            nf += 1
            if cl not in seen and len(rep.violations) < 4:
                seen.add(cl)
                rep.violation({'property': 'C18', 'kind': 'oracle-failure', 'clause': cl, 'detail': det, 'case': c})
    greqs = groupby_requests(rng, n // 2)
    gimpl = [groupby_impl(r) for r in greqs]
    gmodel = model.ask(greqs)
    gdis = [(r, a, b) for r, a, b in zip(greqs, gimpl, gmodel) if a != b]
    if gdis and not rep.violations:
        r, a, b = gdis[0]
        rep.violation({'property': 'C18', 'kind': 'correspondence',
                       'what_no_longer_checks': 'family `groupby`: mkGroupBy/groupIndices of lean/LazyDs/Model/Stage.lean versus Dataset.groupby',
                       'request': r, 'implementation': a, 'model': b}, no_input=True)
    rep.coverage['sort_groupby_direct_cases'] = n
    rep.coverage['groupby_correspondence_cases'] = len(greqs)
    rep.coverage['groupby_disagreements'] = len(gdis)
    rep.coverage['direct_oracle_failures'] = nf
    return rep


def replay(j):
    if 'case' in j:
        fails = direct_oracle(j['case'])
        print(json.dumps({'case': j['case'], 'oracle_failures_now': fails}, indent=1, default=str))
        if fails:
            print('VIOLATION property=C18 replay=(replayed)')
            return 1
        return 0
    return piperun.replay(P(), j)

"""C01 - iterating a pipeline equals the eager reference semantics, repeatably."""
import oracles
import piperun


class P(piperun.PipeProperty):
    prop = 'C01'
    fields = ('build', 'iter', 'items')
    required_ops = ('map', 'filterLazy', 'filterEager', 'slice', 'concat', 'intersperse', 'zip', 'keyZip',
                    'batch', 'unbatch', 'items', 'tile', 'shuffleOnce', 'sort', 'shard', 'cache', 'catch',
                    'copy', 'prefetch')

    views = ('direct', 'direct', 'copy', 'direct', 'freeze', 'direct', 'profiled', 'direct', 'lazy_apply', 'direct', 'direct')
    source_modes = ('pickle', 'pickle', 'wu', 'copy', 'pickle', 'from', 'from_dataset')

    def oracle(self, p, obs):
        return oracles.c01(p, obs)


def run(rep):
    return piperun.run(P(), rep)


def replay(j):
    return piperun.replay(P(), j)

"""C07 - decided on the two concurrent protocols (see concrun.py), plus the degenerate buffer sizes: a
configuration with buffer_size < 1 (or below the worker count) is either refused or honours the bound; it
never becomes an unbounded queue."""
import time
import warnings

import common
import concrun

WHICH = ('C07',)
N_ITEMS = 80


def degenerate_case(kind, w, b):
    """real threads, a consumer that reads one example and then pauses: the bound is an upper bound at every
    moment, so the pause only decides how much of an unbounded read-ahead becomes visible"""
    import lazy_dataset
    from lazy_dataset import parallel_utils as PU
    common.gc_point()
    pulled = []

    def load(x):
        pulled.append(x)
        return x

    def gen():
        for i in range(N_ITEMS):
            pulled.append(i)
            yield i
    it = None
    try:
        with warnings.catch_warnings():
            warnings.simplefilter('ignore')
            base = lazy_dataset.new(list(range(N_ITEMS))).map(load)
            if kind == 'stp_direct':
                it = PU.single_thread_prefetch(gen(), b)
            elif kind == 'lpm_direct':
                it = PU.lazy_parallel_map(lambda x: x, gen(), buffer_size=b, max_workers=w, backend='t')
            elif kind == 'prefetch':
                it = iter(base.prefetch(w, b))
            elif kind == 'prefetch_copy':
                it = iter(base.prefetch(w, b).copy(freeze=True))
            elif kind == 'parmap':
                it = iter(base.map(lambda x: x, num_workers=w, buffer_size=b))
            else:
                it = iter(base.batch(1).batch_map(lambda x: x, num_workers=w, buffer_size=b))
            next(it)
    except (AssertionError, ValueError) as e:
        return None, 'refused: ' + type(e).__name__
    except BaseException as e:  # noqa
        return ('degenerate_buffer_unexpected_error', {'kind': kind, 'workers': w, 'buffer': b, 'error': repr(e)[:200]}), 'error'
    time.sleep(0.12)
    ahead = len(pulled) - 1
    try:
        it.close()
    except BaseException:  # noqa
        pass
    if ahead > max(b, 0) + 2:
        return ('accepted_buffer_size_reads_ahead_without_bound',
                {'kind': kind, 'workers': w, 'buffer': b, 'pulled_beyond_delivered': ahead, 'allowed': max(b, 0) + 2, 'dataset_length': N_ITEMS}), 'accepted'
    return None, 'accepted'


def run(rep):
    concrun.run(rep, 'C07', WHICH)
    outcomes = {}
    fails = []
    for kind in ('stp_direct', 'lpm_direct', 'prefetch', 'prefetch_copy', 'parmap', 'batchmap'):
        for w in ((1,) if kind == 'stp_direct' else (1, 2, 3)):
            for b in sorted(set([-1, 0] + list(range(1, w)) + [w, w + 1])):
                f, what = degenerate_case(kind, w, b)
                outcomes[f'{kind} w={w} b={b}'] = what
                if f:
                    fails.append(f)
    seen = set()
    for cl, det in fails:
        if (cl, det['kind']) not in seen and len(rep.violations) < 4:
            seen.add((cl, det['kind']))
            rep.violation({'property': 'C07', 'kind': 'oracle-failure', 'clause': cl, 'detail': det})
    rep.coverage['degenerate_buffer_sizes'] = {'configurations': len(outcomes), 'refused': sum(1 for v in outcomes.values() if v.startswith('refused')),
                                               'accepted_within_bound': sum(1 for v in outcomes.values() if v == 'accepted'), 'failures': len(fails)}
    return rep


def replay(j):
    if str(j.get('clause', '')).startswith(('accepted_buffer_size', 'degenerate_buffer')):
        d = j['detail']
        f, what = degenerate_case(d['kind'], d['workers'], d['buffer'])
        print(what, f)
        return 1 if f else 0
    return concrun.replay('C07', WHICH, j)

"""C07 - decided on the two concurrent protocols (see concrun.py)."""
import concrun

WHICH = ('C07',)


def run(rep):
    return concrun.run(rep, 'C07', WHICH)


def replay(j):
    return concrun.replay('C07', WHICH, j)

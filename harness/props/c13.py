"""C13 - explicit seeds reproduce orders; frozen copies stay frozen; copies are faithful."""
import json
import common
import random
import warnings

import numpy as np
import lazy_dataset
import lazy_dataset.core as core
import model

MEMO = {'_keys', '_permutation'}   # derived data / iteration state, not configuration
INPUTS = {'input_dataset', 'input_datasets'}


def build_zoo(rng):
    """one object of every Dataset class with NON-default parameters"""
    r1 = np.random.RandomState(rng.randrange(1 << 30))
    r2 = np.random.RandomState(rng.randrange(1 << 30))
    f = lambda x: x                         # noqa
    p = lambda x: True                      # noqa
    base = lazy_dataset.new({f'k{i}': i for i in range(6)})
    lst = lazy_dataset.new(list(range(6)))
    zoo = {
        'DictDataset': core.DictDataset({'a': 1, 'b': 2}, name='nm'),
        'ListDataset': core.ListDataset([1, 2, 3], name='nm'),
        'MapDataset': base.map(f),
        'ParMapDataset': base.map(f, num_workers=2, buffer_size=7, backend='thread'),
        'CatchExceptionDataset': base.catch((ValueError, KeyError), warn=True),
        'PrefetchDataset': base.prefetch(2, 5, backend='thread', catch_filter_exception=(ValueError,)),
        'ReShuffleDataset': base.shuffle(reshuffle=True, rng=r1),
        'LocalShuffleDataset': base.shuffle(reshuffle=True, buffer_size=3, rng=r2),
        'SliceDataset': base[1:4],
        'FilterDataset': base.filter(p),
        'ConcatenateDataset': base.concatenate(lst),
        'IntersperseDataset': base.intersperse(lst),
        'ZipDataset': base.zip(lst),
        'KeyZipDataset': base.key_zip(base.map(f)),
        'ItemsDataset': base.items(),
        'BatchDataset': base.batch(4, drop_last=True),
        'UnbatchDataset': base.batch(2).unbatch(),
        'DynamicBucketDataset': base.batch_dynamic_time_series_bucket(3, lambda x: 5, 0.2, max_total_size=40, expiration=9,
                                                                      max_buffered_examples=8, drop_incomplete=True,
                                                                      sort_key=lambda x: x, reverse_sort=True),
        'CacheDataset': base.cache(keep_mem_free='1 GB'),
    }
    return zoo


def same_value(a, b):
    if isinstance(a, np.ndarray) or isinstance(b, np.ndarray):
        return isinstance(a, np.ndarray) and isinstance(b, np.ndarray) and a.shape == b.shape and bool((a == b).all())
    if callable(a) or isinstance(a, (np.random.RandomState, core._CacheWrapper)):
        return a is b
    if isinstance(a, core.Dataset):
        return True
    try:
        return a == b
    except Exception:  # noqa
        return a is b


def compare_copy(orig, cp, path, fails):
    if type(orig) is not type(cp):
        fails.append(('copy_changes_class', {'path': path, 'orig': type(orig).__name__, 'copy': type(cp).__name__}))
        return
    vo, vc = vars(orig), vars(cp)
    cls = type(orig).__name__
    for k in sorted(set(vo) | set(vc)):
        if k in MEMO:
            continue
        if k in INPUTS:
            continue
        if k not in vc or k not in vo:
            # class-level defaults (e.g. `_do_cache`) are not configuration
            if k in ('_do_cache',):
                continue
            fails.append(('copy_drops_attribute', {'path': path, 'class': cls, 'attribute': k}))
        elif not same_value(vo[k], vc[k]):
            fails.append(('copy_changes_parameter', {'path': path, 'class': cls, 'attribute': k,
                                                     'orig': repr(vo[k])[:80], 'copy': repr(vc[k])[:80]}))
    if 'input_dataset' in vo and 'input_dataset' in vc:
        compare_copy(vo['input_dataset'], vc['input_dataset'], path + [cls], fails)
    if 'input_datasets' in vo and 'input_datasets' in vc:
        for a, b in zip(vo['input_datasets'], vc['input_datasets']):
            compare_copy(a, b, path + [cls], fails)


def config_attrs(obj):
    return sorted(k for k in vars(obj) if k not in MEMO | INPUTS | {'_do_cache'})


def seeded_pipeline(seed, kind, n):
    common.gc_point()
    base = lazy_dataset.new({f'k{i}': i for i in range(n)})
    rs = np.random.RandomState(seed)
    if kind == 'reshuffle':
        return base.shuffle(reshuffle=True, rng=rs)
    if kind == 'local':
        return base.shuffle(reshuffle=True, buffer_size=3, rng=rs)
    if kind == 'reshuffle_map_batch':
        return base.shuffle(reshuffle=True, rng=rs).map(lambda x: x + 1).batch(2)
    if kind == 'reshuffle_tile':
        return base.shuffle(reshuffle=True, rng=rs).tile(2)
    if kind == 'reshuffle_self_concat':
        x = base.shuffle(reshuffle=True, rng=rs).map(lambda v: v)
        return lazy_dataset.concatenate(x, x, x)
    if kind.startswith('via_'):
        # a per-epoch reshuffle below each kind of stage: freeze / seeds must travel through every stage class
        x = base.shuffle(reshuffle=True, rng=rs)
        st = kind[4:]
        if st == 'unbatch':
            return x.map(lambda v: [v, v + 100]).unbatch()
        if st == 'filter':
            return x.filter(lambda v: v % 3 != 0)
        if st == 'batch_drop':
            return x.batch(2, drop_last=True)
        if st == 'items':
            return x.items()
        if st == 'concat':
            return x.concatenate(lazy_dataset.new({f'o{i}': 100 + i for i in range(2)}))
        if st == 'zip':
            return x.map(lambda v: v).zip(lazy_dataset.new(list(range(n))))
        if st == 'profiled':
            return lazy_dataset.core.ProfilingDataset(x.map(lambda v: v))
        if st == 'local_after':
            return x.map(lambda v: v).shuffle(reshuffle=True, buffer_size=1, rng=np.random.RandomState(seed + 2))
        raise ValueError(kind)
    if kind.startswith('mix_'):
        # a fixed-order input combined with a reshuffling one (either position, method and function style): the
        # combination changes from epoch to epoch, so it is not ordered
        _, comb, pos, style = kind.split('_')
        fixed = lazy_dataset.new({f'f{i}': 100 + i for i in range(n)})
        rnd = base.shuffle(reshuffle=True, rng=rs).map(lambda v: v)
        parts = [rnd, fixed] if pos == 'first' else [fixed, rnd]
        if comb == 'zip':
            return parts[0].zip(parts[1]) if style == 'm' else lazy_dataset.zip(*parts)
        if comb == 'concat':
            return parts[0].concatenate(parts[1]) if style == 'm' else lazy_dataset.concatenate(parts)
        return parts[0].intersperse(parts[1]) if style == 'm' else lazy_dataset.intersperse(*parts)
    if kind == 'apply_shuffle':
        # a lazily applied ONE-TIME shuffle is drawn anew in every epoch
        return base.apply(lambda d: d.shuffle(rng=rs), lazy=True)
    if kind == 'apply_shuffle_batch':
        return base.apply(lambda d: d.shuffle(rng=rs), lazy=True).map(lambda x: x + 1).batch(2)
    if kind == 'apply_choice':
        # a random selection drawn by the applied function itself
        return base.apply(lambda d: d[list(rs.permutation(len(d)))], lazy=True)
    if kind == 'apply_reshuffle':
        # the per-epoch shuffle introduced by a lazily applied function
        return base.apply(lambda d: d.shuffle(reshuffle=True, rng=rs), lazy=True)
    if kind == 'apply_reshuffle_map':
        return base.apply(lambda d: d.shuffle(reshuffle=True, rng=rs), lazy=True).map(lambda x: x + 1)
    if kind == 'two':
        return base.shuffle(reshuffle=True, rng=rs).shuffle(reshuffle=True, buffer_size=2, rng=np.random.RandomState(seed + 1))
    return base.shuffle(rng=rs)


def run(rep):
    rng = random.Random(rep.seed * 41 + 13)
    fails = []
    known_f20 = []
    with warnings.catch_warnings():
        warnings.simplefilter('ignore')
        # (1) copies are faithful, and the model's table of forwarded parameters matches the real classes
        zoo = build_zoo(rng)
        tab = dict(model.ask([{'fam': 'copycfg', 'classes': sorted(zoo)}])[0]['forwarded'])
        disagree = []
        for cls, obj in sorted(zoo.items()):
            real = config_attrs(obj)
            if sorted(tab.get(cls, [])) != [a for a in real] and sorted(set(tab.get(cls, [])) - MEMO) != real:
                disagree.append({'class': cls, 'model_forwards': sorted(tab.get(cls, [])), 'real_configuration_attributes': real})
            compare_copy(obj, obj.copy(), [], fails)
            compare_copy(obj.copy(), obj.copy().copy(), [], fails)
        # random pipelines (pipe generator) copied as a whole
        import gen as G
        import impl
        g = G.Gen(rng, malformed=0.0)
        npipes = 120 if rep.tier == 'quick' else 2500
        built = 0
        for _ in range(npipes):
            p = g.pipeline()
            try:
                ds = impl.build(p)
                cp = ds.copy()
            except Exception:  # noqa
                continue
            built += 1
            compare_copy(ds, cp, [], fails)
        # (2) equal seeds -> equal orders in every epoch, whatever the global numpy state is
        nseed = 40 if rep.tier == 'quick' else 800
        for _ in range(nseed):
            seed = rng.randrange(1 << 30)
            kind = rng.choice(['reshuffle', 'local', 'reshuffle_map_batch', 'two', 'once', 'reshuffle_tile', 'reshuffle_self_concat',
                               'apply_reshuffle', 'apply_reshuffle_map', 'apply_shuffle', 'apply_shuffle_batch', 'apply_choice', 'via_unbatch', 'via_filter', 'via_batch_drop', 'via_items',
                               'via_concat', 'via_zip', 'via_profiled', 'via_local_after'])
            if rng.random() < 0.25:
                kind = 'mix_%s_%s_%s' % (rng.choice(['zip', 'concat', 'intersperse']), rng.choice(['first', 'last']), rng.choice(['m', 'f']))
            n = rng.randint(1, 9)
            a = seeded_pipeline(seed, kind, n)
            b = seeded_pipeline(seed, kind, n)
            c = seeded_pipeline(seed, kind, n).copy()
            d = seeded_pipeline(seed, kind, n).prefetch(1, 2)
            e = seeded_pipeline(seed, kind, n).prefetch(2, 2) if kind not in ('local', 'two', 'apply_reshuffle', 'apply_reshuffle_map', 'apply_shuffle', 'apply_shuffle_batch', 'apply_choice', 'via_unbatch', 'via_filter', 'via_local_after') else None
            fz_src = seeded_pipeline(seed, kind, n) if kind not in ('local', 'two', 'via_local_after') else None
            frozen_hist = []
            a_orders = []
            for epoch in range(3):
                outs = []
                # asking a dataset about itself between the epochs (b only) draws nothing and changes nothing
                for ask in (lambda: b.ordered, lambda: b.indexable, lambda: repr(b), lambda: len(b)):
                    try:
                        ask()
                    except Exception:  # noqa  (a stage may refuse the question)
                        pass
                for ds in (a, b, c, d, e):
                    if ds is None:
                        continue
                    np.random.seed(rng.randrange(1 << 30))       # adversarial global state
                    outs.append([repr(x) for x in ds])
                if fz_src is not None:
                    # a frozen copy taken at the start of the epoch shows that epoch's order (and keeps it)
                    fzc = fz_src.copy(freeze=True)
                    o1 = [repr(x) for x in fzc]
                    if o1 != [repr(x) for x in fzc]:
                        fails.append(('frozen_copy_not_fixed', {'kind': kind, 'seed': seed}))
                    outs.append(o1)
                    # frozen copies of EARLIER epochs, and copies of them, keep their order whatever happened since
                    for e0, (old, order) in enumerate(frozen_hist):
                        for vname, view in (('itself', old), ('copy()', old.copy()), ('copy(freeze=True)', old.copy(freeze=True))):
                            if [repr(x) for x in view] != order:
                                fails.append(('frozen_copy_changed_later', {'kind': kind, 'seed': seed, 'n': n, 'frozen_in_epoch': e0,
                                                                            'observed_in_epoch': epoch, 'view': vname}))
                                break
                    frozen_hist.append((fzc, o1))
                a_orders.append(outs[0])
                bad = [i for i, o in enumerate(outs) if o != outs[0]]
                if bad == [2] and kind in ('reshuffle_tile', 'reshuffle_self_concat'):
                    # known finding F20: copy() gives every occurrence of a repeated object its own copy
                    known_f20.append({'kind': kind, 'seed': seed, 'n': n, 'epoch': epoch})
                elif bad:
                    fails.append(('seed_not_reproducible', {'kind': kind, 'seed': seed, 'n': n, 'epoch': epoch, 'orders': outs}))
                    break
            # a dataset whose order changed from one epoch to the next does not call itself ordered
            if len(a_orders) >= 2 and any(o != a_orders[0] for o in a_orders[1:]):
                flags = []
                for ds in (a, a.copy(), a.map(lambda x: x), a.batch(2), a.prefetch(1, 2), a.catch()):
                    try:
                        flags.append(bool(ds.ordered))
                    except Exception:  # noqa
                        flags.append(None)
                if any(f is True for f in flags):
                    fails.append(('ordered_flag_of_reshuffling_dataset', {'kind': kind, 'seed': seed, 'n': n, 'ordered': flags, 'epoch_orders': a_orders}))
            # one-time shuffle and frozen copy: one fixed order forever; reshuffling datasets report unordered
            once = seeded_pipeline(seed, 'once', n)
            if [list(once) for _ in range(3)] != [list(once)] * 3:
                fails.append(('one_time_shuffle_not_fixed', {'seed': seed}))
            rs = seeded_pipeline(seed, 'reshuffle', n)
            fz = rs.copy(freeze=True)
            if [list(fz) for _ in range(3)] != [list(fz)] * 3:
                fails.append(('frozen_copy_not_fixed', {'seed': seed}))
            if rs.ordered or seeded_pipeline(seed, 'local', n).ordered or rs.map(lambda x: x).batch(2).ordered or not once.ordered:
                fails.append(('ordered_flag', {'seed': seed}))
    if known_f20:
        import common
        fnd = [f for f in common.load_known() if f.get('status') == 'known' and f['id'] == 'F20']
        if fnd:
            rep.known('F20', fnd[0]['what'])
        else:
            fails.append(('copy_of_repeated_reshuffle_differs', known_f20[0]))
    seen = set()
    for cl, det in fails:
        key = (cl, det.get('class'), det.get('attribute'))
        if key not in seen and len(rep.violations) < 5:
            seen.add(key)
            rep.violation({'property': 'C13', 'kind': 'oracle-failure', 'clause': cl, 'detail': det})
    if disagree and not rep.violations:
        rep.violation({'property': 'C13', 'kind': 'correspondence',
                       'what_no_longer_checks': 'family `copycfg`: the table `forwarded` of lean/LazyDs/Model/CopyCfg.lean versus the configuration attributes of the real classes; theorem C13_copy_preserves_cfg is not tied to this code',
                       'differences': disagree, 'searched': 'all classes + random pipelines for a copy that changes a parameter'}, no_input=True)
    rep.coverage.update({
        'evaluations': len(zoo) * 2 + built + nseed * 3, 'programs': len(zoo) + built, 'disagreements_checked': len(zoo),
        'disagreements_found': len(disagree), 'distinct_nontrivial': len(zoo) + built,
        'rule': 'every Dataset class built with non-default parameters, copy() and copy().copy() compared attribute by attribute (functions, generators and cache wrappers by identity, arrays by value) '
                'and against the model table; random pipelines copied as a whole; seeded pipelines (per-epoch reshuffle, local shuffle, compositions, one-time) built twice / copied / behind prefetch, '
                '3 epochs each with the global numpy state reseeded adversarially before every iteration',
        'samples': [{'class': 'LocalShuffleDataset', 'model_forwards': tab.get('LocalShuffleDataset'), 'real': config_attrs(zoo['LocalShuffleDataset'])}],
        'oracle_failures': len(fails), 'exhaustive': False})
    rep.assumptions.append('a seeded numpy RandomState is a deterministic function of its state')
    return rep


def replay(j):
    print(json.dumps(j, indent=1)[:3000])
    return 1

"""C05 - decided on the two concurrent protocols (see concrun.py)."""
import concrun

WHICH = ('C05',)


def run(rep):
    return concrun.run(rep, 'C05', WHICH)


def replay(j):
    return concrun.replay('C05', WHICH, j)

"""C09 - examples handed out are isolated from the stored data.

The model (lean/LazyDs/Model/Heap.lean) predicts, for every history of accesses and in-place
mutations, that an access returns the tree stored at construction (serialising modes: always;
copy mode: as long as the original container is not mutated).  The check executes random
histories on real datasets, mutates what was handed out in every way it can (set item, append,
clear, nested, delete) and compares every later access, by every path, with the pristine snapshot
= the model's prediction."""
import copy
import common
import json
import random
import shutil
import tempfile
import warnings

import numpy as np
import lazy_dataset


def make_example(rng, depth=0):
    r = rng.random()
    if depth >= 3 or r < 0.25:
        if r < 0.04:
            return np.arange(rng.randint(1, 4))            # mutable in place although a "leaf"
        if r < 0.07:
            return set(range(rng.randint(0, 3)))
        return rng.randint(0, 99)
    if r < 0.55:
        return [make_example(rng, depth + 1) for _ in range(rng.randint(0, 3))]
    if r < 0.70:
        # a tuple cannot be re-assigned, but what it holds can be mutated
        return tuple(make_example(rng, depth + 1) for _ in range(rng.randint(1, 3)))
    return {k: make_example(rng, depth + 1) for k in rng.sample(['x', 'y', 'z', 'w'], rng.randint(0, 3))}


def containers(obj, out):
    """every mutable container reachable from `obj` (through tuples as well)"""
    if isinstance(obj, list):
        out.append(obj)
        for v in obj:
            containers(v, out)
    elif isinstance(obj, dict):
        out.append(obj)
        for v in obj.values():
            containers(v, out)
    elif isinstance(obj, tuple):
        for v in obj:
            containers(v, out)
    elif isinstance(obj, (np.ndarray, set)):
        out.append(obj)
    return out


def deq(a, b):
    """deep equality that also compares arrays element-wise and insists on equal container types"""
    if isinstance(a, np.ndarray) or isinstance(b, np.ndarray):
        return isinstance(a, np.ndarray) and isinstance(b, np.ndarray) and a.shape == b.shape and bool((a == b).all())
    if type(a) is not type(b):
        return False
    if isinstance(a, (list, tuple)):
        return len(a) == len(b) and all(deq(x, y) for x, y in zip(a, b))
    if isinstance(a, dict):
        return list(a) == list(b) and all(deq(a[k], b[k]) for k in a)
    return a == b


def mutate(rng, obj):
    """mutate a handed-out object in place, somewhere inside it; returns a description"""
    cs = containers(obj, [])
    if not cs:
        return None
    c = rng.choice(cs)
    how = rng.choice(['set', 'append', 'clear', 'del', 'nest'])
    if isinstance(c, np.ndarray):
        c[rng.randrange(len(c))] = -77
        return 'array-set'
    if isinstance(c, set):
        c.add('MUTATED')
        return 'set-add'
    if isinstance(c, list):
        if how == 'set' and c:
            c[rng.randrange(len(c))] = 'MUTATED'
        elif how == 'clear':
            c.clear()
        elif how == 'del' and c:
            del c[rng.randrange(len(c))]
        elif how == 'nest':
            c.append({'evil': [1, 2, 3]})
        else:
            c.append('MUTATED')
    else:
        if how == 'set' and c:
            c[rng.choice(list(c))] = 'MUTATED'
        elif how == 'clear':
            c.clear()
        elif how == 'del' and c:
            del c[rng.choice(list(c))]
        elif how == 'nest':
            c['evil'] = {'deep': ['MUTATED']}
        else:
            c['new'] = 'MUTATED'
    return how


def access(rng, ds, n, keys, threads=True):
    """one access by a random path: returns [(position, object)]"""
    how = rng.choice(['int', 'neg', 'iter', 'slice', 'items', 'key', 'copy', 'prefetch'] if threads else
                     ['int', 'neg', 'iter', 'slice', 'items', 'key', 'key', 'copy'])
    if n == 0:
        return 'iter', [(i, v) for i, v in enumerate(ds)]
    if how == 'int':
        i = rng.randrange(n)
        return how, [(i, ds[i])]
    if how == 'neg':
        i = rng.randrange(n)
        return how, [(i, ds[i - n])]
    if how == 'slice':
        a = rng.randrange(n)
        return how, [(a + j, v) for j, v in enumerate(ds[a:])]
    if how == 'key' and keys:
        i = rng.randrange(n)
        return how, [(i, ds[keys[i]])]
    if how == 'items' and keys:
        return how, [(i, kv[1]) for i, kv in enumerate(ds.items())]
    if how == 'copy':
        return how, [(i, v) for i, v in enumerate(ds.copy())]
    if how == 'prefetch':
        return how, [(i, v) for i, v in enumerate(ds.prefetch(2, 2))]
    return 'iter', [(i, v) for i, v in enumerate(ds)]


def one_history(rng, mode, tmpdirs):
    common.gc_point()
    n = rng.randint(0, 5)
    examples = [make_example(rng) for _ in range(n)]
    keyed = rng.random() < 0.5 and mode != 'wu'
    keys = [f'k{i}' for i in range(n)] if keyed else None
    original = dict(zip(keys, examples)) if keyed else list(examples)
    pristine = copy.deepcopy(examples)
    fails = []
    steps = []
    with warnings.catch_warnings():
        warnings.simplefilter('ignore')
        base_mode = {'cache': 'pickle', 'diskcache': 'pickle', 'cache_over_map': 'pickle'}.get(mode, mode)
        if mode in ('cache_over_table', 'diskcache_over_table'):
            # an upstream that does NOT isolate (it hands out the objects of an in-memory table): whatever
            # goes through the cache must be isolated by the cache itself, on every access path
            idx = {k: i for i, k in enumerate(keys)} if keyed else list(range(n))
            ds = lazy_dataset.new(idx).map(lambda i: examples[i])
            if mode == 'cache_over_table':
                ds = ds.cache(keep_mem_free='1 MB')
            else:
                d = tempfile.mkdtemp(prefix='verif_c09_')
                tmpdirs.append(d)
                ds = ds.diskcache(cache_dir=d + '/c', reuse=False, clear=True)
        else:
            ds = lazy_dataset.new(original, immutable_warranty=base_mode)
        if mode == 'cache':
            ds = ds.cache()
        elif mode == 'cache_over_map':
            ds = ds.map(lambda x: x).cache()
        elif mode == 'diskcache':
            d = tempfile.mkdtemp(prefix='verif_c09_')
            tmpdirs.append(d)
            ds = ds.diskcache(cache_dir=d + '/c', reuse=False, clear=True)
        handed = []
        live = []          # iterators in flight: (kind, iterator, position)
        for _ in range(rng.randint(3, 14)):
            act = rng.choice(['access', 'access', 'mutate', 'mutate_original', 'cycle_run', 'live_start', 'live_start', 'live_next', 'live_next', 'live_next', 'live_next'])
            if act == 'cycle_run' and n:
                # ds.cycle() runs the pipeline again in every pass ("itertools.cycle without caching"): what it hands out in
                # a later pass is as pristine as in the first, whatever was done to the objects of earlier passes
                kind = rng.choice(['cycle', 'cycle', 'cycle_items', 'items_cycle'] if keys else ['cycle'])
                it = iter({'cycle': lambda: ds.cycle(), 'cycle_items': lambda: ds.cycle().items(), 'items_cycle': lambda: ds.items().cycle()}[kind]())
                steps.append(('cycle_run', kind))
                for t in range(rng.randint(n + 1, 3 * n)):
                    obj = next(it)
                    if kind != 'cycle':
                        obj = obj[1]
                    if not deq(obj, pristine[t % n]):
                        fails.append(('handed_out_differs_from_stored', {'mode': mode, 'path': kind, 'position': t % n, 'pass': t // n,
                                                                          'got': repr(obj)[:200], 'stored': repr(pristine[t % n])[:200],
                                                                          'steps': steps[:]}))
                        break
                    handed.append(obj)
                    if rng.random() < 0.7:
                        steps.append(('mutate_just_received', mutate(rng, obj)))
                del it
                continue
            if act == 'cycle_run':
                act = 'access'
            if act == 'live_start' and n:
                kind = rng.choice(['iter', 'items', 'prefetch1', 'copy_iter', 'selection_items', 'selection_iter'] if keys else ['iter', 'prefetch1', 'copy_iter', 'selection_iter'])
                if kind == 'prefetch1' and mode.endswith('_over_table'):
                    kind = 'iter'       # (two threads missing the cache at once both receive the upstream's own object)
                posmap = None
                if kind.startswith('selection'):
                    # a selection that names positions several times, also next to each other: every pair / example
                    # handed out is an object of its own
                    posmap = [rng.randrange(n) for _ in range(rng.randint(1, 3))]
                    posmap = [p for p in posmap for _ in range(rng.choice([1, 2, 2, 3]))]
                    sel = ds[np.array(posmap)] if rng.random() < 0.5 else ds[list(posmap)]
                    it = iter(sel.items()) if kind == 'selection_items' else iter(sel)
                else:
                    it = {'iter': lambda: iter(ds), 'items': lambda: iter(ds.items()), 'prefetch1': lambda: iter(ds.prefetch(1, 1)),
                          'copy_iter': lambda: iter(ds.copy())}[kind]()
                live.append([kind, it, 0, posmap])
                steps.append(('start_iterator', kind))
                continue
            if act == 'live_next' and live:
                ent = rng.choice(live)
                try:
                    obj = next(ent[1])
                except StopIteration:
                    live.remove(ent)
                    continue
                if ent[0] in ('items', 'selection_items'):
                    obj = obj[1]
                pos = ent[3][ent[2]] if ent[3] is not None else ent[2]
                steps.append(('next', ent[0], ent[2]) if ent[3] is None else ('next', ent[0], ent[2], 'selection', ent[3]))
                if not deq(obj, pristine[pos]):
                    fails.append(('handed_out_differs_from_stored', {'mode': mode, 'path': 'live ' + ent[0], 'position': pos,
                                                                      'got': repr(obj)[:200], 'stored': repr(pristine[pos])[:200],
                                                                      'steps': steps[:]}))
                handed.append(obj)
                ent[2] += 1
                # mutate what was just received while the iterator is suspended (e.g. inside a for-loop body)
                if rng.random() < 0.6:
                    steps.append(('mutate_just_received', mutate(rng, obj)))
                continue
            if act in ('live_start', 'live_next'):
                act = 'access'
            if act == 'access' or not handed:
                how, got = access(rng, ds, n, keys, threads=not mode.endswith('_over_table'))
                steps.append(('access', how))
                for pos, obj in got:
                    if not deq(obj, pristine[pos]):
                        fails.append(('handed_out_differs_from_stored', {'mode': mode, 'path': how, 'position': pos,
                                                                          'got': repr(obj)[:200], 'stored': repr(pristine[pos])[:200],
                                                                          'steps': steps[:]}))
                    handed.append(obj)
            elif act == 'mutate':
                steps.append(('mutate_handed_out', mutate(rng, rng.choice(handed))))
            elif mode in ('pickle', 'wu', 'cache', 'diskcache', 'cache_over_map'):
                # serialising modes: mutating the ORIGINAL container after construction has no effect either
                if n:
                    steps.append(('mutate_original', mutate(rng, examples[rng.randrange(n)])))
                    if keyed and rng.random() < 0.3:
                        original['extra'] = 'MUTATED'
                        del original['extra']
    return fails, len(steps), mode


def run(rep):
    rng = random.Random(rep.seed * 23 + 9)
    nh = 2000 if rep.tier == 'quick' else 30000
    modes = ['pickle', 'copy', 'wu', 'cache', 'cache_over_map', 'diskcache', 'cache_over_table', 'diskcache_over_table']
    tmpdirs = []
    fails = []
    dist = {m: 0 for m in modes}
    steps_total = 0
    distinct = 0
    with warnings.catch_warnings():
        warnings.simplefilter('ignore')
        # some other cache of this process runs into its memory limit first: that must stay its own business
        decoy = lazy_dataset.new([1, 2, 3]).cache(keep_mem_free='1000000 TB')
        list(decoy)
    try:
        for i in range(nh):
            mode = modes[i % len(modes)] if i % 13 else rng.choice(modes)
            if mode.startswith('diskcache') and i % 4:
                mode = 'pickle' if mode == 'diskcache' else 'cache_over_table'
            f, ns, mode = one_history(rng, mode, tmpdirs)
            dist[mode] += 1
            steps_total += ns
            distinct += 1 if ns >= 3 else 0
            fails += f
    finally:
        import gc
        gc.collect()
        for d in tmpdirs:
            shutil.rmtree(d, ignore_errors=True)
    seen = set()
    for cl, det in fails:
        key = (cl, det['mode'])
        if key not in seen and len(rep.violations) < 4:
            seen.add(key)
            rep.violation({'property': 'C09', 'kind': 'oracle-failure', 'clause': cl, 'detail': det,
                           'model_prediction': 'the stored tree (C09_isolated_serialising / C09_isolated_copy)'})
    rep.coverage.update({
        'evaluations': nh, 'distinct_nontrivial': distinct, 'programs': nh, 'disagreements_checked': nh,
        'disagreements_found': len(fails),
        'rule': 'random histories on nested dict/list examples: accesses by index of either sign, slice, key, iteration, items(), copy(), thread prefetch; '
                'in-place mutations (set item, append, clear, delete, nested insert) of anything handed out earlier and, in the serialising modes and caches, of the original container; '
                'every handed-out object is deep-compared with the pristine snapshot (= what the Lean model predicts); distinct non-trivial = history with >= 3 steps',
        'samples': [{'mode': 'pickle', 'history': ['access int', 'mutate_handed_out append', 'access iter'], 'expected': 'every access equals the stored examples'}],
        'distribution': dist, 'steps': steps_total, 'exhaustive': False})
    rep.assumptions.append('pickle.loads(pickle.dumps(x)) and deepcopy(x) produce fresh object graphs equal to x for nested dict/list/int examples')
    return rep


def replay(j):
    print(json.dumps(j, indent=1)[:3000])
    return 1

"""C02 - length and integer indexing agree with iteration."""
import gen as G
import oracles
import piperun


class P(piperun.PipeProperty):
    prop = 'C02'
    fields = ('build', 'indexable', 'len', 'iter', 'gets')
    required_ops = ('slice', 'concat', 'intersperse', 'zip', 'keyZip', 'batch', 'items', 'tile', 'shard', 'cache')

    def relevant(self, p):
        return p['op'] != 'cycle'

    views = ('direct', 'direct', 'copy', 'direct', 'freeze', 'direct', 'profiled', 'direct', 'direct', 'direct', 'direct')
    source_modes = ('pickle', 'pickle', 'wu', 'copy', 'pickle', 'from', 'from_dataset')

    def oracle(self, p, obs):
        return oracles.c02(p, obs)

    def known(self, p, obs, clause, detail, findings):
        # F18: an items() view over an input whose key table is refused (duplicate keys / a part without keys):
        # indexable, iterates, but items()[i] raises what keys() raises - also when further stages sit on top
        got = detail.get('got', {})
        if clause in ('getitem_eq_iter', 'out_of_range_IndexError', 'getitem_eq_ref') and 'err' in got \
                and got['err'] in ('AssertionError', 'NotImplementedError') and has_f18(p):
            return 'F18' if any(f['id'] == 'F18' for f in findings) else None
        return None


def has_f18(p):
    import pyref
    if p['op'] == 'items':
        try:
            rf = pyref.ref(p['p'])
            if rf.indexable and not rf.keys_api:
                return True
        except Exception:  # noqa
            return True
    if 'p' in p and has_f18(p['p']):
        return True
    return any(has_f18(q) for q in p.get('ps', []))


def sized_not_indexable(rep):
    """the stages that offer a length without integer indexing and are outside the pipeline family of the model (per-epoch
    reshuffles, local shuffles with a buffer) and what is stacked on them: `len(ds)`, when offered, is the number of examples
    every iteration yields (Lean: RefWF.len is stated for any dataset that offers a length)"""
    import random
    import warnings
    import numpy as np
    import lazy_dataset
    from canon import outcome
    rng = random.Random(rep.seed * 7919 + 2)
    cases = 0
    fail = None
    with warnings.catch_warnings():
        warnings.simplefilter('ignore')
        for n in range(0, 8 if rep.tier == 'quick' else 14):
            for b in (None, 1, 2, 3, 4, 100):
                for keyed in (False, True):
                    src = {f'k{i}': 10 * i for i in range(n)} if keyed else [10 * i for i in range(n)]
                    for top in ('plain', 'map', 'batch2', 'batch3_drop', 'prefetch', 'items', 'filter_len'):
                        if top == 'items' and not keyed:
                            continue

                        def mk():
                            ds = lazy_dataset.new(src)
                            if rng.random() < 0.3:
                                ds = ds[::-1]
                            seed = rng.randrange(1 << 30)
                            ds = ds.shuffle(True, rng=np.random.RandomState(seed)) if b is None else \
                                ds.shuffle(True, rng=np.random.RandomState(seed), buffer_size=b)
                            return {'plain': lambda d: d, 'map': lambda d: d.map(lambda x: x + 1), 'batch2': lambda d: d.batch(2),
                                    'batch3_drop': lambda d: d.batch(3, drop_last=True), 'prefetch': lambda d: d.prefetch(1, 2),
                                    'items': lambda d: d.items(), 'filter_len': lambda d: d.map(lambda x: x).map(lambda x: x)}[top](ds)
                        ds = mk()
                        ln = outcome(lambda: len(ds))
                        cases += 1
                        if 'ok' not in ln:
                            continue
                        for epoch in range(2):
                            got = outcome(lambda: list(ds), lambda x: x)
                            if ('ok' not in got or len(got['ok']) != ln['ok']) and fail is None:
                                fail = {'n': n, 'keyed': keyed, 'buffer_size': b, 'stacked': top, 'len': ln['ok'], 'epoch': epoch,
                                        'iteration': got}
    if fail:
        rep.violation({'property': 'C02', 'kind': 'oracle-failure', 'clause': 'len_eq_count_sized_not_indexable', 'detail': fail})
    rep.coverage['sized_not_indexable_cases'] = cases
    return rep


def run(rep):
    rep = piperun.run(P(), rep)
    return sized_not_indexable(rep)


def replay(j):
    if j.get('clause') == 'len_eq_count_sized_not_indexable':
        import json
        print(json.dumps(j, indent=1)[:3000])
        return 1
    return piperun.replay(P(), j)

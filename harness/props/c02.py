"""C02 - length and integer indexing agree with iteration."""
import gen as G
import oracles
import piperun


class P(piperun.PipeProperty):
    prop = 'C02'
    fields = ('build', 'indexable', 'len', 'iter', 'gets')
    required_ops = ('slice', 'concat', 'intersperse', 'zip', 'keyZip', 'batch', 'items', 'tile', 'shard', 'cache')

    def relevant(self, p):
        return p['op'] != 'cycle'

    source_modes = ('pickle', 'pickle', 'wu', 'copy')

    def oracle(self, p, obs):
        return oracles.c02(p, obs)

    def known(self, p, obs, clause, detail, findings):
        # F18: items() view whose key table is refused: ds[i] raises what ds.keys() raises
        got = detail.get('got', {})
        if clause in ('getitem_eq_iter', 'out_of_range_IndexError') and 'items' in G.ops_of(p) \
                and 'err' in got and obs['keys'] == {'err': got['err']} \
                and got['err'] in ('AssertionError', 'NotImplementedError'):
            return 'F18' if any(f['id'] == 'F18' for f in findings) else None
        return None


def run(rep):
    return piperun.run(P(), rep)


def replay(j):
    return piperun.replay(P(), j)

"""C02 - length and integer indexing agree with iteration."""
import gen as G
import oracles
import piperun


class P(piperun.PipeProperty):
    prop = 'C02'
    fields = ('build', 'indexable', 'len', 'iter', 'gets')
    required_ops = ('slice', 'concat', 'intersperse', 'zip', 'keyZip', 'batch', 'items', 'tile', 'shard', 'cache')

    def relevant(self, p):
        return p['op'] != 'cycle'

    views = ('direct', 'direct', 'copy', 'direct', 'freeze', 'direct', 'profiled', 'direct', 'direct', 'direct', 'direct')
    source_modes = ('pickle', 'pickle', 'wu', 'copy', 'pickle', 'from', 'from_dataset')

    def oracle(self, p, obs):
        return oracles.c02(p, obs)

    def known(self, p, obs, clause, detail, findings):
        # F18: an items() view over an input whose key table is refused (duplicate keys / a part without keys):
        # indexable, iterates, but items()[i] raises what keys() raises - also when further stages sit on top
        got = detail.get('got', {})
        if clause in ('getitem_eq_iter', 'out_of_range_IndexError', 'getitem_eq_ref') and 'err' in got \
                and got['err'] in ('AssertionError', 'NotImplementedError') and has_f18(p):
            return 'F18' if any(f['id'] == 'F18' for f in findings) else None
        return None


def has_f18(p):
    import pyref
    if p['op'] == 'items':
        try:
            rf = pyref.ref(p['p'])
            if rf.indexable and not rf.keys_api:
                return True
        except Exception:  # noqa
            return True
    if 'p' in p and has_f18(p['p']):
        return True
    return any(has_f18(q) for q in p.get('ps', []))


def run(rep):
    return piperun.run(P(), rep)


def replay(j):
    return piperun.replay(P(), j)

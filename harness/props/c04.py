"""C04 - decided on the two concurrent protocols (see concrun.py), plus dataset-level histories of the
prefetching stages: several iterations of ONE dataset object, consecutively and in flight at the same
time (also over a per-epoch reshuffle, where every iteration has its own order), each compared with
what it must deliver."""
import random
import warnings

import numpy as np

import common
import concrun

WHICH = ('C04',)


def inflight_cases(rng):
    import lazy_dataset
    common.gc_point()
    fails = []
    n = rng.randint(2, 12)
    w, b = rng.choice([(1, 1), (1, 3), (2, 2), (2, 4), (3, 3), (3, 5)])
    seed = rng.randrange(1 << 30)
    kind = rng.choice(['prefetch', 'prefetch', 'parmap'])
    # only the multi-worker prefetch freezes its input per iteration; a reshuffle iterated directly by two
    # iterators at once is the known finding F10 (C12), not a matter of the prefetching stage
    reshuffle = rng.random() < 0.7 and kind == 'prefetch' and w >= 2
    keyed = rng.random() < 0.3

    def f(x):
        return ('f', x)
    # examples are arbitrary values: None and the other falsy ones are examples like any other (not end markers)
    vals = list(range(n))
    if rng.random() < 0.5:
        for _ in range(rng.choice([1, 1, 2, 3])):
            vals[rng.randrange(n)] = rng.choice([None, None, None, 0, '', (), False, [], {}])
    src = {f'k{j}': v for j, v in enumerate(vals)} if keyed else list(vals)
    with warnings.catch_warnings():
        warnings.simplefilter('ignore')
        base = lazy_dataset.new(src)
        if reshuffle:
            base = base.shuffle(reshuffle=True, rng=np.random.RandomState(seed))
        ds = base.map(f).prefetch(w, b) if kind == 'prefetch' else base.map(f, num_workers=w, buffer_size=b)
        want = sorted((f(x) for x in vals), key=repr)
        k = rng.randrange(0, n)
        its = [iter(ds)]
        got = [[], []]
        try:
            for _ in range(k):
                got[0].append(next(its[0]))
            its.append(iter(ds))                    # a second iteration of the same object, the first still in flight
            order = [rng.randrange(2) for _ in range(4 * n)]
            alive = [True, True]
            for who in order + [0] * (2 * n) + [1] * (2 * n):
                if not alive[who]:
                    continue
                try:
                    got[who].append(next(its[who]))
                except StopIteration:
                    alive[who] = False
        except Exception as e:  # noqa
            fails.append(('iteration_in_flight_raises', {'kind': kind, 'n': n, 'workers': w, 'buffer': b, 'reshuffle': reshuffle, 'err': repr(e)[:200]}))
            return fails
        if keyed:
            # the keyed view: prefetching stages deliver the (key, example) pairs of the sequential pipeline
            plain = lazy_dataset.new(src).map(f)
            want_items = list(plain.items())
            for nm, mk in (('prefetch(1, b).items()', lambda: plain.prefetch(1, b).items()),
                           ('map(f, num_workers).items()', lambda: lazy_dataset.new(src).map(f, num_workers=w, buffer_size=b).items()),
                           ('prefetch(1, b).map(id).items()', lambda: plain.prefetch(1, b).map(lambda x: x).items())):
                try:
                    gi = list(mk())
                except Exception as e:  # noqa
                    gi = repr(e)[:120]
                if gi != want_items:
                    fails.append(('items_not_transparent', {'kind': nm, 'n': n, 'workers': w, 'buffer': b, 'delivered': gi, 'expected': want_items}))
                    break
        if keyed and rng.random() < 0.6:
            # the keyed view of a parallel map over a per-epoch reshuffle: every epoch delivers the (key, example)
            # pairs of the equally seeded sequential pipeline (one pass over the input per epoch, keys and examples
            # from the same pass)
            seed2 = rng.randrange(1 << 30)

            def mkbase():
                return lazy_dataset.new(src).shuffle(reshuffle=True, rng=np.random.RandomState(seed2))
            par, seq = mkbase().map(f, num_workers=w, buffer_size=b), mkbase().map(f)
            for epoch in range(3):
                try:
                    gp = list(par.items())
                except Exception as e:  # noqa
                    gp = repr(e)[:120]
                gs = list(seq.items())
                if gp != gs:
                    fails.append(('items_not_transparent', {'kind': 'map(f, num_workers).items() over a per-epoch reshuffle', 'n': n, 'workers': w, 'buffer': b,
                                                            'seed': seed2, 'epoch': epoch, 'delivered': repr(gp), 'expected': repr(gs)}))
                    break
        if rng.random() < 0.5:
            # the parallel map over a per-epoch reshuffle, frozen: one fixed order in every pass, the one of the equally
            # seeded sequential pipeline; and the stages that freeze their input (pool prefetch, catch) deliver
            seed3 = rng.randrange(1 << 30)

            def mkb():
                return lazy_dataset.new(src).shuffle(reshuffle=True, rng=np.random.RandomState(seed3))
            try:
                fp = mkb().map(f, num_workers=w, buffer_size=b).copy(freeze=True)
                fs = mkb().map(f).copy(freeze=True)
                passes = [[list(fp), list(fs)] for _ in range(3)]
                on_top = {'prefetch(2, 2)': list(mkb().map(f, num_workers=w, buffer_size=b).prefetch(2, 2)),
                          'catch()': list(mkb().map(f, num_workers=w, buffer_size=b).catch())}
            except Exception as e:  # noqa
                fails.append(('frozen_parallel_map_not_transparent', {'kind': 'parmap', 'n': n, 'workers': w, 'buffer': b, 'seed': seed3, 'error': repr(e)[:200]}))
            else:
                if any(a != c for a, c in passes) or any(sorted(v, key=repr) != want for v in on_top.values()):
                    fails.append(('frozen_parallel_map_not_transparent', {'kind': 'parmap', 'n': n, 'workers': w, 'buffer': b, 'seed': seed3,
                                                                          'passes_parallel_vs_sequential': repr(passes), 'stages_on_top': repr(on_top)}))
        for i, g in enumerate(got):
            ok = (sorted(g, key=repr) == want) if reshuffle else (g == [f(x) for x in vals])
            if not ok:
                fails.append(('iteration_in_flight_not_transparent', {'kind': kind, 'n': n, 'workers': w, 'buffer': b, 'reshuffle': reshuffle, 'seed': seed,
                                                                      'first_consumed_before_second_started': k, 'iteration': i, 'source': repr(vals), 'delivered': repr(g),
                                                                      'expected': 'each example exactly once' + ('' if reshuffle else ', in source order')}))
                break
    return fails


def run(rep):
    concrun.run(rep, 'C04', WHICH)
    rng = random.Random(rep.seed * 67 + 4)
    n = 80 if rep.tier == 'quick' else 2000
    fails = []
    for _ in range(n):
        fails += inflight_cases(rng)
    seen = set()
    for cl, det in fails:
        if (cl, det['kind']) not in seen and len(rep.violations) < 4:
            seen.add((cl, det['kind']))
            rep.violation({'property': 'C04', 'kind': 'oracle-failure', 'clause': cl, 'detail': det})
    rep.coverage['iterations_in_flight'] = {'cases': n, 'failures': len(fails)}
    return rep


def replay(j):
    if str(j.get('clause', '')).startswith(('iteration_in_flight', 'items_not_transparent', 'frozen_parallel_map')):
        print(j)
        return 1
    return concrun.replay('C04', WHICH, j)

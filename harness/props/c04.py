"""C04 - decided on the two concurrent protocols (see concrun.py)."""
import concrun

WHICH = ('C04',)


def run(rep):
    return concrun.run(rep, 'C04', WHICH)


def replay(j):
    return concrun.replay('C04', WHICH, j)

"""C17 - dynamic bucketing conserves examples and honours its limits."""
import itertools
import common
import json
import random
import warnings
from fractions import Fraction

import lazy_dataset
import model

RATES = [(1, 10, 0.1), (1, 5, 0.2), (1, 2, 0.5), (3, 4, 0.75), (9, 10, 0.9)]


class Src:
    """source that logs when each example is requested, so that passes can be told apart"""

    def __init__(self, lens, log):
        self.lens, self.log = lens, log

    def __iter__(self):
        for i, l in enumerate(self.lens):
            self.log.append(('pull', i))
            yield {'id': i, 'len': l}
        self.log.append(('end',))


class SrcDS(lazy_dataset.Dataset):
    """the same source as a Dataset, so that the bucketing stage can be built through the method API
    (`batch_dynamic_time_series_bucket`) and iterated through copies"""

    def __init__(self, lens, log):
        self.lens, self.log = lens, log

    def copy(self, freeze=False):
        return SrcDS(self.lens, self.log)

    @property
    def indexable(self):
        return False

    @property
    def ordered(self):
        return True

    def __len__(self):
        return len(self.lens)

    def __iter__(self, with_key=False):
        return Src.__iter__(self)


def run_impl(cfg):
    common.gc_point()
    log = []
    view = cfg.get('view', 'direct')
    src = Src(cfg['lens'], log) if view == 'direct' else SrcDS(cfg['lens'], log)
    kw = dict(batch_size=cfg['batch'], len_key='len', max_padding_rate=cfg['rate'],
              max_total_size=cfg['maxTotal'], expiration=cfg['expiration'],
              max_buffered_examples=cfg['maxBuffered'], drop_incomplete=cfg['drop'],
              sort_key=cfg.get('sort'), reverse_sort=cfg.get('reverse', False))
    with warnings.catch_warnings():
        warnings.simplefilter('ignore')
        ds = lazy_dataset.core.DynamicBucketDataset(src, lazy_dataset.core.DynamicTimeSeriesBucket, **{
            'expiration': kw['expiration'], 'max_buffered_examples': kw['max_buffered_examples'],
            'drop_incomplete': kw['drop_incomplete'], 'sort_key': kw['sort_key'], 'reverse_sort': kw['reverse_sort'],
            'batch_size': kw['batch_size'], 'len_key': 'len', 'max_padding_rate': kw['max_padding_rate'],
            'max_total_size': kw['max_total_size']}) if view == 'direct' else (
            src.batch_dynamic_bucket(lazy_dataset.core.DynamicTimeSeriesBucket, expiration=kw['expiration'],
                                     max_buffered_examples=kw['max_buffered_examples'], drop_incomplete=kw['drop_incomplete'],
                                     sort_key=kw['sort_key'], reverse_sort=kw['reverse_sort'], batch_size=kw['batch_size'],
                                     len_key='len', max_padding_rate=kw['max_padding_rate'], max_total_size=kw['max_total_size'])
            if view == 'generic' else src.batch_dynamic_time_series_bucket(**kw))
        if view == 'copy':
            ds = ds.copy()
        elif view == 'freeze':
            ds = ds.copy(freeze=True)
        # the observed pass may be a LATER pass over the same dataset object (after a full pass, after a pass that
        # was abandoned with buckets still open): every pass starts from nothing
        warm = cfg.get('warm')
        if warm == 'full':
            for b in ds:
                pass
        elif warm == 'abandoned':
            it = iter(ds)
            for _ in range(cfg.get('warm_k', 1)):
                if next(it, None) is None:
                    break
            del it
        del log[:]
        try:
            for b in ds:
                log.append(('batch', [e['id'] for e in b]))
        except Exception as e:  # noqa   (no input sequence makes the bucketing raise)
            cfg['_raised'] = repr(e)[:200]
    passes = []
    cur = None
    for e in log:
        if e[0] in ('pull', 'end'):
            if cur is not None:
                passes.append(cur)
            cur = []
        else:
            cur.append(e[1])
    passes.append(cur if cur is not None else [])
    return passes, log


def request(cfg):
    r = dict(cfg)
    r['fam'] = 'bucket'
    r['instance'] = 'float'
    return r


def oracle(cfg, passes, log):
    """the clauses of the property, on the implementation's output alone"""
    out = []
    lens = cfg['lens']
    if cfg.get('_raised'):
        out.append(('pass_raises', {'error': cfg['_raised']}))
    batches = [b for p in passes for b in p]
    flat = [i for b in batches for i in b]
    num, den = cfg['num'], cfg['den']
    if not cfg['drop'] and sorted(flat) != list(range(len(lens))):
        out.append(('conservation', {'emitted': flat}))
    if len(set(flat)) != len(flat):
        out.append(('duplicate_example', {'emitted': flat}))
    for b in batches:
        if not b:
            out.append(('empty_batch', {}))
            continue
        if len(b) > cfg['batch']:
            out.append(('batch_size', {'batch': b}))
        ls = [lens[i] for i in b]
        # min >= (1 - rate) * max, in exact arithmetic
        if min(ls) * den < (den - num) * max(ls):
            out.append(('padding_rate', {'batch': b, 'lens': ls}))
        if cfg['maxTotal'] is not None and len(b) > 1 and len(b) * max(ls) > cfg['maxTotal']:
            out.append(('max_total_size', {'batch': b, 'lens': ls, 'total': len(b) * max(ls)}))
        if cfg.get('sort') == 'len':
            ks = ls
            if (ks != sorted(ks, reverse=True)) if cfg.get('reverse') else (ks != sorted(ks)):
                out.append(('sort_key', {'batch': b, 'lens': ls}))
    # withheld examples whenever the next source example is requested
    pulled = emitted = 0
    # (with drop_incomplete the dropped examples cannot be seen from outside, so the withheld count
    #  is only computable when nothing is dropped)
    check_buf = cfg['maxBuffered'] is not None and not cfg['drop']
    for e in log:
        if e[0] == 'pull':
            if check_buf and pulled - emitted > cfg['maxBuffered']:
                out.append(('max_buffered', {'withheld': pulled - emitted, 'at_pull': e[1]}))
            pulled += 1
        elif e[0] == 'end':
            if check_buf and pulled - emitted > cfg['maxBuffered']:
                out.append(('max_buffered', {'withheld': pulled - emitted, 'at': 'end'}))
        else:
            emitted += len(e[1])
            if cfg['expiration'] is not None:
                # a bucket is created by its first example (smallest id); it must be gone `expiration` examples later
                created = min(e[1])
                if pulled - 1 - created > cfg['expiration']:
                    out.append(('expiration', {'batch': e[1], 'created': created, 'emitted_at': pulled - 1}))
    if cfg['drop']:
        # exactly the completed buckets are emitted: every emitted batch is full or total-size complete
        for b in batches:
            ls = [lens[i] for i in b]
            full = len(b) >= cfg['batch']
            tot = cfg['maxTotal'] is not None and (len(b) + 1) * max(ls) > cfg['maxTotal']
            if not (full or tot):
                out.append(('drop_incomplete', {'batch': b}))
    return out


# how the bucketing dataset is built and reached: constructor, method API, copy(), copy(freeze=True)
VIEWS = ['direct', 'method', 'copy', 'freeze', 'generic']


def grid(tier, rng):
    alphabet = [1, 2, 3, 5, 8]
    maxlen = 4 if tier == 'quick' else 6
    cfgs = []
    params = []
    for (num, den, rate) in RATES:
        for batch in (1, 2, 3):
            for maxTotal in (None, 10):
                for expiration in (None, 0, 2):
                    for maxBuffered in (None, 1, 3):
                        for drop in (False, True):
                            params.append(dict(num=num, den=den, rate=rate, batch=batch, maxTotal=maxTotal,
                                               expiration=expiration, maxBuffered=maxBuffered, drop=drop))
    seqs = [list(s) for n in range(0, maxlen + 1) for s in itertools.product(alphabet, repeat=n)]
    budget = 2500 if tier == 'quick' else 60000
    for _ in range(budget):
        c = dict(rng.choice(params))
        c['lens'] = list(rng.choice(seqs))
        if rng.random() < 0.25:
            c['lens'] = [rng.randint(1, 30) for _ in range(rng.randint(0, 12))]
        if rng.random() < 0.2:
            c['sort'] = 'len'
            c['reverse'] = rng.random() < 0.5
        c['view'] = VIEWS[len(cfgs) % len(VIEWS)]
        if len(cfgs) % 3 == 1:
            c['warm'] = 'full'
        elif len(cfgs) % 3 == 2:
            c['warm'], c['warm_k'] = 'abandoned', rng.randint(0, 2)
        cfgs.append(c)
    # the witness of the repaired defect F9 and the doctest configuration always run first
    cfgs.insert(0, dict(num=1, den=2, rate=0.5, batch=3, maxTotal=10, expiration=None, maxBuffered=None, drop=False, lens=[4, 6]))
    cfgs.insert(1, dict(num=1, den=2, rate=0.5, batch=2, maxTotal=None, expiration=None, maxBuffered=None, drop=False, lens=[1, 10, 5, 7, 8, 2, 4]))
    return cfgs


def run(rep):
    rng = random.Random(rep.seed * 31 + 17)
    cfgs = grid(rep.tier, rng)
    impl = [run_impl(c) for c in cfgs]
    replies = model.ask([request(c) for c in cfgs])
    disagree, fails = [], []
    dist = {'with_maxTotal': 0, 'with_expiration': 0, 'with_maxBuffered': 0, 'drop': 0, 'sorted': 0}
    distinct = set()
    for c, (passes, log), rp in zip(cfgs, impl, replies):
        for k, f in (('with_maxTotal', 'maxTotal'), ('with_expiration', 'expiration'), ('with_maxBuffered', 'maxBuffered')):
            if c[f] is not None:
                dist[k] += 1
        dist['drop'] += c['drop']
        dist['sorted'] += 1 if c.get('sort') else 0
        if len(c['lens']) >= 2:
            distinct.add(json.dumps(c, sort_keys=True))
        if 'error' in rp or rp.get('passes') != passes:
            disagree.append((c, passes, rp))
        for cl, det in oracle(c, passes, log):
            fails.append((c, cl, det, passes))
    seen = set()
    for c, cl, det, passes in fails:
        if cl in seen or len(rep.violations) >= 4:
            continue
        seen.add(cl)
        rep.violation({'property': 'C17', 'kind': 'oracle-failure', 'clause': cl, 'detail': det, 'config': c,
                       'implementation_passes': passes})
    if disagree and not rep.violations:
        c, passes, rp = min(disagree, key=lambda t: len(t[0]['lens']))
        rep.violation({'property': 'C17', 'kind': 'correspondence',
                       'what_no_longer_checks': 'family `bucket`: lean/LazyDs/Model/Bucket.lean (step/flush/tsOpsF) versus '
                                                'DynamicBucketDataset.__iter__ / DynamicTimeSeriesBucket; theorems of LazyDs/Props/C17.lean are not tied to this code',
                       'config': c, 'implementation_passes': passes, 'model': rp,
                       'searched_configurations_for_failing_input': len(cfgs)}, no_input=True)
    # float decisions agree with exact arithmetic on the explored grid (assumption check)
    exact = model.ask([dict(request(c), instance='exact') for c in cfgs[:400]])
    mismatch = sum(1 for a, b in zip(exact, replies[:400]) if a.get('passes') != b.get('passes'))
    rep.coverage.update({
        'evaluations': len(cfgs), 'programs': len(cfgs), 'disagreements_checked': len(cfgs),
        'disagreements_found': len(disagree), 'distinct_nontrivial': len(distinct),
        'rule': 'length sequences over {1,2,3,5,8} up to length 4 (quick) / 6 (thorough) and random ones up to 12, crossed with the '
                'parameter grid of the property (5 padding rates x 3 batch sizes x max_total_size x expiration x max_buffered x drop_incomplete); '
                'distinct non-trivial = new configuration with at least 2 examples',
        'samples': [{'config': cfgs[i], 'implementation_passes': impl[i][0], 'model_passes': replies[i].get('passes')} for i in (0, 1, 7)],
        'distribution': dist, 'oracle_failures': len(fails),
        'float_vs_exact_decisions_differ': mismatch, 'exhaustive': False})
    if mismatch:
        rep.assumptions.append(f'{mismatch} of 400 configurations batch differently with IEEE doubles than in exact arithmetic')
    return rep


def replay(j):
    c = j['config']
    passes, log = run_impl(c)
    rp = model.ask([request(c)])[0]
    fails = oracle(c, passes, log)
    print(json.dumps({'config': c, 'implementation_passes': passes, 'model': rp, 'oracle_failures': fails}, indent=1))
    if fails or rp.get('passes') != passes:
        print('VIOLATION property=C17 replay=(replayed)')
        return 1
    return 0

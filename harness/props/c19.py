"""C19 - the database layer builds correct, isolated datasets from its source."""
import copy
import common
import gc
import json
import os
import pickle
import random
import shutil
import tempfile
import warnings

import model
from canon import canon
from fnmenu import exc_name


def gen_desc(rng, names_pool, first):
    nds = rng.randint(1, 3)
    names = rng.sample(names_pool, nds)
    datasets = {}
    ids = [f'e{i}' for i in range(12)]
    for nm in names:
        k = rng.randint(0, 3) if rng.random() < 0.15 else rng.randint(1, 3)
        datasets[nm] = {i: {'v': rng.randint(0, 9), 'w': [rng.randint(0, 3)]} for i in rng.sample(ids, k)}
    d = {'datasets': datasets}
    if rng.random() < 0.6:
        al = {}
        for an in rng.sample(['A', 'B', 'C'], rng.randint(1, 2)):
            al[an] = rng.sample(names, rng.randint(1, len(names)))
        d['alias'] = al
    if first and rng.random() < 0.3:
        d['note'] = 'free text'
    if not first and rng.random() < 0.05:
        d['note'] = 'not allowed here'
    return d


def to_model(d):
    return {'datasets': [[n, [[i, [[k, canon(v)] for k, v in f.items()]] for i, f in ex.items()]] for n, ex in d['datasets'].items()],
            'alias': [[a, m] for a, m in d['alias'].items()] if 'alias' in d else None,
            'extra': [k for k in d if k not in ('datasets', 'alias')]}


def answer(db, req):
    try:
        ds = db.get_dataset(req)
        return {'ok': [[k, [[f, canon(v)] for f, v in ex.items()]] for k, ex in ds.items()]} if isinstance(req, str) \
            else {'ok': [[ex['example_id'], [[f, canon(v)] for f, v in ex.items()]] for ex in ds]}
    except BaseException as e:  # noqa
        return {'err': exc_name(e)}


def db_answer_values(db, name):
    try:
        return [ex['example_id'] for ex in db.get_dataset(name)]
    except BaseException:  # noqa
        return None


def one_case(rng, tmp):
    common.gc_point()
    from lazy_dataset.database import DictDatabase, JsonDatabase
    pool = ['train', 'dev', 'test', 'extra', 'eval', 'A']
    nd = rng.choice([1, 2, 2, 3, 3])
    descs = [gen_desc(rng, pool, i == 0) for i in range(nd)]
    if rng.random() < 0.6 and nd > 1:
        # make names disjoint most of the time
        used = set()
        for d in descs:
            for nm in list(d['datasets']):
                if nm in used:
                    del d['datasets'][nm]
                used.add(nm)
            if not d['datasets']:
                d['datasets'] = {f'only{len(used)}': {'e0': {'v': 1, 'w': [0]}}}
                used.add(f'only{len(used) - 1}')
            if 'alias' in d:
                d['alias'] = {a: [m for m in ms if m in d['datasets']] for a, ms in d['alias'].items() if a not in used}
                d['alias'] = {a: ms for a, ms in d['alias'].items() if ms}
                used |= set(d['alias'])
                if not d['alias']:
                    del d['alias']
    if nd == 3 and rng.random() < 0.5:
        # a name introduced by the SECOND description (as alias or dataset) reused by the THIRD
        if 'alias' not in descs[1] and rng.random() < 0.7:
            descs[1]['alias'] = {'Z': list(descs[1]['datasets'])[:1]}
        src_names = list(descs[1].get('alias', {})) * 2 + list(descs[1]['datasets'])
        if src_names:
            nm = rng.choice(src_names)
            if rng.random() < 0.5:
                descs[2].setdefault('alias', {})[nm] = list(descs[2]['datasets'])[:1]
            else:
                descs[2]['datasets'][nm] = {'e9': {'v': 0, 'w': [0]}}
    if nd >= 3 and rng.random() < 0.35:
        # alias sections only in LATER descriptions (the merged alias table then starts from a later part's dict)
        pattern = rng.choice([(False, True, True), (False, False, True), (True, False, True), (False, True, False)])
        taken = {n for d in descs for n in list(d['datasets']) + list(d.get('alias', {}))}
        for i, (d, has) in enumerate(zip(descs, pattern)):
            if not has:
                d.pop('alias', None)
            elif not d.get('alias'):
                nm = f'al{i}'
                if nm not in taken:
                    d['alias'] = {nm: list(d['datasets'])[:1]}
                    taken.add(nm)
    pristine = copy.deepcopy(descs)
    all_names = sorted({n for d in descs for n in list(d['datasets']) + list(d.get('alias', {}))}) + ['missing']
    reqs = [rng.choice(all_names) for _ in range(rng.randint(1, 4))]
    if rng.random() < 0.5:
        reqs.append(rng.sample(all_names, min(2, len(all_names))))
    if rng.random() < 0.4:
        # a list request may name a member more than once: every requested member is concatenated
        a, b = rng.choice(all_names), rng.choice(all_names)
        reqs.append(rng.choice([[a, a], [a, b, a], [b, a, a]]))
    fails = []
    impl = {}
    with warnings.catch_warnings():
        warnings.simplefilter('ignore')
        # another database with the SAME dataset / alias names but different examples is alive (its datasets too):
        # every database must answer from its own description
        decoy_alive = []
        try:
            decoy_descs = [{'datasets': {nm: {'decoy_' + nm: {'v': -1, 'w': [9]}} for nm in d['datasets']},
                            **({'alias': copy.deepcopy(d['alias'])} if 'alias' in d else {})} for d in pristine]
            decoy = DictDatabase(*decoy_descs)
            decoy_alive = [decoy.get_dataset(nm) for nm in list(decoy.dataset_names)]
        except BaseException:  # noqa  (descriptions that do not merge)
            pass
        try:
            db = DictDatabase(*descs) if rng.random() < 0.5 else DictDatabase(descs)
            impl['merge'] = 'ok'
        except BaseException as e:  # noqa
            impl['merge'] = exc_name(e)
            db = None
        if db is None:
            # descriptions that do not clash must merge (independent validity check)
            seen, clash = set(), False
            for i, d in enumerate(pristine):
                names = list(d['datasets']) + list(d.get('alias', {}))
                if any(nm in seen for nm in names) or (i > 0 and any(k not in ('datasets', 'alias') for k in d)):
                    clash = True
                seen |= set(names)
            if not clash:
                fails.append(('valid_descriptions_rejected', {'descriptions': pristine, 'error': impl['merge']}))
        if db is not None:
            seen_names, dup = set(), None
            for d in pristine:
                names = list(d['datasets']) + list(d.get('alias', {}))
                for nm in names:
                    if nm in seen_names:
                        dup = nm
                seen_names |= set(names)
            if dup is not None:
                fails.append(('duplicate_name_accepted', {'name': dup, 'descriptions': pristine}))
        if db is not None:
            impl['names'] = list(db.dataset_names)
            impl['answers'] = [answer(db, r) for r in reqs]
            # a list request is the concatenation of its members, in the order and as often as they are named
            for r, a in zip(reqs, impl['answers']):
                if not isinstance(r, str):
                    singles = [db_answer_values(db, nm) for nm in r]
                    if all(s_ is not None for s_ in singles) and 'ok' in a:
                        want_ids = [i for s_ in singles for i in s_]
                        got_ids = [row[0] for row in a['ok']]
                        if got_ids != want_ids:
                            fails.append(('list_request_is_not_the_concatenation', {'request': r, 'example_ids': got_ids, 'concatenation_of_members': want_ids}))
            # repeated requests are served from one shared dataset while it is alive
            for r in reqs:
                if isinstance(r, str):
                    try:
                        a = db.get_dataset(r)
                        b = db.get_dataset(r)
                        if a is not b:
                            fails.append(('memo_not_shared', {'name': r}))
                        ida = id(a)
                        del a, b
                        gc.collect()
                        c = db.get_dataset(r)
                        if list(c.items()) != list(db.get_dataset(r).items()):
                            fails.append(('memo_value_changed', {'name': r}))
                    except Exception:  # noqa
                        pass
            # the source dictionaries are not changed (an empty 'alias' entry added to a single source aside)
            now = copy.deepcopy(descs)
            for d0, d1 in zip(pristine, now):
                if 'alias' not in d0 and d1.get('alias') == {}:
                    del d1['alias']
            if now != pristine:
                fails.append(('source_mutated', {'before': pristine, 'after': now}))
            # JSON-backed database and its pickle answer identically
            paths = []
            for i, d in enumerate(pristine):
                # (the same few paths are written again and again with new content: a database answers from what its
                # files hold when it is created, not from what an earlier database read there)
                pth = os.path.join(tmp, f'db{rng.randrange(3)}_{i}.json')
                json.dump(d, open(pth, 'w'))
                paths.append(pth)
            try:
                jdb = JsonDatabase(*paths)
                jans = [answer(jdb, r) for r in reqs]
                pdb = pickle.loads(pickle.dumps(jdb))
                pans = [answer(pdb, r) for r in reqs]
                if jans != impl['answers']:
                    fails.append(('json_database_differs', {'dict': impl['answers'], 'json': jans}))
                if pans != jans:
                    fails.append(('pickled_json_database_differs', {'json': jans, 'pickled': pans}))
            except BaseException as e:  # noqa
                fails.append(('json_database_failed', {'err': repr(e)}))
    # examples exactly once, in stored order, extended by example_id and dataset
    if db is not None:
        merged = {}
        for d in pristine:
            merged.update(d['datasets'])
        aliases = {}
        for d in pristine:
            aliases.update(d.get('alias', {}))
        for r, a in zip(reqs, impl['answers']):
            if isinstance(r, str) and 'ok' in a and r in merged and r not in aliases:
                want = [[k, [[f, canon(v)] for f, v in {**ex, 'example_id': k, 'dataset': r}.items()]] for k, ex in merged[r].items()]
                if a['ok'] != want:
                    fails.append(('examples_once_in_order', {'name': r, 'got': a['ok'], 'want': want}))
    del decoy_alive
    req = {'fam': 'db', 'descs': [to_model(d) for d in pristine], 'requests': reqs}
    return req, impl, fails


def run(rep):
    rng = random.Random(rep.seed * 37 + 19)
    n = 400 if rep.tier == 'quick' else 4000
    tmp = tempfile.mkdtemp(prefix='verif_c19_')
    try:
        cases = [one_case(rng, tmp) for _ in range(n)]
    finally:
        shutil.rmtree(tmp, ignore_errors=True)
    replies = model.ask([c[0] for c in cases])
    disagree, fails = [], []
    dist = {'merge_ok': 0, 'merge_rejected': 0, 'multi': 0, 'alias_requests': 0, 'errors': 0}
    for (req, impl, f), rp in zip(cases, replies):
        fails += f
        dist['merge_ok' if impl['merge'] == 'ok' else 'merge_rejected'] += 1
        dist['multi'] += len(req['descs']) > 1
        if impl['merge'] == 'ok':
            dist['errors'] += sum(1 for a in impl['answers'] if 'err' in a)
        m = dict(rp)
        if impl['merge'] != m.get('merge'):
            disagree.append((req, impl, rp))
        elif impl['merge'] == 'ok':
            if impl['answers'] != m.get('answers') or sorted(impl['names']) != sorted(m.get('names', [])):
                disagree.append((req, impl, rp))
    seen = set()
    for cl, det in fails:
        if cl not in seen and len(rep.violations) < 4:
            seen.add(cl)
            rep.violation({'property': 'C19', 'kind': 'oracle-failure', 'clause': cl, 'detail': det})
    if disagree and not rep.violations:
        req, impl, rp = min(disagree, key=lambda t: len(json.dumps(t[0])))
        rep.violation({'property': 'C19', 'kind': 'correspondence',
                       'what_no_longer_checks': 'family `db`: lean/LazyDs/Model/Db.lean versus lazy_dataset/database.py; theorems of LazyDs/Props/C19.lean are not tied to this code',
                       'request': req, 'implementation': impl, 'model': rp, 'searched_cases_for_failing_input': n}, no_input=True)
    rep.coverage.update({
        'evaluations': n, 'programs': n, 'disagreements_checked': n, 'disagreements_found': len(disagree),
        'distinct_nontrivial': len({json.dumps(c[0], sort_keys=True) for c in cases if len(c[0]['requests']) > 1}),
        'rule': 'random database descriptions (1-3 merged descriptions, with/without alias section, extra top-level keys, duplicate names, overlapping example ids, empty datasets) and requests '
                '(dataset names, aliases, unknown names, lists of names); DictDatabase in both calling conventions, JsonDatabase on temp files and its pickle; distinct non-trivial = distinct case with more than one request',
        'samples': [{'request': cases[0][0], 'implementation': cases[0][1], 'model': replies[0]}],
        'distribution': dist, 'oracle_failures': len(fails), 'exhaustive': False})
    return rep


def replay(j):
    print(json.dumps(j, indent=1)[:4000])
    return 1

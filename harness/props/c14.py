"""C14 - exception-based filtering drops exactly the failing examples."""
import random
import common
import warnings
import oracles
import piperun
import impl
from canon import run_stream
from fnmenu import Pred, exc_class
import lazy_dataset


class P(piperun.PipeProperty):
    prop = 'C14'
    views = ('direct', 'direct', 'copy', 'direct', 'freeze', 'direct', 'profiled', 'direct', 'lazy_apply', 'direct', 'direct')
    fields = ('build', 'iter', 'items')
    required_ops = ('catch', 'prefetch', 'filterLazy', 'filterEager')
    weights = {'catch': 5.0, 'mapRaise': 5.0, 'prefetch': 2.5, 'filterLazy': 2.0, 'filterEager': 2.0,
               'parMap': 0.5, 'cacheEager': 0.3, 'unbatch': 0.3}

    def relevant(self, p):
        return p['op'] != 'cycle'

    def oracle(self, p, obs):
        return oracles.c14(p, obs)


def three_filters(rep, n_cases):
    """lazy filter, eager filter and FilterException under catch select the same examples"""
    rng = random.Random(rep.seed + 14)
    bad = []
    for _ in range(n_cases):
        n = rng.randint(0, 8)
        vals = [rng.randint(-5, 20) for _ in range(n)]
        m = rng.choice([2, 3, 4])
        r = rng.randrange(m)
        pred = Pred({'pred': rng.choice(['keepMod', 'dropMod']), 'm': m, 'r': r})
        src = {f'k{i}': v for i, v in enumerate(vals)} if rng.random() < 0.5 else vals
        with warnings.catch_warnings():
            warnings.simplefilter('ignore')
            ds = lazy_dataset.new(src)

            def raising(x, pred=pred):
                if not pred(x):
                    raise lazy_dataset.FilterException()
                return x
            a = run_stream(lambda: ds.filter(pred))
            b = run_stream(lambda: ds.filter(pred, lazy=False))
            c = run_stream(lambda: ds.map(raising).catch())
            d = run_stream(lambda: ds.map(raising).prefetch(2, 2, catch_filter_exception=True))
            e = run_stream(lambda: ds.map(raising).prefetch(1, 2, catch_filter_exception=True))
        want = {'vals': [v for v in vals if pred(v)], 'err': None}
        got = {'lazy': a, 'eager': b, 'catch': c, 'prefetch2': d, 'prefetch1': e}
        if any(g != want for g in got.values()):
            bad.append({'values': vals, 'pred': pred.spec, 'want': want, 'got': got})
        # a predicate is judged by its truth value: ints, None, strings and containers are legitimate results
        kind = rng.choice(['x % m', 'x // m', 'None or x', 'list'])
        truthy = {'x % m': lambda x: x % m, 'x // m': lambda x: x // m, 'None or x': lambda x: (None if x % m == r else x + 100),
                  'list': lambda x: [x] * (x % m)}[kind]
        with warnings.catch_warnings():
            warnings.simplefilter('ignore')
            ds = lazy_dataset.new(src)
            a = run_stream(lambda: ds.filter(truthy))
            b = run_stream(lambda: ds.filter(truthy, lazy=False))
            bi = run_stream(lambda: [kv[1] for kv in ds.filter(truthy, lazy=False).items()]) if isinstance(src, dict) else None
        want = {'vals': [v for v in vals if truthy(v)], 'err': None}
        got = {'lazy': a, 'eager': b}
        if bi is not None:
            got['eager items()'] = bi
        if any(g != want for g in got.values()):
            bad.append({'values': vals, 'pred': 'truthy non-bool: ' + kind, 'm': m, 'r': r, 'want': want, 'got': got})
    return bad


class MyIndexError(IndexError):
    pass


def lookup_error_cases(rep, n_cases):
    """user functions that raise LOOKUP errors (IndexError, KeyError and subclasses) below n-ary and index-driven
    stages: these are the exceptions the library itself uses for its own bookkeeping, and a stage must not
    mistake one that comes out of an example for its own. Batches are left out (BatchDataset deliberately
    reads IndexError as the end of its input: hypothesis EnvOK of the theorems)."""
    rng = random.Random(rep.seed * 3 + 141)
    classes = {'IndexError': IndexError, 'MyIndexError': MyIndexError, 'KeyError': KeyError, 'ValueError': ValueError}
    bad = []
    for _ in range(n_cases):
        parts = []
        for pid in range(rng.randint(1, 3)):
            n = rng.randint(1, 4)
            fail = {j: rng.choice(list(classes)) for j in range(n) if rng.random() < 0.35}
            parts.append((pid, n, fail))
        shape = rng.choice(['concat', 'concat_fn', 'intersperse', 'tile', 'concat_reversed', 'concat_map', 'concat_cache'])
        E = rng.choice([(IndexError,), (KeyError,), (LookupError,), (Exception,), (ValueError,), (MyIndexError,), (KeyError, IndexError)])

        def build(raising):
            dss = []
            for pid, n, fail in parts:
                def f(x, pid=pid, fail=fail):
                    if raising and x in fail:
                        raise classes[fail[x]](x)
                    return (pid, x)
                dss.append(lazy_dataset.new({f'p{pid}k{j}': j for j in range(n)}).map(f))
            if shape == 'intersperse' and len(dss) > 1:
                ds = dss[0].intersperse(*dss[1:])
            elif shape == 'concat_fn':
                ds = lazy_dataset.concatenate(*dss)
            elif shape == 'tile':
                ds = dss[0].tile(2)
            else:
                ds = dss[0].concatenate(*dss[1:]) if len(dss) > 1 else dss[0]
            if shape == 'concat_reversed':
                ds = ds[::-1]
            elif shape == 'concat_map':
                ds = ds.map(lambda t: t)
            elif shape == 'concat_cache':
                ds = ds.cache()
            return ds
        with warnings.catch_warnings():
            warnings.simplefilter('ignore')
            order = list(build(False))                       # which source example sits where (nothing raises)
            fails = {pid: fail for pid, _, fail in parts}
            want_vals, want_err = [], None
            for pid, x in order:
                if x in fails[pid]:
                    c = classes[fails[pid][x]]
                    if issubclass(c, E):
                        continue
                    want_err = c.__name__
                    break
                want_vals.append((pid, x))
            got = {}
            for view in (('values', 'prefetch2', 'prefetch1') if shape == 'tile' else ('values', 'items', 'prefetch2', 'prefetch1')):   # (tile repeats keys: no items())
                vals, err = [], None
                try:
                    ds = build(True)
                    if view == 'values':
                        it = ds.catch(E)
                    elif view == 'items':
                        it = (kv[1] for kv in ds.catch(E).items())
                    elif view == 'prefetch2':
                        it = ds.prefetch(2, 3, catch_filter_exception=E)
                    else:
                        it = ds.prefetch(1, 2, catch_filter_exception=E)
                    for v in it:
                        vals.append(v)
                except Exception as e:  # noqa
                    err = type(e).__name__
                got[view] = {'vals': vals, 'err': err}
            want = {'vals': want_vals, 'err': want_err}
            wrong = {k: g for k, g in got.items() if g != want}
            if wrong:
                bad.append({'shape': shape, 'parts': [(pid, n, fail) for pid, n, fail in parts], 'caught': [c.__name__ for c in E],
                            'want': want, 'got': wrong})
    return bad


def epoch_cases(rep, n_cases):
    """ONE catch / filter object iterated for several epochs: every epoch drops exactly the examples that fail
    in THAT epoch, whatever failed before - (a) over a per-epoch reshuffle, where positions change their
    example, (b) with a failing set that changes from epoch to epoch (transient errors)"""
    import numpy as np
    rng = random.Random(rep.seed * 3 + 1414)
    bad = []
    for _ in range(n_cases):
        common.gc_point()
        n = rng.randint(1, 9)
        keyed = rng.random() < 0.6
        src = {f'k{i}': i for i in range(n)} if keyed else list(range(n))
        mode = rng.choice(['reshuffle', 'transient', 'transient'])
        seed = rng.randrange(1 << 30)
        fixed_bad = set(rng.sample(range(n), rng.randint(0, n)))
        per_epoch = [set(rng.sample(range(n), rng.randint(0, n))) for _ in range(4)]
        now = {'bad': fixed_bad}
        cls = rng.choice([lazy_dataset.FilterException, ValueError])

        def f(x):
            if x in now['bad']:
                raise cls(x)
            return x

        def keep(x):
            return x not in now['bad']
        with warnings.catch_warnings():
            warnings.simplefilter('ignore')
            def base():
                d = lazy_dataset.new(src)
                return d.shuffle(reshuffle=True, rng=np.random.RandomState(seed)) if mode == 'reshuffle' else d
            stages = {
                'catch': lambda: base().map(f).catch(cls),
                'catch_map': lambda: base().map(f).catch(cls).map(lambda x: x),
                'lazy_filter': lambda: base().filter(keep),
                'prefetch1_catch': lambda: base().map(f).prefetch(1, 2, catch_filter_exception=cls),
            }
            name = rng.choice(sorted(stages))
            ds, twin = stages[name](), base()
            items_view = keyed and name in ('catch', 'lazy_filter') and rng.random() < 0.5
            for epoch in range(4):
                if mode == 'transient':
                    now['bad'] = per_epoch[epoch]
                ref = [(k, v) for k, v in twin.items()] if keyed else [(None, v) for v in twin]
                want = [(k, v) for k, v in ref if v not in now['bad']]
                try:
                    got = [tuple(kv) for kv in ds.items()] if items_view else [(None, v) for v in ds]
                except Exception as e:  # noqa
                    got = repr(e)[:200]
                if not items_view:
                    want = [(None, v) for _, v in want]
                if got != want:
                    bad.append({'stage': name, 'mode': mode, 'n': n, 'keyed': keyed, 'items_view': items_view, 'seed': seed, 'epoch': epoch,
                                'failing_in_this_epoch': sorted(now['bad']), 'failing_in_earlier_epochs': [sorted(b) for b in per_epoch[:epoch]] if mode == 'transient' else None,
                                'delivered': repr(got), 'expected': repr(want)})
                    break
    return bad


def run(rep):
    piperun.run(P(), rep)
    ne = 150 if rep.tier == 'quick' else 3000
    bad_e = epoch_cases(rep, ne)
    rep.coverage['several_epochs_cases'] = ne
    if bad_e:
        rep.violation({'property': 'C14', 'kind': 'oracle-failure', 'clause': 'failing_examples_of_this_epoch', 'case': bad_e[0]})
    nl = 150 if rep.tier == 'quick' else 3000
    bad_l = lookup_error_cases(rep, nl)
    rep.coverage['lookup_error_cases'] = nl
    if bad_l:
        rep.violation({'property': 'C14', 'kind': 'oracle-failure', 'clause': 'lookup_error_from_an_example', 'case': bad_l[0]})
    n = 150 if rep.tier == 'quick' else 3000
    bad = three_filters(rep, n)
    rep.coverage['three_filters_cases'] = n
    if bad:
        rep.violation({'property': 'C14', 'kind': 'oracle-failure', 'clause': 'three_filters_agree', 'case': bad[0]})
    return rep


def replay(j):
    if j.get('clause') in ('three_filters_agree', 'lookup_error_from_an_example', 'failing_examples_of_this_epoch'):
        print(j)
        return 1
    return piperun.replay(P(), j)

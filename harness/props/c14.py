"""C14 - exception-based filtering drops exactly the failing examples."""
import random
import warnings
import oracles
import piperun
import impl
from canon import run_stream
from fnmenu import Pred, exc_class
import lazy_dataset


class P(piperun.PipeProperty):
    prop = 'C14'
    fields = ('build', 'iter', 'items')
    required_ops = ('catch', 'prefetch', 'filterLazy', 'filterEager')
    weights = {'catch': 5.0, 'mapRaise': 5.0, 'prefetch': 2.5, 'filterLazy': 2.0, 'filterEager': 2.0,
               'parMap': 0.5, 'cacheEager': 0.3, 'unbatch': 0.3}

    def relevant(self, p):
        return p['op'] != 'cycle'

    def oracle(self, p, obs):
        return oracles.c14(p, obs)


def three_filters(rep, n_cases):
    """lazy filter, eager filter and FilterException under catch select the same examples"""
    rng = random.Random(rep.seed + 14)
    bad = []
    for _ in range(n_cases):
        n = rng.randint(0, 8)
        vals = [rng.randint(-5, 20) for _ in range(n)]
        m = rng.choice([2, 3, 4])
        r = rng.randrange(m)
        pred = Pred({'pred': rng.choice(['keepMod', 'dropMod']), 'm': m, 'r': r})
        src = {f'k{i}': v for i, v in enumerate(vals)} if rng.random() < 0.5 else vals
        with warnings.catch_warnings():
            warnings.simplefilter('ignore')
            ds = lazy_dataset.new(src)

            def raising(x, pred=pred):
                if not pred(x):
                    raise lazy_dataset.FilterException()
                return x
            a = run_stream(lambda: ds.filter(pred))
            b = run_stream(lambda: ds.filter(pred, lazy=False))
            c = run_stream(lambda: ds.map(raising).catch())
            d = run_stream(lambda: ds.map(raising).prefetch(2, 2, catch_filter_exception=True))
            e = run_stream(lambda: ds.map(raising).prefetch(1, 2, catch_filter_exception=True))
        want = {'vals': [v for v in vals if pred(v)], 'err': None}
        got = {'lazy': a, 'eager': b, 'catch': c, 'prefetch2': d, 'prefetch1': e}
        if any(g != want for g in got.values()):
            bad.append({'values': vals, 'pred': pred.spec, 'want': want, 'got': got})
    return bad


def run(rep):
    piperun.run(P(), rep)
    n = 150 if rep.tier == 'quick' else 3000
    bad = three_filters(rep, n)
    rep.coverage['three_filters_cases'] = n
    if bad:
        rep.violation({'property': 'C14', 'kind': 'oracle-failure', 'clause': 'three_filters_agree', 'case': bad[0]})
    return rep


def replay(j):
    if j.get('clause') == 'three_filters_agree':
        print(j)
        return 1
    return piperun.replay(P(), j)

"""C10 - the memory cache is transparent, computes each example once, and freezes it."""
import json
import common
import random
import warnings

import lazy_dataset
import model
from canon import outcome


class Mem:
    available = 0


def install_psutil(state):
    import psutil

    class VM:
        @property
        def available(self):
            state['asked'] += 1
            # "memory permits": 13 of 16 GiB are available; "threshold crossed": 7.5 GiB, which is below every form of
            # the 8 GiB threshold used here ('8 GB', 8 * 2**30, '50%' of the total, the default)
            return (13 << 30) if state['mem'] else (15 << 29)

        total = 16 << 30
    psutil.virtual_memory = lambda: VM()


def decoy_cache(n):
    """another cached dataset alive in the same process, with the SAME key names at other positions and other
    examples, whose keys were all looked up: every cache answers from its own dataset"""
    with warnings.catch_warnings():
        warnings.simplefilter('ignore')
        d = lazy_dataset.new({f'k{j}': -1 - j for j in reversed(range(n + 1))}).map(lambda x: x).cache()
        for j in range(n + 1):
            try:
                d[f'k{j}']
            except Exception:  # noqa  (the decoy is scenery; the dataset under test is judged)
                pass
    return d


def run_history(n, ops, keyed=False):
    """execute a history on the real CacheDataset; returns outputs, upstream call counts"""
    common.gc_point()
    decoy = decoy_cache(n) if keyed else None
    state = {'mem': True, 'asked': 0}
    install_psutil(state)
    counts = [0] * n

    def up(x):
        c = counts[x]
        counts[x] += 1
        return x * 1000 + c
    with warnings.catch_warnings():
        warnings.simplefilter('ignore')
        src = {f'k{j}': j for j in range(n)} if keyed else list(range(n))
        # the threshold in each of its spellings (all 8 GiB here)
        keep = [None, None, '8 GB', 8 << 30, '50%', '50 %'][(n + len(ops)) % 6]
        insts = [lazy_dataset.new(src).map(up).cache() if keep is None else lazy_dataset.new(src).map(up).cache(keep_mem_free=keep)]
        outs = []
        its = {}
        for op in ops:
            if op['k'] == 'copy':
                if op['inst'] < len(insts):
                    insts.append(insts[op['inst']].copy())
                    outs.append({'inst': len(insts) - 1})
                else:
                    outs.append('bad')
            else:
                if op['inst'] >= len(insts):
                    outs.append('bad')
                    continue
                state['mem'] = op['mem']
                ds = insts[op['inst']]
                idx = op['i']
                if 'it' in op:
                    # the same access made by an iterator in flight (CacheDataset.__iter__ is `self[i]` for
                    # i = 0, 1, ...): `it` names the iterator, created at its first step
                    if op['it'] not in its:
                        with_key = bool(keyed and op.get('by_key'))
                        its[op['it']] = (iter(ds.items()) if with_key else iter(ds), with_key)
                    it, with_key = its[op['it']]
                    if with_key:
                        r = outcome(lambda: next(it)[1])
                    else:
                        r = outcome(lambda: next(it))
                elif op.get('how') == 'np':
                    import numpy as np
                    r = outcome(lambda: ds[np.int64(idx)])
                elif op.get('how') == 'slice' and 0 <= idx < n:
                    r = outcome(lambda: list(ds[idx:idx + 1])[0])
                elif keyed and op.get('by_key') and 0 <= idx < n:
                    r = outcome(lambda: ds[f'k{idx}'])
                else:
                    r = outcome(lambda: ds[idx])
                outs.append({'val': r['ok']} if 'ok' in r else r['err'])
        stored = None
        try:
            stored = sorted(insts[0]._cache.cache.keys())
        except Exception:  # noqa
            pass
    return outs, counts, stored


def oracle(n, ops, outs, counts):
    """model-free: (a) every value was really produced for that example; (b) while memory permits the
    first value is returned forever and the upstream ran at most once; (c) a value seen twice is frozen"""
    fails = []
    all_mem = all(op.get('mem', True) for op in ops)
    seen = {}
    frozen = {}
    for t, (op, o) in enumerate(zip(ops, outs)):
        if op['k'] != 'get' or not isinstance(o, dict) or 'val' not in o:
            if op['k'] == 'get' and o == 'IndexError' and -n <= op['i'] < n:
                fails.append(('in_range_IndexError', {'t': t, 'op': op}))
            continue
        i = op['i']
        j = i if i >= 0 else i + n
        if not 0 <= j < n:
            fails.append(('out_of_range_returns', {'t': t, 'op': op, 'out': o}))
            continue
        v = o['val']
        if v // 1000 != j or v % 1000 >= counts[j]:
            fails.append(('value_not_produced', {'t': t, 'op': op, 'value': v, 'calls': counts[j]}))
        if all_mem and v != j * 1000:
            fails.append(('not_first_value', {'t': t, 'op': op, 'value': v}))
        if j in frozen and v != frozen[j]:
            fails.append(('frozen_entry_changed', {'t': t, 'op': op, 'value': v, 'frozen': frozen[j]}))
        if j in seen and v in seen[j]:
            frozen[j] = v
        seen.setdefault(j, set()).add(v)
    if all_mem and any(c > 1 for c in counts):
        fails.append(('computed_more_than_once', {'calls': counts}))
    # (d) once an instance saw the free memory at or below the threshold at a miss it stores nothing any more: an
    # example that was not stored before is computed anew at every access through that instance
    cached, latched, fresh = set(), {0: False}, {}
    ninst = 1
    for t, (op, o) in enumerate(zip(ops, outs)):
        if op['k'] == 'copy':
            if isinstance(o, dict) and 'inst' in o:
                latched[o['inst']] = False
            continue
        if op['k'] != 'get' or not isinstance(o, dict) or 'val' not in o:
            continue
        j = op['i'] if op['i'] >= 0 else op['i'] + n
        x = op.get('inst', 0)
        if not 0 <= j < n or j in cached or x not in latched:
            continue
        if not latched[x] and not op.get('mem', True):
            latched[x] = True
        if not latched[x]:
            cached.add(j)
            continue
        if o['val'] in fresh.setdefault(j, set()):
            fails.append(('stored_after_threshold_was_crossed', {'t': t, 'op': op, 'value': o['val'], 'values_before': sorted(fresh[j])}))
            break
        fresh[j].add(o['val'])
    return fails


def resolve(n, ops):
    """symbolic iterator steps {'k': 'next', 'it': id, 'inst': .., 'mem': ..} become the `get` they are
    (position = number of earlier steps of that iterator); steps of an exhausted iterator are dropped"""
    pos, inst_of, out = {}, {}, []
    for op in ops:
        if op['k'] != 'next':
            out.append(op)
            continue
        it = op['it']
        inst_of.setdefault(it, op['inst'])
        p = pos.get(it, 0)
        if p >= n:
            continue
        pos[it] = p + 1
        out.append({'k': 'get', 'inst': inst_of[it], 'i': p, 'mem': op['mem'], 'it': it})
    return out


def gen_history(rng, n, length, p_false):
    ops = []
    ninst = 1
    nit = 0
    p_it = rng.choice([0.0, 0.3, 0.6])
    for _ in range(length):
        if rng.random() < p_it:
            if nit == 0 or rng.random() < 0.25:
                nit += 1
                ops.append({'k': 'next', 'it': nit - 1, 'inst': rng.randrange(ninst), 'mem': rng.random() >= p_false})
            else:
                ops.append({'k': 'next', 'it': rng.randrange(nit), 'inst': 0, 'mem': rng.random() >= p_false})
        elif rng.random() < 0.15:
            ops.append({'k': 'copy', 'inst': rng.randrange(ninst)})
            ninst += 1
        else:
            ops.append({'k': 'get', 'inst': rng.randrange(ninst), 'i': rng.randint(-n - 1, n),
                        'mem': rng.random() >= p_false})
            u = rng.random()
            if u < 0.15:
                ops[-1]['how'] = 'np'          # the index as numpy integer
            elif u < 0.3:
                ops[-1]['how'] = 'slice'       # through a one-element slice
    return resolve(n, ops)


def real_paths(rng):
    """accesses through iteration, slices, keys, copies and thread prefetch while memory permits; the examples
    are ints or mutable records, and a consumer may modify every value it was handed (also the one handed
    out by the access that computed it): the cached example stays frozen"""
    common.gc_point()
    fails = []
    state = {'mem': True, 'asked': 0}
    install_psutil(state)
    n = rng.randint(1, 7)
    counts = [0] * n
    mutable = rng.random() < 0.5
    decoy = decoy_cache(n)

    def mk(x, c=0):
        return {'v': x * 1000 + c, 'h': [x], 'd': {'x': (x,)}} if mutable else x * 1000 + c

    def up(x):
        c = counts[x]
        counts[x] += 1
        return mk(x, c)
    with warnings.catch_warnings():
        warnings.simplefilter('ignore')
        ds = lazy_dataset.new({f'k{j}': j for j in range(n)}).map(up).cache()
        got = []
        steps = []
        for _ in range(rng.randint(2, 7)):
            how = rng.choice(['iter', 'slice', 'rslice', 'key', 'neg', 'copy', 'prefetch1', 'prefetch2', 'items', 'int'])
            steps.append(how)
            full = [mk(j) for j in range(n)]
            want = full
            try:
                if how == 'iter':
                    out = list(ds)
                elif how == 'slice':
                    a = rng.randint(0, n)
                    out, want = list(ds[a:]), full[a:]
                elif how == 'rslice':
                    out, want = list(ds[::-1]), full[::-1]
                elif how == 'key':
                    j = rng.randrange(n)
                    out, want = [ds[f'k{j}']], [full[j]]
                elif how == 'neg':
                    j = rng.randint(1, n)
                    out, want = [ds[-j]], [full[-j]]
                elif how == 'int':
                    j = rng.randrange(n)
                    out, want = [ds[j]], [full[j]]
                elif how == 'copy':
                    out = list(ds.copy(freeze=rng.random() < 0.5))
                elif how == 'prefetch1':
                    out = list(ds.prefetch(1, 2))
                elif how == 'prefetch2':
                    out = list(ds.prefetch(2, 3))
                else:
                    out = [v for _, v in ds.items()]
                    if [k for k, _ in ds.items()] != [f'k{j}' for j in range(n)]:
                        fails.append(('items_keys_order', {'steps': steps}))
            except Exception as e:  # noqa   (no access path of a cache over a healthy pipeline raises)
                fails.append(('access_path_raises', {'path': how, 'steps': steps[:], 'n': n, 'error': repr(e)[:200]}))
                break
            if out != want:
                fails.append(('access_path_not_transparent', {'path': how, 'steps': steps[:], 'mutable_examples': mutable, 'got': repr(out), 'want': repr(want)}))
            got += [(o['v'] if mutable else o) for o in out if (isinstance(o, dict) and isinstance(o.get('v'), int)) or isinstance(o, int)]
            if mutable:
                for o in out:               # the consumer modifies what it was handed
                    if isinstance(o, dict):
                        o['v'] = -7
                        o.setdefault('h', []).append('modified by the consumer')
                        o['d'] = None
    if any(v % 1000 != 0 for v in got):
        fails.append(('not_first_value', {'values': got}))
    if any(c > 1 for c in counts):
        fails.append(('computed_more_than_once', {'calls': counts, 'n': n}))
    return fails


def eager_snapshot(rng):
    """cache(lazy=False) snapshots content and order at call time"""
    common.gc_point()
    fails = []
    n = rng.randint(0, 6)
    epoch = {'e': 0}
    with warnings.catch_warnings():
        warnings.simplefilter('ignore')
        ds = lazy_dataset.new({f'k{j}': j for j in range(n)}).map(lambda x: x * 1000 + epoch['e'])
        snap = ds.cache(lazy=False)
        before = list(snap)
        epoch['e'] = 7
        after = list(snap)
        if before != after or before != [j * 1000 for j in range(n)]:
            fails.append(('eager_snapshot_changed', {'before': before, 'after': after}))
        if n and list(snap.keys()) != [f'k{j}' for j in range(n)]:
            fails.append(('eager_snapshot_order', {'keys': list(snap.keys())}))
    return fails


def run(rep):
    rng = random.Random(rep.seed * 13 + 10)
    tier = rep.tier
    hists = []
    # bounded-exhaustive: all histories of length <= 3 over a 2-example dataset, one instance + optional copy
    base_ops = [{'k': 'get', 'inst': 0, 'i': i, 'mem': m} for i in (-2, -1, 0, 1, 2) for m in (True, False)]
    base_ops += [{'k': 'copy', 'inst': 0}, {'k': 'get', 'inst': 1, 'i': 1, 'mem': True}, {'k': 'get', 'inst': 1, 'i': -1, 'mem': False}]
    base_ops += [{'k': 'next', 'it': 0, 'inst': 0, 'mem': True}, {'k': 'next', 'it': 1, 'inst': 0, 'mem': True}]
    import itertools
    for L in (1, 2, 3, 4):
        for combo in itertools.product(base_ops, repeat=L):
            if L == 4 and sum(o['k'] == 'next' for o in combo) < 2:
                continue
            hists.append((2, resolve(2, [dict(o) for o in combo]), False))
    hists = hists if tier == 'thorough' else rng.sample(hists, 500)
    for _ in range(400 if tier == 'quick' else 8000):
        n = rng.randint(1, 6)
        hists.append((n, gen_history(rng, n, rng.randint(1, 14), rng.choice([0.0, 0.0, 0.2, 0.5])), rng.random() < 0.4))
    # the witness of the repaired defect F4 runs first
    hists.insert(0, (3, [{'k': 'get', 'inst': 0, 'i': -1, 'mem': True}, {'k': 'get', 'inst': 0, 'i': 2, 'mem': True}], False))
    results = []
    for n, ops, keyed in hists:
        if keyed:
            for op in ops:
                if op['k'] == 'get':
                    op['by_key'] = rng.random() < 0.3
        results.append(run_history(n, ops, keyed))
    replies = model.ask([{'fam': 'cache', 'n': n, 'ops': ops} for n, ops, _ in hists])
    disagree, fails = [], []
    for (n, ops, keyed), (outs, counts, stored), rp in zip(hists, results, replies):
        if rp.get('outs') != outs or rp.get('calls') != counts or (stored is not None and rp.get('stored') is not None
                                                                  and sorted(rp['stored']) != stored):
            disagree.append((n, ops, outs, counts, stored, rp))
        for cl, det in oracle(n, ops, outs, counts):
            fails.append((cl, det, n, ops, outs))
    extra = []
    for _ in range(60 if tier == 'quick' else 600):
        extra += real_paths(rng) + eager_snapshot(rng)
    seen = set()
    for cl, det, n, ops, outs in fails:
        if cl in seen or len(rep.violations) >= 4:
            continue
        seen.add(cl)
        rep.violation({'property': 'C10', 'kind': 'oracle-failure', 'clause': cl, 'detail': det, 'n': n, 'history': ops,
                       'implementation_outputs': outs})
    for cl, det in extra[:2]:
        rep.violation({'property': 'C10', 'kind': 'oracle-failure', 'clause': cl, 'detail': det, 'path': 'real access paths'})
    if disagree and not rep.violations:
        n, ops, outs, counts, stored, rp = min(disagree, key=lambda t: len(t[1]))
        rep.violation({'property': 'C10', 'kind': 'correspondence',
                       'what_no_longer_checks': 'family `cache`: lean/LazyDs/Model/Cache.lean versus CacheDataset/_CacheWrapper; theorems of LazyDs/Props/C10.lean are not tied to this code',
                       'n': n, 'history': ops, 'implementation': {'outs': outs, 'calls': counts, 'stored': stored}, 'model': rp,
                       'searched_histories_for_failing_input': len(hists)}, no_input=True)
    rep.coverage.update({
        'evaluations': len(hists), 'programs': len(hists), 'disagreements_checked': len(hists), 'disagreements_found': len(disagree),
        'distinct_nontrivial': len({json.dumps([n, ops]) for n, ops, _ in hists if len(ops) >= 2}),
        'rule': 'histories of get(instance, index of either sign incl. out of range, memory oracle) / copy: all histories of length <= 3 over a '
                '13-op alphabet on a 2-example dataset (sampled in the quick tier) + random histories up to length 14 on 1..6 examples, by index and by key; '
                'plus real access paths (iteration, slices, keys, copies, items, thread prefetch) judged by the oracle only; distinct non-trivial = distinct history of length >= 2',
        'samples': [{'n': hists[i][0], 'history': hists[i][1], 'implementation_outputs': results[i][0], 'model_outputs': replies[i].get('outs')} for i in (0, 3)],
        'oracle_failures': len(fails) + len(extra), 'exhaustive': False})
    return rep


def replay(j):
    if 'history' not in j:
        print(j)
        return 1
    outs, counts, stored = run_history(j['n'], j['history'], any(o.get('by_key') for o in j['history']))
    rp = model.ask([{'fam': 'cache', 'n': j['n'], 'ops': j['history']}])[0]
    fails = oracle(j['n'], j['history'], outs, counts)
    print(json.dumps({'outs': outs, 'calls': counts, 'model': rp, 'oracle_failures': fails}, indent=1))
    if fails or rp.get('outs') != outs:
        print('VIOLATION property=C10 replay=(replayed)')
        return 1
    return 0

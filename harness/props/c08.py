"""C08 - evaluation is demand-driven: nothing runs early, nothing runs twice."""
import json
import common
import random
import warnings

import numpy as np
import lazy_dataset
import model
from canon import canon, outcome
from fnmenu import Fn, Pred, exc_name


class RecRng:
    def __init__(self, seed):
        self.rng = np.random.RandomState(seed)
        self.choices, self.shuffles = [], []

    def choice(self, n, **kw):
        c = int(self.rng.choice(n))
        self.choices.append(c)
        return c

    def shuffle(self, a):
        before = list(range(len(a)))
        idx = list(range(len(a)))
        self.rng.shuffle(idx)
        vals = [a[i] for i in idx]
        a[:] = vals
        self.shuffles.append(idx)


def gen_tpipe(rng, depth, sid):
    """random lazy pipeline (AST of lean/LazyDs/Model/Trace.lean) over int sources"""
    if depth == 0:
        n = rng.randint(0, 6)
        return {'op': 'src', 'xs': [rng.randint(-3, 12) for _ in range(n)]}, 'int', True
    op = rng.choice(['map', 'map', 'mapRaise', 'filter', 'filter', 'batch', 'unbatch', 'concat', 'slice', 'zip', 'local']
                    + (['catch', 'catch', 'reshuffle', 'cache', 'tile', 'intersperse'] if EXTENDED else []))
    p, kind, idxable = gen_tpipe(rng, depth - 1, sid)
    if op in ('map', 'mapRaise'):
        sid[0] += 1
        if kind != 'int':
            f = rng.choice([{'fn': 'identity'}, {'fn': 'tag', 's': 'v'}, {'fn': 'first'}])
            k2 = 'other' if f['fn'] != 'identity' else kind
        elif op == 'mapRaise':
            m = rng.choice([2, 3])
            f = {'fn': 'raiseIfMod', 'm': m, 'r': rng.randrange(m), 'cls': rng.choice(['UserA', 'ValueError'])}
            k2 = 'int'
        else:
            f = rng.choice([{'fn': 'add', 'c': rng.randint(1, 9)}, {'fn': 'neg'}, {'fn': 'fragment', 'k': rng.randint(0, 3)}])
            k2 = 'list' if f['fn'] == 'fragment' else 'int'
        return {'op': 'map', 'sid': sid[0], 'f': f, 'p': p}, k2, idxable
    if op == 'filter':
        sid[0] += 1
        m = rng.choice([2, 3])
        f = rng.choice([{'pred': 'keepMod', 'm': m, 'r': rng.randrange(m)}, {'pred': 'dropMod', 'm': m, 'r': rng.randrange(m)},
                        {'pred': 'always', 'b': rng.random() < 0.7}])
        return {'op': 'filter', 'sid': sid[0], 'f': f, 'p': p}, kind, False
    if op == 'batch':
        return {'op': 'batch', 'n': rng.randint(1, 3), 'dropLast': rng.random() < 0.3, 'p': p}, 'list', idxable
    if op == 'unbatch':
        if kind != 'list':
            sid[0] += 1
            p = {'op': 'map', 'sid': sid[0], 'f': {'fn': 'fragment', 'k': rng.randint(0, 3)}, 'p': p} if kind == 'int' else \
                {'op': 'batch', 'n': 2, 'dropLast': False, 'p': p}
        return {'op': 'unbatch', 'p': p}, 'int' if kind in ('int', 'list') else 'other', False
    if op == 'concat':
        q, k2, i2 = gen_tpipe(rng, max(0, depth - 2), sid)
        return {'op': 'concat', 'p': p, 'q': q}, kind if kind == k2 else 'other', idxable and i2
    if op == 'zip':
        if count_len(p) is None:
            return p, kind, idxable
        q = json.loads(json.dumps(p))

        def renumber(t):
            if 'sid' in t:
                sid[0] += 1
                t['sid'] = sid[0]
            for k in ('p', 'q'):
                if k in t:
                    renumber(t[k])
        renumber(q)
        return {'op': 'zip', 'p': p, 'q': q}, 'other', idxable
    if op == 'slice' and idxable and 'cache' not in ops_of(p):
        n = count_len(p)
        if n is not None:
            sel = [rng.randrange(n) for _ in range(rng.randint(0, n + 1))] if n else []
            if n and rng.random() < 0.4:
                # the same selection written as a slice object ds[a:b] (the model sees the positions)
                a = rng.randrange(n)
                b = rng.randint(a, n)
                return {'op': 'slice', 'sel': list(range(a, b)), 'ab': [a, b], 'p': p}, kind, True
            return {'op': 'slice', 'sel': sel, 'p': p}, kind, True
    if op == 'catch' and idxable and count_len(p) is not None:
        return {'op': 'catch', 'E': rng.choice([['UserA'], ['ValueError'], ['UserA', 'ValueError'], ['UserBase']]), 'p': p}, kind, False
    if op == 'reshuffle' and idxable and count_len(p) is not None:
        return {'op': 'reshuffle', 'perm': [], 'p': p}, kind, False
    if op == 'cache' and idxable and count_len(p) is not None:
        return {'op': 'cache', 'p': p}, kind, True
    # (a cache below a stage that may visit a position twice would answer the second visit from memory:
    #  memoisation is C10's subject, the traced model describes first accesses)
    if op == 'tile' and idxable and count_len(p) and 'cache' not in ops_of(p):
        return {'op': 'tile', 'r': rng.randint(2, 3), 'p': p}, kind, True
    if op == 'intersperse' and idxable and count_len(p):
        q, k2, i2 = gen_tpipe(rng, max(0, depth - 2), sid)
        if i2 and count_len(q):
            return {'op': 'intersperse', 'p': p, 'q': q}, kind if kind == k2 else 'other', True
        return p, kind, idxable
    if op == 'local':
        return {'op': 'localShuffle', 'bs': rng.randint(1, 3), 'choices': [], 'final': [], 'p': p}, kind, False
    return p, kind, idxable


EXTENDED = True       # catch / reshuffle / cache / tile / intersperse in the traced pipelines


def count_len(p):
    if p['op'] == 'src':
        return len(p['xs'])
    if p['op'] in ('map', 'reshuffle', 'cache'):
        return count_len(p['p'])
    if p['op'] == 'tile':
        n = count_len(p['p'])
        return None if n is None else n * p['r']
    if p['op'] == 'intersperse':
        a, b = count_len(p['p']), count_len(p['q'])
        return None if a is None or b is None else a + b
    if p['op'] == 'slice':
        return len(p['sel'])
    if p['op'] == 'concat':
        a, b = count_len(p['p']), count_len(p['q'])
        return None if a is None or b is None else a + b
    if p['op'] == 'zip':
        return count_len(p['p'])
    if p['op'] == 'batch':
        n = count_len(p['p'])
        if n is None:
            return None
        return n // p['n'] if p['dropLast'] else -(-n // p['n'])
    return None


def build_real(p, log, rngs):
    op = p['op']
    if op == 'src':
        return lazy_dataset.new(list(p['xs']))
    if op == 'map':
        return build_real(p['p'], log, rngs).map(Fn(p['f'], log, p['sid']))
    if op == 'filter':
        return build_real(p['p'], log, rngs).filter(Pred(p['f'], log, p['sid']))
    if op == 'batch':
        return build_real(p['p'], log, rngs).batch(p['n'], drop_last=p['dropLast'])
    if op == 'unbatch':
        return build_real(p['p'], log, rngs).unbatch()
    if op == 'concat':
        return build_real(p['p'], log, rngs).concatenate(build_real(p['q'], log, rngs))
    if op == 'zip':
        return build_real(p['p'], log, rngs).zip(build_real(p['q'], log, rngs))
    if op == 'slice':
        if 'ab' in p:
            return build_real(p['p'], log, rngs)[p['ab'][0]:p['ab'][1]]
        return build_real(p['p'], log, rngs)[list(p['sel'])]
    if op == 'catch':
        from impl import exc_tuple
        return build_real(p['p'], log, rngs).catch(exc_tuple(p['E']))
    if op == 'reshuffle':
        r = RecRng(len(rngs) + 29)
        rngs.append((p, r))
        return build_real(p['p'], log, rngs).shuffle(reshuffle=True, rng=r)
    if op == 'cache':
        return build_real(p['p'], log, rngs).cache()
    if op == 'tile':
        return build_real(p['p'], log, rngs).tile(p['r'])
    if op == 'intersperse':
        return build_real(p['p'], log, rngs).intersperse(build_real(p['q'], log, rngs))
    if op == 'localShuffle':
        r = RecRng(len(rngs) + 17)
        rngs.append((p, r))
        return build_real(p['p'], log, rngs).shuffle(reshuffle=True, buffer_size=p['bs'], rng=r)
    raise ValueError(op)


def logj(log):
    return [[s, canon(a)] for s, a in log]


def run_case(p):
    """build lazily, then call next() one at a time recording the call log after every step"""
    common.gc_point()
    log, rngs = [], []
    with warnings.catch_warnings():
        warnings.simplefilter('ignore')
        ds = build_real(p, log, rngs)
        # the pipeline consumed directly, through copy() and through copy(freeze=True): copying executes no
        # user function either and the copy evaluates exactly like the original
        view = ('direct', 'direct', 'copy', 'freeze')[len(json.dumps(p)) % 4]
        if view == 'copy':
            ds = ds.copy()
        elif view == 'freeze':
            ds = ds.copy(freeze=True)
        construction_calls = len(log)
        it = iter(ds)
        chunks = []
        err = None
        mark = 0
        while True:
            try:
                v = next(it)
            except StopIteration:
                break
            except BaseException as e:  # noqa
                err = exc_name(e)
                break
            chunks.append([logj(log[mark:]), canon(v)])
            mark = len(log)
        tail = logj(log[mark:])
        # what the generators drew goes into the request so that the model follows the same choices
        for q, r in rngs:
            if q['op'] == 'reshuffle':
                # what the generator drew: the order of this (first) epoch
                q['perm'] = r.shuffles[0] if r.shuffles else list(range(count_len(q['p']) or 0))
                continue
            q['choices'] = r.choices
            q['final'] = r.shuffles[-1] if r.shuffles else []
        # indexing: the calls made for exactly one result (fresh pipeline, same functions)
        gets = []
        n = count_len(p)
        if n:
            log2 = []
            ds2 = build_real(json.loads(json.dumps(p)), log2, [])
            idxable = outcome(lambda: bool(ds2.indexable), lambda b: b).get('ok')
            if idxable:
                for i in range(n):
                    m0 = len(log2)
                    r = outcome(lambda: ds2[i])
                    gets.append([i, logj(log2[m0:]), r])
    return {'construction_calls': construction_calls, 'chunks': chunks, 'tail': tail, 'err': err, 'gets': gets}


# stages that visit their input in an order of their own / several times / not to the end
INDEX_DRIVEN = {'slice', 'reshuffle', 'tile', 'intersperse'}


def oracle(p, r):
    """model-free clauses: nothing at construction; per stage every argument sequence is consumed once and in
    order (no call repeated for the same position)"""
    fails = []
    if r['construction_calls']:
        fails.append(('calls_at_construction', {'n': r['construction_calls']}))
    # the log after k results is a prefix of the full log by construction of the observation; check "once":
    full = [c for ch in r['chunks'] for c in ch[0]] + r['tail']
    per_stage = {}
    for s, a in full:
        per_stage.setdefault(s, []).append(a)
    # index-driven stages (slices) deliberately visit their input in selection order and may repeat positions
    expect = stage_inputs(p) if not (INDEX_DRIVEN & set(ops_of(p))) else {}
    # a batch / zip row that `catch` drops because one of its parts failed is abandoned at that part: the rest of it is
    # never evaluated, so below a catch the calls are a subsequence (in order, nothing twice) of the stage's input
    skipping = 'catch' in ops_of(p)

    def in_order(args, want):
        if not skipping:
            return args == want[:len(args)]
        it = iter(want)
        return all(any(a == w for w in it) for a in args)
    for s, args in per_stage.items():
        want = expect.get(s)
        if want is not None and not in_order(args, want):
            fails.append(('not_once_in_source_order', {'stage': s, 'called_with': args, 'stage_input_sequence': want}))
    # ds[i] applies the functions only to the examples that make up that one result, once each: in an
    # indexable pipeline without index-driven stages the i-th step of an iteration does exactly that work
    if not (INDEX_DRIVEN & set(ops_of(p))):
        for i, glog, res in r['gets']:
            if i < len(r['chunks']) and 'ok' in res:
                need = [json.dumps(c, sort_keys=True) for c in r['chunks'][i][0]]
                for c in glog:
                    k = json.dumps(c, sort_keys=True)
                    if k in need:
                        need.remove(k)
                    else:
                        fails.append(('getitem_extra_call', {'index': i, 'calls_for_this_index': glog,
                                                             'calls_of_iteration_step': r['chunks'][i][0]}))
                        break
    return fails


def stage_inputs(p, acc=None):
    """for map/filter stages fed (transitively) by plain sources through maps: the exact input sequence"""
    acc = acc if acc is not None else {}

    def seq(q):
        if q['op'] == 'src':
            return [canon(v) for v in q['xs']]
        return None
    if p['op'] in ('map', 'filter') and p['p']['op'] == 'src':
        acc[p['sid']] = seq(p['p'])
    for k in ('p', 'q'):
        if k in p:
            stage_inputs(p[k], acc)
    return acc


def keyed_case(rng):
    """`ds[key]` applies the functions only to the examples that make up that one result, once each: keyed
    sources below chains of key-forwarding stages (map, lazy filter, catch, concatenate, intersperse, slice)"""
    common.gc_point()
    fails = []
    n = rng.randint(1, 5)
    desc = []

    def build(log):
        r = random.Random(seed)
        sid = [0]

        def fn(c):
            sid[0] += 1
            me = sid[0]

            def f(x):
                log.append((me, x))
                return x + c
            return f

        def pred(m):
            sid[0] += 1
            me = sid[0]

            def g(x):
                log.append((me, x))
                return x % m != 0
            return g
        ds = lazy_dataset.new({f'k{j}': 7 * j + 1 for j in range(n)}).map(fn(100))
        del desc[:]
        for _ in range(r.randint(1, 3)):
            k = r.choice(['map', 'filter', 'catch', 'concat', 'intersperse', 'slice'])
            desc.append(k)
            if k == 'map':
                ds = ds.map(fn(r.randint(1, 9) * 1000))
            elif k == 'filter':
                ds = ds.filter(pred(r.choice([2, 3])))
            elif k == 'catch':
                ds = ds.catch()
            elif k == 'concat':
                ds = ds.concatenate(lazy_dataset.new({'x0': 5, 'x1': 6}).map(fn(50)))
            elif k == 'intersperse':
                try:
                    len(ds)
                except Exception:  # noqa
                    continue
                if len(ds):
                    ds = ds.intersperse(lazy_dataset.new({'y0': 3}).map(fn(70)))
            else:
                try:
                    m = len(ds)
                except Exception:  # noqa
                    continue
                ds = ds[[j for j in range(m) if r.random() < 0.7]]
        return ds
    seed = rng.randrange(1 << 30)
    with warnings.catch_warnings():
        warnings.simplefilter('ignore')
        log = []
        try:
            ds = build(log)
            if log:
                fails.append(('calls_at_construction', {'stages': list(desc), 'n': len(log)}))
            chunks, mark = {}, 0
            for k, v in ds.items():
                chunks[k] = (list(log[mark:]), v)
                mark = len(log)
        except Exception:  # noqa  (a chain without keyed iteration)
            return fails
        for k, (clog, v) in chunks.items():
            log2 = []
            ds2 = build(log2)
            r = outcome(lambda: ds2[k])
            if r != {'ok': canon(v)}:
                continue          # (what ds[key] returns is C03's subject)
            need = list(clog)
            for c in log2:
                if c in need:
                    need.remove(c)
                else:
                    fails.append(('getkey_extra_call', {'stages': list(desc), 'n': n, 'key': k, 'calls_for_this_key': log2,
                                                        'calls_of_the_iteration_step': clog}))
                    break
    return fails


def is_idxable(p):
    if p['op'] in ('filter', 'unbatch', 'localShuffle', 'catch', 'reshuffle'):
        return False
    return all(is_idxable(p[k]) for k in ('p', 'q') if k in p)


def small_tpipes(depth):
    """bounded-exhaustive: three small instrumented sources wrapped `depth` times with a fixed stage menu
    (every traced combinator, both batch modes, slices with repeats); independent of the seed"""
    def base(xs):
        return {'op': 'map', 'sid': 0, 'f': {'fn': 'add', 'c': 1}, 'p': {'op': 'src', 'xs': xs}}

    def menu(p):
        n = count_len(p)
        ix = is_idxable(p)
        side = base([7, 8])
        m = [
            {'op': 'map', 'sid': 0, 'f': {'fn': 'identity'}, 'p': p},
            {'op': 'map', 'sid': 0, 'f': {'fn': 'raiseIfMod', 'm': 2, 'r': 0, 'cls': 'UserA'}, 'p': p},
            {'op': 'filter', 'sid': 0, 'f': {'pred': 'keepMod', 'm': 2, 'r': 1}, 'p': p},
            {'op': 'batch', 'n': 2, 'dropLast': False, 'p': p},
            {'op': 'batch', 'n': 2, 'dropLast': True, 'p': p},
            {'op': 'batch', 'n': 3, 'dropLast': True, 'p': p},
            {'op': 'unbatch', 'p': p},
            {'op': 'concat', 'p': p, 'q': side},
            {'op': 'localShuffle', 'bs': 2, 'choices': [], 'final': [], 'p': p},
        ]
        if n is not None:
            m.append({'op': 'zip', 'p': p, 'q': json.loads(json.dumps(p))})
        if ix and n is not None:
            m += [{'op': 'catch', 'E': ['UserA'], 'p': p}, {'op': 'reshuffle', 'perm': [], 'p': p}, {'op': 'cache', 'p': p}]
            if n > 0:
                m.append({'op': 'intersperse', 'p': p, 'q': side})
                if 'cache' not in ops_of(p):
                    m += [{'op': 'tile', 'r': 2, 'p': p}, {'op': 'slice', 'sel': [n - 1, 0, 0], 'p': p},
                          {'op': 'slice', 'sel': list(range(n // 2, n)), 'ab': [n // 2, n], 'p': p}]
        return m

    def renumber(t, c):
        if 'sid' in t:
            c[0] += 1
            t['sid'] = c[0]
        for k in ('p', 'q'):
            if k in t:
                renumber(t[k], c)

    level = [base([]), base([5]), base([3, 1, 2, 4, 0])]
    out = list(level)
    for _ in range(depth):
        level = [q for p in level for q in menu(p)]
        out += level
    res = []
    for p in out:
        p = json.loads(json.dumps(p))
        renumber(p, [0])
        res.append(p)
    return res


def run(rep):
    rng = random.Random(rep.seed * 47 + 8)
    n = 400 if rep.tier == 'quick' else 8000
    cases = small_tpipes(2)
    n_small = len(cases)
    for _ in range(n):
        p, _, _ = gen_tpipe(rng, rng.choice([1, 2, 2, 3, 3, 4]), [0])
        cases.append(p)
    # corpus: the doctest of PrefetchDataset-free laziness: map then filter then batch
    cases.insert(0, {'op': 'batch', 'n': 2, 'dropLast': False, 'p': {'op': 'filter', 'sid': 2, 'f': {'pred': 'keepMod', 'm': 2, 'r': 0},
                     'p': {'op': 'map', 'sid': 1, 'f': {'fn': 'add', 'c': 1}, 'p': {'op': 'src', 'xs': [1, 2, 3, 4, 5]}}}})
    if not EXTENDED:
        cases = [p for p in cases if not ({'catch', 'reshuffle', 'cache', 'tile', 'intersperse'} & set(ops_of(p)))]
    results = [run_case(p) for p in cases]
    keyed_fails = []
    for _ in range(150 if rep.tier == 'quick' else 3000):
        keyed_fails += keyed_case(rng)
    reqs = [{'fam': 'trace', 'p': p, 'gets': [g[0] for g in r['gets']]} for p, r in zip(cases, results)]
    replies = model.ask(reqs)
    disagree, fails = [], []
    dist = {}
    steps = 0
    for p, r, rp in zip(cases, results, replies):
        steps += len(r['chunks']) + 1
        for o in ops_of(p):
            dist[o] = dist.get(o, 0) + 1
        same = (rp.get('chunks') == r['chunks'] and rp.get('tail') == r['tail'] and rp.get('err') == r['err']
                and rp.get('gets') == r['gets'])
        if not same:
            disagree.append((p, r, rp))
        for cl, det in oracle(p, r):
            fails.append((cl, det, p))
    fails += [(cl, det, {'keyed_chain': det.get('stages')}) for cl, det in keyed_fails]
    seen = set()
    for cl, det, p in fails:
        if cl not in seen and len(rep.violations) < 4:
            seen.add(cl)
            rep.violation({'property': 'C08', 'kind': 'oracle-failure', 'clause': cl, 'detail': det, 'pipeline': p})
    if disagree and not rep.violations:
        p, r, rp = min(disagree, key=lambda t: len(json.dumps(t[0])))
        # search: is it a laziness violation?  (a call in an earlier chunk than the model allows, or a repeated call)
        early = None
        for (lg, v), (mlg, mv) in zip(r['chunks'], rp.get('chunks', [])):
            if len(lg) > len(mlg):
                early = {'implementation_chunk': lg, 'model_chunk': mlg}
                break
        total_impl = sum(len(c[0]) for c in r['chunks']) + len(r['tail'])
        total_model = sum(len(c[0]) for c in rp.get('chunks', [])) + len(rp.get('tail', []))
        replay = {'property': 'C08', 'kind': 'correspondence',
                  'what_no_longer_checks': 'family `trace`: the chunked-trace semantics of lean/LazyDs/Model/Trace.lean versus the call log of the real generators after every next(); '
                                           'theorems of LazyDs/Props/C08.lean are not tied to this code',
                  'pipeline': p, 'implementation': r, 'model': rp}
        if early or total_impl > total_model:
            replay.update({'kind': 'oracle-failure-after-correspondence-break',
                           'clause': 'evaluated_early_or_twice', 'detail': early or {'calls_impl': total_impl, 'calls_model': total_model}})
            rep.violation(replay)
        else:
            rep.violation(replay, no_input=True)
    # "at most one prefetch buffer ahead": the parallel map / multi-worker prefetch reached through the dataset API
    # under the simulated pool (deterministic); the bound is the one proved as lpm_started_bound / lpm_pulled_bound
    import concrun
    import sched
    api_fail = 0
    n_api = 80 if rep.tier == 'quick' else 1500
    for _ in range(n_api):
        w = rng.choice([1, 2, 3])
        nn = rng.choice([3, 5, 8, 12])
        cfg = {'via': rng.choice(['parmap', 'parmap', 'prefetch', 'batchmap', 'prefetch_catch']), 'w': w, 'b': w + rng.choice([0, 0, 1, 2]),
               'items': [rng.randint(0, 9) for _ in range(nn)], 'ending': None, 'fm': 0, 'fr': 0, 'fcls': 'UserA',
               'stop': rng.choice([1, 2, 3, None]), 'with_items': rng.random() < 0.6}
        if cfg['via'] in ('prefetch', 'prefetch_catch') and w == 1:
            cfg['w'], cfg['b'] = 2, 2
        c = concrun.api_case(cfg, sched.RandomChooser(rng.randrange(1 << 30)))
        for cl, det in concrun.oracle(c, ('C07',)):
            api_fail += 1
            if 'prefetch_buffer_exceeded' not in seen and len(rep.violations) < 4:
                seen.add('prefetch_buffer_exceeded')
                rep.violation({'property': 'C08', 'kind': 'oracle-failure', 'clause': 'more_than_one_prefetch_buffer_ahead',
                               'detail': det, 'protocol': 'api', 'config': cfg, 'schedule': [ch for _, ch in c['run'].choices],
                               'events': c['run'].events})
    rep.coverage['parallel_map_read_ahead_runs'] = n_api
    rep.coverage.update({
        'evaluations': len(cases), 'programs': len(cases), 'disagreements_checked': steps, 'disagreements_found': len(disagree),
        'distinct_nontrivial': len({json.dumps(p, sort_keys=True) for p in cases if len(ops_of(p)) >= 3}),
        'rule': 'bounded-exhaustive: three small instrumented sources wrapped twice with a fixed menu of every traced combinator (~630 pipelines, independent of the seed) + random lazy pipelines (map incl. raising, lazy filter, batch, unbatch, concatenate, zip, index slices, buffer-local shuffle and per-epoch reshuffle with recorded draws, catch, lazy cache, tile, intersperse) of depth 1-4; every user function logs (stage, argument); '
                'the log is compared with the model after construction, after EVERY next() and for every ds[i]; distinct non-trivial = distinct pipeline with >= 3 stages',
        'samples': [{'pipeline': cases[0], 'implementation': results[0], 'model': replies[0]}],
        'distribution': {'stage_kinds': dist}, 'next_calls_compared': steps, 'oracle_failures': len(fails), 'exhaustive': False})
    return rep


def ops_of(p, acc=None):
    acc = acc if acc is not None else []
    acc.append(p['op'])
    for k in ('p', 'q'):
        if k in p:
            ops_of(p[k], acc)
    return acc


def replay(j):
    if 'pipeline' not in j:
        print(j)
        return 1
    r = run_case(j['pipeline'])
    rp = model.ask([{'fam': 'trace', 'p': j['pipeline'], 'gets': [g[0] for g in r['gets']]}])[0]
    same = rp.get('chunks') == r['chunks'] and rp.get('tail') == r['tail'] and rp.get('err') == r['err'] and rp.get('gets') == r['gets']
    print(json.dumps({'implementation': r, 'model': rp, 'oracle_failures': oracle(j['pipeline'], r)}, indent=1)[:6000])
    if not same or oracle(j['pipeline'], r):
        print('VIOLATION property=C08 replay=(replayed)')
        return 1
    return 0

"""C06 - decided on the two concurrent protocols (see concrun.py), plus the dataset-level views of a
prefetch stage with `catch_filter_exception` (the stage reached directly, through copies, through a
profiling wrapper and through a lazy apply) against a serial reference."""
import random
import warnings

import common
import concrun

WHICH = ('C06',)


def stream(mk):
    vals, err = [], None
    try:
        for x in mk():
            vals.append(x)
    except (KeyboardInterrupt, SystemExit):
        raise
    except BaseException as e:  # noqa
        err = {'Sub': 'FilterException'}.get(type(e).__name__, type(e).__name__)
    return {'vals': vals, 'err': err}


def view_cases(rng):
    import lazy_dataset
    from lazy_dataset.core import FilterException, ProfilingDataset
    from canon import run_stream
    common.gc_point()
    fails = []
    n = rng.randint(1, 8)
    bad = set(rng.sample(range(n), rng.randint(0, n)))
    other = rng.choice([None, None, rng.randrange(n)])

    class Sub(FilterException):
        pass

    class Selected(Exception):
        pass
    kinds = {x: rng.choice(['filter', 'sub', 'selected']) for x in bad}
    nones = set(x for x in range(n) if x not in bad and rng.random() < 0.25)

    # the exception that is not selected: ordinary classes, among them the lookup errors that stages of the
    # library catch for their own purposes (never IndexError: BatchDataset documents that one as its end mark)
    other_cls = rng.choice([ValueError, ValueError, KeyError, LookupError, RuntimeError, ZeroDivisionError, TypeError, AttributeError,
                            NotImplementedError, NotImplementedError, OSError])
    # optionally a batch stage between the failing map and the prefetch (the pool path builds batches by index)
    bs = rng.choice([None, None, 1, 2, 3])
    # optionally the failing map sits in the parts of a concatenation (the pool path walks the parts by index); without
    # a batch stage the unselected exception may then be an IndexError of the example itself
    split_at = rng.choice([None, None, rng.randint(0, n)])
    if bs is None and rng.random() < 0.35:
        class ExampleIndexError(IndexError):
            pass
        other_cls = rng.choice([IndexError, ExampleIndexError])

    def f(x):
        if x == other:
            raise other_cls(x)
        if x in bad:
            raise {'filter': FilterException, 'sub': Sub, 'selected': Selected}[kinds[x]](x)
        return None if x in nones else x * 10          # None is a legal example value
    w, b = rng.choice([(1, 1), (1, 3), (2, 2), (2, 4), (3, 3)])
    # the selection as the API accepts it: True (= FilterException), one class, a tuple of classes
    sel = rng.choice([True, FilterException, (FilterException,), (KeyError, FilterException), Selected, (Selected, KeyError),
                      (Selected, FilterException)])
    caught = (FilterException,) if sel is True else (sel if isinstance(sel, tuple) else (sel,))
    cls_of = {'filter': FilterException, 'sub': Sub, 'selected': Selected}
    want_vals, want_err = [], None
    for g0 in range(0, n, bs or 1):
        group, dropped = [], False
        for x in range(g0, min(n, g0 + (bs or 1))):
            if x == other:
                if issubclass(other_cls, caught):
                    dropped = True
                    break
                want_err = {'ExampleIndexError': 'ExampleIndexError'}.get(other_cls.__name__, other_cls.__name__)
                break
            if x in bad:
                if issubclass(cls_of[kinds[x]], caught):
                    dropped = True          # (with a batch stage the whole batch is the failing example)
                    break
                want_err = 'FilterException' if kinds[x] in ('filter', 'sub') else 'Selected'
                break
            group.append(None if x in nones else x * 10)
        if want_err is not None:
            break
        if not dropped:
            want_vals += [group] if bs else group
    keyed = rng.random() < 0.4
    src = {f'k{j}': j for j in range(n)} if keyed else list(range(n))

    def mk():
        if split_at is None:
            d = lazy_dataset.new(src).map(f)
        else:
            parts = [dict(list(src.items())[:split_at]), dict(list(src.items())[split_at:])] if keyed else [src[:split_at], src[split_at:]]
            d = lazy_dataset.concatenate(*[lazy_dataset.new(p_).map(f) for p_ in parts])
        if bs:
            d = d.batch(bs)
        return d.prefetch(w, b, catch_filter_exception=sel)
    views = {
        'direct': lambda: mk(),
        'copy': lambda: mk().copy(),
        'copy_freeze': lambda: mk().copy(freeze=True),
        'profiled': lambda: ProfilingDataset(mk()),
        'map_above_copy': lambda: mk().map(lambda x: x).copy(freeze=True),
        'lazy_apply': lambda: mk().apply(lambda d: d, lazy=True),
    }
    if keyed and w == 1 and not bs:
        # the keyed views of the single-thread path (pool prefetch has no keys)
        views['items'] = lambda: (kv[1] for kv in mk().items())
        views['copy_items'] = lambda: (kv[1] for kv in mk().copy(freeze=True).items())
    if keyed and not bs:
        csel = caught if len(caught) > 1 else caught[0]
        views['catch_items'] = lambda: (kv[1] for kv in lazy_dataset.new(src).map(f).catch(csel).items())
        views['catch_prefetch_items'] = lambda: (kv[1] for kv in lazy_dataset.new(src).map(f).catch(csel).prefetch(1, b).items())
    if keyed and not bs and split_at is None:
        # the keyed view of the parallel map (no catching stage): the pairs before the first failing example, then ITS
        # exception, whatever its class
        pv, pe = [], None
        for x in range(n):
            if x == other:
                pe = other_cls.__name__
                break
            if x in bad:
                pe = 'FilterException' if kinds[x] in ('filter', 'sub') else 'Selected'
                break
            pv.append(None if x in nones else x * 10)
        with warnings.catch_warnings():
            warnings.simplefilter('ignore')
            for nm, mkp in (('map(f, num_workers).items()', lambda: (kv[1] for kv in lazy_dataset.new(src).map(f, num_workers=w, buffer_size=b).items())),
                            ('map(f).items().prefetch(1, b)', lambda: (kv[1] for kv in lazy_dataset.new(src).map(f).items().prefetch(1, b))),
                            ('map(f).prefetch(1, b).items()', lambda: (kv[1] for kv in lazy_dataset.new(src).map(f).prefetch(1, b).items()))):
                got = stream(mkp)
                if got != {'vals': pv, 'err': pe}:
                    fails.append(('catch_filter_exception_view', {'view': nm, 'n': n, 'raising_selected': sorted(bad), 'raising_other': other, 'workers': w, 'buffer': b,
                                                                   'other_class': other_cls.__name__, 'got': got, 'serial_reference': {'vals': pv, 'err': pe}}))
                    break
    with warnings.catch_warnings():
        warnings.simplefilter('ignore')
        for name, mkv in views.items():
            got = stream(mkv)
            if got != {'vals': want_vals, 'err': want_err}:
                fails.append(('catch_filter_exception_view', {'view': name, 'n': n, 'raising_selected': sorted(bad), 'raising_other': other,
                                                               'workers': w, 'buffer': b, 'selection': repr(sel), 'keyed': keyed, 'other_class': other_cls.__name__, 'batch': bs, 'concatenated_at': split_at,
                                                               'got': got, 'serial_reference': {'vals': want_vals, 'err': want_err}}))
                break
    return fails


def run(rep):
    concrun.run(rep, 'C06', WHICH)
    rng = random.Random(rep.seed * 61 + 6)
    n = 250 if rep.tier == 'quick' else 4000
    fails = []
    for _ in range(n):
        fails += view_cases(rng)
    seen = set()
    for cl, det in fails:
        if (cl, det['view']) not in seen and len(rep.violations) < 4:
            seen.add((cl, det['view']))
            rep.violation({'property': 'C06', 'kind': 'oracle-failure', 'clause': cl, 'detail': det})
    rep.coverage['dataset_level_views'] = {'cases': n, 'views': ['direct', 'copy', 'copy_freeze', 'profiled', 'map_above_copy', 'lazy_apply'],
                                           'failures': len(fails)}
    return rep


def replay(j):
    if j.get('clause') == 'catch_filter_exception_view':
        print(j)
        return 1
    return concrun.replay('C06', WHICH, j)

"""C06 - decided on the two concurrent protocols (see concrun.py)."""
import concrun

WHICH = ('C06',)


def run(rep):
    return concrun.run(rep, 'C06', WHICH)


def replay(j):
    return concrun.replay('C06', WHICH, j)

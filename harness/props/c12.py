"""C12 - every shuffle is a permutation, for every iterator in flight."""
import itertools
import common
import json
import random
import warnings

import numpy as np
import lazy_dataset
import model


class RecRng:
    """wraps a real numpy generator and records what it drew (the oracle inputs of the model)"""

    def __init__(self, seed):
        self.rng = np.random.RandomState(seed)
        self.shuffles = []      # (array before, array after)
        self.choices = []

    def shuffle(self, a):
        before = list(a)
        self.rng.shuffle(a)
        self.shuffles.append((before, list(a)))

    def choice(self, n, size=None, replace=True):
        r = self.rng.choice(n, size=size, replace=replace)
        self.choices.append(r)
        return r


def perm_between(before, after):
    """π with after[i] = before[π[i]] (both are lists of distinct items)"""
    pos = {v: i for i, v in enumerate(before)}
    return [pos[v] for v in after]


# ---- reshuffle: all interleavings of two or three iterators -------------------------------------------

def reshuffle_history(n, script, seed):
    """script: list of iterator ids; each occurrence = one next() on that iterator (the first one starts it)"""
    common.gc_point()
    rng = RecRng(seed)
    with warnings.catch_warnings():
        warnings.simplefilter('ignore')
        ds = lazy_dataset.new(list(range(n))).shuffle(reshuffle=True, rng=rng)
        iters = {}
        ops, outs = [], []
        values = {}
        order = []
        for it in script:
            if it not in iters:
                iters[it] = iter(ds)
                order.append(it)
                nsh = len(rng.shuffles)
                try:
                    v = next(iters[it])
                    first = {'val': int(v)}
                except StopIteration:
                    first = 'stop'
                assert len(rng.shuffles) == nsh + 1
                before, after = rng.shuffles[-1]
                ops.append({'k': 'start', 'perm': perm_between(before, after)})
                outs.append({'started': order.index(it)})
                ops.append({'k': 'next', 'it': order.index(it)})
                outs.append(first)
            else:
                try:
                    v = next(iters[it])
                    o = {'val': int(v)}
                except StopIteration:
                    o = 'stop'
                ops.append({'k': 'next', 'it': order.index(it)})
                outs.append(o)
            if isinstance(outs[-1], dict) and 'val' in outs[-1]:
                values.setdefault(order.index(it), []).append(outs[-1]['val'])
    return ops, outs, values


def interleaved(ops):
    """does some iterator start while another one is in progress (known finding F10)?"""
    started = []
    done = set()
    count = {}
    n_next = {}
    for op in ops:
        if op['k'] == 'start':
            if any(i not in done for i in started):
                return True
            started.append(len(started))
        elif op['k'] == 'next':
            pass
    return False


def run_reshuffle(rep, rng, tier):
    hists = []
    for n in (1, 2, 3):
        for its in (2,):
            # every interleaving of `n+1` next() calls per iterator (run to StopIteration)
            base = [0] * (n + 1) + [1] * (n + 1)
            for perm in set(itertools.permutations(base)):
                hists.append((n, list(perm), rng.randrange(1 << 30)))
    if tier == 'quick':
        hists = rng.sample(hists, min(len(hists), 120))
    for _ in range(60 if tier == 'quick' else 1500):
        n = rng.randint(1, 5)
        k = rng.choice([1, 2, 3])
        script = [i for i in range(k) for _ in range(n + 1)]
        rng.shuffle(script)
        hists.append((n, script, rng.randrange(1 << 30)))
    # sequential iterations (no interleaving): epoch after epoch
    for _ in range(40 if tier == 'quick' else 400):
        n = rng.randint(0, 6)
        script = [i for i in range(3) for _ in range(n + 1)]
        hists.append((n, script, rng.randrange(1 << 30)))
    res = [reshuffle_history(n, script, seed) for n, script, seed in hists]
    replies = model.ask([{'fam': 'reshuffle', 'n': n, 'ops': ops} for (n, _, _), (ops, _, _) in zip(hists, res)])
    disagree, fails, known = [], [], 0
    for (n, script, seed), (ops, outs, values), rp in zip(hists, res, replies):
        if rp.get('outs') != outs:
            disagree.append({'n': n, 'script': script, 'seed': seed, 'ops': ops, 'implementation': outs, 'model': rp})
        # oracle: every iterator that ran to its end yielded a permutation
        started_before_end = {}
        for it, vals in values.items():
            if len(vals) == n and sorted(vals) != list(range(n)) or len(set(vals)) != len(vals):
                # is it the known interleaving defect? (another iterator started while this one was in progress)
                first = [i for i, o in enumerate(ops) if o['k'] == 'next' and o['it'] == it][0]
                last = [i for i, o in enumerate(ops) if o['k'] == 'next' and o['it'] == it][-1]
                other_start = any(o['k'] == 'start' for o in ops[first:last])
                if other_start:
                    known += 1
                else:
                    fails.append(('reshuffle_not_permutation', {'iterator': it, 'values': vals}, {'n': n, 'script': script, 'seed': seed}))
    return hists, res, replies, disagree, fails, known


# ---- the other shuffles (oracle + model for local shuffle) ---------------------------------------------

def others(rep, rng, tier):
    fails, disagree = [], []
    cases = 150 if tier == 'quick' else 3000
    n_local = 0
    for _ in range(cases):
        n = rng.randint(0, 9)
        vals = [rng.randint(0, 3) * 100 + i for i in range(n)]      # distinct examples
        seed = rng.randrange(1 << 30)
        with warnings.catch_warnings():
            warnings.simplefilter('ignore')
            src = {f'k{i}': v for i, v in enumerate(vals)} if rng.random() < 0.5 else vals
            ds = lazy_dataset.new(src)
            # one-time shuffle with an explicit generator and with the global one
            out = list(ds.shuffle(rng=np.random.RandomState(seed)))
            if sorted(out) != sorted(vals):
                fails.append(('one_time_shuffle', {'values': vals, 'out': out}))
            np.random.seed(seed % (1 << 31))
            reps = rng.choice([1, 2, 3])
            try:
                tout = list(ds.tile(reps, shuffle=True))
            except Exception as e:  # noqa   (tiling a dataset never raises)
                tout = None
                fails.append(('tile_shuffle', {'values': vals, 'reps': reps, 'error': repr(e)[:200]}))
            if tout is not None and ((n and [sorted(tout[r * n:(r + 1) * n]) for r in range(reps)] != [sorted(vals)] * reps) or len(tout) != n * reps):
                fails.append(('tile_shuffle', {'values': vals, 'reps': reps, 'out': tout}))
            if n:
                size = rng.randint(1, n)
                ch = list(ds.random_choice(size, rng_state=np.random.RandomState(seed)))
                if len(set(ch)) != len(ch) or not set(ch) <= set(vals) or len(ch) != size:
                    fails.append(('random_choice_without_replacement', {'values': vals, 'size': size, 'out': ch}))
            if isinstance(src, dict):
                # the keyed views of the same shuffles: a permutation of the (key, example) PAIRS of the input, in
                # the order of the plain iteration of an equally seeded build
                pairs = sorted(src.items())
                keyed = {
                    'shuffle().items()': (lambda: ds.shuffle(rng=np.random.RandomState(seed))),
                    'shuffle().shuffle(True, buffer_size).items()': (lambda: ds.shuffle(rng=np.random.RandomState(seed)).shuffle(True, buffer_size=2, rng=np.random.RandomState(seed))),
                    'shuffle(True).items()': (lambda: ds.shuffle(True, rng=np.random.RandomState(seed))),
                    'shuffle(True).copy(freeze=True).items()': (lambda: ds.shuffle(True, rng=np.random.RandomState(seed)).copy(freeze=True)),
                }
                if n:
                    keyed['random_choice(size).items()'] = (lambda: ds.random_choice(size, rng_state=np.random.RandomState(seed)))
                for nm, mk in keyed.items():
                    try:
                        ki = [tuple(kv) for kv in mk().items()]
                        plain = list(mk())
                    except Exception as e:  # noqa
                        fails.append(('shuffled_items_raise', {'view': nm, 'values': vals, 'error': repr(e)[:200]}))
                        continue
                    if not set(ki) <= set(pairs) or len(set(ki)) != len(ki) or [v for _, v in ki] != plain \
                            or ('choice' not in nm and sorted(ki) != pairs):
                        fails.append(('shuffled_items_not_input_pairs', {'view': nm, 'input_pairs': pairs, 'items': ki, 'plain_iteration': plain}))
                np.random.seed(seed % (1 << 31))
                try:
                    tki = [tuple(kv) for kv in ds.tile(reps, shuffle=True).items()] if reps == 1 else None
                except Exception:  # noqa  (reported above)
                    tki = None
                if tki is not None and sorted(tki) != pairs:
                    fails.append(('shuffled_items_not_input_pairs', {'view': 'tile(1, shuffle=True).items()', 'input_pairs': pairs, 'items': tki}))
            # buffer-local shuffle: model with the recorded draws + oracle
            bs = rng.choice([1, 2, 3, 4, n + 1])
            rr = RecRng(seed)
            # the stage iterated directly, through copies, and below another stage that is copied
            view = rng.choice(['direct', 'direct', 'copy', 'freeze', 'map_copy', 'items'])
            lds = ds.shuffle(reshuffle=True, buffer_size=bs, rng=rr)
            if view == 'copy':
                lds = lds.copy()
            elif view == 'freeze':
                lds = lds.copy(freeze=True)
            elif view == 'map_copy':
                lds = lds.map(lambda x: x).copy(freeze=True)
            lout = [kv[1] for kv in lds.items()] if (view == 'items' and isinstance(src, dict)) else list(lds)
            n_local += 1
            if sorted(lout) != sorted(vals):
                fails.append(('local_shuffle_perm', {'values': vals, 'bs': bs, 'out': lout, 'view': view}))
            for j, v in enumerate(lout):
                if v in vals and vals.index(v) > j + bs - 1:
                    fails.append(('local_shuffle_displacement', {'values': vals, 'bs': bs, 'out': lout, 'j': j, 'view': view}))
                    break
            choices = [int(c) for c in rr.choices]
            before, after = rr.shuffles[-1] if rr.shuffles else ([], [])
            fin = perm_between(list(range(len(before))), [before.index(x) for x in after]) if before else []
            rp = model.ask([{'fam': 'local', 'bs': bs, 'input': vals, 'choices': choices, 'final': fin}])[0]
            if rp.get('out') != lout:
                disagree.append({'values': vals, 'bs': bs, 'choices': choices, 'final': fin, 'implementation': lout, 'model': rp})
            # interleaved iterators over one local-shuffle object must not disturb each other
            ls = ds.shuffle(reshuffle=True, buffer_size=bs, rng=np.random.RandomState(seed))
            a, b = iter(ls), iter(ls)
            oa, ob = [], []
            for _ in range(n + 1):
                for it, o in ((a, oa), (b, ob)):
                    try:
                        o.append(next(it))
                    except StopIteration:
                        pass
            if sorted(oa) != sorted(vals) or sorted(ob) != sorted(vals):
                fails.append(('local_shuffle_interleaved', {'values': vals, 'a': oa, 'b': ob}))
            # an iterator over a reshuffling dataset and one over a COPY of it in flight at the same time
            # (different objects: not the known finding F10, which is about two iterators over one object)
            if n >= 2:
                ro = ds.shuffle(reshuffle=True, rng=np.random.RandomState(seed))
                rc = rng.choice([lambda: ro.copy(), lambda: ro.map(lambda x: x).copy(), lambda: lazy_dataset.core.ProfilingDataset(ro)])()
                ia, ib = iter(ro), None
                oa, ob = [], []
                k0 = rng.randrange(1, n)
                for _ in range(k0):
                    oa.append(next(ia))
                ib = iter(rc)
                for _ in range(n + 1):
                    for it, o in ((ib, ob), (ia, oa)):
                        try:
                            o.append(next(it))
                        except StopIteration:
                            pass
                if sorted(oa) != sorted(vals) or sorted(ob) != sorted(vals):
                    fails.append(('reshuffle_original_and_copy_in_flight', {'values': vals, 'original': oa, 'copy': ob, 'seed': seed}))
            # frozen copy of a reshuffle: one fixed permutation, immune to later iterations
            rs = ds.shuffle(reshuffle=True, rng=np.random.RandomState(seed))
            fz = rs.copy(freeze=True)
            f1 = list(fz)
            list(rs)
            f2 = list(fz)
            if f1 != f2 or sorted(f1) != sorted(vals):
                fails.append(('frozen_copy', {'first': f1, 'second': f2}))
    return fails, disagree, n_local


def run(rep):
    rng = random.Random(rep.seed * 19 + 12)
    hists, res, replies, disagree, fails, known = run_reshuffle(rep, rng, rep.tier)
    ofails, odis, n_local = others(rep, rng, rep.tier)
    findings = [f for f in __import__('common').load_known() if f.get('status') == 'known']
    if known and any(f['id'] == 'F10' for f in findings):
        rep.known('F10', next(f['what'] for f in findings if f['id'] == 'F10'))
    elif known:
        rep.violation({'property': 'C12', 'kind': 'oracle-failure', 'clause': 'reshuffle_interleaved', 'count': known})
    seen = set()
    for cl, det, ctx in fails:
        if cl not in seen and len(rep.violations) < 4:
            seen.add(cl)
            rep.violation({'property': 'C12', 'kind': 'oracle-failure', 'clause': cl, 'detail': det, 'case': ctx})
    for cl, det in ofails:
        if cl not in seen and len(rep.violations) < 4:
            seen.add(cl)
            rep.violation({'property': 'C12', 'kind': 'oracle-failure', 'clause': cl, 'detail': det})
    if (disagree or odis) and not rep.violations:
        d = (disagree or odis)[0]
        rep.violation({'property': 'C12', 'kind': 'correspondence',
                       'what_no_longer_checks': 'families `reshuffle` / `local`: lean/LazyDs/Model/Shuffle.lean versus ReShuffleDataset / LocalShuffleDataset; theorems of LazyDs/Props/C12.lean are not tied to this code',
                       'case': d, 'searched_cases_for_failing_input': len(hists) + n_local}, no_input=True)
    rep.coverage.update({
        'evaluations': len(hists) + n_local, 'programs': len(hists) + n_local, 'disagreements_checked': len(hists) + n_local,
        'disagreements_found': len(disagree) + len(odis),
        'distinct_nontrivial': len({json.dumps([n, s]) for n, s, _ in hists if len(s) > 2}),
        'rule': 'reshuffle: all interleavings of the next() calls of two iterators over one dataset object of length <= 3 (sampled in the quick tier), random interleavings of up to three '
                'iterators up to length 5, sequential epochs; the permutations numpy drew are recorded and fed to the model; local shuffle / one-time / tiling / random_choice / frozen copy: random cases with real generators; '
                'distinct non-trivial = distinct (n, interleaving script) with more than 2 steps',
        'samples': [{'n': hists[i][0], 'script': hists[i][1], 'ops': res[i][0], 'implementation': res[i][1], 'model': replies[i].get('outs')} for i in (0, 1)],
        'known_interleaving_failures': known, 'oracle_failures': len(fails) + len(ofails), 'exhaustive': False})
    rep.assumptions.append('numpy generators: rng.shuffle permutes in place, rng.choice(n) is in [0,n), choice(replace=False) is duplicate free (asserted on every draw used)')
    return rep


def replay(j):
    if 'case' in j and 'script' in j.get('case', {}):
        c = j['case']
        ops, outs, values = reshuffle_history(c['n'], c['script'], c['seed'])
        rp = model.ask([{'fam': 'reshuffle', 'n': c['n'], 'ops': ops}])[0]
        print(json.dumps({'ops': ops, 'implementation': outs, 'model': rp, 'values': values}, indent=1))
        bad = rp.get('outs') != outs or any(sorted(v) != list(range(c['n'])) for v in values.values() if len(v) == c['n'])
        if bad:
            print('VIOLATION property=C12 replay=(replayed)')
        return 1 if bad else 0
    print(json.dumps(j, indent=1)[:3000])
    return 1

"""C15 - shards partition the dataset."""
import json
import random
import numpy as np
import warnings

import lazy_dataset
import model
import pipefam
from canon import canon, outcome, run_stream


def source(n, kind):
    if kind == 'list':
        return {'op': 'list', 'xs': list(range(100, 100 + n))}
    return {'op': 'dict', 'kvs': [[f'k{j}', 100 + j] for j in range(n)]}


def split_oracle(n, k, kind):
    """the property on real split()/shard(): disjoint, covering, order, sizes, shard == split[i], rejection"""
    out = []
    src = list(range(100, 100 + n)) if kind == 'list' else {f'k{j}': 100 + j for j in range(n)}
    with warnings.catch_warnings():
        warnings.simplefilter('ignore')
        base = lazy_dataset.new(src)
        # the dataset that is split: a source, or itself a selection (whose keys() may have been asked before)
        parents = [base]
        if n and k >= 1:
            sl = base[:]
            if kind == 'dict':
                sl.keys()
            parents.append(sl)
            if kind == 'dict':
                so = base.sort()
                so.keys()
                parents.append(so)
    for ds in parents:
      with warnings.catch_warnings():
          warnings.simplefilter('ignore')
          if k < 1 or k > n:
              r = outcome(lambda: ds.split(k), lambda x: len(x))
              if r != {'err': 'ValueError'}:
                  out.append(('reject', {'n': n, 'k': k, 'got': r}))
              r2 = outcome(lambda: ds.shard(k, 0), lambda x: 'dataset')
              if 'ok' in r2:
                  out.append(('reject_shard', {'n': n, 'k': k, 'got': r2}))
              return out
          try:
              parts = ds.split(k)
              lists = [list(p) for p in parts]
          except Exception as e:  # noqa  a valid shard count must be accepted
              out.append(('valid_split_raises', {'n': n, 'k': k, 'kind': kind, 'err': repr(e)[:160]}))
              continue
          if len(parts) != k:
              out.append(('count', {'n': n, 'k': k, 'got': len(parts)}))
          flat = [x for l in lists for x in l]
          if flat != list(ds):
              out.append(('concat_reproduces', {'n': n, 'k': k, 'shards': lists}))
          sizes = [len(l) for l in lists]
          if sizes and max(sizes) - min(sizes) > 1:
              out.append(('sizes_differ_by_one', {'n': n, 'k': k, 'sizes': sizes}))
          if [len(p) for p in parts] != sizes:
              out.append(('len_of_shards', {'n': n, 'k': k}))
          for i in range(-k, k):
              try:
                  s = list(ds.shard(k, i))
              except Exception as e:  # noqa
                  out.append(('valid_shard_raises', {'n': n, 'k': k, 'i': i, 'err': repr(e)[:160]}))
                  break
              if s != lists[i]:
                  out.append(('shard_eq_split', {'n': n, 'k': k, 'i': i, 'shard': s, 'split': lists[i]}))
                  break
          # every shard is a dataset of its own: indices of either sign (Python and numpy integers) address ITS examples,
          # everything outside [-len, len) is refused
          bad_index = None
          dense = n <= 14 or (n + k) % 5 == 0        # (all (n, k) up to 14, every fifth pair beyond)
          for p_, l_ in (zip(parts, lists) if dense else ()):
              m = len(l_)
              for i in range(-m - 2, m + 2):
                  for typ in (int, np.int64):
                      got = outcome(lambda: p_[typ(i)], lambda x: x)
                      want = {'ok': l_[i]} if -m <= i < m else {'err': 'IndexError'}
                      if got != want and bad_index is None:
                          bad_index = {'n': n, 'k': k, 'shard': l_, 'index': i, 'index_type': typ.__name__, 'got': got, 'want': want}
          if bad_index:
              out.append(('shard_index', bad_index))
          # the shard taken lazily (`ds.apply(lambda d: d.shard(k, i), lazy=True)`, the usage the `apply` docstring
          # recommends): it yields the shard, and whatever it answers about its length and keys is true of the shard
          for i in (range(k) if dense else ()):
              lz = ds.apply(lambda d, i=i: d.shard(k, i), lazy=True)
              got = outcome(lambda: list(lz), lambda x: x)
              if got != {'ok': lists[i]}:
                  out.append(('lazy_shard_eq_split', {'n': n, 'k': k, 'i': i, 'lazy_shard': got, 'split': lists[i]}))
                  break
              ln = outcome(lambda: len(lz))
              if 'ok' in ln and ln['ok'] != len(lists[i]):
                  out.append(('lazy_shard_len', {'n': n, 'k': k, 'i': i, 'len': ln['ok'], 'yields': len(lists[i])}))
                  break
              if kind == 'dict':
                  kz = outcome(lambda: list(lz.keys()), lambda x: x)
                  if 'ok' in kz and kz['ok'] != list(parts[i].keys()):
                      out.append(('lazy_shard_keys', {'n': n, 'k': k, 'i': i, 'keys': kz['ok'], 'keys_of_split': list(parts[i].keys())}))
                      break
                  # keyed iteration of the lazy shard (the only way to its keys when keys() is refused): (key, example)
                  # pairs of exactly this shard, or a refusal - never bare examples or another shard's pairs
                  iz = outcome(lambda: list(lz.items()), lambda x: x)
                  want_iz = list(zip(parts[i].keys(), lists[i]))
                  if iz != {'ok': want_iz} and iz.get('err') != 'ItemsNotDefined':
                      out.append(('lazy_shard_items', {'n': n, 'k': k, 'i': i, 'items': iz, 'want': want_iz}))
                      break
          if kind == 'dict':
              keys = [list(p.keys()) for p in parts]
              if [x for l in keys for x in l] != list(ds.keys()):
                  out.append(('keys_partition', {'n': n, 'k': k, 'keys': keys}))
              # the keyed views of the shards: items() pairs and lookups by the shard's own keys
              items = [outcome(lambda: list(p.items()), lambda x: x) for p in parts]
              want = [list(zip(ks, l)) for ks, l in zip(keys, lists)]
              if [it.get('ok') for it in items] != want:
                  out.append(('items_partition', {'n': n, 'k': k, 'items': items, 'want': want}))
              for p, ks, l in zip(parts, keys, lists):
                  if [outcome(lambda: p[kk]) for kk in ks] != [{'ok': v} for v in l]:
                      out.append(('shard_key_lookup', {'n': n, 'k': k, 'keys': ks}))
                      break
    return out


def run(rep):
    tier = rep.tier
    rng = random.Random(rep.seed + 15)
    nmax = 12 if tier == 'quick' else 40
    cases = []
    for n in range(0, nmax + 1):
        for k in range(-1, n + 3):
            for i in sorted({-k - 1, -k, -1, 0, 1, k // 2, k - 1, k} if k > 0 else {0}):
                cases.append((n, k, i, 'dict' if (n + k) % 2 else 'list'))
    for _ in range(200 if tier == 'quick' else 3000):
        n = rng.randint(13, 60 if tier == 'quick' else 300)
        k = rng.randint(1, n)
        cases.append((n, k, rng.randint(-k, k - 1), rng.choice(['list', 'dict'])))
    pipes = [{'op': 'shard', 'k': k, 'i': i, 'p': source(n, kind)} for n, k, i, kind in cases]
    reqs = [pipefam.make_request(p) for p in pipes]
    for r in reqs:
        r['idx'] = r['idx'][:12]
    impl_obs = [pipefam.observe_impl(r) for r in reqs]
    model_obs = model.ask(reqs)
    disagree = []
    for r, a, b in zip(reqs, impl_obs, model_obs):
        d = pipefam.diff(a, b)
        if d:
            disagree.append((r['p'], d))
    fails = []
    seen_nk = set()
    for n, k, i, kind in cases:
        if (n, k, kind) in seen_nk:
            continue
        seen_nk.add((n, k, kind))
        for cl, det in split_oracle(n, k, kind):
            fails.append((cl, det, kind))
    seen = set()
    for cl, det, kind in fails:
        if cl in seen or len(rep.violations) >= 4:
            continue
        seen.add(cl)
        rep.violation({'property': 'C15', 'kind': 'oracle-failure', 'clause': cl, 'detail': det, 'source_kind': kind})
    if disagree and not rep.violations:
        p, d = min(disagree, key=lambda t: len(json.dumps(t[0])))
        rep.violation({'property': 'C15', 'kind': 'correspondence',
                       'what_no_longer_checks': 'family `pipe` on shard pipelines: mkSplit/mkShard/sectionIdx of lean/LazyDs/Model/Stage.lean versus Dataset.split/shard; '
                                                'theorems of LazyDs/Props/C15.lean are not tied to this code',
                       'pipeline': p, 'differences': [{'field': f, 'impl': x, 'model': y} for f, x, y in d][:4],
                       'searched_(n,k)_pairs_for_failing_input': len(seen_nk)}, no_input=True)
    rep.coverage.update({
        'evaluations': len(cases), 'programs': len(cases), 'disagreements_checked': len(cases),
        'disagreements_found': len(disagree), 'distinct_nontrivial': len({(n, k, i) for n, k, i, _ in cases if 1 <= k <= n}),
        'rule': f'every (n, k) with n <= {nmax}, k in [-1, n+2], representative shard indices i (incl. negative and out of range) + random larger n; '
                'distinct non-trivial = distinct (n,k,i) with 1 <= k <= n',
        'exhaustive': False,
        'samples': [{'request': reqs[40]['p'], 'implementation': impl_obs[40].get('iter'), 'model': model_obs[40].get('iter')}],
        'split_oracle_pairs': len(seen_nk), 'oracle_failures': len(fails)})
    return rep


def replay(j):
    if 'pipeline' in j:
        import piperun
        import props.c01 as c01
        return piperun.replay(c01.P(), j)
    det = j['detail']
    fails = split_oracle(det['n'], det['k'], j.get('source_kind', 'list'))
    print(json.dumps({'detail': det, 'oracle_failures_now': fails}, indent=1, default=str))
    if fails:
        print('VIOLATION property=C15 replay=(replayed)')
        return 1
    return 0

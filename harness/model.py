"""Client of the compiled Lean driver (line protocol)."""
import json
import os
import subprocess

HERE = os.path.dirname(os.path.abspath(__file__))
VERIF = os.path.dirname(HERE)
DRIVER = os.path.join(VERIF, 'lean', '.lake', 'build', 'bin', 'driver')


def ask(requests):
    """send all requests, return the list of replies (dicts)"""
    if not requests:
        return []
    try:
        import common
        common.disarm_case_timeout()      # the per-case clock is for the code under test only
    except ImportError:
        pass
    data = '\n'.join(json.dumps(r, separators=(',', ':')) for r in requests) + '\n'
    proc = subprocess.run([DRIVER], input=data.encode(), stdout=subprocess.PIPE,
                          stderr=subprocess.PIPE, check=False)
    if proc.returncode != 0:
        raise RuntimeError(f'driver failed rc={proc.returncode}: {proc.stderr.decode()[:2000]}')
    lines = proc.stdout.decode().splitlines()
    if len(lines) != len(requests):
        raise RuntimeError(f'driver answered {len(lines)} lines for {len(requests)} requests')
    return [json.loads(l) for l in lines]

"""Independent eager reference semantics in plain Python list operations.

This is the ORACLE used on the implementation alone (it knows nothing of the Lean model and
nothing of lazy_dataset): "the sequence obtained by applying the corresponding eager list
operations to the source examples".  It is defined on well-formed pipelines only; for
anything else it raises RefUndefined and the oracle stays silent (the correspondence with
the model still judges those cases).

A reference dataset is
  outs  : per-position outcomes [('ok', v) | ('err', cls)]  (positional stages), or None
  stream: (vals, err)  what iteration yields
  keys  : key of every yielded example (what items() pairs them with) or None
  keys_api: whether .keys() is available
  indexable, haslen
"""
from fractions import Fraction
from canon import decode
from fnmenu import Fn, Pred, exc_class, exc_name


class RefUndefined(Exception):
    pass


class Ref:
    def __init__(self, outs=None, stream=None, keys=None, keys_api=False, indexable=False,
                 haslen=False, ordered=True):
        self.outs = outs
        if stream is None:
            stream = stream_of(outs)
        self.stream = stream
        self.keys = keys
        self.keys_api = keys_api
        self.indexable = indexable
        self.haslen = haslen
        self.ordered = ordered

    @property
    def n(self):
        if self.outs is not None:
            return len(self.outs)
        return len(self.stream[0])


def stream_of(outs):
    vals = []
    for o in outs:
        if o[0] == 'ok':
            vals.append(o[1])
        else:
            return (vals, o[1])
    return (vals, None)


def apply(f, o):
    if o[0] == 'err':
        return o
    try:
        return ('ok', f(o[1]))
    except (KeyboardInterrupt, SystemExit):
        raise
    except BaseException as e:  # noqa
        return ('err', exc_name(e))


def is_sub(name, classes):
    c = exc_class(name)
    return any(issubclass(c, exc_class(k)) for k in classes)


def py_index_list(spec, n, keys):
    """the positions selected by a slice spec on a list of length n (plain Python semantics)"""
    kind = spec['kind']
    if kind == 'range':
        if spec['step'] == 0:
            raise RefUndefined('step 0')
        return list(range(n))[slice(spec['start'], spec['stop'], spec['step'])]
    if kind == 'idx':
        out = []
        for i in spec['is']:
            if not -n <= i < n:
                raise RefUndefined('index out of range')
            out.append(i % n)
        return out
    if kind == 'mask':
        if len(spec['bs']) != n:
            raise RefUndefined('mask length')
        return [i for i, b in enumerate(spec['bs']) if b]
    if kind == 'keys':
        if not spec['ks']:
            return []
        if keys is None:
            raise RefUndefined('no keys')
        out = []
        for k in spec['ks']:
            if k not in keys:
                raise RefUndefined('absent key')
            if keys.count(k) != 1:
                raise RefUndefined('ambiguous key')
            out.append(keys.index(k))
        return out
    raise RefUndefined(kind)


def array_split_sizes(n, k):
    base, extra = divmod(n, k)
    return [base + 1] * extra + [base] * (k - extra)


def select(r, idx):
    if not r.indexable or r.outs is None:
        raise RefUndefined('not indexable')
    # a slice pairs examples with keys through the input's keys() table, so it needs that table
    keys = [r.keys[i] for i in idx] if (r.keys is not None and r.keys_api) else None
    return Ref(outs=[r.outs[i] for i in idx], keys=keys,
               keys_api=r.keys_api and keys is not None and len(set(keys)) == len(keys),
               indexable=True, haslen=True, ordered=r.ordered)


def ref(p):
    op = p['op']
    if op == 'list':
        return Ref(outs=[('ok', decode(v)) for v in p['xs']], indexable=True, haslen=True)
    if op == 'dict':
        ks = [k for k, _ in p['kvs']]
        return Ref(outs=[('ok', decode(v)) for _, v in p['kvs']], keys=ks, keys_api=True,
                   indexable=True, haslen=True)
    if op in ('concat', 'intersperse', 'zip', 'keyZip'):
        parts = [ref(q) for q in p['ps']]
        if not parts:
            raise RefUndefined('no parts')
        if op in ('concat', 'intersperse') and len(parts) == 1:
            return parts[0]
        if op == 'concat':
            keys = sum([r.keys for r in parts], []) if all(r.keys is not None for r in parts) else None
            keys_api = all(r.keys_api for r in parts) and len(set(keys)) == len(keys)
            vals, err = [], None
            for r in parts:
                vals += r.stream[0]
                if r.stream[1] is not None:
                    err = r.stream[1]
                    break
            if all(r.outs is not None for r in parts):
                return Ref(outs=sum([r.outs for r in parts], []), stream=(vals, err), keys=keys, keys_api=keys_api,
                           indexable=all(r.indexable for r in parts), haslen=True,
                           ordered=all(r.ordered for r in parts))
            if err is not None and keys is not None:
                keys = keys[:len(vals)]
            return Ref(stream=(vals, err), keys=keys, keys_api=keys_api, indexable=False,
                       haslen=all(r.haslen for r in parts), ordered=all(r.ordered for r in parts))
        if op == 'intersperse':
            if not all(r.haslen and r.outs is not None for r in parts):
                raise RefUndefined('intersperse needs lengths')
            if any(r.n == 0 for r in parts):
                raise RefUndefined('empty part')
            table = sorted((Fraction(j + 1, r.n), d, j) for d, r in enumerate(parts) for j in range(r.n))
            outs = [parts[d].outs[j] for _, d, j in table]
            keys = [parts[d].keys[j] for _, d, j in table] if all(r.keys is not None for r in parts) else None
            # iteration pulls the parts' ITERATIONS in table order (exactly len(part) pulls per part)
            svals, serr = [], None
            for _, d, j in table:
                pv, pe = parts[d].stream
                if j < len(pv):
                    svals.append(pv[j])
                else:
                    serr = pe if pe is not None else 'RuntimeError'
                    break
            return Ref(outs=outs, stream=(svals, serr), keys=keys,
                       keys_api=all(r.keys_api for r in parts) and len(set(keys)) == len(keys),
                       indexable=all(r.indexable for r in parts), haslen=True,
                       ordered=all(r.ordered for r in parts))
        if op == 'zip':
            if not all(r.haslen and r.outs is not None for r in parts) or len({r.n for r in parts}) != 1:
                raise RefUndefined('zip lengths')
            outs = []
            for row in zip(*[r.outs for r in parts]):
                bad = [o for o in row if o[0] == 'err']
                outs.append(bad[0] if bad else ('ok', tuple(o[1] for o in row)))
            # iteration: Python's zip over the parts' iterations (first exhausted / first failing part ends it)
            svals, serr = [], None
            t = 0
            while True:
                row, stop = [], False
                for r in parts:
                    if t < len(r.stream[0]):
                        row.append(r.stream[0][t])
                    else:
                        serr = r.stream[1]
                        stop = True
                        break
                if stop:
                    break
                svals.append(tuple(row))
                t += 1
            return Ref(outs=outs, stream=(svals, serr), indexable=all(r.indexable for r in parts), haslen=True,
                       ordered=all(r.ordered for r in parts))
        # keyZip
        if len(parts) < 2 or not all(r.keys_api and r.outs is not None for r in parts):
            raise RefUndefined('keyZip needs keys')
        if len({frozenset(r.keys) for r in parts}) != 1:
            raise RefUndefined('different key sets')
        outs = []
        for k in parts[0].keys:
            row = [r.outs[r.keys.index(k)] for r in parts]
            bad = [o for o in row if o[0] == 'err']
            outs.append(bad[0] if bad else ('ok', tuple(o[1] for o in row)))
        return Ref(outs=outs, keys=list(parts[0].keys), keys_api=True,
                   indexable=all(r.indexable for r in parts), haslen=True, ordered=True)

    r = ref(p['p'])
    if op in ('map', 'parMap'):
        f = Fn(p['f'])
        # iteration maps the input's ITERATION (which may end with an error that no position shows,
        # e.g. a failing dropped tail below); indexing maps the positional outcomes
        souts = [apply(f, ('ok', v)) for v in r.stream[0]]
        vals, err = stream_of(souts)
        if err is None:
            err = r.stream[1]
        if r.outs is not None:
            return Ref(outs=[apply(f, o) for o in r.outs], stream=(vals, err), keys=r.keys, keys_api=r.keys_api,
                       indexable=r.indexable, haslen=r.haslen, ordered=r.ordered)
        keys = r.keys[:len(vals)] if r.keys is not None else None
        return Ref(stream=(vals, err), keys=keys, keys_api=r.keys_api and err is None,
                   indexable=False, haslen=r.haslen, ordered=r.ordered)
    if op == 'filterLazy':
        f = Pred(p['f'])
        vals, keys, err = [], [], None
        src_vals, src_err = r.stream
        for i, v in enumerate(src_vals):
            o = apply(f, ('ok', v))
            if o[0] == 'err':
                err = o[1]
                break
            if o[1]:
                vals.append(v)
                if r.keys is not None:
                    keys.append(r.keys[i])
        else:
            err = src_err
        return Ref(stream=(vals, err), keys=keys if r.keys is not None else None, keys_api=False,
                   indexable=False, haslen=False, ordered=r.ordered)
    if op == 'filterEager':
        f = Pred(p['f'])
        if not r.indexable or r.stream[1] is not None:
            raise RefUndefined('eager filter')
        idx = []
        for i, v in enumerate(r.stream[0]):
            o = apply(f, ('ok', v))
            if o[0] == 'err':
                raise RefUndefined('predicate raises at construction')
            if o[1]:
                idx.append(i)
        return select(r, idx)
    if op == 'slice':
        if not r.indexable:
            raise RefUndefined('slice of non-indexable')
        return select(r, py_index_list(p['s'], r.n, r.keys if r.keys_api else None))
    if op == 'batch':
        n = p['n']
        if n < 1:
            raise RefUndefined('batch size')
        if r.outs is not None:
            outs = []
            for s in range(0, len(r.outs), n):
                chunk = r.outs[s:s + n]
                if len(chunk) < n and p['dropLast']:
                    break
                bad = [o for o in chunk if o[0] == 'err']
                outs.append(bad[0] if bad else ('ok', [o[1] for o in chunk]))
            # iteration walks the whole input (also a tail that is dropped), indexing does not
            vals, err = r.stream
            chunks = [vals[s:s + n] for s in range(0, len(vals), n)]
            if chunks and len(chunks[-1]) < n and (p['dropLast'] or err is not None):
                chunks.pop()
            return Ref(outs=outs, stream=(chunks, err), indexable=r.indexable, haslen=r.haslen,
                       ordered=r.ordered)
        vals, err = r.stream
        chunks = [vals[s:s + n] for s in range(0, len(vals), n)]
        if chunks and len(chunks[-1]) < n and (p['dropLast'] or err is not None):
            chunks.pop()
        return Ref(stream=(chunks, err), indexable=False, haslen=r.haslen, ordered=r.ordered)
    if op == 'unbatch':
        vals, err = [], None
        for b in r.stream[0]:
            if not isinstance(b, (list, tuple)):
                err = 'AssertionError'
                break
            vals += list(b)
        else:
            err = r.stream[1]
        return Ref(stream=(vals, err), indexable=False, haslen=False, ordered=r.ordered)
    if op == 'items':
        if r.keys is None:
            raise RefUndefined('items without keys')
        if r.outs is not None and r.keys_api:
            outs = [(o if o[0] == 'err' else ('ok', (k, o[1]))) for k, o in zip(r.keys, r.outs)]
            return Ref(outs=outs, keys=r.keys, keys_api=r.keys_api, indexable=r.indexable,
                       haslen=r.haslen, ordered=r.ordered)
        vals = [(k, v) for k, v in zip(r.keys, r.stream[0])]
        return Ref(stream=(vals, r.stream[1]), keys=r.keys, keys_api=r.keys_api, indexable=False,
                   haslen=r.haslen, ordered=r.ordered)
    if op == 'tile':
        reps = p['reps']
        if reps < 1:
            raise RefUndefined('reps')
        if reps == 1:
            return r
        if r.outs is None:
            vals, err = r.stream
            if err is not None:
                return Ref(stream=(vals, err), keys=r.keys, indexable=False, haslen=r.haslen, ordered=r.ordered)
            return Ref(stream=(vals * reps, None), keys=r.keys * reps if r.keys is not None else None,
                       indexable=False, haslen=r.haslen, ordered=r.ordered)
        keys = r.keys * reps if r.keys is not None else None
        # ConcatenateDataset iterates its parts one after the other (a part's iteration may end with
        # an error that no position shows: a failing dropped tail of a batch below)
        stream = (r.stream[0], r.stream[1]) if r.stream[1] is not None else (r.stream[0] * reps, None)
        return Ref(outs=r.outs * reps, stream=stream, keys=keys, keys_api=r.keys_api and r.n == 0,
                   indexable=r.indexable, haslen=r.haslen, ordered=r.ordered)
    if op == 'shuffleOnce':
        if not r.indexable or sorted(p['perm']) != list(range(r.n)):
            raise RefUndefined('perm')
        return select(r, p['perm'])
    if op == 'sort':
        if not r.indexable:
            raise RefUndefined('sort of non-indexable')
        if p['key'] is None:
            if not r.keys_api:
                raise RefUndefined('sort by keys without keys')
            order = sorted(range(r.n), key=lambda i: r.keys[i], reverse=p['reverse'])
            return select(r, order)
        if r.stream[1] is not None:
            raise RefUndefined('failing example at construction')
        f = Fn(p['key'])
        ks = []
        for v in r.stream[0]:
            o = apply(f, ('ok', v))
            if o[0] == 'err':
                raise RefUndefined('key function raises')
            ks.append(o[1])
        if len({type(k) for k in ks}) > 1 or any(not isinstance(k, (int, str)) or isinstance(k, bool) for k in ks):
            raise RefUndefined('mixed / unordered key types')
        # non-decreasing keys; ties by position (descending position for reverse, as tuple sort does)
        order = sorted(range(r.n), key=lambda i: (ks[i], i), reverse=p['reverse'])
        return select(r, order)
    if op == 'shard':
        k, i = p['k'], p['i']
        if not r.indexable or k < 1 or k > r.n or not -k <= i < k:
            raise RefUndefined('shard')
        sizes = array_split_sizes(r.n, k)
        i %= k
        start = sum(sizes[:i])
        return select(r, list(range(start, start + sizes[i])))
    if op == 'cache':
        if not r.indexable or r.outs is None:
            raise RefUndefined('cache of non-indexable')
        # the cache walks positions 0..len-1 (it never touches a dropped tail) and pairs examples
        # with keys through the input's keys() table
        return Ref(outs=r.outs, keys=r.keys if r.keys_api else None, keys_api=r.keys_api, indexable=True,
                   haslen=True, ordered=r.ordered)
    if op == 'copy':
        return r
    if op == 'cacheEager':
        if not (r.indexable or r.ordered) or r.stream[1] is not None:
            raise RefUndefined('eager cache')
        vals = list(r.stream[0])
        if r.keys is not None and len(set(r.keys)) == len(r.keys) and len(r.keys) == len(vals):
            return Ref(outs=[('ok', v) for v in vals], keys=list(r.keys), keys_api=True,
                       indexable=True, haslen=True)
        return Ref(outs=[('ok', v) for v in vals], indexable=True, haslen=True)
    if op == 'catch':
        if r.outs is None or not r.haslen:
            raise RefUndefined('catch needs positional input')
        vals, keys, err = [], [], None
        for i, o in enumerate(r.outs):
            if o[0] == 'ok':
                vals.append(o[1])
                if r.keys is not None:
                    keys.append(r.keys[i])
            elif is_sub(o[1], p['E']):
                continue
            else:
                err = o[1]
                break
        return Ref(stream=(vals, err), keys=keys if r.keys_api else None, keys_api=False,
                   indexable=False, haslen=False, ordered=r.ordered)
    if op == 'prefetch':
        w, b = p['w'], p['b']
        if w < 1 or b < w:
            raise RefUndefined('prefetch parameters')
        single = (w == 1 and p['thread'])
        if not single and (not r.haslen or r.outs is None):
            raise RefUndefined('multi-worker prefetch needs len/getitem')
        if p['catchE'] is not None:
            if r.outs is None or not r.haslen:
                raise RefUndefined('catch needs positional input')
            vals, keys, err = [], [], None
            for i, o in enumerate(r.outs):
                if o[0] == 'ok':
                    vals.append(o[1])
                    if r.keys is not None:
                        keys.append(r.keys[i])
                elif is_sub(o[1], p['catchE']):
                    continue
                else:
                    err = o[1]
                    break
            return Ref(stream=(vals, err), keys=(keys if (single and r.keys_api) else None), keys_api=False,
                       indexable=False, haslen=False, ordered=r.ordered)
        keys = r.keys if single else None
        if keys is not None:
            keys = keys[:len(r.stream[0])]
        # one worker thread iterates the input; several workers fetch position by position (which is
        # not the same over a batch with `drop_last` whose dropped tail fails, see rel_batch_iff)
        stream = r.stream if single else stream_of(r.outs)
        return Ref(stream=stream, keys=keys, keys_api=False, indexable=False, haslen=r.haslen,
                   ordered=r.ordered)
    if op == 'cycle':
        return Ref(stream=r.stream, keys=r.keys, keys_api=r.keys_api, indexable=r.indexable,
                   haslen=False, ordered=r.ordered)
    raise RefUndefined(op)

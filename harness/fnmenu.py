"""The finite menu of user functions, interpreted identically in LazyDs/Model/Fn.lean.

Every function is wrapped so that calls can be logged (stage id, argument) without
touching the repository (used by C08 / C10 / C11 / C20)."""


class UserA(Exception):
    pass


class UserB(UserA):
    pass


class UserC(Exception):
    pass


class UserBase(BaseException):
    pass


def _exc_classes():
    import lazy_dataset.core as core
    return {
        'BaseException': BaseException, 'Exception': Exception, 'LookupError': LookupError,
        'IndexError': IndexError, 'KeyError': KeyError, 'ValueError': ValueError,
        'TypeError': TypeError, 'AssertionError': AssertionError, 'RuntimeError': RuntimeError,
        'NotImplementedError': NotImplementedError,
        'ItemsNotDefined': core.ItemsNotDefined, '_ItemsNotDefined': core._ItemsNotDefined,
        'FilterException': core.FilterException,
        'UserA': UserA, 'UserB': UserB, 'UserC': UserC, 'UserBase': UserBase,
        'AttributeError': AttributeError, 'ZeroDivisionError': ZeroDivisionError,
        'StopIteration': StopIteration,
    }


_EXC = None


def exc_class(name):
    global _EXC
    if _EXC is None:
        _EXC = _exc_classes()
    return _EXC[name]


def exc_name(e):
    """nearest modelled class of an exception instance (messages are dropped)"""
    global _EXC
    if _EXC is None:
        _EXC = _exc_classes()
    inv = {v: k for k, v in _EXC.items()}
    for c in type(e).__mro__:
        if c in inv:
            return inv[c]
    return 'Other'


def _is_int(x):
    import numbers
    return isinstance(x, numbers.Integral) and not isinstance(x, bool)


class Fn:
    """picklable callable for a menu entry; `log` (a list) records (tag, arg) per call"""

    def __init__(self, spec, log=None, tag=None):
        self.spec = spec
        self.log = log
        self.tag = tag

    def __repr__(self):
        return f'Fn({self.spec})'

    def __call__(self, x):
        if self.log is not None:
            self.log.append((self.tag, x))
        s = self.spec
        name = s['fn']
        if name == 'identity':
            return x
        if name == 'add':
            if not _is_int(x):
                raise TypeError(x)
            return x + s['c']
        if name == 'tag':
            return {s['s']: x}
        if name == 'raiseIfMod':
            if _is_int(x) and s['m'] != 0 and x % s['m'] == s['r']:
                raise (exc_class(s['cls'])() if s.get('noargs') else exc_class(s['cls'])(x))
            return x
        if name == 'fragment':
            if not _is_int(x):
                raise TypeError(x)
            return [x * 10 + j for j in range(s['k'])]
        if name == 'first':
            if isinstance(x, (tuple, list)) and len(x) > 0:
                return x[0]
            raise TypeError(x)
        if name == 'keyMod':
            if not _is_int(x):
                raise TypeError(x)
            return x % s['m']
        if name == 'neg':
            if not _is_int(x):
                raise TypeError(x)
            return -x
        if name == 'strOf':
            if not _is_int(x):
                raise TypeError(x)
            return 'k' + str(abs(x))
        raise AssertionError(s)


class Pred:
    def __init__(self, spec, log=None, tag=None):
        self.spec = spec
        self.log = log
        self.tag = tag

    def __repr__(self):
        return f'Pred({self.spec})'

    def __call__(self, x):
        if self.log is not None:
            self.log.append((self.tag, x))
        s = self.spec
        name = s['pred']
        if name == 'always':
            return s['b']
        if name == 'keepMod':
            if _is_int(x):
                return s['m'] != 0 and x % s['m'] == s['r']
            return True
        if name == 'dropMod':
            if _is_int(x):
                return not (s['m'] != 0 and x % s['m'] == s['r'])
            return True
        if name == 'raiseIfMod':
            if _is_int(x) and s['m'] != 0 and x % s['m'] == s['r']:
                raise (exc_class(s['cls'])() if s.get('noargs') else exc_class(s['cls'])(x))
            return True
        raise AssertionError(s)

import Driver.Codec
import Driver.Sched
import Driver.Machines
/-
  Line protocol: one JSON request per line on stdin, one JSON reply per line on stdout.
-/
open Lean LazyDs LazyDs.Codec

def isCycle : Pipeline → Bool
  | .cycle _ => true
  | _ => false

def handlePipe (j : Json) : Except String Json := do
  let p ← pipeOfJson (← j.getObjVal? "p")
  let idx ← (← getArr j "idx").mapM (·.getInt?)
  let keys ← (← getArr j "keys").mapM (·.getStr?)
  let cycleK := (getNat j "cycle_k").toOption.getD 0
  match build menuEnv p with
  | .error e => pure (Json.mkObj [("build", Json.str (errName e))])
  | .ok d =>
    let it := if isCycle p then cycleTake d.iter (cycleK + 1) cycleK else d.iter
    let items := itemsDS d
    let itemsIt := if isCycle p then cycleTake items.iter (cycleK + 1) cycleK else items.iter
    pure (Json.mkObj [
      ("build", Json.str "ok"),
      ("indexable", Json.bool d.indexable),
      ("ordered", Json.bool d.ordered),
      ("len", resToJson natToJson d.len),
      ("keys", resToJson strsToJson d.keys),
      ("iter", streamToJson valToJson it),
      ("items", streamToJson valToJson itemsIt),
      ("gets", Json.arr (idx.map (fun i => Json.arr #[intToJson i, resToJson valToJson (d.getInt i)])).toArray),
      ("getkeys", Json.arr (keys.map (fun k => Json.arr #[Json.str k, resToJson valToJson (d.getKey k)])).toArray)
    ])

def handle (line : String) : Json :=
  match Json.parse line with
  | .error e => Json.mkObj [("error", Json.str s!"parse: {e}")]
  | .ok j =>
    match getStr j "fam" with
    | .error e => Json.mkObj [("error", Json.str e)]
    | .ok fam =>
      let r : Except String Json :=
        match fam with
        | "pipe" => handlePipe j
        | "stp" => LazyDs.SchedDriver.handleStp j
        | "lpm" => LazyDs.SchedDriver.handleLpm j
        | "bucket" => LazyDs.MachDriver.handleBucket j
        | "cache" => LazyDs.MachDriver.handleCache j
        | "disk" => LazyDs.MachDriver.handleDisk j
        | "reshuffle" => LazyDs.MachDriver.handleReshuffle j
        | "local" => LazyDs.MachDriver.handleLocal j
        | "db" => LazyDs.MachDriver.handleDb j
        | "groupby" => LazyDs.MachDriver.handleGroupBy j
        | "copycfg" => LazyDs.MachDriver.handleCopyCfg j
        | "trace" => LazyDs.MachDriver.handleTrace j
        | _ => .error s!"unknown family {fam}"
      match r with
      | .ok v => v
      | .error e => Json.mkObj [("error", Json.str e)]

partial def loop (h : IO.FS.Stream) (out : IO.FS.Stream) : IO Unit := do
  let line ← h.getLine
  if line.isEmpty then return ()
  let t := line.trimAscii.toString
  if t.isEmpty then loop h out else
  out.putStrLn (handle t).compress
  loop h out

def main : IO Unit := do
  let stdin ← IO.getStdin
  let stdout ← IO.getStdout
  loop stdin stdout
  stdout.flush

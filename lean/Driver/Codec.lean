import Lean.Data.Json
import LazyDs.Model.Pipeline
/-
  JSON <-> model values for the line protocol of the correspondence check.
  (trusted: part of the tie, not of the theorems)
-/
open Lean
namespace LazyDs.Codec

def errName : Err → String
  | .baseException => "BaseException" | .exception => "Exception" | .lookupError => "LookupError"
  | .indexError => "IndexError" | .keyError => "KeyError" | .valueError => "ValueError"
  | .typeError => "TypeError" | .assertionError => "AssertionError" | .runtimeError => "RuntimeError"
  | .notImplemented => "NotImplementedError" | .itemsNotDefined => "ItemsNotDefined"
  | .itemsNotDefinedInternal => "_ItemsNotDefined" | .filterException => "FilterException"
  | .userA => "UserA" | .userB => "UserB" | .userC => "UserC" | .userBase => "UserBase"
  | .attributeError => "AttributeError" | .zeroDivision => "ZeroDivisionError"
  | .stopIteration => "StopIteration" | .other => "Other"

def allErrs : List Err :=
  [.baseException, .exception, .lookupError, .indexError, .keyError, .valueError, .typeError,
   .assertionError, .runtimeError, .notImplemented, .itemsNotDefined, .itemsNotDefinedInternal,
   .filterException, .userA, .userB, .userC, .userBase, .attributeError, .zeroDivision,
   .stopIteration, .other]

def errOfName (s : String) : Except String Err :=
  match allErrs.find? (fun e => errName e == s) with
  | some e => .ok e
  | none => .error s!"unknown exception class {s}"

partial def valToJson : Val → Json
  | .none => Json.null
  | .int i => Json.num (JsonNumber.fromInt i)
  | .str s => Json.str s
  | .list xs => Json.arr (xs.map valToJson).toArray
  | .tup xs => Json.mkObj [("t", Json.arr (xs.map valToJson).toArray)]
  | .dict kvs => Json.mkObj [("d", Json.arr (kvs.map (fun (k, v) => Json.arr #[Json.str k, valToJson v])).toArray)]

partial def valOfJson (j : Json) : Except String Val :=
  match j with
  | .null => .ok .none
  | .num n => if n.exponent == 0 then .ok (.int n.mantissa) else .error "non-integer number"
  | .str s => .ok (.str s)
  | .arr a => do let xs ← a.toList.mapM valOfJson; .ok (.list xs)
  | .obj _ =>
    match j.getObjVal? "t" with
    | .ok (.arr a) => do let xs ← a.toList.mapM valOfJson; .ok (.tup xs)
    | _ =>
      match j.getObjVal? "d" with
      | .ok (.arr a) => do
          let kvs ← a.toList.mapM (fun e => match e with
            | .arr #[.str k, v] => do let v' ← valOfJson v; pure (k, v')
            | _ => throw "bad dict entry")
          .ok (.dict kvs)
      | _ => .error "bad object value"
  | _ => .error "bad value"

def resToJson {α} (f : α → Json) : Res α → Json
  | .ok v => Json.mkObj [("ok", f v)]
  | .error e => Json.mkObj [("err", Json.str (errName e))]

def optErrToJson : Option Err → Json
  | none => Json.null
  | some e => Json.str (errName e)

def streamToJson {α} (f : α → Json) (s : Stream α) : Json :=
  Json.mkObj [("vals", Json.arr (s.vals.map f).toArray), ("err", optErrToJson s.err)]

def kvToJson (kv : String × Val) : Json := Json.arr #[Json.str kv.1, valToJson kv.2]
def strsToJson (l : List String) : Json := Json.arr (l.map Json.str).toArray
def natToJson (n : Nat) : Json := Json.num (JsonNumber.fromNat n)
def intToJson (n : Int) : Json := Json.num (JsonNumber.fromInt n)

def getInt (j : Json) (k : String) : Except String Int := do
  let v ← j.getObjVal? k
  v.getInt?
def getNat (j : Json) (k : String) : Except String Nat := do
  let v ← j.getObjVal? k
  v.getNat?
def getStr (j : Json) (k : String) : Except String String := do
  let v ← j.getObjVal? k
  v.getStr?
def getBool (j : Json) (k : String) : Except String Bool := do
  let v ← j.getObjVal? k
  v.getBool?
def getArr (j : Json) (k : String) : Except String (List Json) := do
  let v ← j.getObjVal? k
  let a ← v.getArr?
  pure a.toList
def optInt (j : Json) : Except String (Option Int) :=
  match j with
  | .null => .ok none
  | _ => do let i ← j.getInt?; pure (some i)

def errsOfJson (js : List Json) : Except String (List Err) :=
  js.mapM (fun j => do let s ← j.getStr?; errOfName s)

def fnOfJson (j : Json) : Except String FnSym := do
  let name ← getStr j "fn"
  match name with
  | "identity" => pure .identity
  | "add" => do pure (.add (← getInt j "c"))
  | "tag" => do pure (.tag (← getStr j "s"))
  | "raiseIfMod" => do
      let cls ← errOfName (← getStr j "cls")
      pure (.raiseIfMod (← getNat j "m") (← getNat j "r") cls)
  | "fragment" => do pure (.fragment (← getNat j "k"))
  | "first" => pure .first
  | "keyMod" => do pure (.keyMod (← getNat j "m"))
  | "neg" => pure .neg
  | "strOf" => pure .strOf
  | _ => throw s!"unknown fn {name}"

def predOfJson (j : Json) : Except String PredSym := do
  let name ← getStr j "pred"
  match name with
  | "always" => do pure (.always (← getBool j "b"))
  | "keepMod" => do pure (.keepMod (← getNat j "m") (← getNat j "r"))
  | "dropMod" => do pure (.dropMod (← getNat j "m") (← getNat j "r"))
  | "raiseIfMod" => do
      let cls ← errOfName (← getStr j "cls")
      pure (.raiseIfMod (← getNat j "m") (← getNat j "r") cls)
  | _ => throw s!"unknown pred {name}"

def sliceOfJson (j : Json) : Except String SliceSpec := do
  let kind ← getStr j "kind"
  match kind with
  | "range" => do
      let a ← optInt (← j.getObjVal? "start")
      let b ← optInt (← j.getObjVal? "stop")
      let c ← optInt (← j.getObjVal? "step")
      pure (.range a b c)
  | "idx" => do
      let l ← getArr j "is"
      pure (.idx (← l.mapM (·.getInt?)))
  | "mask" => do
      let l ← getArr j "bs"
      pure (.mask (← l.mapM (·.getBool?)))
  | "keys" => do
      let l ← getArr j "ks"
      pure (.keys (← l.mapM (·.getStr?)))
  | _ => throw s!"unknown slice kind {kind}"

partial def pipeOfJson (j : Json) : Except String Pipeline := do
  let op ← getStr j "op"
  let sub : Except String Pipeline := do pipeOfJson (← j.getObjVal? "p")
  let subs : Except String Pipelines := do
    let l ← getArr j "ps"
    let ps ← l.mapM pipeOfJson
    pure (Pipelines.ofList ps)
  match op with
  | "list" => do
      let l ← getArr j "xs"
      pure (.listSrc (← l.mapM valOfJson))
  | "dict" => do
      let l ← getArr j "kvs"
      let kvs ← l.mapM (fun e => match e with
        | .arr #[.str k, v] => do let v' ← valOfJson v; pure (k, v')
        | _ => throw "bad kv")
      pure (.dictSrc kvs)
  | "map" => do pure (.map (← fnOfJson (← j.getObjVal? "f")) (← sub))
  | "parMap" => do
      pure (.parMap (← fnOfJson (← j.getObjVal? "f")) (← getNat j "w") (← getNat j "b") (← sub))
  | "filterLazy" => do pure (.filterLazy (← predOfJson (← j.getObjVal? "f")) (← sub))
  | "filterEager" => do pure (.filterEager (← predOfJson (← j.getObjVal? "f")) (← sub))
  | "slice" => do pure (.slice (← sliceOfJson (← j.getObjVal? "s")) (← sub))
  | "concat" => do pure (.concat (← subs))
  | "intersperse" => do pure (.intersperse (← subs))
  | "zip" => do pure (.zip (← subs))
  | "keyZip" => do pure (.keyZip (← subs))
  | "batch" => do pure (.batch (← getNat j "n") (← getBool j "dropLast") (← sub))
  | "unbatch" => do pure (.unbatch (← sub))
  | "items" => do pure (.items (← sub))
  | "tile" => do pure (.tile (← getNat j "reps") (← sub))
  | "shuffleOnce" => do
      let l ← getArr j "perm"
      pure (.shuffleOnce (← l.mapM (·.getNat?)) (← sub))
  | "sort" => do
      let k ← j.getObjVal? "key"
      let key ← match k with
        | .null => pure none
        | _ => do pure (some (← fnOfJson k))
      pure (.sort key (← getBool j "reverse") (← sub))
  | "shard" => do pure (.shard (← getInt j "k") (← getInt j "i") (← sub))
  | "cache" => do pure (.cache (← sub))
  | "cacheEager" => do pure (.cacheEager (← sub))
  | "catch" => do pure (.catch (← errsOfJson (← getArr j "E")) (← sub))
  | "copy" => do pure (.copy (← getBool j "freeze") (← sub))
  | "prefetch" => do
      let ce ← j.getObjVal? "catchE"
      let catchE ← match ce with
        | .null => pure none
        | .arr a => do pure (some (← errsOfJson a.toList))
        | _ => throw "bad catchE"
      pure (.prefetch (← getNat j "w") (← getNat j "b") (← getBool j "thread") catchE (← sub))
  | "cycle" => do pure (.cycle (← sub))
  | _ => throw s!"unknown op {op}"

end LazyDs.Codec

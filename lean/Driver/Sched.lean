import Driver.Codec
import LazyDs.Conc.Stp
import LazyDs.Conc.Lpm
/-
  `sched` family: replay the event trace recorded from a controlled run of the REAL
  `single_thread_prefetch` / `lazy_parallel_map` through the transition systems and say whether
  every event is a transition the model allows, with the same values.
-/
open Lean LazyDs LazyDs.Codec

namespace LazyDs.SchedDriver

abbrev SSt := Stp.St Int String

def optStr (j : Json) : Except String (Option String) :=
  match j with
  | .null => pure none
  | .str s => pure (some s)
  | _ => throw "expected string or null"

/-- which model thread an event kind belongs to, and what the model must be about to do -/
def stpEvent (s : SSt) (ev : Json) : Except String SSt := do
  let kind ← getStr ev "k"
  let fail (msg : String) : Except String SSt :=
    throw s!"event {ev.compress} not allowed: {msg} (model at w={repr s.w} c={repr s.c} q={repr s.q} shutdown={s.shutdown})"
  let stepOr (t : Stp.Tid) : Except String SSt :=
    match Stp.step s t with
    | some s' => pure s'
    | none => fail "thread not enabled in the model"
  match kind with
  | "wflag" =>
    let b ← getBool ev "v"
    match s.w with
    | .w0 | .wChk1 _ | .wChk2 | .wFin =>
      if b != s.shutdown then fail "flag value differs" else stepOr .worker
    | _ => fail "worker is not at a flag read"
  | "pull" =>
    match s.w with
    | .wNext =>
      let r ← ev.getObjVal? "r"
      match s.src, r with
      | x :: _, .num _ => do
        let v ← r.getInt?
        if v != x then fail "pulled a different item" else stepOr .worker
      | [], .str "stop" => if s.ending.isNone then stepOr .worker else fail "model source raises here"
      | [], .obj _ => do
        let e ← getStr r "raise"
        if s.ending == some e then stepOr .worker else fail "model source ends differently"
      | _, _ => fail "pull result does not match the model source"
    | _ => fail "worker is not pulling"
  | "put" =>
    let v ← getInt ev "v"
    match s.w with
    | .wPut x => if x != v then fail "put of a different item" else stepOr .worker
    | _ => fail "worker is not at put"
  | "putS" =>
    match s.w with
    | .wPutS => stepOr .worker
    | _ => fail "worker is not at the sentinel put"
  | "get" =>
    match s.c, s.q with
    | .cGet, .item x :: _ => do
      let v ← getInt ev "v"
      if v != x then fail "got a different item" else stepOr .consumer
    | .cGet, .sentinel :: _ =>
      if (ev.getObjVal? "sentinel").toOption == some (Json.bool true) then stepOr .consumer else fail "model delivers the sentinel"
    | _, _ => fail "consumer cannot get"
  | "yield" =>
    let v ← getInt ev "v"
    match s.c with
    | .cHave x => if x != v then fail "yield of a different item" else stepOr .consumer
    | _ => fail "consumer is not yielding"
  | "resume" => stepOr .resume
  | "close" => stepOr .close
  | "setflag" =>
    match s.c with
    | .cFin => stepOr .consumer
    | _ => fail "consumer is not at shutdown = True"
  | "drain" =>
    let popped ← getBool ev "popped"
    match s.c with
    | .cDrain =>
      if popped == s.q.isEmpty then fail "drain result differs" else stepOr .consumer
    | _ => fail "consumer is not draining"
  | "join" =>
    match s.c with
    | .cJoin => stepOr .consumer
    | _ => fail "consumer is not joining"
  | "after" =>
    match s.c with
    | .cAfter => do
      let s' ← stepOr .consumer
      let r ← optStr (← ev.getObjVal? "raised")
      if r != s'.raised then fail s!"raised {r} but the model raises {s'.raised}" else pure s'
    | _ => fail "consumer is not at the final re-raise"
  | _ => throw s!"unknown stp event {kind}"

def handleStp (j : Json) : Except String Json := do
  let b ← getNat j "b"
  let src ← (← getArr j "src").mapM (·.getInt?)
  let ending ← optStr (← j.getObjVal? "ending")
  let evs ← getArr j "events"
  let mut s : SSt := Stp.init b src ending
  let mut n := 0
  for ev in evs do
    match stpEvent s ev with
    | .ok s' => s := s'; n := n + 1
    | .error msg =>
      return Json.mkObj [("accept", Json.bool false), ("at", natToJson n), ("why", Json.str msg)]
  let term := decide (s.c = .cDone) && decide (s.w = .wDone)
  pure (Json.mkObj [
    ("accept", Json.bool true),
    ("terminal", Json.bool term),
    ("delivered", Json.arr (s.delivered.map intToJson).toArray),
    ("pulled", natToJson s.pulled),
    ("closed", Json.bool s.closed),
    ("raised", match s.raised with | some e => Json.str e | none => Json.null),
    ("qlen", natToJson s.q.length),
    ("worker_done", Json.bool (decide (s.w = .wDone)))])

/-! ### lazy_parallel_map -/

abbrev LSt := Lpm.St Int Int String

/-- the menu of mapped functions for schedule runs: `x ↦ x*10`, failing with `cls` when `x % m == r` -/
def lpmFn (m r : Nat) (cls : String) (x : Int) : Except String Int :=
  if m != 0 && x % (m : Int) == (r : Int) then .error cls else .ok (x * 10)

def lpmEvent (s : LSt) (ev : Json) : Except String LSt := do
  let kind ← getStr ev "k"
  let fail (msg : String) : Except String LSt :=
    throw s!"event {ev.compress} not allowed: {msg} (model q={repr s.q} pulled={s.pulled} delivered={repr s.delivered})"
  let stepOr (t : Lpm.Tid) : Except String LSt :=
    match Lpm.step s t with
    | some s' => pure s'
    | none => fail "not enabled in the model"
  match kind with
  | "pull" =>
    match s.c with
    | .pull =>
      let r ← ev.getObjVal? "r"
      match s.src, r with
      | x :: _, .num _ => do
        let v ← r.getInt?
        if v != x then fail "pulled a different item" else stepOr .consumer
      | [], .str "stop" => if s.ending.isNone then stepOr .consumer else fail "model source raises here"
      | [], .obj _ => do
        let e ← getStr r "raise"
        -- the source raised: the model enters the error drain (`.drainErr e`); the queued
        -- results follow as "result" events, then "drained", then "exit"
        if s.ending == some e then stepOr .consumer else fail "model source ends differently"
      | _, _ => fail "pull result does not match the model source"
    | _ => fail "consumer is not pulling"
  | "submit" =>
    let v ← getInt ev "v"
    match s.c with
    | .submit x => if x != v then fail "submit of a different item" else stepOr .consumer
    | _ => fail "consumer is not submitting"
  | "result" =>
    -- `result(q.get())` returned / raised (main loop, normal drain, or the drain after a source error)
    match s.c with
    | .waitHead _ | .drain | .drainErr _ =>
      -- with an empty queue the drain loops do not call `result` at all (that is "drained")
      if s.q.isEmpty then fail "queue is empty: no result to wait for" else do
      let s' ← stepOr .consumer
      let r ← ev.getObjVal? "r"
      match s'.c, r with
      | .yielded _, .num _ | .yieldedErr _, .num _ => do
        let v ← r.getInt?
        if s'.delivered.getLast? != some v then fail "different result delivered" else pure s'
      | .exitWait (some e) false, .obj _ => do
        let e' ← getStr r "raise"
        if e != e' then fail "different exception" else pure s'
      | _, _ => fail "result kind differs"
    | _ => fail "consumer is not waiting for a result"
  | "drained" =>
    match s.c, s.q with
    | .drain, [] => stepOr .consumer
    | .drainErr _, [] => stepOr .consumer      -- error drain finished: the source's exception is re-raised
    | _, _ => fail "queue not empty or consumer not draining"
  | "resume" => stepOr .resume
  | "close" => stepOr .close
  | "cancel" =>
    -- one iteration of the cancel loop: `q.get(block=False).cancel()` -> returned `ok`
    match s.c with
    | .cancel => stepOr .consumer
    | _ => fail "consumer is not cancelling"
  | "exit" =>
    match s.c with
    | .exitWait _ _ => stepOr .consumer
    | _ => fail "consumer is not leaving the executor"
  | "start" =>
    let i ← getNat ev "i"
    match Lpm.firstPending s.futs with
    | some k => if k != i then fail s!"model would start future {k}" else stepOr .start
    | none => fail "no pending future"
  | "finish" =>
    let i ← getNat ev "i"
    stepOr (.finish i)
  | _ => throw s!"unknown lpm event {kind}"

def handleLpm (j : Json) : Except String Json := do
  let w ← getNat j "w"
  let b ← getNat j "b"
  let src ← (← getArr j "src").mapM (·.getInt?)
  let ending ← optStr (← j.getObjVal? "ending")
  let m ← getNat j "fm"
  let r ← getNat j "fr"
  let cls ← getStr j "fcls"
  let evs ← getArr j "events"
  let mut s : LSt := Lpm.init w b .waitAll .cancelQueued (lpmFn m r cls) src ending
  let mut n := 0
  for ev in evs do
    match lpmEvent s ev with
    | .ok s' => s := s'; n := n + 1
    | .error msg =>
      return Json.mkObj [("accept", Json.bool false), ("at", natToJson n), ("why", Json.str msg)]
  let (fin, raised, closed) := match s.c with
    | .done r c => (true, r, c)
    | _ => (false, none, false)
  let active := (s.futs.filter (fun p => Lpm.isActive p.2)).length
  pure (Json.mkObj [
    ("accept", Json.bool true),
    ("terminal", Json.bool fin),
    ("delivered", Json.arr (s.delivered.map intToJson).toArray),
    ("pulled", natToJson s.pulled),
    ("started", natToJson s.started),
    ("closed", Json.bool closed),
    ("raised", match raised with | some e => Json.str e | none => Json.null),
    ("qlen", natToJson s.q.length),
    ("active", natToJson active)])

end LazyDs.SchedDriver

import Driver.Codec
import LazyDs.Model.Bucket
import LazyDs.Model.Cache
import LazyDs.Model.Disk
import LazyDs.Model.Shuffle
import LazyDs.Model.Heap
import LazyDs.Model.Db
import LazyDs.Model.CopyCfg
import LazyDs.Model.Trace
/-
  Request families for the Layer B machines: bucket, cache, disk, reshuffle, local, heap, db, groupby.
-/
open Lean LazyDs LazyDs.Codec

namespace LazyDs.MachDriver

def optNat (j : Json) (k : String) : Except String (Option Nat) :=
  match j.getObjVal? k with
  | .ok .null => pure none
  | .ok v => do pure (some (← v.getNat?))
  | .error _ => pure none

def natsJ (l : List Nat) : Json := Json.arr (l.map natToJson).toArray

/-! ### bucket -/

def getFloat (j : Json) (k : String) : Except String Float := do
  let v ← j.getObjVal? k
  match v with
  | .num n => pure n.toFloat
  | _ => throw "expected number"

def batchesJ (bs : List (List Bucket.Ex)) : Json :=
  Json.arr (bs.map (fun b => natsJ (b.map (·.id)))).toArray

def handleBucket (j : Json) : Except String Json := do
  let lens ← (← getArr j "lens").mapM (·.getNat?)
  let input : List Bucket.Ex := lens.zipIdx.map (fun (l, i) => ⟨i, l⟩)
  let p : Bucket.Params := {
    expiration := ← optNat j "expiration",
    maxBuffered := ← optNat j "maxBuffered",
    dropIncomplete := ← getBool j "drop" }
  let batch ← getNat j "batch"
  let maxTotal ← optNat j "maxTotal"
  let inst ← getStr j "instance"
  let sortKey := (getStr j "sort").toOption
  let reverse := (getBool j "reverse").toOption.getD false
  let outs ←
    if inst == "float" then do
      let rate ← getFloat j "rate"
      pure (Bucket.run (Bucket.tsOpsF batch rate maxTotal) p input)
    else do
      let num ← getNat j "num"
      let den ← getNat j "den"
      pure (Bucket.run (Bucket.tsOps ⟨batch, num, den, maxTotal⟩) p input)
  let sortB (b : List Bucket.Ex) : List Bucket.Ex :=
    match sortKey with
    | some "len" => Bucket.sortBatch (·.len) reverse b
    | some "id" => Bucket.sortBatch (·.id) reverse b
    | _ => b
  pure (Json.mkObj [
    ("passes", Json.arr (outs.map (fun o => batchesJ (o.emitted.map sortB))).toArray),
    ("dropped", Json.arr (outs.map (fun o => batchesJ o.dropped)).toArray)])

/-! ### memory cache -/

def cacheOutJ : Cache.Out Int → Json
  | .val v => Json.mkObj [("val", intToJson v)]
  | .indexError => Json.str "IndexError"
  | .newInst i => Json.mkObj [("inst", natToJson i)]
  | .badInst => Json.str "bad"

def handleCache (j : Json) : Except String Json := do
  let n ← getNat j "n"
  let ops ← (← getArr j "ops").mapM (fun o => do
    let k ← getStr o "k"
    match k with
    | "get" => do pure (Cache.Op.get (← getNat o "inst") (← getInt o "i") (← getBool o "mem"))
    | "copy" => do pure (Cache.Op.copy (← getNat o "inst"))
    | _ => throw s!"bad cache op {k}")
  let up : Nat → Nat → Int := fun jx c => (jx : Int) * 1000 + c
  let (s, outs) := Cache.run up (Cache.init n) ops
  pure (Json.mkObj [
    ("outs", Json.arr (outs.map cacheOutJ).toArray),
    ("calls", natsJ s.calls),
    ("stored", natsJ (s.store.map (·.1)))])

/-! ### disk cache -/

def diskOutJ : Disk.Out Int → Json
  | .val v => Json.mkObj [("val", intToJson v)]
  | .opened w => Json.mkObj [("opened", natToJson w)]
  | .refused => Json.str "refused"
  | .ok => Json.str "ok"
  | .bad => Json.str "bad"

def handleDisk (j : Json) : Except String Json := do
  let n ← getNat j "n"
  let nd ← getNat j "ndirs"
  let ops ← (← getArr j "ops").mapM (fun o => do
    let k ← getStr o "k"
    match k with
    | "open" => do pure (Disk.Op.open_ (← getNat o "dir") (← getBool o "reuse") (← getBool o "clear"))
    | "get" => do pure (Disk.Op.get (← getNat o "w") (← getNat o "i"))
    | "copy" => do pure (Disk.Op.copy (← getNat o "w"))
    | "release" => do pure (Disk.Op.release (← getNat o "w"))
    | "kill" => pure Disk.Op.kill
    | _ => throw s!"bad disk op {k}")
  let f : Nat → Int := fun i => if i % 3 == 0 then -1 else (i : Int) * 7 + 3      -- -1 stands for Python's None
  let (s, outs) := Disk.run f (Disk.init n nd) ops
  pure (Json.mkObj [
    ("outs", Json.arr (outs.map diskOutJ).toArray),
    ("calls", natsJ s.calls),
    ("dirs", Json.arr (s.dirs.map (fun d => match d with
      | none => Json.null
      | some es => natsJ (es.map (·.1)))).toArray)])

/-! ### shuffles -/

def handleReshuffle (j : Json) : Except String Json := do
  let n ← getNat j "n"
  let ops ← (← getArr j "ops").mapM (fun o => do
    let k ← getStr o "k"
    match k with
    | "start" => do pure (Shuffle.ROp.start (← (← getArr o "perm").mapM (·.getNat?)))
    | "freeze" => do pure (Shuffle.ROp.freeze (← (← getArr o "perm").mapM (·.getNat?)))
    | "next" => do pure (Shuffle.ROp.next (← getNat o "it"))
    | _ => throw s!"bad reshuffle op {k}")
  let (_, outs) := Shuffle.rrun (Shuffle.rinit n) ops
  pure (Json.mkObj [("outs", Json.arr (outs.map (fun o => match o with
    | .started it => Json.mkObj [("started", natToJson it)]
    | .val v => Json.mkObj [("val", natToJson v)]
    | .stop => Json.str "stop"
    | .frozen a => Json.mkObj [("frozen", natsJ a)]
    | .bad => Json.str "bad")).toArray)])

def handleLocal (j : Json) : Except String Json := do
  let bs ← getNat j "bs"
  let input ← (← getArr j "input").mapM (·.getInt?)
  let choices ← (← getArr j "choices").mapM (·.getNat?)
  let fin ← (← getArr j "final").mapM (·.getNat?)
  pure (Json.mkObj [("out", Json.arr ((Shuffle.localShuffle bs input choices fin).map intToJson).toArray)])

/-! ### database -/

def fieldsOfJson (j : Json) : Except String Db.Fields := do
  match j with
  | .arr a => a.toList.mapM (fun e => match e with
      | .arr #[.str k, v] => do pure (k, ← valOfJson v)
      | _ => throw "bad field")
  | _ => throw "bad fields"

def examplesOfJson (j : Json) : Except String Db.Examples := do
  match j with
  | .arr a => a.toList.mapM (fun e => match e with
      | .arr #[.str k, v] => do pure (k, ← fieldsOfJson v)
      | _ => throw "bad example")
  | _ => throw "bad examples"

def descOfJson (j : Json) : Except String Db.Desc := do
  let ds ← (← getArr j "datasets").mapM (fun e => match e with
      | .arr #[.str k, v] => do pure (k, ← examplesOfJson v)
      | _ => throw "bad dataset")
  let al ← match j.getObjVal? "alias" with
    | .ok .null => pure none
    | .ok (.arr a) => do
        let l ← a.toList.mapM (fun e => match e with
          | .arr #[.str k, .arr ms] => do pure (k, ← ms.toList.mapM (·.getStr?))
          | _ => throw "bad alias")
        pure (some l)
    | _ => pure none
  let extra := match j.getObjVal? "extra" with
    | .ok (.arr a) => a.toList.filterMap (fun e => e.getStr?.toOption)
    | _ => []
  pure { datasets := ds, alias := al, extra := extra }

def examplesJ (exs : Db.Examples) : Json :=
  Json.arr (exs.map (fun (id, f) => Json.arr #[Json.str id, Json.arr (f.map (fun (k, v) => Json.arr #[Json.str k, valToJson v])).toArray])).toArray

def handleDb (j : Json) : Except String Json := do
  let descs ← (← getArr j "descs").mapM descOfJson
  match Db.merge descs with
  | .error e => pure (Json.mkObj [("merge", Json.str (errName e))])
  | .ok d =>
    let reqs ← getArr j "requests"
    let answers ← reqs.mapM (fun r => match r with
      | .str name => pure (resToJson examplesJ (Db.getExamples d name))
      | .arr names => do
          let ns ← names.toList.mapM (·.getStr?)
          pure (resToJson examplesJ (Db.getMany d ns))
      | _ => throw "bad request")
    pure (Json.mkObj [
      ("merge", Json.str "ok"),
      ("names", strsToJson (Db.keysOf d.datasets ++ Db.keysOf (d.alias.getD []))),
      ("answers", Json.arr answers.toArray)])

/-! ### groupby (Layer A) -/

def skeyJ : SKey → Json
  | .int i => intToJson i
  | .str s => Json.str s

def handleGroupBy (j : Json) : Except String Json := do
  let p ← pipeOfJson (← j.getObjVal? "p")
  let f ← fnOfJson (← j.getObjVal? "f")
  match build menuEnv p with
  | .error e => pure (Json.mkObj [("build", Json.str (errName e))])
  | .ok d =>
    match mkGroupBy (menuFn f) d with
    | .error e => pure (Json.mkObj [("build", Json.str "ok"), ("groupby", Json.str (errName e))])
    | .ok gs =>
      pure (Json.mkObj [("build", Json.str "ok"), ("groupby", Json.str "ok"),
        ("groups", Json.arr (gs.map (fun (g, gd) => Json.arr #[skeyJ g, streamToJson valToJson gd.iter,
            resToJson strsToJson gd.keys])).toArray)])

/-! ### copy(): which attributes the model says each class forwards -/

def handleCopyCfg (j : Json) : Except String Json := do
  let classes ← (← getArr j "classes").mapM (·.getStr?)
  pure (Json.mkObj [("forwarded", Json.arr (classes.map (fun c => Json.arr #[Json.str c, strsToJson (CopyCfg.forwarded c)])).toArray)])

/-! ### trace (C08) -/

partial def tpipeOfJson (j : Json) : Except String Trace.TPipe := do
  let op ← getStr j "op"
  match op with
  | "src" => do pure (.src (← (← getArr j "xs").mapM valOfJson))
  | "map" => do pure (.map (← getNat j "sid") (← fnOfJson (← j.getObjVal? "f")) (← tpipeOfJson (← j.getObjVal? "p")))
  | "filter" => do pure (.filter (← getNat j "sid") (← predOfJson (← j.getObjVal? "f")) (← tpipeOfJson (← j.getObjVal? "p")))
  | "batch" => do pure (.batch (← getNat j "n") (← getBool j "dropLast") (← tpipeOfJson (← j.getObjVal? "p")))
  | "unbatch" => do pure (.unbatch (← tpipeOfJson (← j.getObjVal? "p")))
  | "concat" => do pure (.concat (← tpipeOfJson (← j.getObjVal? "p")) (← tpipeOfJson (← j.getObjVal? "q")))
  | "zip" => do pure (.zip (← tpipeOfJson (← j.getObjVal? "p")) (← tpipeOfJson (← j.getObjVal? "q")))
  | "slice" => do pure (.slice (← (← getArr j "sel").mapM (·.getNat?)) (← tpipeOfJson (← j.getObjVal? "p")))
  | "localShuffle" => do
      pure (.localShuffle (← getNat j "bs") (← (← getArr j "choices").mapM (·.getNat?))
        (← (← getArr j "final").mapM (·.getNat?)) (← tpipeOfJson (← j.getObjVal? "p")))
  | "catch" => do pure (.catch (← errsOfJson (← getArr j "E")) (← tpipeOfJson (← j.getObjVal? "p")))
  | "reshuffle" => do pure (.reshuffle (← (← getArr j "perm").mapM (·.getNat?)) (← tpipeOfJson (← j.getObjVal? "p")))
  | "cache" => do pure (.cache (← tpipeOfJson (← j.getObjVal? "p")))
  | "tile" => do pure (.tile (← getNat j "r") (← tpipeOfJson (← j.getObjVal? "p")))
  | "intersperse" => do pure (.intersperse (← tpipeOfJson (← j.getObjVal? "p")) (← tpipeOfJson (← j.getObjVal? "q")))
  | _ => throw s!"unknown trace op {op}"

def logJ (l : Trace.Log) : Json := Json.arr (l.map (fun c => Json.arr #[natToJson c.stage, valToJson c.arg])).toArray

def handleTrace (j : Json) : Except String Json := do
  let p ← tpipeOfJson (← j.getObjVal? "p")
  let gets ← (← getArr j "gets").mapM (·.getNat?)
  let t := Trace.iterT menuEnv p
  pure (Json.mkObj [
    ("chunks", Json.arr (t.chunks.map (fun (lg, v) => Json.arr #[logJ lg, valToJson v])).toArray),
    ("tail", logJ t.tail),
    ("err", optErrToJson t.err),
    ("gets", Json.arr (gets.map (fun i => let (lg, r) := Trace.getT menuEnv p i
        Json.arr #[natToJson i, logJ lg, resToJson valToJson r])).toArray)])

end LazyDs.MachDriver

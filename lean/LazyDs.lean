import LazyDs.Model.Basic
import LazyDs.Model.PySlice
import LazyDs.Model.Stage
import LazyDs.Model.Fn
import LazyDs.Model.Pipeline

import LazyDs.Model.Profile
import LazyDs.Model.Pipeline
/-
  C20 — the profiling wrapper is transparent and counts truthfully.
-/
namespace LazyDs
open Profile

/-- Transparency of iteration: run to the end, the wrapper hands on exactly the stream of its input —
    same examples, same order, same length, same error at the same position. -/
theorem C20_iter_transparent {α} (s : Stream α) (c : Counters) : (profIter s none c).1 = s := by
  unfold profIter
  cases h : s.err with
  | none => simp only; cases s; simp_all
  | some e => simp only; cases s; simp_all

/-- A consumer that stops after `k` results has received the first `k` examples of the input. -/
theorem C20_iter_prefix {α} (s : Stream α) (k : Nat) (c : Counters) (hk : k ≤ s.vals.length) :
    (profIter s (some k) c).1 = ⟨s.vals.take k, none⟩ := by
  simp [profIter, hk]

/-- Counting: after a full consumption the hit count grew by the number of examples fetched, plus one
    if the fetch that ended the iteration raised; that failed fetch is counted separately when it
    raised an `Exception`. The terminating `StopIteration` is not a fetch. -/
theorem C20_hits_full {α} (s : Stream α) (c : Counters) :
    (profIter s none c).2.hits = c.hits + s.vals.length + (if s.err.isSome then 1 else 0) ∧
    (profIter s none c).2.failed = c.failed +
      (match s.err with | some e => if e.isA .exception then 1 else 0 | none => 0) := by
  unfold profIter
  cases h : s.err with
  | none => simp
  | some e => simp

/-- Counting for a consumer that stops early: exactly `k` fetches, none failed. -/
theorem C20_hits_partial {α} (s : Stream α) (k : Nat) (c : Counters) (hk : k ≤ s.vals.length) :
    (profIter s (some k) c).2 = { c with hits := c.hits + k } := by
  simp [profIter, hk]

/-- `ds[i]` through the wrapper: same outcome, one hit, a failure counted separately. -/
theorem C20_getitem_transparent {α} (r : Res α) (c : Counters) :
    (profGet r c).1 = r ∧ (profGet r c).2.hits = c.hits + 1 ∧
    (profGet r c).2.failed = c.failed + (match r with | .error e => if e.isA .exception then 1 else 0 | .ok _ => 0) := by
  cases r <;> simp [profGet]

/-- Copies share the counters: consuming through the original and through a copy (e.g. the frozen
    copies that prefetch makes) adds up. -/
theorem C20_shared_counts_under_copy {α} (s t : Stream α) (c : Counters) :
    (profIter t none (profIter s none c).2).2.hits =
      c.hits + (s.vals.length + (if s.err.isSome then 1 else 0)) + (t.vals.length + (if t.err.isSome then 1 else 0)) := by
  rw [(C20_hits_full t _).1, (C20_hits_full s c).1]
  omega

/-- Counters never decrease and `failed ≤ hits` is preserved. -/
theorem C20_failed_le_hits {α} (s : Stream α) (d : Option Nat) (c : Counters) (h : c.failed ≤ c.hits) :
    (profIter s d c).2.failed ≤ (profIter s d c).2.hits ∧ c.hits ≤ (profIter s d c).2.hits := by
  unfold profIter
  cases d with
  | none =>
    cases hs : s.err with
    | none => simp; omega
    | some e =>
      by_cases he : e.isA .exception = true <;> simp [he] <;> omega
  | some k =>
    by_cases hk : k ≤ s.vals.length
    · simp [hk]; omega
    · cases hs : s.err with
      | none => simp [hk]; omega
      | some e =>
        by_cases he : e.isA .exception = true <;> simp [hk, he] <;> omega

/-- The internal marker `_ItemsNotDefined` is a `BaseException`: a fetch that ends with it is a hit but
    not a *failed* hit. -/
example : (profIter (⟨[1, 2], some .itemsNotDefinedInternal⟩ : Stream Nat) none ⟨0, 0⟩).2 = ⟨3, 0⟩ := by decide
example : (profIter (⟨[1, 2], some .valueError⟩ : Stream Nat) none ⟨0, 0⟩).2 = ⟨3, 1⟩ := by decide
example : (profIter (⟨[1, 2, 3], none⟩ : Stream Nat) (some 2) ⟨5, 1⟩) = (⟨[1, 2], none⟩, ⟨7, 1⟩) := rfl

/-! ### the generator loop, step by step -/

/-- The closed form `profIter` (what the theorems above are about, and what the correspondence check
    runs) IS the loop: for every input stream, every demand and every counter state. -/
theorem C20_loop_eq_closed_form {α} (vals : List α) (err : Option Err) (d : Option Nat) (c : Counters) :
    profLoop vals err d c = profIter ⟨vals, err⟩ d c := by
  induction vals generalizing d c with
  | nil =>
    cases d with
    | none => cases err <;> simp [profLoop, profIter]
    | some k =>
      cases k with
      | zero => cases err <;> simp [profLoop, profIter]
      | succ k => cases err <;> simp [profLoop, profIter]
  | cons x xs ih =>
    cases d with
    | none =>
      rw [profLoop]
      · simp only [Option.map_none, ih]
        cases err <;> simp [profIter] <;> omega
      · intro h; cases h
    | some k =>
      cases k with
      | zero => simp [profLoop, profIter]
      | succ k =>
        rw [profLoop]
        · simp only [Option.map_some, Nat.add_sub_cancel, ih]
          by_cases hk : k ≤ xs.length
          · simp [profIter, hk]; omega
          · cases err <;> simp [profIter, hk] <;> omega
        · intro h; cases h

example : profLoop [1, 2, 3] (some .valueError) none ⟨0, 0⟩ = (⟨[1, 2, 3], some .valueError⟩, ⟨4, 1⟩) := by rfl
example : profLoop [1, 2, 3] none none ⟨0, 0⟩ = ((⟨[1, 2, 3], none⟩ : Stream Nat), ⟨3, 0⟩) := by rfl
example : profLoop [1, 2, 3] none (some 2) ⟨0, 0⟩ = ((⟨[1, 2], none⟩ : Stream Nat), ⟨2, 0⟩) := by rfl

end LazyDs

/-
  Property C12: the shuffles (model: `LazyDs.Model.Shuffle`).
  Only final statements; all the work is in `LazyDs.Lemmas.ShuffleLemmas`.

  Everything numpy's generators draw is an INPUT of the model (an oracle value): the permutation
  `rng.shuffle` / `rng.permutation` produces, the index `rng.choice(buffer_size)` returns, the index
  set `rng.choice(n, size, replace=False)` returns.  Every theorem quantifies over all oracle values
  satisfying what numpy guarantees about them (a permutation of `range n`; an index `< buffer_size`;
  pairwise distinct in-range indices), over every list and every element type.

  * one-time shuffle `ds.shuffle(reshuffle=False)` = `ds[perm]`                 : `select l π`
  * shuffled tiling `ds.tile(k, shuffle=True)`                                   : `(πs.map (select l)).flatten`
  * `ds.random_choice(size, replace=False)`                                     : `select l idx`
  * `ds.shuffle(reshuffle=True, buffer_size=bs)` (`LocalShuffleDataset`)        : `localShuffle`
  * `ds.shuffle(reshuffle=True)` (`ReShuffleDataset`) and `copy(freeze=True)`   : `rstep` / `rrun`

  Every theorem is followed by an `example` on concrete data.
-/
import LazyDs.Lemmas.ShuffleLemmas

namespace LazyDs

open Shuffle

/-! ### one-time shuffle, shuffled tiling -/

/-- **C12 (one-time shuffle).**  Selecting by a permutation `π` of the positions yields every
    example exactly once: the result is a permutation (as a multiset: equal) of the input. -/
theorem C12_shuffle_perm {α} {l : List α} {π : List Nat} (hπ : π.Perm (List.range l.length)) :
    (select l π).Perm l := select_perm hπ

example : (select ["a", "b", "c", "b"] [2, 0, 3, 1]).Perm ["a", "b", "c", "b"] :=
  C12_shuffle_perm (by decide)
example : select ["a", "b", "c", "b"] [2, 0, 3, 1] = ["c", "a", "b", "b"] := by decide

/-- **C12 (length).**  Selecting in-range positions yields one example per position; in
    particular a one-time shuffle has the length of its input. -/
theorem C12_select_length {α} {l : List α} {idx : List Nat} (h : ∀ i ∈ idx, i < l.length) :
    (select l idx).length = idx.length := select_length_of_lt h

/-- the special case of `C12_select_length` for a permutation of the positions -/
theorem C12_shuffle_length {α} {l : List α} {π : List Nat} (hπ : π.Perm (List.range l.length)) :
    (select l π).length = l.length := select_perm_length hπ

example : (select ["a", "b", "c"] [2, 2, 0, 1]).length = 4 := C12_select_length (by decide)
example : (select ["a", "b", "c"] [2, 0, 1]).length = 3 := C12_shuffle_length (by decide)

/-- **C12 (shuffled tiling).**  Every repetition is shuffled by its own permutation; the result is
    a permutation of `πs.length` copies of the input, and repetition by repetition a permutation
    of the input. -/
theorem C12_tile_shuffle_perm {α} {l : List α} {πs : List (List Nat)}
    (h : ∀ π ∈ πs, π.Perm (List.range l.length)) :
    ((πs.map (select l)).flatten).Perm ((List.replicate πs.length l).flatten) :=
  select_tile_perm h

example : (([[2, 0, 1], [1, 0, 2]].map (select ["a", "b", "c"])).flatten).Perm
    ["a", "b", "c", "a", "b", "c"] :=
  C12_tile_shuffle_perm (l := ["a", "b", "c"]) (πs := [[2, 0, 1], [1, 0, 2]]) (by decide)
example : ([[2, 0, 1], [1, 0, 2]].map (select ["a", "b", "c"])).flatten
    = ["c", "a", "b", "b", "a", "c"] := by decide

/-! ### `random_choice` without replacement -/

/-- **C12 (sampling without replacement, values).**  Distinct in-range positions of a
    duplicate-free dataset select pairwise distinct examples. -/
theorem C12_choice_nodup {α} {l : List α} {idx : List Nat} (hidx : idx.Nodup)
    (hlt : ∀ i ∈ idx, i < l.length) (hl : l.Nodup) : (select l idx).Nodup :=
  select_nodup hidx hlt hl

example : (select ["a", "b", "c", "d"] [3, 1]).Nodup :=
  C12_choice_nodup (by decide) (by decide) (by decide)

/-- **C12 (sampling without replacement, positions).**  No assumption on the examples: tag every
    example with its position (`l.zipIdx`).  The selected tagged examples carry exactly the
    requested positions `idx`, in the requested order — so every chosen POSITION occurs at most once
    when `idx` is duplicate-free — and untagging gives `select l idx`. -/
theorem C12_choice_positions {α} {l : List α} {idx : List Nat} (hidx : idx.Nodup)
    (hlt : ∀ i ∈ idx, i < l.length) :
    (select l.zipIdx idx).map (·.2) = idx ∧
    ((select l.zipIdx idx).map (·.2)).Nodup ∧
    (select l.zipIdx idx).map (·.1) = select l idx :=
  ⟨select_zipIdx_snd hlt, by rw [select_zipIdx_snd hlt]; exact hidx, select_zipIdx_fst l idx⟩

example : (select ["a", "b", "a", "b"].zipIdx [3, 0, 2]).map (·.2) = [3, 0, 2] :=
  (C12_choice_positions (by decide) (by decide)).1
example : select ["a", "b", "a", "b"].zipIdx [3, 0, 2] = [("b", 3), ("a", 0), ("a", 2)] := by decide

/-! ### buffer-local shuffle (`LocalShuffleDataset`)

  Validity of the oracle for `localShuffle bs input choices finalPerm` with `1 ≤ bs`:
  * `∀ c ∈ choices, c < bs`                          — `rng.choice(buffer_size)` is `< buffer_size`;
  * `input.length + 1 - bs ≤ choices.length`         — the stream is long enough: the loop pops once
    for every example consumed while the buffer is full, i.e. `input.length - (bs - 1)` times
    (truncated subtraction);
  * `finalPerm.Perm (List.range (min input.length (bs - 1)))` — `rng.shuffle(buffer)` permutes the
    buffer left at the end, which holds `min input.length (bs - 1)` examples. -/

/-- **C12 (loop invariant, general form).**  Start the loop with `buf.length ≤ bs - 1` examples in
    the buffer and a valid oracle.  Then `emitted ++ remaining buffer` is a permutation of
    `buf ++ xs`, exactly `buf.length + xs.length - (bs - 1)` examples are emitted, and the buffer
    left at the end holds `min (buf.length + xs.length) (bs - 1) ≤ bs - 1` examples.  (The
    hypothesis `buf.length ≤ bs - 1` is re-established for every recursive call: between
    iterations the buffer never exceeds `bs - 1` examples.) -/
theorem C12_local_loop_inv {α} {bs : Nat} (hbs : 1 ≤ bs) (xs buf : List α) (choices : List Nat)
    (hbuf : buf.length ≤ bs - 1) (hcs : ∀ c ∈ choices, c < bs)
    (hlen : buf.length + xs.length - (bs - 1) ≤ choices.length) :
    ((localLoop bs xs buf choices).1 ++ (localLoop bs xs buf choices).2).Perm (buf ++ xs) ∧
    (localLoop bs xs buf choices).1.length = buf.length + xs.length - (bs - 1) ∧
    (localLoop bs xs buf choices).2.length = min (buf.length + xs.length) (bs - 1) :=
  localLoop_valid hbs xs buf choices hbuf hcs hlen

example : localLoop 3 [10, 11, 12] [1, 2] [0, 2, 1] = ([1, 11, 10], [2, 12]) := by decide

/-- **C12 (buffer bound).**  The buffer left by the loop holds `min input.length (bs - 1)`
    examples, hence at most `bs - 1`. -/
theorem C12_local_buffer_bound {α} {bs : Nat} (hbs : 1 ≤ bs) {input : List α} {choices : List Nat}
    (hcs : ∀ c ∈ choices, c < bs) (hlen : input.length + 1 - bs ≤ choices.length) :
    (localLoop bs input [] choices).2.length = min input.length (bs - 1) ∧
    (localLoop bs input [] choices).2.length ≤ bs - 1 := by
  have := localLoop_rest_length hbs (input := input) hcs hlen
  exact ⟨this, by omega⟩

/-- **C12 (number of emitted examples).**  The loop emits `input.length - (bs - 1)` examples. -/
theorem C12_local_emitted_count {α} {bs : Nat} (hbs : 1 ≤ bs) {input : List α}
    {choices : List Nat} (hcs : ∀ c ∈ choices, c < bs)
    (hlen : input.length + 1 - bs ≤ choices.length) :
    (localLoop bs input [] choices).1.length = input.length + 1 - bs :=
  localLoop_out_length hbs hcs hlen

/-- **C12 (emitted ++ buffer).**  What the loop emitted together with the buffer it leaves is a
    permutation of the input. -/
theorem C12_local_loop_perm {α} {bs : Nat} (hbs : 1 ≤ bs) {input : List α} {choices : List Nat}
    (hcs : ∀ c ∈ choices, c < bs) (hlen : input.length + 1 - bs ≤ choices.length) :
    ((localLoop bs input [] choices).1 ++ (localLoop bs input [] choices).2).Perm input :=
  localLoop_perm hbs hcs hlen

example : localLoop 3 ["a", "b", "c", "d", "e"] [] [2, 0, 1] = (["c", "a", "d"], ["b", "e"]) := by
  decide
example : (localLoop 3 ["a", "b", "c", "d", "e"] [] [2, 0, 1]).2.length = 2 :=
  (C12_local_buffer_bound (by decide) (by decide) (by decide)).1
example : (localLoop 3 ["a", "b", "c", "d", "e"] [] [2, 0, 1]).1.length = 3 :=
  C12_local_emitted_count (by decide) (by decide) (by decide)

/-- **C12 (buffer-local shuffle).**  With a valid oracle the buffer-local shuffle yields every
    input example exactly once. -/
theorem C12_local_perm {α} {bs : Nat} (hbs : 1 ≤ bs) {input : List α}
    {choices finalPerm : List Nat} (hcs : ∀ c ∈ choices, c < bs)
    (hlen : input.length + 1 - bs ≤ choices.length)
    (hfp : finalPerm.Perm (List.range (min input.length (bs - 1)))) :
    (localShuffle bs input choices finalPerm).Perm input :=
  localShuffle_perm hbs hcs hlen hfp

example : (localShuffle 3 ["a", "b", "c", "d", "e"] [2, 0, 1] [1, 0]).Perm
    ["a", "b", "c", "d", "e"] :=
  C12_local_perm (by decide) (by decide) (by decide) (by decide)
example : localShuffle 3 ["a", "b", "c", "d", "e"] [2, 0, 1] [1, 0] = ["c", "a", "d", "e", "b"] := by
  decide
/-- fewer examples than `buffer_size - 1`: nothing is popped, only the final shuffle acts -/
example : (localShuffle 5 ["a", "b"] [] [1, 0]).Perm ["a", "b"] :=
  C12_local_perm (by decide) (by decide) (by decide) (by decide)

/-- **C12 (bounded displacement).**  Tag every example with its source position
    (`input.zipIdx`).  The example at output position `j` has a source position `p ≤ j + (bs - 1)`:
    the buffer-local shuffle never emits an example more than `buffer_size - 1` positions before
    its source position.

    This holds for EVERY oracle value (no validity hypothesis on `choices` / `finalPerm` is needed:
    in the model an invalid oracle only truncates the emitted list), so it is stated with the
    single hypothesis `1 ≤ bs`; it is in particular true under the validity hypotheses of
    `C12_local_perm`. -/
theorem C12_local_displacement {α} {bs : Nat} (hbs : 1 ≤ bs) (input : List α)
    (choices finalPerm : List Nat) :
    ∀ j p x, (localShuffle bs input.zipIdx choices finalPerm)[j]? = some (x, p) →
      p ≤ j + (bs - 1) :=
  fun j p x h => localShuffle_displacement hbs input choices finalPerm j p x h

example : localShuffle 3 ["a", "b", "c", "d", "e"].zipIdx [2, 0, 1] [1, 0]
    = [("c", 2), ("a", 0), ("d", 3), ("e", 4), ("b", 1)] := by decide
/-- `"c"` (source position 2) is emitted at position 0: exactly `bs - 1 = 2` positions early -/
example : (2 : Nat) ≤ 0 + (3 - 1) :=
  C12_local_displacement (bs := 3) (by decide) ["a", "b", "c", "d", "e"] [2, 0, 1] [1, 0] 0 2 "c"
    (by decide)

/-! ### `ReShuffleDataset`: one shared array, shuffled in place by every `start` / `freeze` -/

/-- **C12 (array invariant).**  Along every run in which every drawn `π` is a permutation of
    `range n`, the shared array is a permutation of `range n` (stated from any state satisfying
    the invariant, and from the initial state). -/
theorem C12_arr_perm_inv {n : Nat} {s : RState} {ops : List ROp}
    (hs : s.arr.Perm (List.range n))
    (hops : ∀ op ∈ ops, ∀ π, op = .start π ∨ op = .freeze π → π.Perm (List.range n)) :
    (rrun s ops).1.arr.Perm (List.range n) := rrun_arr_perm hs hops

/-- `C12_arr_perm_inv` from the initial state -/
theorem C12_arr_perm_inv_init {n : Nat} {ops : List ROp}
    (hops : ∀ op ∈ ops, ∀ π, op = .start π ∨ op = .freeze π → π.Perm (List.range n)) :
    (rrun (rinit n) ops).1.arr.Perm (List.range n) :=
  rrun_arr_perm (List.Perm.refl _) hops

example : (rrun (rinit 3) [.start [1, 2, 0], .next 0, .freeze [2, 1, 0], .start [1, 2, 0]]).1.arr
    = [2, 1, 0] := by decide
example : (rrun (rinit 3) [.start [1, 2, 0], .next 0, .freeze [2, 1, 0], .start [1, 2, 0]]).1.arr.Perm
    (List.range 3) :=
  C12_arr_perm_inv_init (by
    intro op hop π h
    simp only [List.mem_cons, List.not_mem_nil, or_false] at hop
    rcases hop with rfl | rfl | rfl | rfl <;> rcases h with h | h <;> cases h <;> decide)

/-- **C12 (re-shuffle, isolated iteration) — the strongest true variant.**
    History: `pre`, then `start π` creates iterator `it`, then `post`, which contains only `next`
    operations (on any iterators, also older ones still in flight) — i.e. NO `start` / `freeze`
    happens while `it` is in progress.  All drawn permutations are valid.  Iterator `it` is advanced
    until it reports `stop`.  Then the values `it` received are a permutation of `range n`: every
    example exactly once.

    The unrestricted statement (arbitrary operations after `start π`) is FALSE in the model and in
    the library: see `C12_reshuffle_interleaved_counterexample`. -/
theorem C12_reshuffle_perm_partial {n it : Nat} {pre post : List ROp} {π : List Nat}
    (hvalid : ∀ op ∈ pre ++ [.start π], ∀ ρ, op = .start ρ ∨ op = .freeze ρ →
      ρ.Perm (List.range n))
    (hpost : ∀ op ∈ post, ∃ j, op = .next j)
    (hit : (rrun (rinit n) (pre ++ .start π :: post)).2[pre.length]? = some (.started it))
    (hstop : ∃ k : Nat, (pre ++ .start π :: post)[k]? = some (.next it) ∧
      (rrun (rinit n) (pre ++ .start π :: post)).2[k]? = some .stop) :
    (valuesOf it (pre ++ .start π :: post) (rrun (rinit n) (pre ++ .start π :: post)).2).Perm
      (List.range n) := by
  rw [reshuffle_isolated hpost hit hstop]
  exact applyPerm_range_perm (hvalid _ (by simp) π (.inl rfl))
    (rrun_arr_perm (List.Perm.refl _) (fun op hop => hvalid op (by simp [hop])))

/-- what the isolated iterator receives is exactly the array as its `start` left it -/
theorem C12_reshuffle_values_eq {n it : Nat} {pre post : List ROp} {π : List Nat}
    (hpost : ∀ op ∈ post, ∃ j, op = .next j)
    (hit : (rrun (rinit n) (pre ++ .start π :: post)).2[pre.length]? = some (.started it))
    (hstop : ∃ k : Nat, (pre ++ .start π :: post)[k]? = some (.next it) ∧
      (rrun (rinit n) (pre ++ .start π :: post)).2[k]? = some .stop) :
    valuesOf it (pre ++ .start π :: post) (rrun (rinit n) (pre ++ .start π :: post)).2 =
      applyPerm π (rrun (rinit n) pre).1.arr :=
  reshuffle_isolated hpost hit hstop

/-- two iterations one after the other (the first one abandoned after one example, and still
    advanced once while the second one runs): the second iterator sees a permutation -/
example : (valuesOf 1
    ([.start [1, 2, 0], .next 0] ++ .start [2, 0, 1] :: [.next 1, .next 0, .next 1, .next 1, .next 1])
    (rrun (rinit 3) ([.start [1, 2, 0], .next 0] ++
      .start [2, 0, 1] :: [.next 1, .next 0, .next 1, .next 1, .next 1])).2).Perm (List.range 3) :=
  C12_reshuffle_perm_partial
    (by
      intro op hop ρ h
      simp only [List.cons_append, List.nil_append, List.mem_cons, List.not_mem_nil, or_false]
        at hop
      rcases hop with rfl | rfl | rfl <;> rcases h with h | h <;> cases h <;> decide)
    (by simp)
    (by decide)
    ⟨7, rfl, by decide⟩
example : valuesOf 1
    ([.start [1, 2, 0], .next 0] ++ .start [2, 0, 1] :: [.next 1, .next 0, .next 1, .next 1, .next 1])
    (rrun (rinit 3) ([.start [1, 2, 0], .next 0] ++
      .start [2, 0, 1] :: [.next 1, .next 0, .next 1, .next 1, .next 1])).2 = [0, 1, 2] := by decide

/-- **C12 (re-shuffle, interleaved iterations) — the known defect.**  `n = 3`, two iterators: the
    second `start` happens after iterator `0` took one example; it reshuffles in place the array
    iterator `0` is walking.  Iterator `0` receives `[1, 0, 1]`: example `1` twice, example `2`
    never — NOT a permutation of `[0, 1, 2]`.  (The second iterator, started last, is fine.) -/
theorem C12_reshuffle_interleaved_counterexample :
    let ops : List ROp := [.start [1, 2, 0], .next 0, .start [1, 2, 0], .next 0, .next 0, .next 0,
      .next 1, .next 1, .next 1, .next 1]
    let outs := (rrun (rinit 3) ops).2
    outs = [.started 0, .val 1, .started 1, .val 0, .val 1, .stop,
      .val 2, .val 0, .val 1, .stop] ∧
    valuesOf 0 ops outs = [1, 0, 1] ∧
    ¬ (valuesOf 0 ops outs).Perm (List.range 3) ∧
    ¬ (valuesOf 0 ops outs).Nodup ∧
    2 ∉ valuesOf 0 ops outs ∧
    (valuesOf 1 ops outs).Perm (List.range 3) := by
  decide

/-- **C12 (frozen copy).**  `copy(freeze=True)` shuffles the shared array and returns a snapshot
    `a` of it.  Under the array invariant and for a valid `π` the snapshot is a permutation of
    `range n`, and it equals the array at that moment.  The snapshot is returned BY VALUE (it is a
    component of the output, not of the state): no later operation can change it — immunity against
    later `start`s holds by construction of the model, mirroring the fancy-indexing copy
    `self.input_dataset[self._permutation]` the library takes. -/
theorem C12_frozen_copy_snapshot {n : Nat} {s s' : RState} {π a : List Nat}
    (hs : s.arr.Perm (List.range n)) (hπ : π.Perm (List.range n))
    (h : rstep s (.freeze π) = (s', .frozen a)) :
    a.Perm (List.range n) ∧ s'.arr = a := by
  simp only [rstep, Prod.mk.injEq, ROut.frozen.injEq] at h
  obtain ⟨rfl, rfl⟩ := h
  exact ⟨applyPerm_range_perm hπ hs, rfl⟩

/-- **C12 (frozen copy, along a run).**  In every run from the initial state with valid
    permutations, every snapshot reported is a permutation of `range n`. -/
theorem C12_frozen_copy_snapshot_run {n : Nat} {ops : List ROp} {a : List Nat}
    (hops : ∀ op ∈ ops, ∀ π, op = .start π ∨ op = .freeze π → π.Perm (List.range n))
    (ha : ROut.frozen a ∈ (rrun (rinit n) ops).2) : a.Perm (List.range n) :=
  rrun_frozen_perm (List.Perm.refl _) hops ha

/-- the snapshot `[1, 2, 0]` is taken, then a `start` reshuffles the shared array to `[2, 0, 1]`;
    the reported snapshot is what it was -/
example : rrun (rinit 3) [.freeze [1, 2, 0], .start [1, 2, 0], .next 0]
    = ({ arr := [2, 0, 1], pos := [1] }, [.frozen [1, 2, 0], .started 0, .val 2]) := by
  simp [rrun, rstep, rinit, applyPerm, select]
example : ([1, 2, 0] : List Nat).Perm (List.range 3) ∧
    (rstep (rinit 3) (.freeze [1, 2, 0])).1.arr = [1, 2, 0] :=
  C12_frozen_copy_snapshot (s := rinit 3) (List.Perm.refl _) (by decide) rfl

end LazyDs

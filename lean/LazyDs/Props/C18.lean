/-
  C18: `sort` and `groupby`.

  `sortOrderBy lt ks reverse` is `[index for _, index in sorted(zip(values, count()), reverse=reverse)]`
  for the key type with strict order `lt`; `sortKeys` is `sorted(keys, reverse=reverse)`;
  `groupIndices gs` is the grouping `groupby` computes from the group ids `gs`.
  All statements are about the definitions in `LazyDs/Model/Stage.lean` as written; helper
  lemmas are in `LazyDs/Lemmas/ShardSort.lean`.

  The order hypotheses on `lt : κ → κ → Bool` (strict total order) are
    `irrefl : ∀ a, lt a a = false`,
    `trans  : ∀ a b c, lt a b = true → lt b c = true → lt a c = true`,
    `total  : ∀ a b, a ≠ b → lt a b = true ∨ lt b a = true`.
  They are proved for both key types the model sorts by: `intLt` and `strLt`
  (`C18_sort_int`, `C18_sort_str`).  `ks[i]!` is used for the key of example `i`; every index in
  the result is `< ks.length` by `C18_sort_perm`, so the default value never shows up.
-/
import LazyDs.Lemmas.ShardSort

namespace LazyDs
open LazyDs.ShardSort

/-! ### `sort(key_fn)` -/

/-- The sort order is a permutation of `0, …, n-1` (no hypothesis on `lt`): `sort` neither
    loses nor duplicates an example. -/
theorem C18_sort_perm {κ : Type} (lt : κ → κ → Bool) (ks : List κ) (rev : Bool) :
    (sortOrderBy lt ks rev).Perm (List.range ks.length) :=
  sortOrderBy_perm lt ks rev

example : sortOrderBy intLt [3, 1, 2, 1] false = [1, 3, 2, 0] := by
  simp [sortOrderBy, List.mergeSort, List.zipIdx, pairLeBy, intLt]

/-- Ascending sort: the sort keys along the result are non-decreasing. -/
theorem C18_sort_monotone {κ : Type} [Inhabited κ] (lt : κ → κ → Bool)
    (irrefl : ∀ a, lt a a = false)
    (trans : ∀ a b c, lt a b = true → lt b c = true → lt a c = true)
    (total : ∀ a b, a ≠ b → lt a b = true ∨ lt b a = true) (ks : List κ) :
    (sortOrderBy lt ks false).Pairwise (fun i j => ¬ lt (ks[j]!) (ks[i]!) = true) :=
  (sortOrderBy_sorted ⟨irrefl, trans, total⟩ ks).imp (fun h => by rw [h.1]; exact Bool.false_ne_true)

example : (sortOrderBy intLt [3, 1, 2, 1] false).map ([3, 1, 2, 1][·]!) = [1, 1, 2, 3] := by
  simp [sortOrderBy, List.mergeSort, List.zipIdx, pairLeBy, intLt]

/-- `reverse=True`: the sort keys along the result are non-increasing. -/
theorem C18_sort_monotone_reverse {κ : Type} [Inhabited κ] (lt : κ → κ → Bool)
    (irrefl : ∀ a, lt a a = false)
    (trans : ∀ a b c, lt a b = true → lt b c = true → lt a c = true)
    (total : ∀ a b, a ≠ b → lt a b = true ∨ lt b a = true) (ks : List κ) :
    (sortOrderBy lt ks true).Pairwise (fun i j => ¬ lt (ks[i]!) (ks[j]!) = true) :=
  (sortOrderBy_sorted_reverse ⟨irrefl, trans, total⟩ ks).imp (fun h => by rw [h.1]; exact Bool.false_ne_true)

example : (sortOrderBy intLt [3, 1, 2, 1] true).map ([3, 1, 2, 1][·]!) = [3, 2, 1, 1] := by
  simp [sortOrderBy, List.mergeSort, List.zipIdx, pairLeBy, intLt]

/-- Ties are broken by the example index, as the tuple comparison `(value, index)` does:
    ascending, examples with equal keys keep their relative order; with `reverse=True` they
    appear in decreasing index order (the whole tuple order is reversed). -/
theorem C18_sort_stable_ties {κ : Type} [Inhabited κ] (lt : κ → κ → Bool)
    (irrefl : ∀ a, lt a a = false)
    (trans : ∀ a b c, lt a b = true → lt b c = true → lt a c = true)
    (total : ∀ a b, a ≠ b → lt a b = true ∨ lt b a = true) (ks : List κ) :
    (sortOrderBy lt ks false).Pairwise (fun i j => ks[i]! = ks[j]! → i < j)
    ∧ (sortOrderBy lt ks true).Pairwise (fun i j => ks[i]! = ks[j]! → j < i) :=
  ⟨(sortOrderBy_sorted ⟨irrefl, trans, total⟩ ks).imp (fun h => h.2),
   (sortOrderBy_sorted_reverse ⟨irrefl, trans, total⟩ ks).imp (fun h => h.2)⟩

-- the two examples with key `1` are `1, 3` ascending and `3, 1` with `reverse=True`
example : sortOrderBy intLt [3, 1, 2, 1] false = [1, 3, 2, 0]
    ∧ sortOrderBy intLt [3, 1, 2, 1] true = [0, 2, 3, 1] := by
  constructor <;> simp [sortOrderBy, List.mergeSort, List.zipIdx, pairLeBy, intLt]

/-- Integer sort keys: permutation, monotone keys, ties by index — for both directions. -/
theorem C18_sort_int (ks : List Int) :
    (∀ rev, (sortOrderBy intLt ks rev).Perm (List.range ks.length))
    ∧ (sortOrderBy intLt ks false).Pairwise (fun i j => ks[i]! ≤ ks[j]! ∧ (ks[i]! = ks[j]! → i < j))
    ∧ (sortOrderBy intLt ks true).Pairwise (fun i j => ks[j]! ≤ ks[i]! ∧ (ks[i]! = ks[j]! → j < i)) := by
  refine ⟨fun rev => sortOrderBy_perm _ _ rev, ?_, ?_⟩
  · exact (sortOrderBy_sorted intLt_strictTotal ks).imp (fun h => by
      refine ⟨?_, h.2⟩
      have := h.1
      simp only [intLt, decide_eq_false_iff_not] at this
      omega)
  · exact (sortOrderBy_sorted_reverse intLt_strictTotal ks).imp (fun h => by
      refine ⟨?_, h.2⟩
      have := h.1
      simp only [intLt, decide_eq_false_iff_not] at this
      omega)

example : sortOrderBy intLt [5, -2, 5, 0, -2] true = [2, 0, 3, 4, 1] := by
  simp [sortOrderBy, List.mergeSort, List.zipIdx, pairLeBy, intLt]

/-- String sort keys: permutation, monotone keys, ties by index — for both directions. -/
theorem C18_sort_str (ks : List String) :
    (∀ rev, (sortOrderBy strLt ks rev).Perm (List.range ks.length))
    ∧ (sortOrderBy strLt ks false).Pairwise (fun i j => ks[i]! ≤ ks[j]! ∧ (ks[i]! = ks[j]! → i < j))
    ∧ (sortOrderBy strLt ks true).Pairwise (fun i j => ks[j]! ≤ ks[i]! ∧ (ks[i]! = ks[j]! → j < i)) := by
  refine ⟨fun rev => sortOrderBy_perm _ _ rev, ?_, ?_⟩
  · exact (sortOrderBy_sorted strLt_strictTotal ks).imp (fun h => by
      refine ⟨?_, h.2⟩
      have := h.1
      simp only [strLt, decide_eq_false_iff_not] at this
      exact String.not_lt.mp this)
  · exact (sortOrderBy_sorted_reverse strLt_strictTotal ks).imp (fun h => by
      refine ⟨?_, h.2⟩
      have := h.1
      simp only [strLt, decide_eq_false_iff_not] at this
      exact String.not_lt.mp this)

example : sortOrderBy strLt ["b", "a", "c", "a"] false = [1, 3, 0, 2]
    ∧ sortOrderBy strLt ["b", "a", "c", "a"] true = [2, 0, 3, 1] := by
  constructor <;> simp [sortOrderBy, List.mergeSort, List.zipIdx, pairLeBy, strLt]

/-! ### `sort()` without a key function: the example keys are the sort keys -/

/-- `sorted(keys, reverse=…)` is a permutation of the keys. -/
theorem C18_sortKeys_perm (ks : List String) (rev : Bool) : (sortKeys ks rev).Perm ks :=
  sortKeys_perm ks rev

/-- `sorted(keys)` is non-decreasing and `sorted(keys, reverse=True)` non-increasing
    (the `reverse` flag is honoured, F7). -/
theorem C18_sortKeys_sorted (ks : List String) :
    (sortKeys ks false).Pairwise (fun a b => a ≤ b)
    ∧ (sortKeys ks true).Pairwise (fun a b => b ≤ a) :=
  ⟨sortKeys_sorted ks, sortKeys_sorted_reverse ks⟩

example : sortKeys ["b", "a", "c", "a"] false = ["a", "a", "b", "c"]
    ∧ sortKeys ["b", "a", "c", "a"] true = ["c", "b", "a", "a"] := by
  constructor <;> simp [sortKeys, List.mergeSort, strLe]

/-! ### `groupby` -/

/-- Every example is in exactly one group. -/
theorem C18_groupby_partition (gs : List SKey) :
    ((groupIndices gs).map (·.2)).flatten.Perm (List.range gs.length) :=
  groupIndices_flatten_perm gs

example : groupIndices [.str "a", .int 1, .str "a", .str "b", .int 1]
    = [(.str "a", [0, 2]), (.int 1, [1, 4]), (.str "b", [3])] := by decide

/-- …namely in the group named by its group id. -/
theorem C18_groupby_ids (gs : List SKey) :
    ∀ g is, (g, is) ∈ groupIndices gs → ∀ i ∈ is, gs[i]? = some g :=
  (groupIndices_inv gs).ids

example : ∀ p ∈ groupIndices [.str "a", .int 1, .str "a", .str "b", .int 1],
    ∀ i ∈ p.2, [SKey.str "a", .int 1, .str "a", .str "b", .int 1][i]? = some p.1 := by decide

/-- Every example is found in the group of its own group id. -/
theorem C18_groupby_complete (gs : List SKey) (i : Nat) (hi : i < gs.length) :
    ∃ is, (gs[i], is) ∈ groupIndices gs ∧ i ∈ is := by
  have hmem : i ∈ ((groupIndices gs).map (·.2)).flatten :=
    (C18_groupby_partition gs).mem_iff.mpr (List.mem_range.mpr hi)
  obtain ⟨is, his, hiis⟩ := List.mem_flatten.mp hmem
  obtain ⟨⟨g, is'⟩, hp, rfl⟩ := List.mem_map.mp his
  have hg := C18_groupby_ids gs g is' hp i hiis
  rw [List.getElem?_eq_getElem hi] at hg
  cases hg
  exact ⟨is', hp, hiis⟩

example : (SKey.int 1, [1, 4]) ∈ groupIndices [.str "a", .int 1, .str "a", .str "b", .int 1] := by
  decide

/-- Group ids are pairwise distinct: one group per id. -/
theorem C18_groupby_nodup_ids (gs : List SKey) : ((groupIndices gs).map (·.1)).Nodup :=
  (groupIndices_inv gs).nodup

example : (groupIndices [.str "a", .int 1, .str "a", .str "b", .int 1]).map (·.1)
    = [.str "a", .int 1, .str "b"] := by decide

/-- Inside a group the examples keep their relative order. -/
theorem C18_groupby_order (gs : List SKey) :
    ∀ g is, (g, is) ∈ groupIndices gs → is.Pairwise (· < ·) :=
  (groupIndices_inv gs).order

example : ∀ p ∈ groupIndices [.int 2, .int 1, .int 2, .int 2, .int 1], p.2.Pairwise (· < ·) := by
  decide

/-! ### the specification determines the order -/

/-- The sort order is DETERMINED by its specification: any arrangement `o` of the positions
    `0, …, n-1` along which the sort keys are non-decreasing and ties appear in index order is the
    order `sort(key_fn)` produces (so `C18_sort_perm`, `C18_sort_monotone` and `C18_sort_stable_ties`
    together leave no freedom). -/
theorem C18_sort_unique {κ : Type} [Inhabited κ] (lt : κ → κ → Bool)
    (irrefl : ∀ a, lt a a = false)
    (trans : ∀ a b c, lt a b = true → lt b c = true → lt a c = true)
    (total : ∀ a b, a ≠ b → lt a b = true ∨ lt b a = true) (ks : List κ) (o : List Nat)
    (hperm : o.Perm (List.range ks.length))
    (hsorted : o.Pairwise (fun i j => lt (ks[j]!) (ks[i]!) = false ∧ (ks[i]! = ks[j]! → i < j))) :
    o = sortOrderBy lt ks false := by
  refine List.Perm.eq_of_pairwise ?_ hsorted (sortOrderBy_sorted ⟨irrefl, trans, total⟩ ks)
    (hperm.trans (sortOrderBy_perm lt ks false).symm)
  rintro i j _ _ ⟨h1, h2⟩ ⟨h3, h4⟩
  by_cases he : ks[i]! = ks[j]!
  · have := h2 he; have := h4 he.symm; omega
  · rcases total _ _ he with h | h
    · rw [h] at h3; cases h3
    · rw [h] at h1; cases h1

/-- The same for `reverse=True`. -/
theorem C18_sort_unique_reverse {κ : Type} [Inhabited κ] (lt : κ → κ → Bool)
    (irrefl : ∀ a, lt a a = false)
    (trans : ∀ a b c, lt a b = true → lt b c = true → lt a c = true)
    (total : ∀ a b, a ≠ b → lt a b = true ∨ lt b a = true) (ks : List κ) (o : List Nat)
    (hperm : o.Perm (List.range ks.length))
    (hsorted : o.Pairwise (fun i j => lt (ks[i]!) (ks[j]!) = false ∧ (ks[i]! = ks[j]! → j < i))) :
    o = sortOrderBy lt ks true := by
  refine List.Perm.eq_of_pairwise ?_ hsorted (sortOrderBy_sorted_reverse ⟨irrefl, trans, total⟩ ks)
    (hperm.trans (sortOrderBy_perm lt ks true).symm)
  rintro i j _ _ ⟨h1, h2⟩ ⟨h3, h4⟩
  by_cases he : ks[i]! = ks[j]!
  · have := h2 he; have := h4 he.symm; omega
  · rcases total _ _ he with h | h
    · rw [h] at h1; cases h1
    · rw [h] at h3; cases h3

-- the hypotheses are satisfiable: the order of the running example meets them
example : ([1, 3, 2, 0] : List Nat).Perm (List.range [3, 1, 2, 1].length) ∧
    ([1, 3, 2, 0] : List Nat).Pairwise (fun i j => intLt (([3, 1, 2, 1] : List Int)[j]!) (([3, 1, 2, 1] : List Int)[i]!) = false
      ∧ ((([3, 1, 2, 1] : List Int)[i]!) = (([3, 1, 2, 1] : List Int)[j]!) → i < j)) := by
  constructor
  · decide
  · simp [intLt]

end LazyDs

import LazyDs.Model.Trace
/-
  C08 — evaluation is demand-driven (placeholder theorems; the full list is proved in this file by
  the end of the round).
-/
namespace LazyDs
open Trace

/-- consuming `k` results performs a prefix of the calls of the whole iteration -/
theorem C08_prefix (t : TStream) (k : Nat) : t.logAfter k <+: t.fullLog := by
  unfold TStream.logAfter TStream.fullLog
  have h : ((t.chunks.take k).map (·.1)).flatten <+: (t.chunks.map (·.1)).flatten := by
    have : t.chunks = t.chunks.take k ++ t.chunks.drop k := (List.take_append_drop k t.chunks).symm
    conv => rhs; rw [this]
    simp only [List.map_append, List.flatten_append]
    exact List.prefix_append _ _
  exact List.IsPrefix.trans h (List.prefix_append _ _)

end LazyDs

import LazyDs.Model.Trace
import LazyDs.Lemmas.TraceLemmas
/-
  C08 — evaluation is demand-driven: nothing runs early, nothing runs twice.

  All statements are about the chunked-trace semantics of `LazyDs/Model/Trace.lean`: `t.logAfter k`
  is the list of user-function calls that have been performed once the consumer holds `k` results,
  `t.fullLog` the calls of a complete iteration.  "The arguments stage `sid` was applied to" is
  written `(log.filter (·.stage == sid)).map (·.arg)`.  The freshness hypothesis
  `∀ c ∈ (cs.map (·.1)).flatten ++ tl, c.stage ≠ sid` says that the stage identifier `sid` is not used
  by a stage further up the pipeline (the harness numbers the stages of a pipeline apart).
  Helper lemmas: `LazyDs/Lemmas/TraceLemmas.lean`.
-/
namespace LazyDs
open Trace

/-! ## 1. What has run after `k` results is a prefix of what runs at all -/

/-- consuming `k` results performs a prefix of the calls of the whole iteration -/
theorem C08_prefix (t : TStream) (k : Nat) : t.logAfter k <+: t.fullLog := by
  unfold TStream.logAfter TStream.fullLog
  have h : ((t.chunks.take k).map (·.1)).flatten <+: (t.chunks.map (·.1)).flatten := by
    have : t.chunks = t.chunks.take k ++ t.chunks.drop k := (List.take_append_drop k t.chunks).symm
    conv => rhs; rw [this]
    simp only [List.map_append, List.flatten_append]
    exact List.prefix_append _ _
  exact List.IsPrefix.trans h (List.prefix_append _ _)

example : (iterT menuEnv (.map 7 (.add 1) (.src [.int 1, .int 2, .int 3]))).logAfter 2
    = [⟨7, .int 1⟩, ⟨7, .int 2⟩] := rfl
example : (iterT menuEnv (.map 7 (.add 1) (.src [.int 1, .int 2, .int 3]))).fullLog
    = [⟨7, .int 1⟩, ⟨7, .int 2⟩, ⟨7, .int 3⟩] := rfl

/-- consuming more results only ever extends the log: work done for the first `k` results is never redone
    or reordered by asking for more -/
theorem C08_logAfter_mono (t : TStream) {k k' : Nat} (h : k ≤ k') : t.logAfter k <+: t.logAfter k' :=
  logAfter_mono t h

example : (iterT menuEnv (.filter 3 (.keepMod 2 0) (.src [.int 1, .int 2, .int 3, .int 4]))).logAfter 1
    = [⟨3, .int 1⟩, ⟨3, .int 2⟩] := rfl

/-- once every result has been consumed, only the calls after the last `yield` are outstanding -/
theorem C08_logAfter_all (t : TStream) {k : Nat} (h : t.chunks.length ≤ k) :
    t.logAfter k ++ t.tail = t.fullLog :=
  logAfter_all t h

example : (iterT menuEnv (.filter 3 (.keepMod 2 0) (.src [.int 1, .int 2, .int 3]))).tail = [⟨3, .int 3⟩] := rfl

/-! ## 2. Erasure: forgetting the log gives the untraced (Layer A) stream of each stage -/

/-- `map`: the traced stage yields what `Stream.mapMAux` yields and ends the same way -/
theorem C08_erase_map (ρ : Env) (sid : Nat) (f : FnSym) (cs : List (Log × Val)) (tl : Log) (e : Option Err) :
    (mapT ρ sid f cs tl e).erase = Stream.mapMAux (ρ.fn f) (cs.map (·.2)) e :=
  erase_map ρ sid f cs tl e

example : (mapT menuEnv 1 (.raiseIfMod 3 0 .userA) [([], .int 1), ([], .int 3), ([], .int 4)] [] none).erase
    = ⟨[.int 1], some .userA⟩ := rfl

/-- `filter` -/
theorem C08_erase_filter (ρ : Env) (sid : Nat) (f : PredSym) (cs : List (Log × Val)) (pending tl : Log)
    (e : Option Err) :
    (filterT ρ sid f cs pending tl e).erase = Stream.filterMAux (ρ.pred f) (cs.map (·.2)) e :=
  erase_filter ρ sid f cs pending tl e

example : (filterT menuEnv 1 (.keepMod 2 0) [([], .int 1), ([], .int 2), ([], .int 4)] [] [] none).erase
    = ⟨[.int 2, .int 4], none⟩ := rfl

/-- `unbatch` -/
theorem C08_erase_unbatch (cs : List (Log × Val)) (pending tl : Log) (e : Option Err) :
    (unbatchT cs pending tl e).erase = unbatchAux (cs.map (·.2)) e :=
  erase_unbatch cs pending tl e

example : (unbatchT [([⟨1, .int 0⟩], .list [.int 1, .int 2]), ([], .list []), ([⟨1, .int 5⟩], .tup [.int 3])] [] [] none).erase
    = ⟨[.int 1, .int 2, .int 3], none⟩ := rfl

/-- `concatenate` -/
theorem C08_erase_concat (a b : TStream) : (appendT a b).erase = a.erase.append b.erase :=
  erase_append a b

example : (appendT ⟨[([], .int 1)], [⟨1, .int 9⟩], none⟩ ⟨[([⟨2, .int 0⟩], .int 2)], [], some .userA⟩).erase
    = ⟨[.int 1, .int 2], some .userA⟩ := rfl

/-- `batch`, for any partially collected batch `cur` (and any `n`, also `n = 0`): the traced loop yields the
    groups of `chunkAux`; when the input ends with an error a started group is not handed out -/
theorem C08_erase_batch_cur (n : Nat) (dl : Bool) (cs : List (Log × Val)) (cur : List Val) (lg tl : Log)
    (e : Option Err) :
    (batchT n dl cs cur lg tl e).erase =
      match e with
      | none => ⟨(chunkAux n dl (cs.map (·.2)) cur).map Val.list, none⟩
      | some er => ⟨(chunkAux n true (cs.map (·.2)) cur).map Val.list, some er⟩ :=
  erase_batch_gen n dl cs cur lg tl e

/-- `batch` (the hypothesis `1 ≤ n` is what the library asserts; the proof does not need it) -/
theorem C08_erase_batch (n : Nat) (dl : Bool) (cs : List (Log × Val)) (tl : Log) (e : Option Err)
    (_hn : 1 ≤ n) :
    (batchT n dl cs [] [] tl e).erase = batchStream n dl ⟨cs.map (·.2), e⟩ := by
  rw [erase_batch_gen]
  cases e <;> rfl

example : (batchT 2 false [([], .int 1), ([], .int 2), ([], .int 3)] [] [] [] none).erase
    = ⟨[.list [.int 1, .int 2], .list [.int 3]], none⟩ := rfl

/-- a source yields its elements -/
theorem C08_erase_src (ρ : Env) (xs : List Val) : (iterT ρ (.src xs)).erase = ⟨xs, none⟩ := by
  simp [iterT, TStream.erase, List.map_map, Function.comp_def]

example : (iterT menuEnv (.src [.int 1, .int 2])).erase = ⟨[.int 1, .int 2], none⟩ := rfl

/-! ## 3. Conservation of the log: a stage neither loses nor invents calls -/

/-- `map` applies its function to a PREFIX of its input sequence: to each input example at most once, in
    input order. -/
theorem C08_log_map (ρ : Env) (sid : Nat) (f : FnSym) (cs : List (Log × Val)) (tl : Log) (e : Option Err)
    (hf : ∀ c ∈ (cs.map (·.1)).flatten ++ tl, c.stage ≠ sid) :
    ((mapT ρ sid f cs tl e).fullLog.filter (·.stage == sid)).map (·.arg) <+: cs.map (·.2) := by
  have := log_map_exact ρ sid f cs tl e hf
  unfold sidArgs at this
  rw [this]
  exact List.take_prefix _ _

/-- exact form: a complete iteration applies the function to the inputs of all results and to the one input
    after them, if there is one (the example on which the function raised) -/
theorem C08_log_map_exact (ρ : Env) (sid : Nat) (f : FnSym) (cs : List (Log × Val)) (tl : Log) (e : Option Err)
    (hf : ∀ c ∈ (cs.map (·.1)).flatten ++ tl, c.stage ≠ sid) :
    ((mapT ρ sid f cs tl e).fullLog.filter (·.stage == sid)).map (·.arg) =
      (cs.map (·.2)).take ((mapT ρ sid f cs tl e).chunks.length + 1) :=
  log_map_exact ρ sid f cs tl e hf

/-- when the stage itself did not raise — the iteration ended without error, or every input produced a
    result — the function was applied to every input exactly once -/
theorem C08_log_map_total (ρ : Env) (sid : Nat) (f : FnSym) (cs : List (Log × Val)) (tl : Log) (e : Option Err)
    (hf : ∀ c ∈ (cs.map (·.1)).flatten ++ tl, c.stage ≠ sid)
    (h : (mapT ρ sid f cs tl e).err = none ∨ (mapT ρ sid f cs tl e).chunks.length = cs.length) :
    ((mapT ρ sid f cs tl e).fullLog.filter (·.stage == sid)).map (·.arg) = cs.map (·.2) := by
  have hl : (mapT ρ sid f cs tl e).chunks.length = cs.length := by
    rcases h with h | h
    · exact map_err_none ρ sid f cs tl e h
    · exact h
  rw [C08_log_map_exact ρ sid f cs tl e hf, hl]
  exact List.take_of_length_le (by simp)

/-- the calls of all OTHER stages pass through `map` untouched, up to the point where `map` stopped
    (no freshness needed), and completely when the iteration ended without error -/
theorem C08_log_map_others (ρ : Env) (sid : Nat) (f : FnSym) (cs : List (Log × Val)) (tl : Log) (e : Option Err) :
    (mapT ρ sid f cs tl e).fullLog.filter (·.stage != sid) <+:
        ((cs.map (·.1)).flatten ++ tl).filter (·.stage != sid) ∧
    ((mapT ρ sid f cs tl e).err = none →
      (mapT ρ sid f cs tl e).fullLog.filter (·.stage != sid) =
        ((cs.map (·.1)).flatten ++ tl).filter (·.stage != sid)) :=
  ⟨log_map_others ρ sid f cs tl e, log_map_others_eq ρ sid f cs tl e⟩

example : (mapT menuEnv 1 (.raiseIfMod 3 0 .userA)
      [([⟨0, .int 10⟩], .int 1), ([⟨0, .int 30⟩], .int 3), ([⟨0, .int 40⟩], .int 4)] [] none).fullLog
    = [⟨0, .int 10⟩, ⟨1, .int 1⟩, ⟨0, .int 30⟩, ⟨1, .int 3⟩] := rfl

/-- `filter` applies its predicate to a PREFIX of its input sequence (each example at most once, in order);
    to all of it when the iteration ended without error -/
theorem C08_log_filter (ρ : Env) (sid : Nat) (f : PredSym) (cs : List (Log × Val)) (tl : Log) (e : Option Err)
    (hf : ∀ c ∈ (cs.map (·.1)).flatten ++ tl, c.stage ≠ sid) :
    ((filterT ρ sid f cs [] tl e).fullLog.filter (·.stage == sid)).map (·.arg) <+: cs.map (·.2) ∧
    ((filterT ρ sid f cs [] tl e).err = none →
      ((filterT ρ sid f cs [] tl e).fullLog.filter (·.stage == sid)).map (·.arg) = cs.map (·.2)) := by
  constructor
  · simpa [sidArgs] using log_filter_gen ρ sid f cs [] tl e hf
  · intro he
    simpa [sidArgs] using log_filter_eq_gen ρ sid f cs [] tl e hf he

example : (filterT menuEnv 2 (.raiseIfMod 3 0 .userB) [([], .int 1), ([], .int 3), ([], .int 4)] [] [] none).fullLog
    = [⟨2, .int 1⟩, ⟨2, .int 3⟩] := rfl

/-! ## 4. No look-ahead -/

/-- `map`: after `k` results the function has been applied to exactly the first `k` inputs — not one more -/
theorem C08_no_lookahead_map (ρ : Env) (sid : Nat) (f : FnSym) (cs : List (Log × Val)) (tl : Log) (e : Option Err)
    (hf : ∀ c ∈ (cs.map (·.1)).flatten ++ tl, c.stage ≠ sid) (k : Nat) :
    (((mapT ρ sid f cs tl e).logAfter k).filter (·.stage == sid)).map (·.arg) =
      (cs.map (·.2)).take (min k (mapT ρ sid f cs tl e).chunks.length) :=
  no_lookahead_map ρ sid f cs tl e hf k

example : ((mapT menuEnv 1 (.add 1) [([], .int 1), ([], .int 2), ([], .int 3)] [] none).logAfter 1)
    = [⟨1, .int 1⟩] := rfl

/-- `filter`: after `k` results the predicate has been applied to a prefix of the inputs (i) whose accepted
    elements are exactly the `k` results handed out (ii) and which ends with the `k`-th result (iii): the
    predicate has run up to and including the `k`-th accepted input and not beyond.
    `accepted ρ f v` means `ρ.pred f v = .ok true`. -/
theorem C08_no_lookahead_filter (ρ : Env) (sid : Nat) (f : PredSym) (cs : List (Log × Val)) (tl : Log)
    (e : Option Err) (hf : ∀ c ∈ (cs.map (·.1)).flatten ++ tl, c.stage ≠ sid) (k : Nat) :
    let t := filterT ρ sid f cs [] tl e
    let args := ((t.logAfter k).filter (·.stage == sid)).map (·.arg)
    args <+: cs.map (·.2) ∧
    args.filter (accepted ρ f) = (t.chunks.take k).map (·.2) ∧
    (∀ j, k = j + 1 → j < t.chunks.length → args.getLast? = (t.chunks[j]?).map (·.2)) := by
  refine ⟨?_, ?_, ?_⟩
  · have h1 := sidArgs_prefix sid (logAfter_prefix_fullLog (filterT ρ sid f cs [] tl e) k)
    have h2 := log_filter_gen ρ sid f cs [] tl e hf
    simpa [sidArgs] using h1.trans h2
  · exact filter_accepted_gen ρ sid f cs [] tl e hf (by simp) k
  · intro j hj hlt
    subst hj
    exact filter_last_gen ρ sid f cs [] tl e hf j hlt

example : ((filterT menuEnv 2 (.keepMod 2 0) [([], .int 1), ([], .int 2), ([], .int 3), ([], .int 4), ([], .int 5)]
      [] [] none).logAfter 1) = [⟨2, .int 1⟩, ⟨2, .int 2⟩] := rfl
example : ((filterT menuEnv 2 (.keepMod 2 0) [([], .int 1), ([], .int 2), ([], .int 3), ([], .int 4), ([], .int 5)]
      [] [] none).logAfter 2) = [⟨2, .int 1⟩, ⟨2, .int 2⟩, ⟨2, .int 3⟩, ⟨2, .int 4⟩] := rfl

/-! ## 5. `batch` is at most one batch ahead -/

/-- consuming `k` batches has touched exactly the first `k * n` inputs (`k` up to the number of full
    batches): chunk `j` holds the calls of the inputs `j*n … j*n+n-1` and nothing else -/
theorem C08_batch_chunk (n : Nat) (dl : Bool) (cs : List (Log × Val)) (tl : Log) (e : Option Err)
    (hn : 1 ≤ n) (k : Nat) (hk : k * n ≤ cs.length) :
    (batchT n dl cs [] [] tl e).logAfter k = ((cs.take (k * n)).map (·.1)).flatten :=
  batch_chunk n dl cs tl e hn k hk

example : ((batchT 2 false [([⟨1, .int 1⟩], .int 1), ([⟨1, .int 2⟩], .int 2), ([⟨1, .int 3⟩], .int 3),
      ([⟨1, .int 4⟩], .int 4), ([⟨1, .int 5⟩], .int 5)] [] [] [] none).logAfter 1)
    = [⟨1, .int 1⟩, ⟨1, .int 2⟩] := rfl

/-! ## 6. The buffer-local shuffle is exactly `bs - 1` inputs ahead -/

/-- Exact form of the look-ahead of `LocalShuffleDataset.__iter__`: once `k ≥ 1` results have been handed out
    by the loop (so `k + bs - 1 ≤ cs.length`, the first `k` drawn positions exist and are valid buffer
    positions) exactly the first `k + bs - 1` inputs have been pulled. Written with `k + 1` for `k`. -/
theorem C08_local_lookahead (bs : Nat) (cs : List (Log × Val)) (choices final : List Nat) (tl : Log)
    (e : Option Err) (hbs : 1 ≤ bs) (k : Nat) (hk : k + bs ≤ cs.length) (hc : k + 1 ≤ choices.length)
    (hv : ∀ c ∈ choices.take (k + 1), c < bs) :
    (localT bs cs [] [] choices final tl e).logAfter (k + 1) = ((cs.take (k + 1 + bs - 1)).map (·.1)).flatten := by
  have := local_gen bs cs [] [] choices final tl e (by simp; omega) k (by simpa using hk) hc hv
  rw [this]
  have : k + 1 + bs - 1 = k + bs := by omega
  simp [this]

example : ((localT 3 [([⟨1, .int 1⟩], .int 1), ([⟨1, .int 2⟩], .int 2), ([⟨1, .int 3⟩], .int 3),
      ([⟨1, .int 4⟩], .int 4), ([⟨1, .int 5⟩], .int 5)] [] [] [2, 0, 1] [0, 1] [] none).logAfter 1)
    = [⟨1, .int 1⟩, ⟨1, .int 2⟩, ⟨1, .int 3⟩] := rfl

/-- the bound `k + bs - 1 ≤ cs.length` is needed: results of the final flush (here the 2nd of 3 inputs with
    `bs = 3`) come after the input has ended, so their log also holds the input's trailing calls — it is not
    `take (k + bs - 1)` of the input chunks -/
example : ((localT 3 [([⟨1, .int 1⟩], .int 1), ([⟨1, .int 2⟩], .int 2), ([⟨1, .int 3⟩], .int 3)]
      [] [] [2] [0, 1] [⟨1, .int 9⟩] none).logAfter 2)
    = [⟨1, .int 1⟩, ⟨1, .int 2⟩, ⟨1, .int 3⟩, ⟨1, .int 9⟩] := rfl

/-! ## 7. The footprint of indexing -/

/-- `ds.map(f)[i]` fetches `ds[i]` and applies `f` once, to that one example -/
theorem C08_getitem_map (ρ : Env) (sid : Nat) (f : FnSym) (p : TPipe) (i : Nat) :
    getT ρ (.map sid f p) i =
      (let (lg, r) := getT ρ p i
       match r with
       | .ok v => (lg ++ [⟨sid, v⟩], ρ.fn f v)
       | .error e => (lg, .error e)) := by
  rw [getT]
  rcases getT ρ p i with ⟨lg, r⟩
  cases r <;> rfl

/-- hence the function of a `map` stage is applied exactly once by `ds[i]`, to the input example `i`
    (and not at all when fetching that example failed) -/
theorem C08_getitem_map_once (ρ : Env) (sid : Nat) (f : FnSym) (p : TPipe) (i : Nat)
    (hf : ∀ c ∈ (getT ρ p i).1, c.stage ≠ sid) :
    (((getT ρ (.map sid f p) i).1).filter (·.stage == sid)).map (·.arg) =
      match (getT ρ p i).2 with
      | .ok v => [v]
      | .error _ => [] := by
  rw [getT]
  rcases h : getT ρ p i with ⟨lg, r⟩
  rw [h] at hf
  have := sidArgs_fresh sid lg hf
  unfold sidArgs at this
  cases r <;> simp [this]

example : getT menuEnv (.map 1 (.add 1) (.map 0 (.add 10) (.src [.int 1, .int 2, .int 3]))) 1
    = ([⟨0, .int 2⟩, ⟨1, .int 12⟩], .ok (.int 13)) := by simp [getT, menuEnv, menuFn]

/-- indexing a source calls nothing -/
theorem C08_getitem_src (ρ : Env) (xs : List Val) (i : Nat) : (getT ρ (.src xs) i).1 = [] := by
  rw [getT]

example : getT menuEnv (.src [.int 1]) 5 = ([], .error .indexError) := by simp [getT]

/-- indexing a slice touches the selected position only -/
theorem C08_getitem_slice (ρ : Env) (sel : List Nat) (p : TPipe) (i : Nat) :
    getT ρ (.slice sel p) i =
      match sel[i]? with
      | some j => getT ρ p j
      | none => ([], .error .indexError) := by
  rw [getT]
  cases sel[i]? <;> rfl

example : getT menuEnv (.slice [2, 0] (.map 1 (.add 1) (.src [.int 1, .int 2, .int 3]))) 0
    = ([⟨1, .int 3⟩], .ok (.int 4)) := by simp [getT, menuEnv, menuFn]

/-- iterating a slice: the chunks are exactly the `ds[j]` footprints of the selected positions, in selection
    order -/
theorem C08_slice_iter_chunks (ρ : Env) (p : TPipe) (sel : List Nat) :
    (sliceT ρ p sel).chunks.map (·.1) =
      (sel.take (sliceT ρ p sel).chunks.length).map (fun j => (getT ρ p j).1) :=
  slice_iter_chunks ρ p sel

/-- … and each chunk is the complete `ds[j]` outcome (calls and value) -/
theorem C08_slice_iter_full (ρ : Env) (p : TPipe) (sel : List Nat) :
    (sliceT ρ p sel).chunks.map (fun c => (c.1, (Except.ok c.2 : Res Val))) =
      (sel.take (sliceT ρ p sel).chunks.length).map (getT ρ p) :=
  slice_iter_full ρ p sel

example : (iterT menuEnv (.slice [2, 0] (.map 1 (.add 1) (.src [.int 1, .int 2, .int 3])))).chunks
    = [([⟨1, .int 3⟩], .int 4), ([⟨1, .int 1⟩], .int 2)] := by simp [iterT, sliceT, getT, menuEnv, menuFn]

/-! ## 8. Construction is silent; calls arise in `map`/`filter` stages only -/

/-- Iterating a bare source performs no call.  Calls enter a log only in `mapT`, `filterT` and the `map`
    case of `getT` (see `C08_calls_only_from_stages`); every other stage only moves the chunks of its input
    around.  Constructing a pipeline is not an operation of this model at all: that the call log of the real
    library is empty after construction is verified by the correspondence check on the real code. -/
theorem C08_construction_silent (ρ : Env) (xs : List Val) : (iterT ρ (.src xs)).fullLog = [] := by
  rw [iterT]
  simp only [TStream.fullLog, flatten_map_fst_nil, List.append_nil]

example : (iterT menuEnv (.batch 2 false (.src [.int 1, .int 2, .int 3]))).fullLog = [] := rfl

/-- Nothing is invented, for whole pipelines: every call of an iteration, and of an index access, carries the
    identifier of a `map` or `filter` stage of that pipeline (`stages p` lists them). -/
theorem C08_calls_only_from_stages (ρ : Env) (p : TPipe) :
    (∀ c ∈ (iterT ρ p).fullLog, c.stage ∈ stages p) ∧ (∀ i, ∀ c ∈ (getT ρ p i).1, c.stage ∈ stages p) :=
  provenance ρ p

/-- a pipeline without `map`/`filter` stages never calls anything, however it is consumed -/
theorem C08_no_stage_no_call (ρ : Env) (p : TPipe) (h : stages p = []) :
    (iterT ρ p).fullLog = [] ∧ ∀ i, (getT ρ p i).1 = [] := by
  have := provenance ρ p
  rw [h] at this
  constructor
  · exact List.eq_nil_iff_forall_not_mem.2 fun c hc => by simpa using this.1 c hc
  · intro i
    exact List.eq_nil_iff_forall_not_mem.2 fun c hc => by simpa using this.2 i c hc

example : stages (.zip (.unbatch (.batch 2 true (.src [.int 1]))) (.slice [0] (.src [.int 2]))) = [] := rfl

/-- No look-ahead for a `map` stage on top of ANY pipeline whose stages are numbered apart from it: after `k`
    results of `p.map(f)` the function `f` has been applied to exactly the first `k` results of `p`. -/
theorem C08_no_lookahead_map_pipe (ρ : Env) (sid : Nat) (f : FnSym) (p : TPipe) (hs : sid ∉ stages p) (k : Nat) :
    (((iterT ρ (.map sid f p)).logAfter k).filter (·.stage == sid)).map (·.arg) =
      (iterT ρ p).erase.vals.take (min k (iterT ρ (.map sid f p)).chunks.length) := by
  rw [iterT]
  refine C08_no_lookahead_map ρ sid f _ _ _ (fun c hc h => hs ?_) k
  rw [← h]
  exact (provenance ρ p).1 c hc

example : ((iterT menuEnv (.map 5 (.add 1) (.filter 4 (.keepMod 2 0) (.src [.int 1, .int 2, .int 3, .int 4])))).logAfter 1)
    = [⟨4, .int 1⟩, ⟨4, .int 2⟩, ⟨5, .int 2⟩] := rfl

end LazyDs

import LazyDs.Model.Trace
import LazyDs.Lemmas.TraceLemmas
/-
  C08 — evaluation is demand-driven: nothing runs early, nothing runs twice.

  All statements are about the chunked-trace semantics of `LazyDs/Model/Trace.lean`: `t.logAfter k`
  is the list of user-function calls that have been performed once the consumer holds `k` results,
  `t.fullLog` the calls of a complete iteration.  "The arguments stage `sid` was applied to" is
  written `(log.filter (·.stage == sid)).map (·.arg)`.  The freshness hypothesis
  `∀ c ∈ (cs.map (·.1)).flatten ++ tl, c.stage ≠ sid` says that the stage identifier `sid` is not used
  by a stage further up the pipeline (the harness numbers the stages of a pipeline apart).
  Helper lemmas: `LazyDs/Lemmas/TraceLemmas.lean`.
-/
namespace LazyDs
open Trace

/-! ## 1. What has run after `k` results is a prefix of what runs at all -/

/-- consuming `k` results performs a prefix of the calls of the whole iteration -/
theorem C08_prefix (t : TStream) (k : Nat) : t.logAfter k <+: t.fullLog := by
  unfold TStream.logAfter TStream.fullLog
  have h : ((t.chunks.take k).map (·.1)).flatten <+: (t.chunks.map (·.1)).flatten := by
    have : t.chunks = t.chunks.take k ++ t.chunks.drop k := (List.take_append_drop k t.chunks).symm
    conv => rhs; rw [this]
    simp only [List.map_append, List.flatten_append]
    exact List.prefix_append _ _
  exact List.IsPrefix.trans h (List.prefix_append _ _)

example : (iterT menuEnv (.map 7 (.add 1) (.src [.int 1, .int 2, .int 3]))).logAfter 2
    = [⟨7, .int 1⟩, ⟨7, .int 2⟩] := rfl
example : (iterT menuEnv (.map 7 (.add 1) (.src [.int 1, .int 2, .int 3]))).fullLog
    = [⟨7, .int 1⟩, ⟨7, .int 2⟩, ⟨7, .int 3⟩] := rfl

/-- consuming more results only ever extends the log: work done for the first `k` results is never redone
    or reordered by asking for more -/
theorem C08_logAfter_mono (t : TStream) {k k' : Nat} (h : k ≤ k') : t.logAfter k <+: t.logAfter k' :=
  logAfter_mono t h

example : (iterT menuEnv (.filter 3 (.keepMod 2 0) (.src [.int 1, .int 2, .int 3, .int 4]))).logAfter 1
    = [⟨3, .int 1⟩, ⟨3, .int 2⟩] := rfl

/-- once every result has been consumed, only the calls after the last `yield` are outstanding -/
theorem C08_logAfter_all (t : TStream) {k : Nat} (h : t.chunks.length ≤ k) :
    t.logAfter k ++ t.tail = t.fullLog :=
  logAfter_all t h

example : (iterT menuEnv (.filter 3 (.keepMod 2 0) (.src [.int 1, .int 2, .int 3]))).tail = [⟨3, .int 3⟩] := rfl

/-! ## 2. Erasure: forgetting the log gives the untraced (Layer A) stream of each stage -/

/-- `map`: the traced stage yields what `Stream.mapMAux` yields and ends the same way -/
theorem C08_erase_map (ρ : Env) (sid : Nat) (f : FnSym) (cs : List (Log × Val)) (tl : Log) (e : Option Err) :
    (mapT ρ sid f cs tl e).erase = Stream.mapMAux (ρ.fn f) (cs.map (·.2)) e :=
  erase_map ρ sid f cs tl e

example : (mapT menuEnv 1 (.raiseIfMod 3 0 .userA) [([], .int 1), ([], .int 3), ([], .int 4)] [] none).erase
    = ⟨[.int 1], some .userA⟩ := rfl

/-- `filter` -/
theorem C08_erase_filter (ρ : Env) (sid : Nat) (f : PredSym) (cs : List (Log × Val)) (pending tl : Log)
    (e : Option Err) :
    (filterT ρ sid f cs pending tl e).erase = Stream.filterMAux (ρ.pred f) (cs.map (·.2)) e :=
  erase_filter ρ sid f cs pending tl e

example : (filterT menuEnv 1 (.keepMod 2 0) [([], .int 1), ([], .int 2), ([], .int 4)] [] [] none).erase
    = ⟨[.int 2, .int 4], none⟩ := rfl

/-- `unbatch` -/
theorem C08_erase_unbatch (cs : List (Log × Val)) (pending tl : Log) (e : Option Err) :
    (unbatchT cs pending tl e).erase = unbatchAux (cs.map (·.2)) e :=
  erase_unbatch cs pending tl e

example : (unbatchT [([⟨1, .int 0⟩], .list [.int 1, .int 2]), ([], .list []), ([⟨1, .int 5⟩], .tup [.int 3])] [] [] none).erase
    = ⟨[.int 1, .int 2, .int 3], none⟩ := rfl

/-- `concatenate` -/
theorem C08_erase_concat (a b : TStream) : (appendT a b).erase = a.erase.append b.erase :=
  erase_append a b

example : (appendT ⟨[([], .int 1)], [⟨1, .int 9⟩], none⟩ ⟨[([⟨2, .int 0⟩], .int 2)], [], some .userA⟩).erase
    = ⟨[.int 1, .int 2], some .userA⟩ := rfl

/-- `batch`, for any partially collected batch `cur` (and any `n`, also `n = 0`): the traced loop yields the
    groups of `chunkAux`; when the input ends with an error a started group is not handed out -/
theorem C08_erase_batch_cur (n : Nat) (dl : Bool) (cs : List (Log × Val)) (cur : List Val) (lg tl : Log)
    (e : Option Err) :
    (batchT n dl cs cur lg tl e).erase =
      match e with
      | none => ⟨(chunkAux n dl (cs.map (·.2)) cur).map Val.list, none⟩
      | some er => ⟨(chunkAux n true (cs.map (·.2)) cur).map Val.list, some er⟩ :=
  erase_batch_gen n dl cs cur lg tl e

/-- `batch` (the hypothesis `1 ≤ n` is what the library asserts; the proof does not need it) -/
theorem C08_erase_batch (n : Nat) (dl : Bool) (cs : List (Log × Val)) (tl : Log) (e : Option Err)
    (_hn : 1 ≤ n) :
    (batchT n dl cs [] [] tl e).erase = batchStream n dl ⟨cs.map (·.2), e⟩ := by
  rw [erase_batch_gen]
  cases e <;> rfl

example : (batchT 2 false [([], .int 1), ([], .int 2), ([], .int 3)] [] [] [] none).erase
    = ⟨[.list [.int 1, .int 2], .list [.int 3]], none⟩ := rfl

/-- a source yields its elements -/
theorem C08_erase_src (ρ : Env) (xs : List Val) : (iterT ρ (.src xs)).erase = ⟨xs, none⟩ := by
  simp [iterT, TStream.erase, List.map_map, Function.comp_def]

example : (iterT menuEnv (.src [.int 1, .int 2])).erase = ⟨[.int 1, .int 2], none⟩ := rfl

/-! ## 3. Conservation of the log: a stage neither loses nor invents calls -/

/-- `map` applies its function to a PREFIX of its input sequence: to each input example at most once, in
    input order. -/
theorem C08_log_map (ρ : Env) (sid : Nat) (f : FnSym) (cs : List (Log × Val)) (tl : Log) (e : Option Err)
    (hf : ∀ c ∈ (cs.map (·.1)).flatten ++ tl, c.stage ≠ sid) :
    ((mapT ρ sid f cs tl e).fullLog.filter (·.stage == sid)).map (·.arg) <+: cs.map (·.2) := by
  have := log_map_exact ρ sid f cs tl e hf
  unfold sidArgs at this
  rw [this]
  exact List.take_prefix _ _

/-- exact form: a complete iteration applies the function to the inputs of all results and to the one input
    after them, if there is one (the example on which the function raised) -/
theorem C08_log_map_exact (ρ : Env) (sid : Nat) (f : FnSym) (cs : List (Log × Val)) (tl : Log) (e : Option Err)
    (hf : ∀ c ∈ (cs.map (·.1)).flatten ++ tl, c.stage ≠ sid) :
    ((mapT ρ sid f cs tl e).fullLog.filter (·.stage == sid)).map (·.arg) =
      (cs.map (·.2)).take ((mapT ρ sid f cs tl e).chunks.length + 1) :=
  log_map_exact ρ sid f cs tl e hf

/-- when the stage itself did not raise — the iteration ended without error, or every input produced a
    result — the function was applied to every input exactly once -/
theorem C08_log_map_total (ρ : Env) (sid : Nat) (f : FnSym) (cs : List (Log × Val)) (tl : Log) (e : Option Err)
    (hf : ∀ c ∈ (cs.map (·.1)).flatten ++ tl, c.stage ≠ sid)
    (h : (mapT ρ sid f cs tl e).err = none ∨ (mapT ρ sid f cs tl e).chunks.length = cs.length) :
    ((mapT ρ sid f cs tl e).fullLog.filter (·.stage == sid)).map (·.arg) = cs.map (·.2) := by
  have hl : (mapT ρ sid f cs tl e).chunks.length = cs.length := by
    rcases h with h | h
    · exact map_err_none ρ sid f cs tl e h
    · exact h
  rw [C08_log_map_exact ρ sid f cs tl e hf, hl]
  exact List.take_of_length_le (by simp)

/-- the calls of all OTHER stages pass through `map` untouched, up to the point where `map` stopped
    (no freshness needed), and completely when the iteration ended without error -/
theorem C08_log_map_others (ρ : Env) (sid : Nat) (f : FnSym) (cs : List (Log × Val)) (tl : Log) (e : Option Err) :
    (mapT ρ sid f cs tl e).fullLog.filter (·.stage != sid) <+:
        ((cs.map (·.1)).flatten ++ tl).filter (·.stage != sid) ∧
    ((mapT ρ sid f cs tl e).err = none →
      (mapT ρ sid f cs tl e).fullLog.filter (·.stage != sid) =
        ((cs.map (·.1)).flatten ++ tl).filter (·.stage != sid)) :=
  ⟨log_map_others ρ sid f cs tl e, log_map_others_eq ρ sid f cs tl e⟩

example : (mapT menuEnv 1 (.raiseIfMod 3 0 .userA)
      [([⟨0, .int 10⟩], .int 1), ([⟨0, .int 30⟩], .int 3), ([⟨0, .int 40⟩], .int 4)] [] none).fullLog
    = [⟨0, .int 10⟩, ⟨1, .int 1⟩, ⟨0, .int 30⟩, ⟨1, .int 3⟩] := rfl

/-- `filter` applies its predicate to a PREFIX of its input sequence (each example at most once, in order);
    to all of it when the iteration ended without error -/
theorem C08_log_filter (ρ : Env) (sid : Nat) (f : PredSym) (cs : List (Log × Val)) (tl : Log) (e : Option Err)
    (hf : ∀ c ∈ (cs.map (·.1)).flatten ++ tl, c.stage ≠ sid) :
    ((filterT ρ sid f cs [] tl e).fullLog.filter (·.stage == sid)).map (·.arg) <+: cs.map (·.2) ∧
    ((filterT ρ sid f cs [] tl e).err = none →
      ((filterT ρ sid f cs [] tl e).fullLog.filter (·.stage == sid)).map (·.arg) = cs.map (·.2)) := by
  constructor
  · simpa [sidArgs] using log_filter_gen ρ sid f cs [] tl e hf
  · intro he
    simpa [sidArgs] using log_filter_eq_gen ρ sid f cs [] tl e hf he

example : (filterT menuEnv 2 (.raiseIfMod 3 0 .userB) [([], .int 1), ([], .int 3), ([], .int 4)] [] [] none).fullLog
    = [⟨2, .int 1⟩, ⟨2, .int 3⟩] := rfl

/-! ## 4. No look-ahead -/

/-- `map`: after `k` results the function has been applied to exactly the first `k` inputs — not one more -/
theorem C08_no_lookahead_map (ρ : Env) (sid : Nat) (f : FnSym) (cs : List (Log × Val)) (tl : Log) (e : Option Err)
    (hf : ∀ c ∈ (cs.map (·.1)).flatten ++ tl, c.stage ≠ sid) (k : Nat) :
    (((mapT ρ sid f cs tl e).logAfter k).filter (·.stage == sid)).map (·.arg) =
      (cs.map (·.2)).take (min k (mapT ρ sid f cs tl e).chunks.length) :=
  no_lookahead_map ρ sid f cs tl e hf k

example : ((mapT menuEnv 1 (.add 1) [([], .int 1), ([], .int 2), ([], .int 3)] [] none).logAfter 1)
    = [⟨1, .int 1⟩] := rfl

/-- `filter`: after `k` results the predicate has been applied to a prefix of the inputs (i) whose accepted
    elements are exactly the `k` results handed out (ii) and which ends with the `k`-th result (iii): the
    predicate has run up to and including the `k`-th accepted input and not beyond.
    `accepted ρ f v` means `ρ.pred f v = .ok true`. -/
theorem C08_no_lookahead_filter (ρ : Env) (sid : Nat) (f : PredSym) (cs : List (Log × Val)) (tl : Log)
    (e : Option Err) (hf : ∀ c ∈ (cs.map (·.1)).flatten ++ tl, c.stage ≠ sid) (k : Nat) :
    let t := filterT ρ sid f cs [] tl e
    let args := ((t.logAfter k).filter (·.stage == sid)).map (·.arg)
    args <+: cs.map (·.2) ∧
    args.filter (accepted ρ f) = (t.chunks.take k).map (·.2) ∧
    (∀ j, k = j + 1 → j < t.chunks.length → args.getLast? = (t.chunks[j]?).map (·.2)) := by
  refine ⟨?_, ?_, ?_⟩
  · have h1 := sidArgs_prefix sid (logAfter_prefix_fullLog (filterT ρ sid f cs [] tl e) k)
    have h2 := log_filter_gen ρ sid f cs [] tl e hf
    simpa [sidArgs] using h1.trans h2
  · exact filter_accepted_gen ρ sid f cs [] tl e hf (by simp) k
  · intro j hj hlt
    subst hj
    exact filter_last_gen ρ sid f cs [] tl e hf j hlt

example : ((filterT menuEnv 2 (.keepMod 2 0) [([], .int 1), ([], .int 2), ([], .int 3), ([], .int 4), ([], .int 5)]
      [] [] none).logAfter 1) = [⟨2, .int 1⟩, ⟨2, .int 2⟩] := rfl
example : ((filterT menuEnv 2 (.keepMod 2 0) [([], .int 1), ([], .int 2), ([], .int 3), ([], .int 4), ([], .int 5)]
      [] [] none).logAfter 2) = [⟨2, .int 1⟩, ⟨2, .int 2⟩, ⟨2, .int 3⟩, ⟨2, .int 4⟩] := rfl

/-! ## 5. `batch` is at most one batch ahead -/

/-- consuming `k` batches has touched exactly the first `k * n` inputs (`k` up to the number of full
    batches): chunk `j` holds the calls of the inputs `j*n … j*n+n-1` and nothing else -/
theorem C08_batch_chunk (n : Nat) (dl : Bool) (cs : List (Log × Val)) (tl : Log) (e : Option Err)
    (hn : 1 ≤ n) (k : Nat) (hk : k * n ≤ cs.length) :
    (batchT n dl cs [] [] tl e).logAfter k = ((cs.take (k * n)).map (·.1)).flatten :=
  batch_chunk n dl cs tl e hn k hk

example : ((batchT 2 false [([⟨1, .int 1⟩], .int 1), ([⟨1, .int 2⟩], .int 2), ([⟨1, .int 3⟩], .int 3),
      ([⟨1, .int 4⟩], .int 4), ([⟨1, .int 5⟩], .int 5)] [] [] [] none).logAfter 1)
    = [⟨1, .int 1⟩, ⟨1, .int 2⟩] := rfl

/-! ## 6. The buffer-local shuffle is exactly `bs - 1` inputs ahead -/

/-- Exact form of the look-ahead of `LocalShuffleDataset.__iter__`: once `k ≥ 1` results have been handed out
    by the loop (so `k + bs - 1 ≤ cs.length`, the first `k` drawn positions exist and are valid buffer
    positions) exactly the first `k + bs - 1` inputs have been pulled. Written with `k + 1` for `k`. -/
theorem C08_local_lookahead (bs : Nat) (cs : List (Log × Val)) (choices final : List Nat) (tl : Log)
    (e : Option Err) (hbs : 1 ≤ bs) (k : Nat) (hk : k + bs ≤ cs.length) (hc : k + 1 ≤ choices.length)
    (hv : ∀ c ∈ choices.take (k + 1), c < bs) :
    (localT bs cs [] [] choices final tl e).logAfter (k + 1) = ((cs.take (k + 1 + bs - 1)).map (·.1)).flatten := by
  have := local_gen bs cs [] [] choices final tl e (by simp; omega) k (by simpa using hk) hc hv
  rw [this]
  have : k + 1 + bs - 1 = k + bs := by omega
  simp [this]

example : ((localT 3 [([⟨1, .int 1⟩], .int 1), ([⟨1, .int 2⟩], .int 2), ([⟨1, .int 3⟩], .int 3),
      ([⟨1, .int 4⟩], .int 4), ([⟨1, .int 5⟩], .int 5)] [] [] [2, 0, 1] [0, 1] [] none).logAfter 1)
    = [⟨1, .int 1⟩, ⟨1, .int 2⟩, ⟨1, .int 3⟩] := rfl

/-- the bound `k + bs - 1 ≤ cs.length` is needed: results of the final flush (here the 2nd of 3 inputs with
    `bs = 3`) come after the input has ended, so their log also holds the input's trailing calls — it is not
    `take (k + bs - 1)` of the input chunks -/
example : ((localT 3 [([⟨1, .int 1⟩], .int 1), ([⟨1, .int 2⟩], .int 2), ([⟨1, .int 3⟩], .int 3)]
      [] [] [2] [0, 1] [⟨1, .int 9⟩] none).logAfter 2)
    = [⟨1, .int 1⟩, ⟨1, .int 2⟩, ⟨1, .int 3⟩, ⟨1, .int 9⟩] := rfl

/-! ## 7. The footprint of indexing -/

/-- `ds.map(f)[i]` fetches `ds[i]` and applies `f` once, to that one example -/
theorem C08_getitem_map (ρ : Env) (sid : Nat) (f : FnSym) (p : TPipe) (i : Nat) :
    getT ρ (.map sid f p) i =
      (let (lg, r) := getT ρ p i
       match r with
       | .ok v => (lg ++ [⟨sid, v⟩], ρ.fn f v)
       | .error e => (lg, .error e)) := by
  rw [getT]
  rcases getT ρ p i with ⟨lg, r⟩
  cases r <;> rfl

/-- hence the function of a `map` stage is applied exactly once by `ds[i]`, to the input example `i`
    (and not at all when fetching that example failed) -/
theorem C08_getitem_map_once (ρ : Env) (sid : Nat) (f : FnSym) (p : TPipe) (i : Nat)
    (hf : ∀ c ∈ (getT ρ p i).1, c.stage ≠ sid) :
    (((getT ρ (.map sid f p) i).1).filter (·.stage == sid)).map (·.arg) =
      match (getT ρ p i).2 with
      | .ok v => [v]
      | .error _ => [] := by
  rw [getT]
  rcases h : getT ρ p i with ⟨lg, r⟩
  rw [h] at hf
  have := sidArgs_fresh sid lg hf
  unfold sidArgs at this
  cases r <;> simp [this]

example : getT menuEnv (.map 1 (.add 1) (.map 0 (.add 10) (.src [.int 1, .int 2, .int 3]))) 1
    = ([⟨0, .int 2⟩, ⟨1, .int 12⟩], .ok (.int 13)) := by simp [getT, menuEnv, menuFn]

/-- indexing a source calls nothing -/
theorem C08_getitem_src (ρ : Env) (xs : List Val) (i : Nat) : (getT ρ (.src xs) i).1 = [] := by
  rw [getT]

example : getT menuEnv (.src [.int 1]) 5 = ([], .error .indexError) := by simp [getT]

/-- indexing a slice touches the selected position only -/
theorem C08_getitem_slice (ρ : Env) (sel : List Nat) (p : TPipe) (i : Nat) :
    getT ρ (.slice sel p) i =
      match sel[i]? with
      | some j => getT ρ p j
      | none => ([], .error .indexError) := by
  rw [getT]
  cases sel[i]? <;> rfl

example : getT menuEnv (.slice [2, 0] (.map 1 (.add 1) (.src [.int 1, .int 2, .int 3]))) 0
    = ([⟨1, .int 3⟩], .ok (.int 4)) := by simp [getT, menuEnv, menuFn]

/-- iterating a slice: the chunks are exactly the `ds[j]` footprints of the selected positions, in selection
    order -/
theorem C08_slice_iter_chunks (ρ : Env) (p : TPipe) (sel : List Nat) :
    (sliceT ρ p sel).chunks.map (·.1) =
      (sel.take (sliceT ρ p sel).chunks.length).map (fun j => (getT ρ p j).1) :=
  slice_iter_chunks ρ p sel

/-- … and each chunk is the complete `ds[j]` outcome (calls and value) -/
theorem C08_slice_iter_full (ρ : Env) (p : TPipe) (sel : List Nat) :
    (sliceT ρ p sel).chunks.map (fun c => (c.1, (Except.ok c.2 : Res Val))) =
      (sel.take (sliceT ρ p sel).chunks.length).map (getT ρ p) :=
  slice_iter_full ρ p sel

example : (iterT menuEnv (.slice [2, 0] (.map 1 (.add 1) (.src [.int 1, .int 2, .int 3])))).chunks
    = [([⟨1, .int 3⟩], .int 4), ([⟨1, .int 1⟩], .int 2)] := by simp [iterT, sliceT, getT, menuEnv, menuFn]

/-! ## 8. Construction is silent; calls arise in `map`/`filter` stages only -/

/-- Iterating a bare source performs no call.  Calls enter a log only in `mapT`, `filterT` and the `map`
    case of `getT` (see `C08_calls_only_from_stages`); every other stage only moves the chunks of its input
    around.  Constructing a pipeline is not an operation of this model at all: that the call log of the real
    library is empty after construction is verified by the correspondence check on the real code. -/
theorem C08_construction_silent (ρ : Env) (xs : List Val) : (iterT ρ (.src xs)).fullLog = [] := by
  rw [iterT]
  simp only [TStream.fullLog, flatten_map_fst_nil, List.append_nil]

example : (iterT menuEnv (.batch 2 false (.src [.int 1, .int 2, .int 3]))).fullLog = [] := rfl

/-- Nothing is invented, for whole pipelines: every call of an iteration, and of an index access, carries the
    identifier of a `map` or `filter` stage of that pipeline (`stages p` lists them). -/
theorem C08_calls_only_from_stages (ρ : Env) (p : TPipe) :
    (∀ c ∈ (iterT ρ p).fullLog, c.stage ∈ stages p) ∧ (∀ i, ∀ c ∈ (getT ρ p i).1, c.stage ∈ stages p) :=
  provenance ρ p

/-- a pipeline without `map`/`filter` stages never calls anything, however it is consumed -/
theorem C08_no_stage_no_call (ρ : Env) (p : TPipe) (h : stages p = []) :
    (iterT ρ p).fullLog = [] ∧ ∀ i, (getT ρ p i).1 = [] := by
  have := provenance ρ p
  rw [h] at this
  constructor
  · exact List.eq_nil_iff_forall_not_mem.2 fun c hc => by simpa using this.1 c hc
  · intro i
    exact List.eq_nil_iff_forall_not_mem.2 fun c hc => by simpa using this.2 i c hc

example : stages (.zip (.unbatch (.batch 2 true (.src [.int 1]))) (.slice [0] (.src [.int 2]))) = [] := rfl

/-- No look-ahead for a `map` stage on top of ANY pipeline whose stages are numbered apart from it: after `k`
    results of `p.map(f)` the function `f` has been applied to exactly the first `k` results of `p`. -/
theorem C08_no_lookahead_map_pipe (ρ : Env) (sid : Nat) (f : FnSym) (p : TPipe) (hs : sid ∉ stages p) (k : Nat) :
    (((iterT ρ (.map sid f p)).logAfter k).filter (·.stage == sid)).map (·.arg) =
      (iterT ρ p).erase.vals.take (min k (iterT ρ (.map sid f p)).chunks.length) := by
  rw [iterT]
  refine C08_no_lookahead_map ρ sid f _ _ _ (fun c hc h => hs ?_) k
  rw [← h]
  exact (provenance ρ p).1 c hc

example : ((iterT menuEnv (.map 5 (.add 1) (.filter 4 (.keepMod 2 0) (.src [.int 1, .int 2, .int 3, .int 4])))).logAfter 1)
    = [⟨4, .int 1⟩, ⟨4, .int 2⟩, ⟨5, .int 2⟩] := rfl

/-! ## 9. More lazy combinators: `reshuffle`, `cache`, `catch`, `tile`, `intersperse` -/

/-! ### 9.1 `reshuffle`: the index-driven walk along the drawn permutation -/

/-- iterating a `ReShuffleDataset` whose generator drew `perm` is iterating `input[perm]` -/
theorem C08_reshuffle_is_slice (ρ : Env) (perm : List Nat) (p : TPipe) :
    iterT ρ (.reshuffle perm p) = iterT ρ (.slice perm p) := by
  rw [iterT, iterT]

theorem C08_erase_reshuffle (ρ : Env) (perm : List Nat) (p : TPipe) :
    (iterT ρ (.reshuffle perm p)).erase = (iterT ρ (.slice perm p)).erase := by
  rw [C08_reshuffle_is_slice]

/-- hence each chunk is the complete `ds[j]` outcome of the drawn position, in drawing order -/
theorem C08_reshuffle_iter_full (ρ : Env) (perm : List Nat) (p : TPipe) :
    (iterT ρ (.reshuffle perm p)).chunks.map (fun c => (c.1, (Except.ok c.2 : Res Val))) =
      (perm.take (iterT ρ (.reshuffle perm p)).chunks.length).map (getT ρ p) := by
  rw [iterT]
  exact slice_iter_full ρ p perm

/-- `ReShuffleDataset` refuses integer indexing, without calling anything -/
theorem C08_getitem_reshuffle (ρ : Env) (perm : List Nat) (p : TPipe) (i : Nat) :
    getT ρ (.reshuffle perm p) i = ([], .error .typeError) := by
  rw [getT]

example : (iterT menuEnv (.reshuffle [2, 0, 1] (.map 1 (.add 1) (.src [.int 1, .int 2, .int 3])))).chunks
    = [([⟨1, .int 3⟩], .int 4), ([⟨1, .int 1⟩], .int 2), ([⟨1, .int 2⟩], .int 3)] := by
  simp [iterT, sliceT, getT, menuEnv, menuFn]

/-! ### 9.2 `cache` (first pass over an empty cache) -/

/-- the first iteration over a fresh cache is the index-driven walk over `0 … n-1`, and `ds[i]` fetches `input[i]` -/
theorem C08_cache_is_range_slice (ρ : Env) (p : TPipe) (n : Nat) (h : lenT p = some n) :
    iterT ρ (.cache p) = iterT ρ (.slice (List.range n) p) ∧ ∀ i, getT ρ (.cache p) i = getT ρ p i := by
  constructor
  · rw [iterT, iterT, h]
  · intro i; rw [getT]

theorem C08_getitem_cache (ρ : Env) (p : TPipe) (i : Nat) : getT ρ (.cache p) i = getT ρ p i := by
  rw [getT]

/-- a dataset without `len` cannot be walked by index -/
theorem C08_cache_no_len (ρ : Env) (p : TPipe) (h : lenT p = none) :
    iterT ρ (.cache p) = ⟨[], [], some .typeError⟩ := by
  rw [iterT, h]

example : iterT menuEnv (.cache (.map 1 (.add 1) (.src [.int 1, .int 2])))
    = ⟨[([⟨1, .int 1⟩], .int 2), ([⟨1, .int 2⟩], .int 3)], [], none⟩ := by
  simp [iterT, lenT, List.range, List.range.loop, sliceT, getT, menuEnv, menuFn]

/-! ### 9.3 `catch`: index driven, skips the positions whose exception matches -/

/-- the walk over ANY list of positions, `m = catchStop ρ E p sel` = the number of positions before the first
    failure that `except E` does not catch: the results are the successes among the first `m` positions; exactly
    the positions `sel[0] … sel[m]` have been evaluated, each once, in order; the stream ends with the exception of
    `sel[m]` (or normally when there is no such position) -/
theorem C08_catch_walk (ρ : Env) (E : List Err) (p : TPipe) (sel : List Nat) (pending : Log) :
    (catchT ρ E p sel pending).chunks.map (·.2) = (sel.take (catchStop ρ E p sel)).filterMap (okVal ρ p) ∧
    (catchT ρ E p sel pending).fullLog =
      pending ++ ((sel.take (catchStop ρ E p sel + 1)).map (fun j => (getT ρ p j).1)).flatten ∧
    (catchT ρ E p sel pending).err = (sel[catchStop ρ E p sel]?).bind (errOf ρ p) :=
  catch_walk ρ E p sel pending

/-- `catch` over a dataset of length `n`, with `m` = the first position whose exception does not match `E`
    (`m = n` if there is none; `uncaught ρ E p j` says that `ds[j]` raises an exception not matched by `E`):
    the values are exactly the successful `ds[j]`, `j < m`, in order; `fullLog` is the concatenation of the `ds[j]`
    footprints of exactly the positions `0 … m` (`0 … n-1` if `m = n`): nothing beyond the failing position is
    evaluated and every position's calls appear once; the stream ends with the exception of position `m` -/
theorem C08_catch_chunks (ρ : Env) (E : List Err) (p : TPipe) (n : Nat) (h : lenT p = some n) :
    catchStop ρ E p (List.range n) ≤ n ∧
    (∀ j, j < catchStop ρ E p (List.range n) → uncaught ρ E p j = false) ∧
    (catchStop ρ E p (List.range n) < n → uncaught ρ E p (catchStop ρ E p (List.range n)) = true) ∧
    (iterT ρ (.catch E p)).chunks.map (·.2) = (List.range (catchStop ρ E p (List.range n))).filterMap (okVal ρ p) ∧
    (iterT ρ (.catch E p)).fullLog =
      ((List.range (min (catchStop ρ E p (List.range n) + 1) n)).map (fun j => (getT ρ p j).1)).flatten ∧
    (iterT ρ (.catch E p)).err =
      if catchStop ρ E p (List.range n) < n then errOf ρ p (catchStop ρ E p (List.range n)) else none := by
  have ht : iterT ρ (.catch E p) = catchT ρ E p (List.range n) [] := by rw [iterT, h]
  have hle : catchStop ρ E p (List.range n) ≤ n := by simpa using catchStop_le ρ E p (List.range n)
  obtain ⟨h1, h2, h3⟩ := catch_walk ρ E p (List.range n) []
  have hb := catchStop_before ρ E p (List.range n)
  rw [List.take_range, Nat.min_eq_left hle] at hb h1
  refine ⟨hle, fun j hj => hb j (List.mem_range.2 hj), fun hlt => ?_, ?_, ?_, ?_⟩
  · exact catchStop_at ρ E p (List.range n) _ (List.getElem?_range hlt)
  · rw [ht, h1]
  · rw [ht, h2, List.take_range, List.nil_append]
  · rw [ht, h3]
    split
    · next hlt => rw [List.getElem?_range hlt]; rfl
    · next hlt => rw [List.getElem?_eq_none (by simpa using hlt)]; rfl

/-- no look-ahead, for ANY list of positions: when the consumer holds `k` results the walk has evaluated a prefix
    `sel.take m` of the positions; the successes among them are exactly the results handed out; and the prefix
    ends with a success, the position of the last result -/
theorem C08_catch_no_lookahead_sel (ρ : Env) (E : List Err) (p : TPipe) (sel : List Nat) (k : Nat) :
    ∃ m, m ≤ sel.length ∧
      (catchT ρ E p sel []).logAfter k = ((sel.take m).map (fun j => (getT ρ p j).1)).flatten ∧
      (sel.take m).filterMap (okVal ρ p) = ((catchT ρ E p sel []).chunks.take k).map (·.2) ∧
      (m = 0 ∨ ∃ j, sel[m - 1]? = some j ∧ (okVal ρ p j).isSome = true) := by
  obtain ⟨m, hm, h1, h2, h3⟩ := catch_no_lookahead_gen ρ E p sel [] k
  exact ⟨m, hm, by simpa using h1, h2, h3⟩

/-- no look-ahead for `catch` over a dataset of length `n`: when the consumer holds `k` results, exactly the
    positions `0 … m-1` have been evaluated (the log is the concatenation of their `ds[j]` footprints, each once),
    their successes are the results handed out, and position `m-1` is itself a success — the last result.
    So catching never evaluates a position beyond the one it yields. -/
theorem C08_catch_no_lookahead (ρ : Env) (E : List Err) (p : TPipe) (n : Nat) (h : lenT p = some n) (k : Nat) :
    ∃ m, m ≤ n ∧
      (iterT ρ (.catch E p)).logAfter k = ((List.range m).map (fun j => (getT ρ p j).1)).flatten ∧
      (List.range m).filterMap (okVal ρ p) = ((iterT ρ (.catch E p)).chunks.take k).map (·.2) ∧
      (m = 0 ∨ (okVal ρ p (m - 1)).isSome = true) := by
  have ht : iterT ρ (.catch E p) = catchT ρ E p (List.range n) [] := by rw [iterT, h]
  obtain ⟨m, hm, h1, h2, h3⟩ := C08_catch_no_lookahead_sel ρ E p (List.range n) k
  simp only [List.length_range] at hm
  rw [List.take_range, Nat.min_eq_left hm] at h1 h2
  refine ⟨m, hm, by rw [ht, h1], by rw [ht, h2], ?_⟩
  rcases h3 with h3 | ⟨j, hj, hs⟩
  · exact Or.inl h3
  · by_cases h0 : m = 0
    · exact Or.inl h0
    · rw [List.getElem?_range (by omega)] at hj
      injection hj with hj
      exact Or.inr (hj ▸ hs)

/-- the same in the form "a prefix of the footprints up to and including the `k`-th success": if position `i` is
    the `k`-th success (`k ≥ 1`), then after `k` results nothing but (a prefix of) the positions `0 … i` has run -/
theorem C08_catch_no_lookahead_prefix (ρ : Env) (E : List Err) (p : TPipe) (n : Nat) (h : lenT p = some n)
    (k i : Nat) (hs : (okVal ρ p i).isSome = true) (hk : ((List.range i).filterMap (okVal ρ p)).length + 1 = k) :
    (iterT ρ (.catch E p)).logAfter k <+: ((List.range (i + 1)).map (fun j => (getT ρ p j).1)).flatten := by
  obtain ⟨m, _, h1, h2, h3⟩ := C08_catch_no_lookahead ρ E p n h k
  have hcnt : ((List.range m).filterMap (okVal ρ p)).length ≤ k := by
    rw [h2]; simp only [List.length_map, List.length_take]; omega
  have hm : m ≤ i + 1 := by
    apply Classical.byContradiction
    intro hgt
    have hm0 : m ≠ 0 := by omega
    rcases h3 with h3 | h3
    · exact hm0 h3
    · obtain ⟨v, hv⟩ := Option.isSome_iff_exists.1 h3
      obtain ⟨w, hw⟩ := Option.isSome_iff_exists.1 hs
      have e1 : m = (m - 1) + 1 := by omega
      have hsub : List.Sublist (List.range (i + 1)) (List.range (m - 1)) := List.range_sublist.2 (by omega)
      have := (hsub.filterMap (okVal ρ p)).length_le
      rw [e1, List.range_succ, List.filterMap_append] at hcnt
      rw [List.range_succ, List.filterMap_append] at this
      simp [hv, hw] at hcnt this
      omega
  rw [h1]
  obtain ⟨r, hr⟩ : List.range m <+: List.range (i + 1) := by
    rw [List.prefix_iff_eq_take]
    simp [List.take_range, Nat.min_eq_left hm]
  rw [← hr]
  simp

example : iterT menuEnv (.catch [.userA] (.map 1 (.raiseIfMod 2 0 .userA) (.src [.int 1, .int 2, .int 3, .int 4])))
    = ⟨[([⟨1, .int 1⟩], .int 1), ([⟨1, .int 2⟩, ⟨1, .int 3⟩], .int 3)], [⟨1, .int 4⟩], none⟩ := by
  simp [iterT, lenT, List.range, List.range.loop, catchT, getT, menuEnv, menuFn, Err.isAny, Err.isA]

/-- an exception that does not match ends the stream; position 3 is never evaluated -/
example : iterT menuEnv (.catch [.userC] (.map 1 (.raiseIfMod 3 0 .userA) (.src [.int 1, .int 2, .int 3, .int 4])))
    = ⟨[([⟨1, .int 1⟩], .int 1), ([⟨1, .int 2⟩], .int 2)], [⟨1, .int 3⟩], some .userA⟩ := by
  simp [iterT, lenT, List.range, List.range.loop, catchT, getT, menuEnv, menuFn, Err.isAny, Err.isA, Err.parent]

/-- `CatchExceptionDataset` has no `__getitem__` for integers; nothing is called -/
theorem C08_getitem_catch (ρ : Env) (E : List Err) (p : TPipe) (i : Nat) :
    getT ρ (.catch E p) i = ([], .error .notImplemented) := by
  rw [getT]

/-! ### 9.4 `tile`: `r` passes over the input -/

/-- the untraced view of `tile r` is the `r`-fold append of the untraced view of the input (`Stream.append` stops at
    the first pass that ends with an error, so no hypothesis on the input is needed) -/
theorem C08_tile_erase (ρ : Env) (r : Nat) (p : TPipe) :
    (iterT ρ (.tile r p)).erase = (List.replicate r (iterT ρ p).erase).foldr Stream.append Stream.nil := by
  rw [iterT]
  exact erase_tile _ r

/-- for an input that iterates without error: the values `r` times over, no error -/
theorem C08_tile_erase_ok (ρ : Env) (r : Nat) (p : TPipe) (h : (iterT ρ p).err = none) :
    (iterT ρ (.tile r p)).erase = ⟨(List.replicate r (iterT ρ p).erase.vals).flatten, none⟩ := by
  rw [C08_tile_erase]
  induction r with
  | zero => rfl
  | succ r ih =>
    rw [List.replicate_succ, List.foldr_cons, ih, List.replicate_succ, List.flatten_cons]
    simp [Stream.append, TStream.erase, h]

/-- … and every pass re-executes the calls of the input: the input is iterated afresh each time -/
theorem C08_tile_log (ρ : Env) (r : Nat) (p : TPipe) (h : (iterT ρ p).err = none) :
    (iterT ρ (.tile r p)).fullLog = (List.replicate r (iterT ρ p).fullLog).flatten := by
  rw [iterT]
  exact fullLog_tile _ h r

/-- a single pass is the input itself; a failing pass ends the whole iteration -/
theorem C08_tile_one (ρ : Env) (p : TPipe) : iterT ρ (.tile 1 p) = iterT ρ p := by
  rw [iterT]
  exact tileT_one _

theorem C08_tile_err (ρ : Env) (r : Nat) (p : TPipe) (e : Err) (h : (iterT ρ p).err = some e) :
    iterT ρ (.tile (r + 1) p) = iterT ρ p := by
  rw [iterT]
  exact tileT_err _ e h r

/-- `ds.tile(r)[i]` touches position `i % n` of the input only -/
theorem C08_tile_getitem (ρ : Env) (r : Nat) (p : TPipe) (n i : Nat) (h : lenT p = some n) (hi : i < r * n) :
    getT ρ (.tile r p) i = getT ρ p (i % n) := by
  rw [getT, h]
  simp [hi]

theorem C08_tile_getitem_out (ρ : Env) (r : Nat) (p : TPipe) (n i : Nat) (h : lenT p = some n) (hi : r * n ≤ i) :
    getT ρ (.tile r p) i = ([], .error .indexError) := by
  rw [getT, h]
  simp [Nat.not_lt.2 hi]

example : iterT menuEnv (.tile 2 (.filter 3 (.keepMod 2 0) (.src [.int 1, .int 2, .int 3])))
    = ⟨[([⟨3, .int 1⟩, ⟨3, .int 2⟩], .int 2), ([⟨3, .int 3⟩, ⟨3, .int 1⟩, ⟨3, .int 2⟩], .int 2)], [⟨3, .int 3⟩], none⟩ := rfl

example : getT menuEnv (.tile 2 (.map 1 (.add 1) (.src [.int 1, .int 2, .int 3]))) 4
    = ([⟨1, .int 2⟩], .ok (.int 3)) := by simp [getT, lenT, menuEnv, menuFn]

/-! ### 9.5 `intersperse` -/

theorem C08_intersperse_len (p q : TPipe) (n₁ n₂ : Nat) (hp : lenT p = some n₁) (hq : lenT q = some n₂) :
    lenT (.intersperse p q) = some (n₁ + n₂) ∧ (intersperseOrder [n₁, n₂]).length = n₁ + n₂ := by
  constructor
  · simp [lenT, hp, hq]
  · simp [order_length]

/-- `ds[i]` of an interspersed dataset is `parts[d][j]` for the `i`-th entry `(d, j)` of the order table: it touches
    that one position of that one part -/
theorem C08_intersperse_getitem (ρ : Env) (p q : TPipe) (n₁ n₂ : Nat) (hp : lenT p = some n₁) (hq : lenT q = some n₂)
    (i : Nat) :
    getT ρ (.intersperse p q) i =
      match (intersperseOrder [n₁, n₂])[i]? with
      | some o => if o.d == 0 then getT ρ p o.j else getT ρ q o.j
      | none => ([], .error .indexError) := by
  rw [getT, hp, hq]
  rfl

/-- iterating: when the traced streams of the parts have exactly `n₁` resp. `n₂` chunks, the interspersed stream
    consists of chunk `j` of part `d` for each entry `(d, j)` of the order table, in table order — `n₁ + n₂` chunks;
    it ends normally and its tail is empty, so `fullLog` is the concatenation of those chunk logs: the calls after
    the last `yield` of the parts (their tails) are never executed -/
theorem C08_intersperse_values (ρ : Env) (p q : TPipe) (n₁ n₂ : Nat) (hp : lenT p = some n₁) (hq : lenT q = some n₂)
    (ha : (iterT ρ p).chunks.length = n₁) (hb : (iterT ρ q).chunks.length = n₂) :
    (iterT ρ (.intersperse p q)).chunks =
      (intersperseOrder [n₁, n₂]).filterMap
        (fun (o : OrdEntry) => if o.d == 0 then (iterT ρ p).chunks[o.j]? else (iterT ρ q).chunks[o.j]?) ∧
    (iterT ρ (.intersperse p q)).chunks.length = n₁ + n₂ ∧
    (∀ (i : Nat) (o : OrdEntry), (intersperseOrder [n₁, n₂])[i]? = some o →
      (iterT ρ (.intersperse p q)).chunks[i]? =
        if o.d == 0 then (iterT ρ p).chunks[o.j]? else (iterT ρ q).chunks[o.j]?) ∧
    (iterT ρ (.intersperse p q)).tail = [] ∧
    (iterT ρ (.intersperse p q)).err = none ∧
    (iterT ρ (.intersperse p q)).fullLog = ((iterT ρ (.intersperse p q)).chunks.map (·.1)).flatten := by
  have ht : iterT ρ (.intersperse p q) =
      interT (intersperseOrder [n₁, n₂]) (iterT ρ p).chunks (iterT ρ p).tail (iterT ρ p).err
        (iterT ρ q).chunks (iterT ρ q).tail (iterT ρ q).err := by
    rw [iterT, hp, hq]
  obtain ⟨h1, h2, h3⟩ := inter_order (iterT ρ p).chunks (iterT ρ q).chunks (iterT ρ p).tail (iterT ρ q).tail
    (iterT ρ p).err (iterT ρ q).err
  rw [ha, hb, ← ht] at h1 h2 h3
  have hlen : (iterT ρ (.intersperse p q)).chunks.length = n₁ + n₂ := by
    have := congrArg List.length h1
    simpa [order_length] using this
  refine ⟨?_, hlen, ?_, h2, h3, ?_⟩
  · have := congrArg (List.filterMap id) h1
    simpa [List.filterMap_map, Function.comp_def] using this
  · intro i o hio
    have := congrArg (fun l => l[i]?) h1
    simp only [List.getElem?_map, hio, Option.map_some] at this
    cases hc : (iterT ρ (.intersperse p q)).chunks[i]? with
    | none => rw [hc] at this; simp at this
    | some c => rw [hc] at this; simpa using this
  · simp [TStream.fullLog, h2]

/-- the order table of a 1-element and a 2-element part: fractions 1/2 (part 1), 1/1 (part 0), 2/2 (part 1) -/
theorem intersperseOrder_1_2 : intersperseOrder [1, 2] = [⟨1, 2, 1, 0⟩, ⟨1, 1, 0, 0⟩, ⟨2, 2, 1, 1⟩] := by
  simp [intersperseOrder, orderEntries, List.mergeSort, List.MergeSort.Internal.splitInTwo, List.zipIdx, List.range,
    List.range.loop, OrdEntry.le]

example : iterT menuEnv (.intersperse (.map 1 (.add 10) (.src [.int 1])) (.map 2 (.add 20) (.src [.int 1, .int 2])))
    = ⟨[([⟨2, .int 1⟩], .int 21), ([⟨1, .int 1⟩], .int 11), ([⟨2, .int 2⟩], .int 22)], [], none⟩ := by
  simp [iterT, lenT, intersperseOrder_1_2, interT, mapT, menuEnv, menuFn]

/-- `ds[1]` is position 0 of the first part -/
example : getT menuEnv (.intersperse (.map 1 (.add 10) (.src [.int 1])) (.map 2 (.add 20) (.src [.int 1, .int 2]))) 1
    = ([⟨1, .int 1⟩], .ok (.int 11)) := by
  simp [getT, lenT, intersperseOrder_1_2, menuEnv, menuFn]

/-- a part that runs out early (its stream has fewer chunks than its `len`: the function raised) ends the
    interspersed stream with that error; the calls made by then are in the tail -/
example : iterT menuEnv (.intersperse (.map 1 (.add 10) (.src [.int 1]))
      (.map 2 (.raiseIfMod 2 0 .userA) (.src [.int 1, .int 2])))
    = ⟨[([⟨2, .int 1⟩], .int 1), ([⟨1, .int 1⟩], .int 11)], [⟨2, .int 2⟩], some .userA⟩ := by
  simp [iterT, lenT, intersperseOrder_1_2, interT, mapT, menuEnv, menuFn]

example : stages (.tile 2 (.cache (.catch [.userA] (.reshuffle [0] (.intersperse (.src [.int 1]) (.src [.int 2])))))) = [] := rfl

end LazyDs

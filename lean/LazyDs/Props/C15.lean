/-
  C15: `split(k)` / `shard(k, i)` partition the dataset.

  `sectionIdx n k i` is the `i`-th section of `np.array_split(np.arange(n), k)`; `mkSplit`
  slices the dataset by these sections.  All statements are about the definitions in
  `LazyDs/Model/Stage.lean` as written; helper lemmas are in `LazyDs/Lemmas/ShardSort.lean`.
-/
import LazyDs.Lemmas.ShardSort

namespace LazyDs
open LazyDs.ShardSort

/-! ### the index arithmetic of `np.array_split` -/

/-- The first section starts at `0`. -/
theorem C15_start_zero (n k : Nat) : sectionStart n k 0 = 0 :=
  sectionStart_zero n k

example : sectionStart 10 3 0 = 0 := by decide

/-- The end of the last section is `n`. -/
theorem C15_start_last (n k : Nat) (hk : 1 ≤ k) : sectionStart n k k = n :=
  sectionStart_last n k hk

example : sectionStart 10 3 3 = 10 := by decide

/-- Section boundaries are monotone in the section number. -/
theorem C15_start_mono (n k i j : Nat) (h : i ≤ j) : sectionStart n k i ≤ sectionStart n k j :=
  sectionStart_mono n k h

example : (List.range 5).map (sectionStart 10 4) = [0, 3, 6, 8, 10] := by decide

/-- The `i`-th of `k` shards of `n` examples has `n / k` examples, plus one if `i < n % k`. -/
theorem C15_section_length (n k i : Nat) (_hk : 1 ≤ k) (_hi : i < k) :
    (sectionIdx n k i).length = n / k + (if i < n % k then 1 else 0) :=
  sectionIdx_length n k i

example : (List.range 4).map (fun i => (sectionIdx 10 4 i).length) = [3, 3, 2, 2] := by decide

/-- Shard sizes differ by at most one. -/
theorem C15_sizes_differ_by_one (n k i j : Nat) (_hk : 1 ≤ k) (_hi : i < k) (_hj : j < k) :
    (sectionIdx n k i).length ≤ (sectionIdx n k j).length + 1 := by
  rw [sectionIdx_length, sectionIdx_length]
  split <;> split <;> omega

example : (sectionIdx 10 4 0).length ≤ (sectionIdx 10 4 3).length + 1 := by decide

/-- Each shard is a contiguous increasing run of indices starting at `sectionStart n k i`. -/
theorem C15_section_eq_range (n k i : Nat) :
    sectionIdx n k i = List.range' (sectionStart n k i) (sectionIdx n k i).length := by
  rw [sectionIdx_eq_range' n k i, List.length_range']

example : sectionIdx 10 4 2 = List.range' 6 2 := by decide

/-- Concatenating the shards in shard order reproduces `0, …, n-1`: the shards are pairwise
    disjoint, cover every example exactly once and keep the order. -/
theorem C15_sections_concat (n k : Nat) (hk : 1 ≤ k) :
    ((List.range k).map (sectionIdx n k)).flatten = List.range n :=
  sections_concat n k hk

example : (List.range 3).map (sectionIdx 10 3) = [[0, 1, 2, 3], [4, 5, 6], [7, 8, 9]] := by decide
example : ((List.range 3).map (sectionIdx 10 3)).flatten = List.range 10 := by decide

/-- Every index of an earlier shard is smaller than every index of a later shard. -/
theorem C15_sections_disjoint (n k i j : Nat) (_hk : 1 ≤ k) (hij : i < j) (_hj : j < k) :
    ∀ x ∈ sectionIdx n k i, ∀ y ∈ sectionIdx n k j, x < y := by
  intro x hx y hy
  have h1 := (mem_sectionIdx.mp hx).2
  have h2 := (mem_sectionIdx.mp hy).1
  have h3 : sectionStart n k (i + 1) ≤ sectionStart n k j := sectionStart_mono n k hij
  omega

example : ∀ x ∈ sectionIdx 10 3 0, ∀ y ∈ sectionIdx 10 3 2, x < y := by decide

/-- With at most as many shards as examples no shard is empty. -/
theorem C15_nonempty_when_k_le_n (n k i : Nat) (hk : 1 ≤ k) (hkn : k ≤ n) (_hi : i < k) :
    sectionIdx n k i ≠ [] := by
  intro h
  have hl := sectionIdx_length n k i
  rw [h] at hl
  have hq : 0 < n / k := Nat.div_pos hkn hk
  simp only [List.length_nil] at hl
  omega

example : ∀ i, i < 4 → sectionIdx 4 4 i ≠ [] := by decide

/-! ### `Dataset.split` / `Dataset.shard` -/

/-- `split(k)` raises `ValueError` for `k < 1` and for `k > len(ds)`. -/
theorem C15_reject (d : DS) (n : Nat) (k : Int) (hn : d.len = .ok n)
    (hk : k < 1 ∨ k > (n : Int)) : mkSplit k d = .error .valueError := by
  unfold mkSplit
  by_cases h1 : k < 1
  · simp [h1, bind, Except.bind, throw, throwThe, MonadExceptOf.throw]
  · have h2 : k > (n : Int) := by omega
    simp [h1, h2, hn, bind, Except.bind, throw, throwThe, MonadExceptOf.throw]

example : (mkSplit 0 (listSrc [.int 0, .int 1])).map (·.length) = .error .valueError
    ∧ (mkSplit 3 (listSrc [.int 0, .int 1])).map (·.length) = .error .valueError
    ∧ (mkSplit 2 (listSrc [.int 0, .int 1])).map (·.length) = .ok 2 := by
  refine ⟨?_, ?_, ?_⟩ <;> rfl

/-- `split(k)` returns exactly `k` parts whenever it returns. -/
theorem C15_split_count (d : DS) (k : Int) (parts : List DS) (h : mkSplit k d = .ok parts) :
    parts.length = k.toNat := by
  unfold mkSplit at h
  by_cases h1 : k < 1
  · simp [h1, bind, Except.bind, throw, throwThe, MonadExceptOf.throw] at h
  · cases hn : d.len with
    | error e => simp [h1, hn, bind, Except.bind] at h
    | ok n =>
      by_cases h2 : k > (n : Int)
      · simp [h1, h2, hn, bind, Except.bind, throw, throwThe, MonadExceptOf.throw] at h
      · simp only [h1, h2, hn, bind, Except.bind, if_false] at h
        have := mapM_ok_length _ _ _ h
        simpa using this

example : (mkSplit 3 (listSrc [.int 0, .int 1, .int 2, .int 3, .int 4, .int 5, .int 6])).map
    (·.length) = .ok 3 := by rfl

/-- On an indexable dataset with `1 ≤ k ≤ len(ds)`, `split(k)` succeeds and the `i`-th part is
    literally the `SliceDataset` selecting the `i`-th section of `np.array_split`. -/
theorem C15_split_parts (d : DS) (n : Nat) (k : Int)
    (hix : d.indexable = true) (hg : d.sliceGuard = .ok ()) (hn : d.len = .ok n)
    (hk1 : 1 ≤ k) (hkn : k ≤ (n : Int)) :
    mkSplit k d
      = .ok ((List.range k.toNat).map (fun i => sliceDS (sectionIdx n k.toNat i) d)) := by
  unfold mkSplit
  have h1 : ¬ k < 1 := by omega
  have h2 : ¬ k > (n : Int) := by omega
  simp only [h1, h2, hn, bind, Except.bind, if_false]
  apply mapM_ok
  intro i hi
  have hi' : i < k.toNat := List.mem_range.mp hi
  have hk' : 1 ≤ k.toNat := by omega
  apply mkSlice_idx_ok d n _ hix hg hn
  intro x hx
  have h3 := (mem_sectionIdx.mp hx).2
  have h4 := sectionStart_le n k.toNat (i + 1) hk' hi'
  omega

example : (mkSplit 3 (listSrc [.int 0, .int 1, .int 2, .int 3, .int 4, .int 5, .int 6])).map
    (·.map (·.len)) = .ok [.ok 3, .ok 2, .ok 2] := by rfl

/-- `shard(k, i)` is `split(k)[i]`. -/
theorem C15_shard_eq_split (d : DS) (k i : Int) :
    mkShard k i d = (mkSplit k d >>= fun parts => pyIndex parts i) := rfl

example : (mkShard 3 (-1) (listSrc [.int 0, .int 1, .int 2, .int 3, .int 4, .int 5, .int 6])).map
    (·.len) = .ok (.ok 2) := by rfl

/-! ### each example in exactly one shard -/

/-- Every example belongs to exactly one shard: for every position `x < n` there is one and only
    one shard number `i < k` whose section contains `x`. -/
theorem C15_unique_shard (n k x : Nat) (hk : 1 ≤ k) (hx : x < n) :
    ∃ i, (i < k ∧ x ∈ sectionIdx n k i) ∧ ∀ j, (j < k ∧ x ∈ sectionIdx n k j) → j = i := by
  have hmem : x ∈ ((List.range k).map (sectionIdx n k)).flatten := by
    rw [C15_sections_concat n k hk]; exact List.mem_range.mpr hx
  obtain ⟨s, hs, hxs⟩ := List.mem_flatten.mp hmem
  obtain ⟨i, hi, rfl⟩ := List.mem_map.mp hs
  have hik : i < k := List.mem_range.mp hi
  refine ⟨i, ⟨hik, hxs⟩, ?_⟩
  rintro j ⟨hjk, hxj⟩
  rcases Nat.lt_trichotomy i j with h | h | h
  · exact absurd (C15_sections_disjoint n k i j hk h hjk x hxs x hxj) (Nat.lt_irrefl x)
  · exact h.symm
  · exact absurd (C15_sections_disjoint n k j i hk h hik x hxj x hxs) (Nat.lt_irrefl x)

/-- No shard contains a position outside the dataset, and no position twice. -/
theorem C15_section_in_range_nodup (n k i : Nat) (hk : 1 ≤ k) (hi : i < k) :
    (∀ x ∈ sectionIdx n k i, x < n) ∧ (sectionIdx n k i).Nodup := by
  constructor
  · intro x hx
    have h2 := (mem_sectionIdx.mp hx).2
    have h3 : sectionStart n k (i + 1) ≤ sectionStart n k k := sectionStart_mono n k hi
    rw [sectionStart_last n k hk] at h3
    omega
  · rw [C15_section_eq_range]; exact List.nodup_range' 

example : ∃ i, (i < 3 ∧ 5 ∈ sectionIdx 10 3 i) := ⟨1, by decide⟩

end LazyDs

/-
  C07, configuration side: the bounds of `StpTheorems` / `LpmTheorems` are stated for `1 ≤ b`
  (and the pool of `lazy_parallel_map` for a buffer of at least one slot per worker).  The stage
  constructor refuses every other configuration, so the hypothesis is met by every prefetch stage
  that exists; a configuration with `buffer_size = 0` would be `queue.Queue(0)`, an unbounded queue.
-/
import LazyDs.Model.Stage

namespace LazyDs

/-- A prefetch stage that was built has at least one worker and at least one buffer slot per worker. -/
theorem C07_prefetch_built_config {w b : Nat} {t : Bool} {c : Option (List Err)} {d ds : DS}
    (h : mkPrefetch w b t c d = .ok ds) : 1 ≤ w ∧ w ≤ b ∧ 1 ≤ b := by
  unfold mkPrefetch at h
  by_cases hw : w < 1
  · exfalso
    simp only [bind, Except.bind, throw, throwThe, MonadExceptOf.throw] at h
    cases hl : d.len <;> simp_all <;> split at h <;> simp_all
  · by_cases hb : b < w
    · exfalso
      simp only [bind, Except.bind, throw, throwThe, MonadExceptOf.throw] at h
      cases hl : d.len <;> simp_all <;> split at h <;> simp_all
    · omega

/-- ... and conversely the constructor refuses a buffer below the worker count (in particular 0). -/
theorem C07_prefetch_refuses_small_buffer {w b : Nat} {t : Bool} {c : Option (List Err)} {d : DS}
    (hb : b < w ∨ w < 1) : ∃ e, mkPrefetch w b t c d = .error e := by
  cases h : mkPrefetch w b t c d with
  | error e => exact ⟨e, rfl⟩
  | ok ds => have := C07_prefetch_built_config h; omega

/-- the premise is satisfiable: `prefetch(2, 3)` of a three-element list is built -/
example : ∃ ds, mkPrefetch 2 3 true none (listSrc [.int 1, .int 2, .int 3]) = .ok ds := ⟨_, rfl⟩

/-- `prefetch(1, 0)` is refused -/
example : mkPrefetch 1 0 true none (listSrc [.int 1]) = .error .assertionError := rfl

end LazyDs

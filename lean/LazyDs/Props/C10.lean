/-
  C10: `CacheDataset` (in-memory cache), final theorems about the model `LazyDs.Cache`.

  Vocabulary (definitions in `LazyDs.Lemmas.CacheInv`):
  * `Cache.Reach up n s`  : `∃ ops, (Cache.run up (Cache.init n) ops).1 = s`;
  * `Cache.normIdx n i`   : Python's index normalisation, `some i` for `0 ≤ i < n`, `some (i + n)`
                            for `-n ≤ i < 0`, `none` (IndexError) otherwise (`C10_normIdx_spec`);
  * `Cache.keys store`    : the first components of the store.
  Every theorem is followed by an `example` on the concrete history `Cache.Ex.hist` (9 accesses on
  a dataset of length 3: a copy, negative indices, a memory shortage that latches the copy, an
  out-of-range index, an unknown instance), with `V := Nat` and the upstream pipeline
  `upEx j c = 100 * j + c` whose result DEPENDS on how often it was evaluated (so "frozen",
  "first value" and "at most once" are visible in the numbers); `sEx` is the state after `hist`.
-/
import LazyDs.Lemmas.CacheInv

namespace LazyDs

open Cache (St Op Out step run init lookup normIdx keys Reach)

/-! ## The concrete history used by the examples -/

open Cache.Ex

example : (run upEx (init 3) hist).2 =
    [.val 100, .val 100, .newInst 1, .val 200, .val 201, .val 202, .val 202,
     .indexError, .badInst] := by decide
example : sEx.store = [(1, 100), (2, 202)] := by decide
example : sEx.latch = [true, false] := by decide
example : sEx.calls = [0, 1, 3] := by decide

/-! ## The theorems -/

/-- Meaning of the normalised index: `normIdx n i = some j` iff `j` is `i` (for `0 ≤ i < n`) or
    `i + n` (for `-n ≤ i < 0`); it is `none` iff `i` is out of range. -/
theorem C10_normIdx_spec (n : Nat) (i : Int) :
    (∀ j : Nat, normIdx n i = some j ↔
        (0 ≤ i ∧ i < n ∧ (j : Int) = i) ∨ (i < 0 ∧ -(n : Int) ≤ i ∧ (j : Int) = i + n)) ∧
    (normIdx n i = none ↔ (i < -(n : Int) ∨ (n : Int) ≤ i)) :=
  ⟨fun _ => Cache.normIdx_some_iff, Cache.normIdx_none_iff⟩

example : normIdx 3 (-1) = some 2 ∧ normIdx 3 2 = some 2 ∧ normIdx 3 3 = none ∧
    normIdx 3 (-4) = none := by decide

/-- In every reachable state the store is a function: at most one entry per example index
    (the keys have no duplicate), every stored index is an example index, and there is one call
    counter per example. -/
theorem C10_store_functional {V : Type} (up : Nat → Nat → V) (n : Nat) (s : St V)
    (h : Reach up n s) :
    (keys s.store).Nodup ∧ (∀ j v, (j, v) ∈ s.store → j < n) ∧ s.calls.length = n ∧ s.n = n := by
  have hi := h.inv
  have hn := h.n_eq
  exact ⟨hi.nodup, fun j v hm => hn ▸ hi.key_lt j v hm, hn ▸ hi.calls_len, hn⟩

/-- consequence: in a reachable state, `lookup` finds exactly the members of the store -/
theorem C10_lookup_iff_mem {V : Type} (up : Nat → Nat → V) (n : Nat) (s : St V)
    (h : Reach up n s) (j : Nat) (v : V) : lookup s.store j = some v ↔ (j, v) ∈ s.store :=
  ⟨Cache.mem_of_lookup, Cache.lookup_of_mem_nodup h.inv.nodup⟩

example : (keys sEx.store).Nodup ∧ (∀ p ∈ sEx.store, p.1 < 3) ∧ sEx.calls.length = 3 := by decide

/-- A cached example never changes: no step removes or overwrites an entry. -/
theorem C10_entries_frozen {V : Type} (up : Nat → Nat → V) (s s' : St V) (op : Op) (o : Out V)
    (j : Nat) (v : V) :
    step up s op = (s', o) → lookup s.store j = some v → lookup s'.store j = some v := by
  intro hs hl
  have := Cache.store_step_frozen up s op hl
  rwa [hs] at this

/-- ... and therefore no history does. -/
theorem C10_entries_frozen_run {V : Type} (up : Nat → Nat → V) (s s' : St V) (ops : List Op)
    (os : List (Out V)) (j : Nat) (v : V) :
    run up s ops = (s', os) → lookup s.store j = some v → lookup s'.store j = some v := by
  intro hs hl
  have := Cache.store_run_frozen up s ops hl
  rwa [hs] at this

-- example 1 is cached as 100 after the first access and still is after the whole history
example : lookup (run upEx (init 3) (hist.take 1)).1.store 1 = some 100 ∧
    lookup (run upEx (run upEx (init 3) (hist.take 1)).1 (hist.drop 1)).1.store 1 = some 100 := by
  decide

/-- A copy shares the store: `copy` leaves it unchanged (and the store is one field of the
    state, read by every instance). -/
theorem C10_copy_shares {V : Type} (up : Nat → Nat → V) (s : St V) (inst : Nat) :
    (step up s (.copy inst)).1.store = s.store ∧ (step up s (.copy inst)).1.calls = s.calls := by
  by_cases h : inst < s.latch.length
  · rw [Cache.step_copy_ok up h]; exact ⟨rfl, rfl⟩
  · rw [Cache.step_copy_bad up (by omega)]; exact ⟨rfl, rfl⟩

-- the copy made in step 3 reads the entry that instance 0 wrote in step 6
example : (step upEx (run upEx (init 3) (hist.take 6)).1 (.get 1 (-1) true)).2 = .val 202 := by
  decide

/-- Every value a `get` returns in a reachable state is one the upstream pipeline really
    produced for that example: it is `up j c` for the normalised index `j` and an evaluation
    number `c` below the number of evaluations made so far. -/
theorem C10_value_is_produced {V : Type} (up : Nat → Nat → V) (n : Nat) (s s' : St V)
    (inst : Nat) (i : Int) (mem : Bool) (v : V) (hr : Reach up n s)
    (hs : step up s (.get inst i mem) = (s', .val v)) :
    ∃ j c, normIdx n i = some j ∧ c < s'.calls.getD j 0 ∧ v = up j c := by
  have hi := hr.inv
  have hn := hr.n_eq
  rcases Cache.step_get_cases up s inst i mem with
    ⟨_, e⟩ | ⟨_, _, e⟩ | ⟨j, v', _, hj, hl, e⟩ | ⟨j, _, hj, hl, e⟩ <;> rw [e] at hs
  · cases hs
  · cases hs
  · simp only [Prod.mk.injEq, Out.val.injEq] at hs
    obtain ⟨rfl, rfl⟩ := hs
    obtain ⟨c, hc, hv⟩ := hi.produced j v' (Cache.mem_of_lookup hl)
    exact ⟨j, c, hn ▸ hj, hc, hv⟩
  · simp only [Prod.mk.injEq, Out.val.injEq] at hs
    obtain ⟨rfl, rfl⟩ := hs
    have hjl : j < s.calls.length := by rw [hi.calls_len]; exact Cache.normIdx_lt hj
    refine ⟨j, s.calls.getD j 0, hn ▸ hj, ?_, rfl⟩
    show s.calls.getD j 0 < (s.calls.set j (s.calls.getD j 0 + 1)).getD j 0
    rw [Cache.getD_set_self _ hjl]; omega

-- the fifth access returns 201 = upEx 2 1, the second of (then) two evaluations of example 2
example : step upEx (run upEx (init 3) (hist.take 4)).1 (.get 1 2 true) =
      ((run upEx (init 3) (hist.take 5)).1, .val 201) ∧
    (run upEx (init 3) (hist.take 5)).1.calls.getD 2 0 = 2 ∧ 201 = upEx 2 1 := by decide

/-- Transparency and at-most-once evaluation: if memory never runs short in a history (every
    `get` has `mem = true`), then every value returned, through whichever instance and with
    whichever sign of the index, is the FIRST value `up j 0` of the upstream pipeline for the
    normalised index `j`, and the upstream pipeline was evaluated at most once per example. -/
theorem C10_transparent_once {V : Type} (up : Nat → Nat → V) (n : Nat) (ops : List Op)
    (hm : ∀ inst i mem, Op.get inst i mem ∈ ops → mem = true) :
    (∀ (k inst : Nat) (i : Int) (mem : Bool) (v : V),
        ops[k]? = some (Op.get inst i mem) →
        (run up (init n) ops).2[k]? = some (Out.val v) →
        ∃ j, normIdx n i = some j ∧ v = up j 0) ∧
    (∀ j, (run up (init n) ops).1.calls.getD j 0 ≤ 1) := by
  obtain ⟨ht, hv⟩ := Cache.tinv_run (Cache.inv_init up n) (Cache.tinv_init up n) ops hm
  exact ⟨hv, ht.calls_le⟩

example : (run upEx (init 3) histMem).2 =
      [.val 100, .val 100, .newInst 1, .val 200, .val 200, .val 200, .val 0, .val 0] ∧
    (run upEx (init 3) histMem).1.calls = [1, 1, 1] := by decide

/-- The hypothesis of `C10_transparent_once` is needed: in `hist` memory runs short once, and
    example 2 is evaluated three times with three different results. -/
theorem C10_transparent_once_needs_memory :
    (run upEx (init 3) hist).1.calls.getD 2 0 = 3 ∧
    (run upEx (init 3) hist).2[4]? = some (.val 201) ∧ upEx 2 0 = 200 := by decide

/-- Both signs of an index address the same entry: `ds[i - n]` behaves exactly like `ds[i]`
    (same new state, same output), for `0 ≤ i < n`. -/
theorem C10_negative_index {V : Type} (up : Nat → Nat → V) (n : Nat) (s : St V) (inst : Nat)
    (i : Int) (mem : Bool) (hn : s.n = n) (h0 : 0 ≤ i) (h1 : i < n) :
    step up s (.get inst (i - n) mem) = step up s (.get inst i mem) := by
  rw [Cache.step_get_eq, Cache.step_get_eq, hn, Cache.normIdx_neg h0 h1, Cache.normIdx_nonneg h0 h1]

example : step upEx sEx (.get 0 (1 - 3) true) = step upEx sEx (.get 0 1 true) ∧
    (step upEx sEx (.get 0 (-2) true)).2 = .val 100 := by decide

/-- An index outside `[-n, n)` raises `IndexError` and changes nothing. -/
theorem C10_index_error {V : Type} (up : Nat → Nat → V) (s : St V) (inst : Nat) (i : Int)
    (mem : Bool) (hi : i < -(s.n : Int) ∨ (s.n : Int) ≤ i) (hinst : inst < s.latch.length) :
    step up s (.get inst i mem) = (s, .indexError) :=
  Cache.step_get_out up mem hinst (Cache.normIdx_out hi)

example : step upEx sEx (.get 1 3 true) = (sEx, .indexError) ∧
    step upEx sEx (.get 0 (-4) false) = (sEx, .indexError) := by decide

/-- A latched instance never adds an entry, whatever the memory oracle says. -/
theorem C10_after_latch {V : Type} (up : Nat → Nat → V) (s : St V) (inst : Nat) (i : Int)
    (mem : Bool) (hl : s.latch[inst]? = some false) :
    (step up s (.get inst i mem)).1.store = s.store := by
  rcases Cache.step_get_cases up s inst i mem with
    ⟨_, e⟩ | ⟨_, _, e⟩ | ⟨_, _, _, _, _, e⟩ | ⟨j, _, _, _, e⟩ <;> rw [e]
  show (if (Cache.check s inst mem).1 = true then _ else s.store) = s.store
  split
  · rename_i hc
    have := (Cache.check_fst_true hc).2.1
    rw [hl] at this; cases this
  · rfl

-- instance 1 is latched after the fourth access; its fifth access (memory fine) stores nothing
example : (run upEx (init 3) (hist.take 4)).1.latch[1]? = some false ∧
    (step upEx (run upEx (init 3) (hist.take 4)).1 (.get 1 2 true)).1.store =
      (run upEx (init 3) (hist.take 4)).1.store := by decide

/-- The latch is permanent: a latched instance stays latched along every step ... -/
theorem C10_latch_monotone {V : Type} (up : Nat → Nat → V) (s s' : St V) (op : Op) (o : Out V)
    (k : Nat) : step up s op = (s', o) → s.latch[k]? = some false → s'.latch[k]? = some false := by
  intro hs hk
  have := Cache.latch_step_false up s op hk
  rwa [hs] at this

/-- ... and along every history. -/
theorem C10_latch_monotone_run {V : Type} (up : Nat → Nat → V) (s : St V) (ops : List Op)
    (k : Nat) (hk : s.latch[k]? = some false) : (run up s ops).1.latch[k]? = some false :=
  Cache.run_induction (fun t => t.latch[k]? = some false)
    (fun t op h => Cache.latch_step_false up t op h) hk ops

example : (run upEx (init 3) (hist.take 4)).1.latch[1]? = some false ∧
    sEx.latch[1]? = some false := by decide

/-- When memory is short nothing is stored. -/
theorem C10_memory_false_stores_nothing {V : Type} (up : Nat → Nat → V) (s : St V) (inst : Nat)
    (i : Int) : (step up s (.get inst i false)).1.store = s.store := by
  rcases Cache.step_get_cases up s inst i false with
    ⟨_, e⟩ | ⟨_, _, e⟩ | ⟨_, _, _, _, _, e⟩ | ⟨j, _, _, _, e⟩ <;> rw [e]
  show (if (Cache.check s inst false).1 = true then _ else s.store) = s.store
  split
  · rename_i hc
    have := (Cache.check_fst_true hc).1
    cases this
  · rfl

-- the fourth access (memory short) evaluates example 2 but stores nothing
example : (step upEx (run upEx (init 3) (hist.take 3)).1 (.get 1 (-1) false)).1.store =
      (run upEx (init 3) (hist.take 3)).1.store ∧
    (step upEx (run upEx (init 3) (hist.take 3)).1 (.get 1 (-1) false)).2 = .val 200 := by decide

/-- A hit returns the frozen value and changes nothing; in particular the upstream pipeline is
    not evaluated (`calls` is part of the unchanged state).  `inst` has to be an existing
    instance (otherwise the model answers `badInst`). -/
theorem C10_hit_no_call {V : Type} (up : Nat → Nat → V) (s : St V) (inst : Nat) (i : Int)
    (mem : Bool) (j : Nat) (v : V) (hinst : inst < s.latch.length)
    (hj : normIdx s.n i = some j) (hl : lookup s.store j = some v) :
    step up s (.get inst i mem) = (s, .val v) :=
  Cache.step_get_hit up mem hinst hj hl

example : step upEx sEx (.get 1 (-1) true) = (sEx, .val 202) ∧
    step upEx sEx (.get 0 1 false) = (sEx, .val 100) := by decide

end LazyDs

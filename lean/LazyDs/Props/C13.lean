import LazyDs.Model.CopyCfg
import LazyDs.Props.C12
/-
  C13 — explicit seeds reproduce orders; frozen copies stay frozen; copies are faithful.
-/
namespace LazyDs
open CopyCfg

theorem copyParams_id (cls : String) (params : List (String × Param))
    (h : ∀ kv ∈ params, (forwarded cls).contains kv.1 = true) : copyParams cls params = params := by
  unfold copyParams
  induction params with
  | nil => rfl
  | cons kv rest ih =>
    simp only [List.map_cons]
    rw [ih (fun kv' hkv' => h kv' (List.mem_cons_of_mem _ hkv')), if_pos (h kv (List.mem_cons_self ..))]

mutual
/-- `copy()` preserves every configuration parameter of every stage of the pipeline. -/
theorem C13_copy_preserves_cfg : (c : Cfg) → Known c → copyCfg c = c
  | .node cls params inputs, h => by
    simp only [copyCfg]
    rw [copyParams_id cls params h.1, C13_copyList_preserves inputs h.2]
theorem C13_copyList_preserves : (cs : List Cfg) → KnownList cs → copyList cs = cs
  | [], _ => rfl
  | c :: cs, h => by
    simp only [copyList]
    rw [C13_copy_preserves_cfg c h.1, C13_copyList_preserves cs h.2]
end

/-- Sensitivity / the repaired defect F5: a `copy()` that does not forward `rng` replaces an explicit
    generator by the global one. -/
theorem C13_dropped_parameter_counterexample :
    (copyParams "ReShuffleDataset" [("rng", .rng (some 7))]).map
      (fun kv => if kv.1 == "rng" then (kv.1, defaultOf "ReShuffleDataset" "rng") else kv)
      = [("rng", .rng none)] := by decide

example : copyCfg (.node "BatchDataset" [("batch_size", .nat 3), ("drop_last", .bool true)]
      [.node "ReShuffleDataset" [("rng", .rng (some 7))] [.node "DictDataset" [("name", .str "x")] []]])
    = .node "BatchDataset" [("batch_size", .nat 3), ("drop_last", .bool true)]
      [.node "ReShuffleDataset" [("rng", .rng (some 7))] [.node "DictDataset" [("name", .str "x")] []]] := by
  simp [copyCfg, copyList, copyParams, forwarded]

/-! ### determinism -/

theorem getState_setState_other (s : Store) (h h' : Holder) (v : Nat) (hne : h ≠ h') :
    getState (setState s h v) h' = getState s h' := by
  cases h with
  | global_ =>
    cases h' with
    | global_ => exact absurd rfl hne
    | explicit id' => simp [getState, setState]
  | explicit id =>
    cases h' with
    | global_ =>
      simp only [getState, setState]
      split <;> rfl
    | explicit id' =>
      have hid : id ≠ id' := fun e => hne (by rw [e])
      simp only [getState, setState]
      split
      · congr 1
        induction s.explicit with
        | nil => rfl
        | cons kv rest ih =>
          simp only [List.map_cons, List.find?_cons]
          by_cases hk : kv.1 == id
          · have : kv.1 = id := by simpa using hk
            have hk' : (kv.1 == id') = false := by
              simp only [beq_eq_false_iff_ne, ne_eq, this]; exact hid
            simp only [hk, if_true]
            have : ((id, v).1 == id') = false := by simpa using hid
            simp only [this, hk']
            exact ih
          · simp only [hk, Bool.false_eq_true, if_false]
            by_cases hk2 : kv.1 == id'
            · simp [hk2]
            · simp only [hk2]; exact ih
      · simp only [List.find?_append]
        have : ([(id, v)] : List (Nat × Nat)).find? (fun x => x.1 == id') = none := by
          simp only [List.find?_cons, List.find?_nil]
          have : ((id, v).1 == id') = false := by simpa using hid
          simp [this]
        rw [this]
        simp

/-- The global state does not influence a pipeline none of whose stages holds the global generator:
    per epoch … -/
theorem C13_epoch_global_independent (g : GenSpec) (n : Nat) (stages : List Holder)
    (hno : ∀ h ∈ stages, h ≠ .global_) (s : Store) (z : Nat) :
    (epoch g n stages { s with global_ := z }).1 = (epoch g n stages s).1 ∧
    (epoch g n stages { s with global_ := z }).2.explicit = (epoch g n stages s).2.explicit := by
  induction stages generalizing s with
  | nil => exact ⟨rfl, rfl⟩
  | cons h hs ih =>
    have hh : h ≠ .global_ := hno h (List.mem_cons_self ..)
    cases h with
    | global_ => exact absurd rfl hh
    | explicit id =>
      have hset : ∀ v, setState { s with global_ := z } (.explicit id) v
          = { setState s (.explicit id) v with global_ := z } := by
        intro v; simp only [setState]; split <;> rfl
      have hget : getState { s with global_ := z } (.explicit id) = getState s (.explicit id) := rfl
      simp only [epoch, hget, hset]
      have := ih (fun h' hh' => hno h' (List.mem_cons_of_mem _ hh'))
        (setState s (.explicit id) (g.draw (getState s (.explicit id)) n).2)
      exact ⟨by rw [this.1], this.2⟩

/-- … and over any number of epochs, whatever the environment writes into the global state between
    epochs (`noise₁`, `noise₂`): two identically built pipelines with equally seeded generators
    produce identical orders in every epoch. -/
theorem C13_seed_determinism (g : GenSpec) (n : Nat) (stages : List Holder)
    (hno : ∀ h ∈ stages, h ≠ .global_) :
    ∀ (noise₁ noise₂ : List Nat) (s₁ s₂ : Store), noise₁.length = noise₂.length →
      s₁.explicit = s₂.explicit → epochs g n stages noise₁ s₁ = epochs g n stages noise₂ s₂
  | [], [], _, _, _, _ => rfl
  | [], _ :: _, _, _, h, _ => by simp at h
  | _ :: _, [], _, _, h, _ => by simp at h
  | z₁ :: zs₁, z₂ :: zs₂, s₁, s₂, hl, he => by
    simp only [epochs]
    have e1 := C13_epoch_global_independent g n stages hno s₁ z₁
    have e2 := C13_epoch_global_independent g n stages hno s₂ z₂
    have hs : ∀ (a b : Store), a.explicit = b.explicit →
        (epoch g n stages { a with global_ := 0 }) = (epoch g n stages { b with global_ := 0 }) := by
      intro a b hab
      have : ({ a with global_ := 0 } : Store) = { b with global_ := 0 } := by
        cases a; cases b; simp_all
      rw [this]
    have h0a := C13_epoch_global_independent g n stages hno { s₁ with global_ := 0 } z₁
    have h0b := C13_epoch_global_independent g n stages hno { s₂ with global_ := 0 } z₂
    have hq := hs s₁ s₂ he
    have ha : (epoch g n stages { s₁ with global_ := z₁ }).1 = (epoch g n stages { s₂ with global_ := z₂ }).1 := by
      have := h0a.1; have := h0b.1
      simp only at *
      rw [show ({ s₁ with global_ := z₁ } : Store) = { ({ s₁ with global_ := 0 } : Store) with global_ := z₁ } from rfl,
          show ({ s₂ with global_ := z₂ } : Store) = { ({ s₂ with global_ := 0 } : Store) with global_ := z₂ } from rfl,
          h0a.1, h0b.1, hq]
    have hb : (epoch g n stages { s₁ with global_ := z₁ }).2.explicit = (epoch g n stages { s₂ with global_ := z₂ }).2.explicit := by
      rw [show ({ s₁ with global_ := z₁ } : Store) = { ({ s₁ with global_ := 0 } : Store) with global_ := z₁ } from rfl,
          show ({ s₂ with global_ := z₂ } : Store) = { ({ s₂ with global_ := 0 } : Store) with global_ := z₂ } from rfl,
          h0a.2, h0b.2, hq]
    rw [ha]
    congr 1
    exact C13_seed_determinism g n stages hno zs₁ zs₂ _ _ (by simpa using hl) hb

/-- A one-time shuffle and a frozen copy of a per-epoch reshuffle iterate in one fixed order forever:
    the order is a VALUE chosen at construction (`C12_frozen_copy_snapshot`: a permutation, returned by
    value), so every later epoch reads the same list. -/
theorem C13_frozen_fixed (s : Shuffle.RState) (π : List Nat) (n : Nat) (hs : s.arr.Perm (List.range n))
    (hπ : π.Perm (List.range n)) (s' : Shuffle.RState) (a : List Nat)
    (h : Shuffle.rstep s (.freeze π) = (s', .frozen a)) : a.Perm (List.range n) :=
  (C12_frozen_copy_snapshot hs hπ h).1

end LazyDs

/-
  Final theorems about `single_thread_prefetch` (model: `LazyDs.Conc.Stp`), for every buffer
  size `b ≥ 1`, every source `src₀` with every `ending`, and every schedule of worker, consumer
  and environment (`Reachable` quantifies over all schedules; no fairness is assumed anywhere).

  C04  order / no loss / no duplication : `stp_delivered_prefix`, `stp_fifo_content`,
                                          `stp_complete`, `stp_closed_prefix`
  C06  error after the preceding items  : `stp_complete` (`raised = ending`)
  C05  clean termination                : `stp_no_deadlock`, `stp_yield_enabled`,
                                          `stp_worker_exited`, `stp_after_join`,
                                          `stp_terminates`, `stp_stops_after_close`
  C07  bounded read-ahead               : `stp_pulled_bound`, `stp_queue_bound`

  Every theorem is followed by an `example` exhibiting a concrete reachable state
  (`α = ε = Nat`) that satisfies its hypotheses.  Helper lemmas live in `LazyDs.Lemmas.StpInv`.
-/
import LazyDs.Lemmas.StpInv

namespace LazyDs.Stp

variable {α ε : Type} {b : Nat} {src₀ : List α} {ending : Option ε} {s s' : St α ε} {t : Tid}

/-! ## C04: order, no loss, no duplication -/

/-- What the consumer has received so far is always a prefix of the source, in source order. -/
theorem stp_delivered_prefix (hb : 1 ≤ b) (h : Reachable b src₀ ending s) :
    s.delivered <+: src₀ :=
  (inv_reachable hb h).pre

/-- reachable, with one item delivered, one in the consumer's hand, one queued, one in the
    worker's hand (blocked on the full queue) and one still in the source -/
example : Reachable 1 [1, 2, 3, 4, 5] (none : Option Nat)
    { b := 1, q := [.item 3], shutdown := false, excInfo := none, src := [5], ending := none,
      pulled := 4, delivered := [1], closed := false, raised := none,
      w := .wPut 4, c := .cHave 2 } :=
  ⟨[.worker, .worker, .worker, .worker, .consumer, .consumer, .resume,
    .worker, .worker, .worker, .worker, .consumer,
    .worker, .worker, .worker, .worker, .worker, .worker, .worker], rfl⟩

/-- Before `shutdown` is set nothing is lost, duplicated or reordered: delivered items, the
    item in the consumer's hand, the queued items, the item in the worker's hand and the rest of
    the source make up exactly the source. -/
theorem stp_fifo_content (hb : 1 ≤ b) (h : Reachable b src₀ ending s)
    (hs : s.shutdown = false) :
    s.delivered ++ hand_c s ++ items s.q ++ hand_w s ++ s.src = src₀ :=
  inv_fifo (inv_reachable hb h) hs

/-- the state of the previous example: all five parts of the equation are non-empty -/
example : ∃ s : St Nat Nat, Reachable 1 [1, 2, 3, 4, 5] none s ∧ s.shutdown = false ∧
    s.delivered = [1] ∧ hand_c s = [2] ∧ items s.q = [3] ∧ hand_w s = [4] ∧ s.src = [5] :=
  ⟨_, ⟨[.worker, .worker, .worker, .worker, .consumer, .consumer, .resume,
    .worker, .worker, .worker, .worker, .consumer,
    .worker, .worker, .worker, .worker, .worker, .worker, .worker], rfl⟩,
    rfl, rfl, rfl, rfl, rfl, rfl⟩

/-- Normal end (the generator was never closed): every item was delivered, and what the
    consumer finally gets is exactly how the source ended: nothing for `ending = none`, the
    source's exception `e` for `ending = some e` (C06: all items before the failure first, then
    that same exception). -/
theorem stp_complete (hb : 1 ≤ b) (h : Reachable b src₀ ending s) (ht : terminal s)
    (hc : s.closed = false) : s.delivered = src₀ ∧ s.raised = ending :=
  inv_complete (inv_reachable hb h) ht hc

/-- a complete run over a source that raises `7` after three items -/
example : ∃ s : St Nat Nat, Reachable 1 [1, 2, 3] (some 7) s ∧ terminal s ∧ s.closed = false ∧
    s.delivered = [1, 2, 3] ∧ s.raised = some 7 :=
  ⟨_, ⟨[.worker, .worker, .worker, .worker, .consumer, .consumer, .resume,
    .worker, .worker, .worker, .worker, .consumer, .consumer, .resume,
    .worker, .worker, .worker, .worker, .consumer, .consumer, .resume,
    .worker, .worker, .worker, .worker,
    .consumer, .consumer, .consumer, .consumer, .consumer], rfl⟩,
    ⟨rfl, rfl⟩, rfl, rfl, rfl⟩

/-- End after `close()`: a prefix was delivered and nothing is raised into the consumer. -/
theorem stp_closed_prefix (hb : 1 ≤ b) (h : Reachable b src₀ ending s) (ht : terminal s)
    (hc : s.closed = true) : s.delivered <+: src₀ ∧ s.raised = none :=
  inv_closed (inv_reachable hb h) ht hc

/-- closed after the first item while the worker was blocked in `put` with a full queue; the
    source would have raised `7` -/
example : ∃ s : St Nat Nat, Reachable 1 [1, 2, 3] (some 7) s ∧ terminal s ∧ s.closed = true ∧
    s.delivered = [1] ∧ s.pulled = 3 :=
  ⟨_, ⟨[.worker, .worker, .worker, .worker, .worker, .worker, .worker, .consumer,
    .worker, .worker, .worker, .worker, .consumer, .close,
    .consumer, .consumer, .worker, .worker, .worker,
    .consumer, .consumer, .consumer, .consumer], rfl⟩,
    ⟨rfl, rfl⟩, rfl, rfl, rfl⟩

/-! ## C05: clean termination -/

/-- No deadlock: as long as the run is not over and the generator is not suspended at a `yield`
    (where control is with the caller, see `stp_yield_enabled`), the worker or the consumer can
    take a step. -/
theorem stp_no_deadlock (hb : 1 ≤ b) (h : Reachable b src₀ ending s) (hnt : ¬ terminal s)
    (hy : s.c ≠ .cYield) :
    (∃ s', step s .worker = some s') ∨ (∃ s', step s .consumer = some s') :=
  inv_no_deadlock (inv_reachable hb h) hnt hy

/-- after `close()` the consumer waits in `join()` while the worker is blocked in `put` only
    until the queue has been drained: here the worker is the one that can move -/
example : ∃ s : St Nat Nat, Reachable 1 [1, 2, 3] none s ∧ ¬ terminal s ∧ s.c ≠ .cYield ∧
    s.c = .cJoin ∧ s.w = .wPut 3 ∧ step s .consumer = none :=
  ⟨_, ⟨[.worker, .worker, .worker, .worker, .worker, .worker, .worker, .consumer,
    .worker, .worker, .worker, .worker, .consumer, .close,
    .consumer, .consumer, .consumer], rfl⟩,
    (fun h => nomatch h.1), (fun h => nomatch h), rfl, rfl, rfl⟩

/-- At a `yield` the generator is suspended; the caller may both resume and close it. -/
theorem stp_yield_enabled (hy : s.c = .cYield) :
    (∃ s', step s .resume = some s') ∧ (∃ s', step s .close = some s') := by
  simp [step, hy]

example : ∃ s : St Nat Nat, Reachable 1 [1, 2, 3] none s ∧ s.c = .cYield :=
  ⟨_, ⟨[.worker, .worker, .worker, .worker, .consumer, .consumer], rfl⟩, rfl⟩

/-- When the generator has finished, the background thread has exited: no user code runs after
    control is back for good. -/
theorem stp_worker_exited (hb : 1 ≤ b) (h : Reachable b src₀ ending s) (hc : s.c = .cDone) :
    s.w = .wDone :=
  inv_worker_exited (inv_reachable hb h) (Or.inr hc)

/-- closed early, with items left in the source: the worker has exited all the same -/
example : ∃ s : St Nat Nat, Reachable 1 [1, 2, 3] none s ∧ s.c = .cDone ∧ s.src = [3] :=
  ⟨_, ⟨[.worker, .worker, .worker, .worker, .worker, .consumer, .consumer, .close,
    .consumer, .worker, .worker, .worker, .consumer, .consumer, .consumer], rfl⟩, rfl, rfl⟩

/-- Already once `thread.join()` has returned the worker has exited. -/
theorem stp_after_join (hb : 1 ≤ b) (h : Reachable b src₀ ending s)
    (hc : s.c = .cAfter ∨ s.c = .cDone) : s.w = .wDone :=
  inv_worker_exited (inv_reachable hb h) hc

example : ∃ s : St Nat Nat, Reachable 1 [1, 2, 3] none s ∧ (s.c = .cAfter ∨ s.c = .cDone) :=
  ⟨_, ⟨[.worker, .worker, .worker, .worker, .worker, .consumer, .consumer, .close,
    .consumer, .worker, .worker, .worker, .consumer, .consumer], rfl⟩, Or.inl rfl⟩

/-- Termination: `mu` strictly decreases with every step of every thread, including the
    environment's `resume` and `close`, from every state (the invariant is not needed).  Hence a
    schedule that can be run from `s` has at most `mu s` steps (`run_length_le_mu`); no
    fairness assumption is involved. -/
theorem stp_terminates (h : step s t = some s') : mu s' < mu s :=
  mu_step h

/-- a worker step of a reachable state: `mu` drops from 28 to 27 -/
example : ∃ s s' : St Nat Nat, Reachable 1 [1, 2, 3] none s ∧ step s .worker = some s' ∧
    mu s = 28 ∧ mu s' = 27 :=
  ⟨_, _, ⟨[.worker, .worker, .worker, .worker, .consumer], rfl⟩, rfl, rfl, rfl⟩

/-- After `shutdown` has been set everything stops within `mu2 s` steps, where `mu2` does not
    look at the source at all (so this also covers sources that never end):
    `mu2` strictly decreases with every step (`run_length_le_mu2` for whole schedules). -/
theorem stp_stops_after_close (hsh : s.shutdown = true) (h : step s t = some s') :
    mu2 s' < mu2 s :=
  mu2_step hsh h

/-- shutdown set while the worker is at `wNext`: it still pulls one more item and then leaves -/
example : ∃ s s' : St Nat Nat, Reachable 1 [1, 2, 3] none s ∧ s.shutdown = true ∧
    step s .worker = some s' ∧ s.pulled = 1 ∧ s'.pulled = 2 ∧ mu2 s = 9 ∧ mu2 s' = 8 :=
  ⟨_, _, ⟨[.worker, .worker, .worker, .worker, .worker, .consumer, .consumer, .close,
    .consumer], rfl⟩, rfl, rfl, rfl, rfl, rfl, rfl⟩

/-! ## C07: bounded read-ahead -/

/-- The worker is never more than `b + 2` items ahead of the consumer: `b` in the queue, one in
    each thread's hand. -/
theorem stp_pulled_bound (hb : 1 ≤ b) (h : Reachable b src₀ ending s) :
    s.pulled ≤ s.delivered.length + s.b + 2 :=
  inv_pulled_bound (inv_reachable hb h)

/-- the bound is attained -/
example : ∃ s : St Nat Nat, Reachable 1 [1, 2, 3, 4, 5] none s ∧
    s.pulled = s.delivered.length + s.b + 2 :=
  ⟨_, ⟨[.worker, .worker, .worker, .worker, .consumer, .consumer, .resume,
    .worker, .worker, .worker, .worker, .consumer,
    .worker, .worker, .worker, .worker, .worker, .worker, .worker], rfl⟩, rfl⟩

/-- The queue never holds more than `buffer_size` entries (sentinel included). -/
theorem stp_queue_bound (hb : 1 ≤ b) (h : Reachable b src₀ ending s) : s.q.length ≤ s.b := by
  have hi := inv_reachable hb h
  rw [hi.sb]
  exact hi.qb

/-- a full queue, with the worker blocked in `put` -/
example : ∃ s : St Nat Nat, Reachable 2 [1, 2, 3] none s ∧ s.q.length = s.b ∧
    step s .worker = none :=
  ⟨_, ⟨[.worker, .worker, .worker, .worker, .worker, .worker, .worker, .worker,
    .worker, .worker, .worker], rfl⟩, rfl, rfl⟩

end LazyDs.Stp

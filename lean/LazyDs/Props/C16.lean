/-
  Property C16: structurally different pipelines that denote the same computation are
  observationally equal.

  Only final statements; the work is in `LazyDs.Lemmas.Laws`.  The laws are stated on the eager
  reference data (`RefDS`, `Spec/Ref.lean`): "observationally equal" is equality of `stream` (what
  iteration yields, including how it ends) and, where both sides are indexable, of `outs` (one
  outcome per position), `len` and `keys`.  Where it holds, the law is stated as equality of the
  whole reference dataset (all six fields: `indexable`, `outs`, `stream`, `kstream`, `keys`, `len`).
  The last section transports the laws to the model of the lazy code (`build ρ`) with the central
  refinement theorem `build_ref`.

  Hypotheses that the proofs do not need were dropped (e.g. `C16_map_slice` needs neither
  `RefWF2 r` nor `r.indexable`), so every statement is at least as strong as the one in the plan.
  Laws that are false in the planned generality are proved under the exact/sufficient hypothesis as
  `<name>_partial` and refuted in general by `<name>_counterexample`:

  * `batch(n).unbatch()` is the identity only when the input ends normally; in general the examples
    after the last full batch are lost (`C16_batch_unbatch_general`, `…_counterexample`);
  * `map(f).batch(n)` vs `batch(n).map(batchMap f)`, positionally: the two sides may fail with
    different exceptions when a batch contains an example that already failed *and* one on which `f`
    fails (`C16_map_batch_partial`, `…_counterexample`);
  * the same for iteration: with `drop_last` the left side evaluates `f` on the dropped tail, and
    with an input that raises it evaluates `f` on the examples of the incomplete batch
    (`C16_map_batch_stream_partial`, `…_total`, `…_counterexample`, `…_counterexample_err`).

  Every theorem is followed by an `example` on concrete data.
-/
import LazyDs.Lemmas.Laws
import LazyDs.Lemmas.FilterLaws

namespace LazyDs

/-! ### the concrete data used by the examples -/
namespace C16Example

def xs : List Val := [.int 1, .int 2, .int 3, .int 4, .int 5]
/-- `lazy_dataset.new([1, 2, 3, 4, 5])` -/
def src : RefDS := Ref.listSrc xs
/-- `lazy_dataset.new({'a': 1, 'b': 2, 'c': 3, 'd': 4})` -/
def dsrc : RefDS := Ref.dictSrc [("a", .int 1), ("b", .int 2), ("c", .int 3), ("d", .int 4)]
/-- `lambda x: x + 1` -/
def inc : Val → Res Val
  | .int i => .ok (.int (i + 1))
  | _ => .error .typeError
/-- `lambda x: 10 * x` -/
def times10 : Val → Res Val
  | .int i => .ok (.int (10 * i))
  | _ => .error .typeError
/-- a function that always raises `TypeError` -/
def boom : Val → Res Val := fun _ => .error .typeError
/-- `lambda x: x % 2 == 1` -/
def isOdd : Val → Bool
  | .int i => i % 2 == 1
  | _ => false
/-- `[1, 2, 3].map(failOn3)`: the third example raises `ValueError` -/
def bad : RefDS := Ref.map failOn3 (Ref.listSrc [.int 1, .int 2, .int 3])

end C16Example

open C16Example

/-! ### 1. `batch(n).unbatch()` -/

/-- C16: `batch(n).unbatch()` is the identity on every dataset whose iteration ends normally. -/
theorem C16_batch_unbatch (r : RefDS) {n : Nat} (hn : 1 ≤ n) (he : r.stream.err = none) :
    (Ref.unbatch (Ref.batch n false r)).stream = r.stream := by
  simp only [Ref.unbatch, Ref.batch]
  rw [unbatch_batchStream hn false r.stream]
  simp only [he, and_self, if_true]
  cases hs : r.stream with
  | mk vals err =>
    rw [hs] at he
    simp only at he
    simp [he]

example : (Ref.unbatch (Ref.batch 2 false src)).stream = ⟨xs, none⟩ := by rfl
example : (Ref.unbatch (Ref.batch 2 false src)).stream = src.stream :=
  C16_batch_unbatch src (by decide) rfl

/-- C16, general form: when the input raises after `m` examples, `batch(n).unbatch()` (and, with
    `drop_last`, always) delivers the longest prefix whose length is a multiple of `n`, i.e. the full
    batches, and ends the way the input ends. -/
theorem C16_batch_unbatch_general (r : RefDS) {n : Nat} (hn : 1 ≤ n) (dl : Bool) :
    (Ref.unbatch (Ref.batch n dl r)).stream =
      if dl = false ∧ r.stream.err = none then ⟨r.stream.vals, none⟩
      else ⟨r.stream.vals.take (r.stream.vals.length / n * n), r.stream.err⟩ :=
  unbatch_batchStream hn dl r.stream

example : (Ref.unbatch (Ref.batch 2 true src)).stream = ⟨[.int 1, .int 2, .int 3, .int 4], none⟩ := by rfl

/-- The unrestricted form of `C16_batch_unbatch` is false: `[1, 2, 3].map(failOn3)` yields `1, 2` and
    raises; batched by 3 and unbatched it yields nothing before raising. -/
theorem C16_batch_unbatch_counterexample :
    ∃ (r : RefDS) (n : Nat), 1 ≤ n ∧ (Ref.unbatch (Ref.batch n false r)).stream ≠ r.stream := by
  refine ⟨bad, 3, by decide, ?_⟩
  intro h
  have h1 : (Ref.unbatch (Ref.batch 3 false bad)).stream = ⟨[], some .valueError⟩ := by rfl
  have h2 : bad.stream = ⟨[.int 1, .int 2], some .valueError⟩ := by rfl
  rw [h1, h2] at h
  cases h

example : (Ref.unbatch (Ref.batch 2 false bad)).stream = ⟨[.int 1, .int 2], some .valueError⟩ := by rfl

/-! ### 2. `concatenate(*ds.split(k))` -/

/-- C16: concatenating the parts of `split(k)` gives back every positional outcome, the length, and
    iterates the positions in order (uses `C15_sections_concat`). -/
theorem C16_concat_split {r : RefDS} (hw : RefWF2 r) (hi : r.indexable = true) {k : Int}
    {parts : List RefDS} (h : Ref.mkSplit k r = .ok parts) :
    (Ref.concat parts).outs = r.outs ∧ (Ref.concat parts).stream = .ofOuts r.outs ∧
      (Ref.concat parts).len = r.len ∧ (Ref.concat parts).indexable = true :=
  concat_split_eq hi (hw.lenOuts hi) h

/-- C16: … hence it is the identity for iteration on every dataset that iterates its positions in order
    (every source, slice, shuffle, sort, shard, cache, and every `map`/`concatenate` of such). -/
theorem C16_concat_split_stream {r : RefDS} (hw : RefWF2 r) (hi : r.indexable = true) {k : Int}
    {parts : List RefDS} (h : Ref.mkSplit k r = .ok parts) (hs : r.stream = .ofOuts r.outs) :
    (Ref.concat parts).stream = r.stream := by
  rw [hs]; exact (C16_concat_split hw hi h).2.1

/-- C16: the key table of `concatenate(*ds.split(k))` is the key table of `ds`, unless that has
    duplicate keys (then `ConcatenateDataset.keys()` raises its `AssertionError`). -/
theorem C16_concat_split_keys {r : RefDS} (hw : RefWF2 r) (hi : r.indexable = true) {k : Int}
    {parts : List RefDS} (h : Ref.mkSplit k r = .ok parts) :
    (Ref.concat parts).keys =
      match r.keys with
      | .error e => .error e
      | .ok ks => if hasDup ks then .error .assertionError else .ok ks :=
  concat_split_keys hi (hw.lenOuts hi) (fun ks hk => hw.keysLen hi ks hk) h

example : (Ref.mkSplit 2 dsrc).map (fun parts => (Ref.concat parts).keys) = .ok (.ok ["a", "b", "c", "d"]) := by
  rfl

example : (Ref.mkSplit 2 src).map (fun parts => (parts.map (·.stream.vals), (Ref.concat parts).stream))
    = .ok ([[.int 1, .int 2, .int 3], [.int 4, .int 5]], ⟨xs, none⟩) := by rfl

/-! ### 3. nested slices -/

/-- C16: selecting from a selection is selecting by the composed index list: `ds[s₁][s₂]` and
    `ds[[s₁[j] for j in s₂]]` are the same dataset (positions, iteration with and without keys,
    key table, length). -/
theorem C16_slice_slice {r : RefDS} (hw : RefWF2 r) (hi : r.indexable = true) {s₁ s₂ : List Nat}
    (h₁ : ∀ j ∈ s₁, j < r.outs.length) (h₂ : ∀ j ∈ s₂, j < s₁.length) :
    Ref.slice s₂ (Ref.slice s₁ r) = Ref.slice (s₂.map (fun j => s₁[j]!)) r :=
  slice_slice_eq (fun ks hk => hw.keysLen hi ks hk) h₁ h₂

example : (Ref.slice [2, 0] (Ref.slice [3, 1, 0] dsrc)).kstream = ⟨[("a", .int 1), ("d", .int 4)], none⟩ ∧
    (Ref.slice ([2, 0].map (fun j => [3, 1, 0][j]!)) dsrc).kstream = ⟨[("a", .int 1), ("d", .int 4)], none⟩ :=
  ⟨by rfl, by rfl⟩

/-- C16, as the library computes it: for any two index expressions (Python slices, index lists,
    masks, key lists) `ds[spec₁][spec₂]` is `ds[sel]` for the composed selection
    `sel = sliceList s₁ s₂ = [s₁[j] for j in s₂]`, which stays in range. -/
theorem C16_slice_slice_spec {r r₁ r₂ : RefDS} (hw : RefWF2 r) {spec₁ spec₂ : SliceSpec}
    (h1 : Ref.mkSlice spec₁ r = .ok r₁) (h2 : Ref.mkSlice spec₂ r₁ = .ok r₂) :
    ∃ s₁ s₂, resolveSlice r.outs.length r.keys spec₁ = .ok s₁ ∧
      resolveSlice s₁.length r₁.keys spec₂ = .ok s₂ ∧
      r₁ = Ref.slice s₁ r ∧ r₂ = Ref.slice (sliceList s₁ s₂) r ∧
      (∀ j ∈ sliceList s₁ s₂, j < r.outs.length) :=
  mkSlice_mkSlice_eq hw h1 h2

/-- `ds[[3, 1, 0]][[2, 0]]` on the dict source: the examples under `'a'` and `'d'` -/
example : (Ref.mkSlice (.idx [3, 1, 0]) dsrc >>= Ref.mkSlice (.idx [2, 0])).map (fun r => (r.keys, r.stream))
    = .ok (.ok ["a", "d"], ⟨[.int 1, .int 4], none⟩) := by rfl

/-- C16 for Python range slices: `ds[a:b:c][a':b':c']` is `ds[sel]` where `sel` is the list slice
    `range(n)[a:b:c][a':b':c']` (`slice_slice` of `PySliceLemmas` is the same fact on plain lists). -/
theorem C16_slice_slice_range {r r₁ r₂ : RefDS} (hw : RefWF2 r) {a b c a' b' c' : Option Int}
    (h1 : Ref.mkSlice (.range a b c) r = .ok r₁) (h2 : Ref.mkSlice (.range a' b' c') r₁ = .ok r₂) :
    ∃ s₁ s₂, pySliceIdx r.outs.length a b c = .ok s₁ ∧ pySliceIdx s₁.length a' b' c' = .ok s₂ ∧
      r₂ = Ref.slice (sliceList s₁ s₂) r := by
  obtain ⟨s₁, s₂, hs₁, hs₂, _, hr₂, _⟩ := mkSlice_mkSlice_eq hw h1 h2
  exact ⟨s₁, s₂, hs₁, hs₂, hr₂⟩

/-- `ds[1:5][::2]` is `ds[[1, 3]]` -/
example : ((Ref.mkSlice (.range (some 1) (some 5) none) src >>= Ref.mkSlice (.range none none (some 2))).map
      (·.stream)) = .ok ⟨[.int 2, .int 4], none⟩ ∧
    sliceList [1, 2, 3, 4] [0, 2] = [1, 3] ∧
    (Ref.slice [1, 3] src).stream = ⟨[.int 2, .int 4], none⟩ := ⟨by rfl, by rfl, by rfl⟩

/-! ### 4. `map` distributes over slicing, shuffling, sharding, sorting -/

/-- C16: `ds.map(f)[sel]` is `ds[sel].map(f)`: both evaluate `f` only on the selected examples
    (no hypothesis on `r`, `f` may raise). -/
theorem C16_map_slice (f : Val → Res Val) (sel : List Nat) (r : RefDS) :
    Ref.slice sel (Ref.map f r) = Ref.map f (Ref.slice sel r) :=
  map_slice_eq f sel r

example : (Ref.slice [4, 0] (Ref.map inc src)).stream = ⟨[.int 6, .int 2], none⟩ ∧
    (Ref.map inc (Ref.slice [4, 0] src)).stream = ⟨[.int 6, .int 2], none⟩ := ⟨by rfl, by rfl⟩
/-- the failing third example is not selected, so neither side raises -/
example : (Ref.slice [1, 0] (Ref.map failOn3 src)).outs = [.ok (.int 2), .ok (.int 1)] ∧
    (Ref.map failOn3 (Ref.slice [1, 0] src)).outs = [.ok (.int 2), .ok (.int 1)] := ⟨by rfl, by rfl⟩

/-- C16: the same through the constructor `ds[spec]`: it fails on one side iff on the other (with the
    same exception), because the selection depends only on `len` and `keys`. -/
theorem C16_map_mkSlice (f : Val → Res Val) (spec : SliceSpec) (r : RefDS) :
    Ref.mkSlice spec (Ref.map f r) = (Ref.mkSlice spec r).map (Ref.map f) :=
  map_mkSlice_eq f spec r

example : (Ref.mkSlice (.range none none (some (-2))) (Ref.map inc src)).map (·.stream)
    = .ok ⟨[.int 6, .int 4, .int 2], none⟩ := by rfl

/-- C16: `map` commutes with one-time shuffling (`ds.map(f).shuffle()` with the permutation the
    generator produced). -/
theorem C16_map_shuffle (f : Val → Res Val) (perm : List Nat) (r : RefDS) :
    Ref.mkShuffleOnce perm (Ref.map f r) = (Ref.mkShuffleOnce perm r).map (Ref.map f) :=
  map_mkShuffleOnce_eq f perm r

example : (Ref.mkShuffleOnce [3, 0, 4, 1, 2] (Ref.map inc src)).map (·.stream)
    = .ok ⟨[.int 5, .int 2, .int 6, .int 3, .int 4], none⟩ := by rfl

/-- C16: `map` commutes with `split(k)` … -/
theorem C16_map_split (f : Val → Res Val) (k : Int) (r : RefDS) :
    Ref.mkSplit k (Ref.map f r) = (Ref.mkSplit k r).map (List.map (Ref.map f)) :=
  map_mkSplit_eq f k r

example : (Ref.mkSplit 2 (Ref.map inc src)).map (·.map (·.stream.vals))
    = .ok [[.int 2, .int 3, .int 4], [.int 5, .int 6]] := by rfl

/-- C16: … and with `shard(k, i)`. -/
theorem C16_map_shard (f : Val → Res Val) (k i : Int) (r : RefDS) :
    Ref.mkShard k i (Ref.map f r) = (Ref.mkShard k i r).map (Ref.map f) :=
  map_mkShard_eq f k i r

example : (Ref.mkShard 2 1 (Ref.map inc src)).map (·.stream) = .ok ⟨[.int 5, .int 6], none⟩ ∧
    ((Ref.mkShard 2 1 src).map (Ref.map inc)).map (·.stream) = .ok ⟨[.int 5, .int 6], none⟩ :=
  ⟨by rfl, by rfl⟩

/-- C16: `map` commutes with sorting by key (`ds.sort()`), which does not look at the examples. -/
theorem C16_map_sort_keys (f : Val → Res Val) (rev : Bool) (r : RefDS) :
    Ref.mkSort none rev (Ref.map f r) = (Ref.mkSort none rev r).map (Ref.map f) :=
  map_mkSort_keys_eq f rev r

/-- (`mergeSort` does not reduce by `rfl`: the example is the instance of the law) -/
example : Ref.mkSort none true (Ref.map inc dsrc) = (Ref.mkSort none true dsrc).map (Ref.map inc) :=
  C16_map_sort_keys inc true dsrc

/-- C16: `map` commutes with sorting by a key function that does not depend on the mapped value:
    if `f` succeeds on the iterated examples and `key (f v) = key' v`, then
    `ds.map(f).sort(key)` is `ds.sort(key').map(f)`. -/
theorem C16_map_sort_key (f key key' : Val → Res Val) (rev : Bool) (r : RefDS)
    (hf : ∀ v ∈ r.stream.vals, ∃ w, f v = .ok w ∧ key w = key' v) :
    Ref.mkSort (some key) rev (Ref.map f r) = (Ref.mkSort (some key') rev r).map (Ref.map f) :=
  map_mkSort_key_eq f key key' rev r hf

/-- `new([1..5]).map(10 * x).sort(x + 1, reverse=True)` is `new([1..5]).sort(10 * x + 1, reverse=True).map(10 * x)` -/
example : Ref.mkSort (some inc) true (Ref.map times10 src)
    = (Ref.mkSort (some (fun v => times10 v >>= inc)) true src).map (Ref.map times10) :=
  C16_map_sort_key times10 inc _ true src (by
    intro v hv
    simp only [src, xs, Ref.listSrc, Stream.ofList, List.mem_cons, List.not_mem_nil, or_false] at hv
    rcases hv with rfl | rfl | rfl | rfl | rfl <;> exact ⟨_, rfl, rfl⟩)

/-! ### 5. `map` distributes over concatenation -/

/-- C16: `concatenate(a, b, …).map(f)` is `concatenate(a.map(f), b.map(f), …)`. -/
theorem C16_map_concat (f : Val → Res Val) (rs : List RefDS) :
    Ref.map f (Ref.concat rs) = Ref.concat (rs.map (Ref.map f)) :=
  map_concat_eq f rs

example : (Ref.map inc (Ref.concat [src, bad])).stream
      = ⟨[.int 2, .int 3, .int 4, .int 5, .int 6, .int 2, .int 3], some .valueError⟩ ∧
    (Ref.concat [Ref.map inc src, Ref.map inc bad]).stream
      = ⟨[.int 2, .int 3, .int 4, .int 5, .int 6, .int 2, .int 3], some .valueError⟩ := ⟨by rfl, by rfl⟩

/-! ### 6. `map` and `batch` -/

/-- C16, positional: `ds.map(f).batch(n)[i]` is `ds.batch(n).map(batchMap f)[i]` provided that, *if
    some example of `ds` fails, `f` succeeds on the other examples* (`MapBatchOk`); in particular when no
    example of `ds` fails, or when `f` never raises. -/
theorem C16_map_batch_partial {f : Val → Res Val} {r : RefDS} (n : Nat) (dl : Bool)
    (h : MapBatchOk f r.outs) :
    (Ref.batch n dl (Ref.map f r)).outs = (Ref.map (batchMap f) (Ref.batch n dl r)).outs :=
  map_batch_outs n dl h

/-- … when every positional outcome of `ds` is a value (`f` may raise) -/
theorem C16_map_batch_allOk {f : Val → Res Val} {r : RefDS} (n : Nat) (dl : Bool)
    (h : ∀ o ∈ r.outs, ∃ v, o = .ok v) :
    (Ref.batch n dl (Ref.map f r)).outs = (Ref.map (batchMap f) (Ref.batch n dl r)).outs :=
  map_batch_outs n dl (mapBatchOk_of_allOk h)

/-- … when `f` never raises (examples of `ds` may fail) -/
theorem C16_map_batch_total {f : Val → Res Val} {r : RefDS} (n : Nat) (dl : Bool)
    (h : ∀ v, ∃ w, f v = .ok w) :
    (Ref.batch n dl (Ref.map f r)).outs = (Ref.map (batchMap f) (Ref.batch n dl r)).outs :=
  map_batch_outs n dl (mapBatchOk_of_total h)

example : (Ref.batch 2 false (Ref.map failOn3 src)).outs
      = [.ok (.list [.int 1, .int 2]), .error .valueError, .ok (.list [.int 5])] ∧
    (Ref.map (batchMap failOn3) (Ref.batch 2 false src)).outs
      = [.ok (.list [.int 1, .int 2]), .error .valueError, .ok (.list [.int 5])] := ⟨by rfl, by rfl⟩

/-- The unrestricted positional law is false: in the batch `[1, 2, <ValueError>]`, mapping first
    raises the `TypeError` of `f(1)`, batching first raises the `ValueError` of the third example. -/
theorem C16_map_batch_counterexample :
    ∃ (f : Val → Res Val) (r : RefDS) (n : Nat) (dl : Bool), 1 ≤ n ∧
      (Ref.batch n dl (Ref.map f r)).outs ≠ (Ref.map (batchMap f) (Ref.batch n dl r)).outs := by
  refine ⟨boom, bad, 3, false, by decide, ?_⟩
  intro h
  have h1 : (Ref.batch 3 false (Ref.map boom bad)).outs = [.error .typeError] := by rfl
  have h2 : (Ref.map (batchMap boom) (Ref.batch 3 false bad)).outs = [.error .valueError] := by rfl
  rw [h1, h2] at h
  cases h

/-- C16 (`batch_map`), iteration: without `drop_last`, on an input that ends normally,
    `ds.map(f).batch(n)` iterates like `ds.batch(n).map(batchMap f)` even when `f` raises: both
    deliver the batches before the failing example's batch and raise the same exception. -/
theorem C16_map_batch_stream_partial {n : Nat} (hn : 1 ≤ n) (f : Val → Res Val) (r : RefDS)
    (he : r.stream.err = none) :
    (Ref.batch n false (Ref.map f r)).stream = (Ref.map (batchMap f) (Ref.batch n false r)).stream :=
  map_batchStream_keep hn f r.stream he

example : (Ref.batch 2 false (Ref.map failOn3 src)).stream = ⟨[.list [.int 1, .int 2]], some .valueError⟩ ∧
    (Ref.map (batchMap failOn3) (Ref.batch 2 false src)).stream
      = ⟨[.list [.int 1, .int 2]], some .valueError⟩ := ⟨by rfl, by rfl⟩

/-- C16 (`batch_map`), iteration: when `f` succeeds on every iterated example the law holds for
    every `drop_last` and however the input ends. -/
theorem C16_map_batch_stream_total {n : Nat} (hn : 1 ≤ n) (dl : Bool) (f : Val → Res Val) (r : RefDS)
    (h : ∀ v ∈ r.stream.vals, ∃ w, f v = .ok w) :
    (Ref.batch n dl (Ref.map f r)).stream = (Ref.map (batchMap f) (Ref.batch n dl r)).stream :=
  map_batchStream_total hn dl f r.stream h

example : (Ref.batch 2 true (Ref.map inc bad)).stream = ⟨[.list [.int 2, .int 3]], some .valueError⟩ ∧
    (Ref.map (batchMap inc) (Ref.batch 2 true bad)).stream
      = ⟨[.list [.int 2, .int 3]], some .valueError⟩ := ⟨by rfl, by rfl⟩

/-- With `drop_last` the iteration law is false when `f` raises on the dropped tail:
    `[1, 2, 3].map(failOn3).batch(2, drop_last=True)` raises after `[1, 2]`, while
    `[1, 2, 3].batch(2, drop_last=True).map(…)` never evaluates `f(3)` and ends normally. -/
theorem C16_map_batch_stream_counterexample :
    ∃ (f : Val → Res Val) (r : RefDS) (n : Nat), 1 ≤ n ∧ r.stream.err = none ∧
      (Ref.batch n true (Ref.map f r)).stream ≠ (Ref.map (batchMap f) (Ref.batch n true r)).stream := by
  refine ⟨failOn3, Ref.listSrc [.int 1, .int 2, .int 3], 2, by decide, rfl, ?_⟩
  intro h
  have h1 : (Ref.batch 2 true (Ref.map failOn3 (Ref.listSrc [.int 1, .int 2, .int 3]))).stream
      = ⟨[.list [.int 1, .int 2]], some .valueError⟩ := by rfl
  have h2 : (Ref.map (batchMap failOn3) (Ref.batch 2 true (Ref.listSrc [.int 1, .int 2, .int 3]))).stream
      = ⟨[.list [.int 1, .int 2]], none⟩ := by rfl
  rw [h1, h2] at h
  cases h

/-- … and without `drop_last` it is false when the input raises inside a batch on whose earlier
    examples `f` raises: mapping first raises `f`'s exception, batching first the input's. -/
theorem C16_map_batch_stream_counterexample_err :
    ∃ (f : Val → Res Val) (r : RefDS) (n : Nat), 1 ≤ n ∧
      (Ref.batch n false (Ref.map f r)).stream ≠ (Ref.map (batchMap f) (Ref.batch n false r)).stream := by
  refine ⟨boom, bad, 3, by decide, ?_⟩
  intro h
  have h1 : (Ref.batch 3 false (Ref.map boom bad)).stream = ⟨[], some .typeError⟩ := by rfl
  have h2 : (Ref.map (batchMap boom) (Ref.batch 3 false bad)).stream = ⟨[], some .valueError⟩ := by rfl
  rw [h1, h2] at h
  cases h

/-! ### 7. `map` and `cache` -/

/-- C16: `ds.map(f).cache()` and `ds.cache().map(f)` are the same dataset (unconditionally). -/
theorem C16_map_cache (f : Val → Res Val) (r : RefDS) :
    Ref.cache (Ref.map f r) = Ref.map f (Ref.cache r) :=
  map_cache_eq f r

/-- C16: on an indexable dataset that iterates its positions in order, caching after the map does not
    change what iteration yields. -/
theorem C16_map_cache_stream (f : Val → Res Val) {r : RefDS} (hw : RefWF2 r) (hi : r.indexable = true)
    (hs : r.stream = .ofOuts r.outs) :
    (Ref.cache (Ref.map f r)).stream = (Ref.map f r).stream := by
  simp only [Ref.cache, Ref.map, hw.lenOuts hi, hs, ofOuts_mapM]

example : (Ref.cache (Ref.map failOn3 src)).stream = ⟨[.int 1, .int 2], some .valueError⟩ ∧
    (Ref.map failOn3 (Ref.cache src)).stream = ⟨[.int 1, .int 2], some .valueError⟩ := ⟨by rfl, by rfl⟩

/-! ### 8. `map` fusion -/

/-- C16: `ds.map(f).map(g)` is `ds.map(lambda x: g(f(x)))` (every field; `f`, `g` may raise). -/
theorem C16_map_map (f g : Val → Res Val) (r : RefDS) :
    Ref.map g (Ref.map f r) = Ref.map (fun v => f v >>= g) r :=
  map_map_eq f g r

example : (Ref.map failOn3 (Ref.map inc src)).stream = ⟨[.int 2], some .valueError⟩ ∧
    (Ref.map (fun v => inc v >>= failOn3) src).stream = ⟨[.int 2], some .valueError⟩ := ⟨by rfl, by rfl⟩

/-! ### 9. filter commutes with order-preserving selection -/

/-- C16 on plain lists: filtering a selection is selecting by the filtered index list (for any
    index list, increasing or not). -/
theorem C16_filter_select_list {α} [Inhabited α] (l : List α) (p : α → Bool) (sel : List Nat) :
    (sliceList l sel).filter p = sliceList l (sel.filter (fun j => p l[j]!)) :=
  sliceList_filter l p sel

example : (sliceList [10, 11, 12, 13, 14] [4, 1, 3]).filter (· % 2 == 1) = [11, 13] ∧
    sliceList [10, 11, 12, 13, 14] ([4, 1, 3].filter (fun j => [10, 11, 12, 13, 14][j]! % 2 == 1)) = [11, 13] := by
  decide

/-- C16 on plain lists: `filter` itself is the selection of the positions that satisfy the
    predicate, and for a strictly increasing selection it does not matter whether one first filters
    the positions by the predicate and then keeps those of `sel`, or the other way round. -/
theorem C16_filter_select_comm {α} [Inhabited α] (l : List α) (p : α → Bool) {sel : List Nat}
    (hs : sel.Pairwise (· < ·)) (hlt : ∀ j ∈ sel, j < l.length) :
    l.filter p = sliceList l ((List.range l.length).filter (fun j => p l[j]!)) ∧
    (sliceList l sel).filter p
      = sliceList l (((List.range l.length).filter (fun j => p l[j]!)).filter (sel.contains ·)) := by
  refine ⟨filter_eq_sliceList l p, ?_⟩
  rw [sliceList_filter, filter_select_comm l p hs hlt]

example : (sliceList [10, 11, 12, 13, 14] [1, 3, 4]).filter (· % 2 == 1) = [11, 13] ∧
    sliceList [10, 11, 12, 13, 14]
      (((List.range 5).filter (fun j => [10, 11, 12, 13, 14][j]! % 2 == 1)).filter ([1, 3, 4].contains ·))
      = [11, 13] := by decide

/-- C16: lazily filtering a slice of a dataset whose examples all evaluate (to `vs`), with a
    predicate that does not raise on them, yields the values of `ds` at the positions of `sel` that
    satisfy the predicate, in the order of `sel`, and ends normally. -/
theorem C16_filter_select {r : RefDS} {vs : List Val} {sel : List Nat} {p : Val → Res Bool} {q : Val → Bool}
    (hok : r.outs = vs.map .ok) (hp : ∀ v ∈ vs, p v = .ok (q v)) (hsel : ∀ j ∈ sel, j < vs.length) :
    (Ref.filter p (Ref.slice sel r)).stream = ⟨sliceList vs (sel.filter (fun j => q vs[j]!)), none⟩ := by
  rw [filter_slice_stream hok hp hsel, sliceList_filter]

/-- C16: … and for an order-preserving (strictly increasing) selection these are the examples that
    `ds.filter(p)` yields (`vs.filter q`) whose position belongs to `sel`: filter commutes with
    order-preserving selection. -/
theorem C16_filter_select_sorted {r : RefDS} {vs : List Val} {sel : List Nat} {p : Val → Res Bool}
    {q : Val → Bool} (hok : r.outs = vs.map .ok) (hp : ∀ v ∈ vs, p v = .ok (q v))
    (hsel : ∀ j ∈ sel, j < vs.length) (hs : sel.Pairwise (· < ·)) (hstream : r.stream = .ofOuts r.outs) :
    (Ref.filter p r).stream = ⟨sliceList vs ((List.range vs.length).filter (fun j => q vs[j]!)), none⟩ ∧
    (Ref.filter p (Ref.slice sel r)).stream
      = ⟨sliceList vs (((List.range vs.length).filter (fun j => q vs[j]!)).filter (sel.contains ·)), none⟩ := by
  refine ⟨?_, ?_⟩
  · simp only [Ref.filter, hstream, hok, ofOuts_map_ok, Stream.filterM]
    rw [filterMAux_total p q none vs hp, filter_eq_sliceList]
  · rw [C16_filter_select hok hp hsel, filter_select_comm vs q hs hsel]

example : (Ref.filter (fun v => .ok (isOdd v)) (Ref.slice [0, 1, 4] src)).stream = ⟨[.int 1, .int 5], none⟩ ∧
    (Ref.filter (fun v => .ok (isOdd v)) src).stream = ⟨[.int 1, .int 3, .int 5], none⟩ := ⟨by rfl, by rfl⟩

/-! ### 10. `tile` -/

/-- C16: `ds.tile(n)` is the `n`-fold concatenation `concatenate(ds, …, ds)` (for `n = 0` the two
    raise different exceptions). -/
theorem C16_tile_eq_concat (r : RefDS) {n : Nat} (hn : 1 ≤ n) :
    Ref.mkTile n r = Ref.mkConcat (List.replicate n r) := by
  match n, hn with
  | 1, _ => rfl
  | _ + 2, _ => rfl

example : (Ref.mkTile 2 (Ref.listSrc [.int 1, .int 2])).map (·.stream)
    = .ok ⟨[.int 1, .int 2, .int 1, .int 2], none⟩ := by rfl

/-! ### 11. the laws on the model of the lazy code

`build ρ p` is the model of the dataset object that the library constructs for the pipeline `p`
(index walks, `try/except IndexError`, generator loops).  `ObsEq d₁ d₂` says that the two model
datasets agree on `iter`, `iterK`, `len`, `keys`, `indexable` and on `getInt` when indexable. -/

/-- C16, transfer principle (through `build_ref`): admissible pipelines with the same reference
    semantics build observationally equal datasets.  (The theorems below are its instances.) -/
theorem C16_model_transfer {ρ : Env} (hρ : EnvOK ρ) {p₁ p₂ : Pipeline} (ha₁ : Adm ρ p₁) (ha₂ : Adm ρ p₂)
    (h : ref ρ p₁ = ref ρ p₂) {d₁ d₂ : DS} (h₁ : build ρ p₁ = .ok d₁) (h₂ : build ρ p₂ = .ok d₂) :
    ObsEq d₁ d₂ :=
  obsEq_of_ref_eq hρ ha₁ ha₂ h h₁ h₂

/-- C16 on the model: `ds.map(f)[s]` and `ds[s].map(f)` iterate alike (and agree on `len`, `keys`,
    items and integer indexing). -/
theorem C16_model_map_slice {ρ : Env} (hρ : EnvOK ρ) {p : Pipeline} (ha : Adm ρ p) (f : FnSym) (s : SliceSpec)
    {d₁ d₂ : DS} (h₁ : build ρ (.slice s (.map f p)) = .ok d₁) (h₂ : build ρ (.map f (.slice s p)) = .ok d₂) :
    d₁.iter = d₂.iter ∧ ObsEq d₁ d₂ :=
  have h := obsEq_of_ref_eq hρ (p₁ := .slice s (.map f p)) (p₂ := .map f (.slice s p)) ha ha
    (ref_slice_map ρ f s p) h₁ h₂
  ⟨h.iter, h⟩

example : ((build menuEnv (.slice (.idx [3, 0]) (.map (.add 1) (.listSrc xs)))).map (·.iter)
    = .ok ⟨[.int 5, .int 2], none⟩) ∧
    ((build menuEnv (.map (.add 1) (.slice (.idx [3, 0]) (.listSrc xs)))).map (·.iter)
    = .ok ⟨[.int 5, .int 2], none⟩) := ⟨by rfl, by rfl⟩

/-- C16 on the model: `ds.map(f).shuffle()` and `ds.shuffle().map(f)` (same permutation). -/
theorem C16_model_map_shuffle {ρ : Env} (hρ : EnvOK ρ) {p : Pipeline} (ha : Adm ρ p) (f : FnSym)
    (perm : List Nat) {d₁ d₂ : DS} (h₁ : build ρ (.shuffleOnce perm (.map f p)) = .ok d₁)
    (h₂ : build ρ (.map f (.shuffleOnce perm p)) = .ok d₂) :
    d₁.iter = d₂.iter ∧ ObsEq d₁ d₂ :=
  have h := obsEq_of_ref_eq hρ (p₁ := .shuffleOnce perm (.map f p)) (p₂ := .map f (.shuffleOnce perm p))
    ha ha (ref_shuffle_map ρ f perm p) h₁ h₂
  ⟨h.iter, h⟩

example : ((build menuEnv (.shuffleOnce [2, 0, 1] (.map (.add 1) (.listSrc [.int 1, .int 2, .int 3])))).map
    (·.iter) = .ok ⟨[.int 4, .int 2, .int 3], none⟩) := by rfl

/-- C16 on the model: `ds.map(f).shard(k, i)` and `ds.shard(k, i).map(f)`. -/
theorem C16_model_map_shard {ρ : Env} (hρ : EnvOK ρ) {p : Pipeline} (ha : Adm ρ p) (f : FnSym) (k i : Int)
    {d₁ d₂ : DS} (h₁ : build ρ (.shard k i (.map f p)) = .ok d₁)
    (h₂ : build ρ (.map f (.shard k i p)) = .ok d₂) :
    d₁.iter = d₂.iter ∧ ObsEq d₁ d₂ :=
  have h := obsEq_of_ref_eq hρ (p₁ := .shard k i (.map f p)) (p₂ := .map f (.shard k i p))
    ha ha (ref_shard_map ρ f k i p) h₁ h₂
  ⟨h.iter, h⟩

example : ((build menuEnv (.shard 2 1 (.map (.add 1) (.listSrc xs)))).map (·.iter)
    = .ok ⟨[.int 5, .int 6], none⟩) := by rfl

/-- C16 on the model: `ds.map(f).cache()` and `ds.cache().map(f)`. -/
theorem C16_model_map_cache {ρ : Env} (hρ : EnvOK ρ) {p : Pipeline} (ha : Adm ρ p) (f : FnSym)
    {d₁ d₂ : DS} (h₁ : build ρ (.cache (.map f p)) = .ok d₁) (h₂ : build ρ (.map f (.cache p)) = .ok d₂) :
    d₁.iter = d₂.iter ∧ ObsEq d₁ d₂ :=
  have h := obsEq_of_ref_eq hρ (p₁ := .cache (.map f p)) (p₂ := .map f (.cache p))
    ha ha (ref_cache_map ρ f p) h₁ h₂
  ⟨h.iter, h⟩

example : ((build menuEnv (.cache (.map (.raiseIfMod 3 0 .valueError) (.listSrc xs)))).map (·.iter)
    = .ok ⟨[.int 1, .int 2], some .valueError⟩) := by rfl

/-- C16 on the model: `ds.map(f).map(g)` and `ds.map(h)` when `h` is the composition of `f` and `g`. -/
theorem C16_model_map_map {ρ : Env} (hρ : EnvOK ρ) {p : Pipeline} (ha : Adm ρ p) (f g h : FnSym)
    (hh : ∀ v, ρ.fn h v = (ρ.fn f v >>= ρ.fn g))
    {d₁ d₂ : DS} (h₁ : build ρ (.map g (.map f p)) = .ok d₁) (h₂ : build ρ (.map h p) = .ok d₂) :
    d₁.iter = d₂.iter ∧ ObsEq d₁ d₂ :=
  have h := obsEq_of_ref_eq hρ (p₁ := .map g (.map f p)) (p₂ := .map h p)
    ha ha (ref_map_map ρ f g h hh p) h₁ h₂
  ⟨h.iter, h⟩

example : ((build menuEnv (.map (.add 2) (.map (.add 1) (.listSrc xs)))).map (·.iter)
    = (build menuEnv (.map (.add 3) (.listSrc xs))).map (·.iter)) := by rfl

/-- C16 on the model: `concatenate(a, b).map(f)` and `concatenate(a.map(f), b.map(f))`. -/
theorem C16_model_map_concat {ρ : Env} (hρ : EnvOK ρ) {p q : Pipeline} (hp : Adm ρ p) (hq : Adm ρ q)
    (f : FnSym) {d₁ d₂ : DS}
    (h₁ : build ρ (.map f (.concat (.cons p (.cons q .nil)))) = .ok d₁)
    (h₂ : build ρ (.concat (.cons (.map f p) (.cons (.map f q) .nil))) = .ok d₂) :
    d₁.iter = d₂.iter ∧ ObsEq d₁ d₂ :=
  have h := obsEq_of_ref_eq hρ (p₁ := .map f (.concat (.cons p (.cons q .nil))))
    (p₂ := .concat (.cons (.map f p) (.cons (.map f q) .nil)))
    ⟨hp, hq, trivial⟩ ⟨hp, hq, trivial⟩ (ref_map_concat2 ρ f p q) h₁ h₂
  ⟨h.iter, h⟩

example : ((build menuEnv (.map (.add 1) (.concat (.cons (.listSrc [.int 1]) (.cons (.listSrc [.int 5]) .nil))))).map
    (·.iter) = .ok ⟨[.int 2, .int 6], none⟩) := by rfl

/-- C16 on the model: `ds.tile(n)` builds literally the dataset of the `n`-fold concatenation (no
    side condition: both are the same `ConcatenateDataset`). -/
theorem C16_model_tile_concat (ρ : Env) (p : Pipeline) {n : Nat} (hn : 1 ≤ n) :
    build ρ (.tile n p) = build ρ (.concat (Pipelines.ofList (List.replicate n p))) :=
  build_tile_eq_concat ρ p n hn

example : ((build menuEnv (.tile 2 (.listSrc [.int 1, .int 2]))).map (·.iter)
    = .ok ⟨[.int 1, .int 2, .int 1, .int 2], none⟩) := by rfl

/-- C16 on the model: `ds[s₁][s₂]` is observationally `ds[sel]` for the composed selection
    `sel = [sel₁[j] for j in sel₂]`; the latter builds whenever the former does. -/
theorem C16_model_slice_slice {ρ : Env} (hρ : EnvOK ρ) {p : Pipeline} (ha : Adm ρ p) {s₁ s₂ : SliceSpec}
    {d₂ : DS} (h₂ : build ρ (.slice s₂ (.slice s₁ p)) = .ok d₂) :
    ∃ r sel₁ sel₂ d₃, ref ρ p = .ok r ∧
      resolveSlice r.outs.length r.keys s₁ = .ok sel₁ ∧
      resolveSlice sel₁.length (Ref.slice sel₁ r).keys s₂ = .ok sel₂ ∧
      build ρ (.slice (.idx ((sliceList sel₁ sel₂).map Int.ofNat)) p) = .ok d₃ ∧
      d₂.iter = d₃.iter ∧ ObsEq d₂ d₃ := by
  obtain ⟨r, sel₁, sel₂, d₃, hr, hs₁, hs₂, hd₃, hobs⟩ := model_slice_slice hρ ha h₂
  exact ⟨r, sel₁, sel₂, d₃, hr, hs₁, hs₂, hd₃, hobs.iter, hobs⟩

/-- `ds[1:5][::-2]` is `ds[[4, 2]]` -/
example : ((build menuEnv (.slice (.range none none (some (-2))) (.slice (.range (some 1) (some 5) none)
      (.listSrc xs)))).map (·.iter) = .ok ⟨[.int 5, .int 3], none⟩) ∧
    ((build menuEnv (.slice (.idx [4, 2]) (.listSrc xs))).map (·.iter) = .ok ⟨[.int 5, .int 3], none⟩) :=
  ⟨by rfl, by rfl⟩

/-- C16 on the model: `ds.batch(n).unbatch()` iterates like `ds` whenever iterating `ds` ends
    normally. -/
theorem C16_model_batch_unbatch {ρ : Env} (hρ : EnvOK ρ) {p : Pipeline} (ha : Adm ρ p) {n : Nat} (hn : 1 ≤ n)
    {d d' : DS} (hd : build ρ p = .ok d) (he : d.iter.err = none)
    (hd' : build ρ (.unbatch (.batch n false p)) = .ok d') : d'.iter = d.iter :=
  model_batch_unbatch hρ ha hn hd he hd'

example : ((build menuEnv (.unbatch (.batch 2 false (.listSrc xs)))).map (·.iter) = .ok ⟨xs, none⟩) := by rfl

/-! ### 12. filter fusion and filter over concatenation (predicates may raise) -/

/-- C16: filter fusion. `ds.filter(f, lazy=True).filter(g, lazy=True)` is
    `ds.filter(lambda x: f(x) and g(x), lazy=True)` in every field, for predicates that may raise:
    `g` runs only on the examples `f` accepted, and the first exception of either ends the
    iteration at the same place. -/
theorem C16_filter_filter (f g : Val → Res Bool) (r : RefDS) :
    Ref.filter g (Ref.filter f r) = Ref.filter (andThenPred f g) r :=
  filter_filter_eq f g r

/-- C16: lazy filter distributes over concatenation (`f` may raise; a failure inside an earlier part
    hides the later parts on both sides): `concat(ds...).filter(f)` iterates, with and without
    keys, as `concat(d.filter(f) for d in ds)`. -/
theorem C16_filter_concat (f : Val → Res Bool) (rs : List RefDS) :
    (Ref.filter f (Ref.concat rs)).stream = (Ref.concat (rs.map (Ref.filter f))).stream ∧
    (Ref.filter f (Ref.concat rs)).kstream = (Ref.concat (rs.map (Ref.filter f))).kstream := by
  simp only [Ref.filter, Ref.concat]
  constructor
  · induction rs with
    | nil => simpa using filterM_nil f
    | cons r rs ih => simp only [List.foldr_cons, List.map_cons, filterM_append, ih, Ref.filter]
  · induction rs with
    | nil => simpa using filterM_nil _
    | cons r rs ih => simp only [List.foldr_cons, List.map_cons, filterM_append, ih, Ref.filter]

example : (Ref.filter (fun v => .ok (isOdd v)) (Ref.concat [src, bad])).stream
      = ⟨[.int 1, .int 3, .int 5, .int 1], some .valueError⟩ ∧
    (Ref.concat ([src, bad].map (Ref.filter (fun v => .ok (isOdd v))))).stream
      = ⟨[.int 1, .int 3, .int 5, .int 1], some .valueError⟩ := ⟨by rfl, by rfl⟩

example : (Ref.filter (fun v => .ok (isOdd v)) (Ref.filter (fun v => failOn3 v >>= fun _ => .ok true) src)).stream
      = ⟨[.int 1], some .valueError⟩ ∧
    (Ref.filter (andThenPred (fun v => failOn3 v >>= fun _ => .ok true) (fun v => .ok (isOdd v))) src).stream
      = ⟨[.int 1], some .valueError⟩ := ⟨by rfl, by rfl⟩

/-- C16 on the model of the lazy code: `ds.filter(f, lazy=True).filter(g, lazy=True)` and
    `ds.filter(h, lazy=True)` build observationally equal datasets when `h(x)` is `f(x) and g(x)`
    (short-circuit: `g` is not called where `f` refuses). -/
theorem C16_model_filter_filter {ρ : Env} (hρ : EnvOK ρ) {p : Pipeline} (ha : Adm ρ p) (f g h : PredSym)
    (hh : ∀ v, ρ.pred h v = andThenPred (ρ.pred f) (ρ.pred g) v)
    {d₁ d₂ : DS} (h₁ : build ρ (.filterLazy g (.filterLazy f p)) = .ok d₁)
    (h₂ : build ρ (.filterLazy h p) = .ok d₂) : d₁.iter = d₂.iter ∧ ObsEq d₁ d₂ :=
  have h := obsEq_of_ref_eq hρ (p₁ := .filterLazy g (.filterLazy f p)) (p₂ := .filterLazy h p)
    ha ha (ref_filter_filter ρ f g h hh p) h₁ h₂
  ⟨h.iter, h⟩


/-! ### 13. `items()` and dropping the keys again -/

/-- C16: `ds.items().map(lambda kv: kv[1])` iterates like `ds` whenever `items()` is defined on `ds`
    (it does not raise): dropping the keys again gives back the examples, in order. With a failing
    `items()` the yielded prefix is still a prefix of what `ds` yields (`RefWF.pairs`). -/
theorem C16_items_map_snd {r : RefDS} (hw : RefWF r) (he : r.kstream.err = none) :
    (Ref.map sndOfPair (Ref.items r)).stream = r.stream := by
  obtain ⟨h1, h2⟩ := hw.pairs.2 he
  simp only [Ref.map, Ref.items, Stream.mapM, he, Ref.mapErr, Option.map_none, mapMAux_snd_pairVal, h1]
  cases r with | mk _ _ s _ _ _ => cases s; simp_all

example : (Ref.map sndOfPair (Ref.items dsrc)).stream = dsrc.stream := by rfl

end LazyDs

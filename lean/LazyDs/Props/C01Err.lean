import LazyDs.Lemmas.SoundErr
/-
  C01, construction-time errors — the lazy pipeline refuses to be constructed exactly when the eager
  reference refuses, and with the same exception class.

  `build_ref` (Sound.lean) is the direction "built ⇒ the reference is built and refined";
  `build_err_ref_gen` (SoundErr.lean) is the converse direction for errors.  Together:

  * `C01_build_ok_iff_ref_ok`        : constructible in the model ⇔ constructible in the reference
                                       (every admissible pipeline, no extra hypothesis);
  * `C01_build_error_eq_ref_partial` : same exception class, for the pipelines in `AdmErr`;
  * `C01_build_error_eq_ref_of_ne`   : same exception class for every admissible pipeline, as long as the
                                       class is neither `AssertionError` (model side) nor `RuntimeError`
                                       (reference side);
  * `C01_build_error_classes`        : the exact statement without `AdmErr`: the classes are equal, or
                                       the model says `AssertionError` where the reference says
                                       `RuntimeError`.

  Why `_partial`: `ds.filter(f)[spec]` and `ds.filter(f).sort(key_fn)` raise the `AssertionError` of
  `FilterDataset.__getitem__` in the model (`DS.sliceGuard`), while `Ref.mkSlice` only knows that the
  input is not indexable (`RuntimeError`); `build_err_ref_counterexample` proves that the two sides
  differ there for every interpretation of the user functions.  `AdmErr ρ p` says that no `slice` /
  `sort key` stage of `p` sits directly on such a guarded dataset.
-/
namespace LazyDs

/-- The lazy pipeline refuses with `e` iff the eager reference refuses with `e` (pipelines in `AdmErr`). -/
theorem C01_build_error_eq_ref_partial (ρ : Env) (hρ : EnvOK ρ) (p : Pipeline) (ha : Adm ρ p)
    (hae : AdmErr ρ p) (e : Err) : build ρ p = .error e ↔ ref ρ p = .error e := by
  constructor
  · exact build_err_ref_partial ρ hρ p ha hae e
  · intro hr
    cases hb : build ρ p with
    | ok d =>
      obtain ⟨r, hr', _⟩ := build_ref ρ hρ p ha d hb
      rw [hr] at hr'; cases hr'
    | error e' =>
      have := build_err_ref_partial ρ hρ p ha hae e' hb
      rw [hr] at this
      injection this with this
      rw [this]

/-- The lazy pipeline can be constructed iff the eager reference can (no extra hypothesis). -/
theorem C01_build_ok_iff_ref_ok (ρ : Env) (hρ : EnvOK ρ) (p : Pipeline) (ha : Adm ρ p) :
    (∃ d, build ρ p = .ok d) ↔ (∃ r, ref ρ p = .ok r) := by
  constructor
  · rintro ⟨d, hd⟩
    obtain ⟨r, hr, _⟩ := build_ref ρ hρ p ha d hd
    exact ⟨r, hr⟩
  · rintro ⟨r, hr⟩
    cases hb : build ρ p with
    | ok d => exact ⟨d, rfl⟩
    | error e =>
      obtain ⟨e', he'⟩ := build_err_ref_err ρ hρ p ha e hb
      rw [hr] at he'; cases he'

/-- The exact relation between the two exception classes on every admissible pipeline. -/
theorem C01_build_error_classes (ρ : Env) (hρ : EnvOK ρ) (p : Pipeline) (ha : Adm ρ p) (e : Err)
    (h : build ρ p = .error e) :
    ref ρ p = .error e ∨ (e = .assertionError ∧ ref ρ p = .error .runtimeError) := by
  rcases build_err_ref_gen ρ hρ p ha e h with h1 | ⟨_, h2, h3⟩
  · exact .inl h1
  · exact .inr ⟨h2, h3⟩

/-- Outside the `AssertionError`/`RuntimeError` pair the classes agree on every admissible pipeline. -/
theorem C01_build_error_eq_ref_of_ne (ρ : Env) (hρ : EnvOK ρ) (p : Pipeline) (ha : Adm ρ p) (e : Err)
    (h1 : e ≠ .assertionError) (h2 : e ≠ .runtimeError) : build ρ p = .error e ↔ ref ρ p = .error e := by
  constructor
  · intro h
    exact build_err_ref_of_ne_assertion ρ hρ p ha e h h1
  · intro hr
    cases hb : build ρ p with
    | ok d =>
      obtain ⟨r, hr', _⟩ := build_ref ρ hρ p ha d hb
      rw [hr] at hr'; cases hr'
    | error e' =>
      rcases C01_build_error_classes ρ hρ p ha e' hb with h | ⟨_, h⟩
      · rw [hr] at h; injection h with h; rw [h]
      · rw [hr] at h; injection h with h; exact absurd h h2

/-! ### non-vacuity: concrete failing pipelines -/

/-- an interpretation of the user functions that satisfies `EnvOK` -/
def idEnv : Env := ⟨fun _ v => .ok v, fun _ _ => .ok true⟩

theorem idEnv_ok : EnvOK idEnv := by
  intro f v h; cases h

/-- `new([1, 2]).shard(5, 0)`: `ValueError` on both sides, obtained through the iff -/
example : build idEnv (.shard 5 0 (.listSrc [.int 1, .int 2])) = .error .valueError ∧
    ref idEnv (.shard 5 0 (.listSrc [.int 1, .int 2])) = .error .valueError :=
  ⟨rfl, (C01_build_error_eq_ref_partial idEnv idEnv_ok (.shard 5 0 (.listSrc [.int 1, .int 2]))
    trivial trivial .valueError).mp rfl⟩

/-- `.tile 0` of a mapped dict source: `TypeError` on both sides -/
example : ref idEnv (.tile 0 (.map .identity (.dictSrc [("a", .int 1)]))) = .error .typeError :=
  (C01_build_error_eq_ref_partial idEnv idEnv_ok (.tile 0 (.map .identity (.dictSrc [("a", .int 1)])))
    (by simp [Adm]) trivial .typeError).mp rfl

/-- a slice of a non-indexable `unbatch`: `RuntimeError` on both sides (the slice sits on a dataset
    without guard, so the pipeline is in `AdmErr`) -/
example : ref idEnv (.slice (.idx [0]) (.unbatch (.listSrc [.list [.int 1]]))) = .error .runtimeError :=
  (C01_build_error_eq_ref_partial idEnv idEnv_ok (.slice (.idx [0]) (.unbatch (.listSrc [.list [.int 1]])))
    trivial ⟨trivial, fun d hd => by cases hd; rfl⟩ .runtimeError).mp rfl

/-- and a pipeline that is constructible on both sides -/
example : ∃ r, ref idEnv (.shard 2 1 (.listSrc [.int 1, .int 2, .int 3])) = .ok r :=
  (C01_build_ok_iff_ref_ok idEnv idEnv_ok (.shard 2 1 (.listSrc [.int 1, .int 2, .int 3])) trivial).mp ⟨_, rfl⟩

end LazyDs

/-
  Property C17: `DynamicBucketDataset.__iter__` (model: `LazyDs.Model.Bucket`).
  Only final statements; all the work is in `LazyDs.Lemmas.BucketInv`.

  "Every state reached by `runAux` from `init`" is stated as "`(runAux ops p init input).2` for every
  `input`": the states between two passes of a run on `input` are the final states on the prefixes of
  `input` (`runAux_append`), and `reachable_iff` identifies them with the inductively defined
  reachable states.  `(runAux ops p init input).2` with `input = pre ++ [e]` is the state after the
  pass with index `pre.length`.

  Every theorem is followed by an `example` on the time-series bucket with the seven examples of
  lengths `[1,10,5,7,8,2,4]`.
-/
import LazyDs.Lemmas.BucketInv

namespace LazyDs

open Bucket

/-! ### the concrete data used by the examples -/
namespace C17Example

/-- lengths `[1,10,5,7,8,2,4]`, ids `0..6` -/
def input : List Ex := [⟨0, 1⟩, ⟨1, 10⟩, ⟨2, 5⟩, ⟨3, 7⟩, ⟨4, 8⟩, ⟨5, 2⟩, ⟨6, 4⟩]
/-- `batch_size = 2`, `max_padding_rate = 1/2`, no `max_total_size` -/
def tp : TSParams := ⟨2, 1, 2, none⟩
/-- `batch_size = 3`, `max_padding_rate = 1/2`, `max_total_size = 16` -/
def tpT : TSParams := ⟨3, 1, 2, some 16⟩
/-- `expiration = 2`, `drop_incomplete` -/
def pExp : Params := ⟨some 2, none, true⟩
/-- `expiration = 3`, `max_buffered_examples = 3`, `drop_incomplete` -/
def pAll : Params := ⟨some 3, some 3, true⟩
/-- no expiry, no buffer bound, incomplete buckets are emitted -/
def pKeep : Params := ⟨none, none, false⟩

end C17Example

open C17Example

variable {β : Type} {ops : BucketOps β}

/-! ### 1. the counter -/

/-- C17 (counter): in every reached state `buffered_count` is the number of examples withheld in the
    open buckets. -/
theorem C17_count_inv (law : Lawful ops) (p : Params) (input : List Ex) :
    (runAux ops p init input).2.buffered =
      ((runAux ops p init input).2.buckets.map (fun bc => (ops.data bc.1).length)).sum :=
  (inv_reached law (closed_nonempty law) p input).1.count

example :
    (runAux (tsOps tpT) pKeep init (input.take 6)).2.buffered =
      ((runAux (tsOps tpT) pKeep init (input.take 6)).2.buckets.map
        (fun bc => ((tsOps tpT).data bc.1).length)).sum :=
  C17_count_inv (ts_lawful _) _ _

example :
    (runAux (tsOps tpT) pKeep init (input.take 6)).2.buffered = 3 ∧
    (runAux (tsOps tpT) pKeep init (input.take 6)).2.buckets.map (fun bc => (bc.1.data, bc.2)) =
      [([⟨0, 1⟩, ⟨5, 2⟩], 0), ([⟨4, 8⟩], 4)] := by decide

/-- C17 (counter, consequence): in every reached state every open bucket is non-empty. -/
theorem C17_open_nonempty (law : Lawful ops) (p : Params) (input : List Ex) :
    ∀ bc ∈ (runAux ops p init input).2.buckets, ops.data bc.1 ≠ [] :=
  fun bc hbc => ((inv_reached law (closed_nonempty law) p input).1.good bc hbc).1

example : ∀ bc ∈ (runAux (tsOps tpT) pKeep init (input.take 6)).2.buckets,
    (tsOps tpT).data bc.1 ≠ [] :=
  C17_open_nonempty (ts_lawful _) _ _

/-- C17 (counter, consequence): in every reached state no open bucket is completed, i.e. a bucket is
    emitted in the very pass in which it becomes completed. -/
theorem C17_open_not_completed (law : Lawful ops) (p : Params) (input : List Ex) :
    ∀ bc ∈ (runAux ops p init input).2.buckets, ops.completed bc.1 = false :=
  fun bc hbc => ((inv_reached law (closed_nonempty law) p input).1.good bc hbc).2

example : ∀ bc ∈ (runAux (tsOps tpT) pKeep init (input.take 6)).2.buckets,
    (tsOps tpT).completed bc.1 = false :=
  C17_open_not_completed (ts_lawful _) _ _

/-! ### 2. conservation -/

/-- C17 (conservation): the emitted and the dropped batches together are a permutation of the input:
    every input example is handed out in exactly one batch, nothing is invented. -/
theorem C17_conservation (law : Lawful ops) (p : Params) (input : List Ex) :
    ((allEmitted (run ops p input)).flatten ++ (allDropped (run ops p input)).flatten).Perm input := by
  rw [List.perm_iff_count]
  intro a
  have := (run_spec law (closed_nonempty law) p input).2 a
  simpa [outsCount, List.count_append] using this

example :
    ((allEmitted (run (tsOps tpT) pAll input)).flatten ++
      (allDropped (run (tsOps tpT) pAll input)).flatten).Perm input :=
  C17_conservation (ts_lawful _) _ _

example :
    allEmitted (run (tsOps tpT) pAll input) =
      [[⟨1, 10⟩], [⟨2, 5⟩, ⟨3, 7⟩], [⟨4, 8⟩, ⟨6, 4⟩]] ∧
    allDropped (run (tsOps tpT) pAll input) = [[⟨0, 1⟩], [⟨5, 2⟩]] := by decide

/-- C17 (conservation without `drop_incomplete`): nothing is dropped and every input example is
    emitted in exactly one batch. -/
theorem C17_conservation_nodrop (law : Lawful ops) (p : Params) (input : List Ex)
    (hd : p.dropIncomplete = false) :
    (allEmitted (run ops p input)).flatten.Perm input ∧ allDropped (run ops p input) = [] := by
  have hnil : allDropped (run ops p input) = [] := by
    apply List.eq_nil_iff_forall_not_mem.2
    intro b hb
    obtain ⟨_, _, h, _⟩ := run_dropped law (closed_nonempty law) p input b hb
    simp [hd] at h
  refine ⟨?_, hnil⟩
  have := C17_conservation law p input
  simpa [hnil] using this

example :
    (allEmitted (run (tsOps tp) pKeep input)).flatten.Perm input ∧
      allDropped (run (tsOps tp) pKeep input) = [] :=
  C17_conservation_nodrop (ts_lawful _) _ _ rfl

example :
    allEmitted (run (tsOps tp) pKeep input) =
      [[⟨1, 10⟩, ⟨2, 5⟩], [⟨3, 7⟩, ⟨4, 8⟩], [⟨0, 1⟩, ⟨5, 2⟩], [⟨6, 4⟩]] := by decide

/-! ### 3. no empty batch -/

/-- C17 (non-empty): no emitted and no dropped batch is empty. -/
theorem C17_nonempty (law : Lawful ops) (p : Params) (input : List Ex) :
    (∀ b ∈ allEmitted (run ops p input), b ≠ []) ∧ (∀ b ∈ allDropped (run ops p input), b ≠ []) := by
  constructor
  · intro b hb
    obtain ⟨bk, hq, -, rfl⟩ := run_emitted law (closed_nonempty law) p input b hb
    exact hq
  · intro b hb
    obtain ⟨bk, hq, -, rfl⟩ := run_dropped law (closed_nonempty law) p input b hb
    exact hq

example :
    (∀ b ∈ allEmitted (run (tsOps tpT) pAll input), b ≠ []) ∧
      (∀ b ∈ allDropped (run (tsOps tpT) pAll input), b ≠ []) :=
  C17_nonempty (ts_lawful _) _ _

/-! ### 4. batch size -/

/-- C17 (batch size, any bucket class): if a bucket holding `n ≥ 1` examples is always completed, no
    emitted and no dropped batch has more than `n` examples. -/
theorem C17_batch_size_generic (law : Lawful ops) (n : Nat) (hn : 1 ≤ n)
    (hcomp : ∀ b, (ops.data b).length ≥ n → ops.completed b = true) (p : Params) (input : List Ex) :
    (∀ b ∈ allEmitted (run ops p input), b.length ≤ n) ∧
      (∀ b ∈ allDropped (run ops p input), b.length ≤ n) := by
  have cl := closed_size law n hn hcomp
  constructor
  · intro b hb
    obtain ⟨bk, hq, -, rfl⟩ := run_emitted law cl p input b hb
    exact hq
  · intro b hb
    obtain ⟨bk, hq, -, rfl⟩ := run_dropped law cl p input b hb
    exact hq

/-- C17 (batch size): with the time-series bucket and `batch_size ≥ 1` no emitted and no dropped
    batch has more than `batch_size` examples. -/
theorem C17_batch_size (tp : TSParams) (hbs : 1 ≤ tp.batchSize) (p : Params) (input : List Ex) :
    (∀ b ∈ allEmitted (run (tsOps tp) p input), b.length ≤ tp.batchSize) ∧
      (∀ b ∈ allDropped (run (tsOps tp) p input), b.length ≤ tp.batchSize) :=
  C17_batch_size_generic (ts_lawful tp) tp.batchSize hbs (ts_completed_of_length tp) p input

example :
    (∀ b ∈ allEmitted (run (tsOps tpT) pAll input), b.length ≤ 3) ∧
      (∀ b ∈ allDropped (run (tsOps tpT) pAll input), b.length ≤ 3) :=
  C17_batch_size tpT (by decide) _ _

/-! ### 5. expiration -/

/-- C17 (expiration): in every reached state (`s.i` passes done, `s.i = input.length`) the creation
    indices increase strictly along the open buckets, every open bucket was created in an earlier
    pass, and `s.i ≤ c + ex` for every creation index `c`: no open bucket has seen `ex` examples
    after the one that created it. -/
theorem C17_expiration (law : Lawful ops) (p : Params) (ex : Nat) (hex : p.expiration = some ex)
    (input : List Ex) :
    (runAux ops p init input).2.i = input.length ∧
    (runAux ops p init input).2.buckets.Pairwise (fun a b => a.2 < b.2) ∧
    ∀ bc ∈ (runAux ops p init input).2.buckets,
      bc.2 < (runAux ops p init input).2.i ∧ (runAux ops p init input).2.i ≤ bc.2 + ex := by
  obtain ⟨inv, hi⟩ := inv_reached law (closed_nonempty law) p input
  exact ⟨hi, inv.idx_sorted, fun bc hbc => ⟨inv.idx_lt bc hbc, inv.age ex hex bc hbc⟩⟩

example :
    (runAux (tsOps tpT) pAll init (input.take 3)).2.i = (input.take 3).length ∧
    (runAux (tsOps tpT) pAll init (input.take 3)).2.buckets.Pairwise (fun a b => a.2 < b.2) ∧
    ∀ bc ∈ (runAux (tsOps tpT) pAll init (input.take 3)).2.buckets,
      bc.2 < (runAux (tsOps tpT) pAll init (input.take 3)).2.i ∧
        (runAux (tsOps tpT) pAll init (input.take 3)).2.i ≤ bc.2 + 3 :=
  C17_expiration (ts_lawful _) _ 3 rfl _

example :
    (runAux (tsOps tpT) pAll init (input.take 3)).2.buckets.map (fun bc => (bc.1.data, bc.2)) =
      [([⟨0, 1⟩], 0), ([⟨2, 5⟩], 2)] ∧
    (runAux (tsOps tpT) pAll init (input.take 4)).2.buckets = [] := by
  constructor <;> decide

/-- C17 (expiration, as an age): after the pass with index `i = pre.length` every open bucket with
    creation index `c` has age `i - c < ex`. -/
theorem C17_expiration_age (law : Lawful ops) (p : Params) (ex : Nat) (hex : p.expiration = some ex)
    (pre : List Ex) (e : Ex) :
    ∀ bc ∈ (runAux ops p init (pre ++ [e])).2.buckets, pre.length - bc.2 < ex := by
  intro bc hbc
  obtain ⟨hi, -, h⟩ := C17_expiration law p ex hex (pre ++ [e])
  have := h bc hbc
  simp at hi
  omega

example : ∀ bc ∈ (runAux (tsOps tp) pExp init (input.take 2 ++ [⟨2, 5⟩])).2.buckets,
    (input.take 2).length - bc.2 < 2 :=
  C17_expiration_age (ts_lawful _) _ 2 rfl _ _

/-! ### 6. buffer bound -/

/-- C17 (buffer bound): in every reached state, i.e. whenever the next source example is requested,
    at most `max_buffered_examples` consumed examples are withheld. -/
theorem C17_buffer_bound (law : Lawful ops) (p : Params) (m : Nat) (hm : p.maxBuffered = some m)
    (input : List Ex) : (runAux ops p init input).2.buffered ≤ m :=
  (inv_reached law (closed_nonempty law) p input).1.bound m hm

example : (runAux (tsOps tpT) ⟨none, some 2, true⟩ init (input.take 6)).2.buffered ≤ 2 :=
  C17_buffer_bound (ts_lawful _) _ 2 rfl _

/-- the bound bites: without it three examples are withheld after six passes -/
example :
    (runAux (tsOps tpT) ⟨none, some 2, true⟩ init (input.take 6)).2.buffered = 1 ∧
    (runAux (tsOps tpT) ⟨none, none, true⟩ init (input.take 6)).2.buffered = 3 := by decide

/-! ### 7. `drop_incomplete` -/

/-- C17 (`drop_incomplete`): with `drop_incomplete` every emitted batch is the data of a completed
    bucket.  (Buckets given up by expiry, overflow or the final flush go to `dropped`; together with
    `C17_conservation` the emitted and dropped batches partition the input, and by `C17_no_drop`
    nothing is dropped without `drop_incomplete`.) -/
theorem C17_drop_exact (law : Lawful ops) (p : Params) (hd : p.dropIncomplete = true)
    (input : List Ex) :
    ∀ b ∈ allEmitted (run ops p input), ∃ bk, ops.completed bk = true ∧ ops.data bk = b := by
  intro b hb
  obtain ⟨bk, -, hc, rfl⟩ := run_emitted law (closed_nonempty law) p input b hb
  exact ⟨bk, hc hd, rfl⟩

example : ∀ b ∈ allEmitted (run (tsOps tpT) pAll input),
    ∃ bk, (tsOps tpT).completed bk = true ∧ (tsOps tpT).data bk = b :=
  C17_drop_exact (ts_lawful _) _ rfl _

/-- C17 (`drop_incomplete` off): nothing is dropped. -/
theorem C17_no_drop (law : Lawful ops) (p : Params) (hd : p.dropIncomplete = false)
    (input : List Ex) : allDropped (run ops p input) = [] :=
  (C17_conservation_nodrop law p input hd).2

example : allDropped (run (tsOps tpT) ⟨some 3, some 3, false⟩ input) = [] :=
  C17_no_drop (ts_lawful _) _ rfl _

/-! ### 8. padding rate -/

/-- C17 (padding, invariant): in every reached state every open time-series bucket tracks bounds of
    its member lengths (`x.len ≤ maxLen`, `minLen ≤ x.len`) with
    `maxLen * (den - num) ≤ minLen * den`. -/
theorem C17_padding_inv (tp : TSParams) (p : Params) (input : List Ex) :
    ∀ bc ∈ (runAux (tsOps tp) p init input).2.buckets,
      (∀ x ∈ bc.1.data, x.len ≤ bc.1.maxLen ∧ bc.1.minLen ≤ x.len) ∧
        bc.1.maxLen * (tp.den - tp.num) ≤ bc.1.minLen * tp.den :=
  fun bc hbc => ((inv_reached (ts_lawful tp) (ts_closed_pad tp) p input).1.good bc hbc).1

/-- C17 (padding): any two members `x`, `y` of an emitted or dropped batch of the time-series bucket
    satisfy `y.len * (den - num) ≤ x.len * den`, i.e. shortest ≥ (1 - rate) * longest.
    (The hypothesis `num < den` of the request is not needed.) -/
theorem C17_padding (tp : TSParams) (p : Params) (input : List Ex) :
    ∀ b, b ∈ allEmitted (run (tsOps tp) p input) ∨ b ∈ allDropped (run (tsOps tp) p input) →
      ∀ x ∈ b, ∀ y ∈ b, y.len * (tp.den - tp.num) ≤ x.len * tp.den := by
  have key : ∀ bk : TSBucket, TSPad tp bk →
      ∀ x ∈ bk.data, ∀ y ∈ bk.data, y.len * (tp.den - tp.num) ≤ x.len * tp.den := by
    intro bk hq x hx y hy
    exact Nat.le_trans (Nat.mul_le_mul_right _ (hq.1 y hy).1)
      (Nat.le_trans hq.2 (Nat.mul_le_mul_right _ (hq.1 x hx).2))
  intro b hb
  rcases hb with hb | hb
  · obtain ⟨bk, hq, -, rfl⟩ := run_emitted (ts_lawful tp) (ts_closed_pad tp) p input b hb
    exact key bk hq
  · obtain ⟨bk, hq, -, rfl⟩ := run_dropped (ts_lawful tp) (ts_closed_pad tp) p input b hb
    exact key bk hq

example : ∀ b, b ∈ allEmitted (run (tsOps tp) pExp input) ∨ b ∈ allDropped (run (tsOps tp) pExp input) →
    ∀ x ∈ b, ∀ y ∈ b, y.len * (2 - 1) ≤ x.len * 2 :=
  C17_padding tp _ _

example :
    allEmitted (run (tsOps tp) pExp input) = [[⟨1, 10⟩, ⟨2, 5⟩], [⟨3, 7⟩, ⟨4, 8⟩], [⟨5, 2⟩, ⟨6, 4⟩]] ∧
    allDropped (run (tsOps tp) pExp input) = [[⟨0, 1⟩]] := by decide

/-! ### 9. total size -/

/-- C17 (total size): with `max_total_size = m` every emitted or dropped batch of the time-series
    bucket with at least two examples has `length * (longest member) ≤ m`.  (A single example longer
    than `m` is handed out alone, hence `2 ≤ b.length`.) -/
theorem C17_total_size (tp : TSParams) (m : Nat) (hm : tp.maxTotal = some m) (p : Params)
    (input : List Ex) :
    ∀ b, b ∈ allEmitted (run (tsOps tp) p input) ∨ b ∈ allDropped (run (tsOps tp) p input) →
      2 ≤ b.length → ∀ x ∈ b, b.length * x.len ≤ m := by
  have key : ∀ bk : TSBucket, TSTotal m bk →
      2 ≤ bk.data.length → ∀ x ∈ bk.data, bk.data.length * x.len ≤ m := by
    intro bk hq h2 x hx
    exact Nat.le_trans (Nat.mul_le_mul_left _ (hq.1 x hx)) (hq.2 h2)
  intro b hb
  rcases hb with hb | hb
  · obtain ⟨bk, hq, -, rfl⟩ := run_emitted (ts_lawful tp) (ts_closed_total tp m hm) p input b hb
    exact key bk hq
  · obtain ⟨bk, hq, -, rfl⟩ := run_dropped (ts_lawful tp) (ts_closed_total tp m hm) p input b hb
    exact key bk hq

example : ∀ b, b ∈ allEmitted (run (tsOps tpT) pKeep input) ∨ b ∈ allDropped (run (tsOps tpT) pKeep input) →
    2 ≤ b.length → ∀ x ∈ b, b.length * x.len ≤ 16 :=
  C17_total_size tpT 16 rfl _ _

example :
    allEmitted (run (tsOps tpT) pKeep input) =
      [[⟨1, 10⟩], [⟨2, 5⟩, ⟨3, 7⟩], [⟨4, 8⟩, ⟨6, 4⟩], [⟨0, 1⟩, ⟨5, 2⟩]] := by decide

/-! ### 10. sorting a batch -/

/-- C17 (`sort_key`): sorting a batch permutes it (same length, same members, so none of the clauses
    above is affected) and the result is ordered by the key, descending if `reverse_sort`. -/
theorem C17_sort_key (key : Ex → Nat) (rev : Bool) (data : List Ex) :
    (sortBatch key rev data).Perm data ∧
    (sortBatch key rev data).length = data.length ∧
    (∀ x, x ∈ sortBatch key rev data ↔ x ∈ data) ∧
    (sortBatch key rev data).Pairwise
      (fun a b => if rev = true then key a ≥ key b else key a ≤ key b) := by
  have hperm : (sortBatch key rev data).Perm data := by
    unfold sortBatch; split <;> exact List.mergeSort_perm _ _
  refine ⟨hperm, hperm.length_eq, fun x => hperm.mem_iff, ?_⟩
  unfold sortBatch
  cases rev
  · have := List.pairwise_mergeSort (le := fun a b => decide (key a ≤ key b))
      (fun a b c hab hbc => by simp at *; omega) (fun a b => by simp; omega) data
    simpa using this
  · have := List.pairwise_mergeSort (le := fun a b => decide (key a ≥ key b))
      (fun a b c hab hbc => by simp at *; omega) (fun a b => by simp; omega) data
    simpa using this

example :
    (sortBatch (·.len) true input).Perm input ∧
    (sortBatch (·.len) true input).length = input.length ∧
    (∀ x, x ∈ sortBatch (·.len) true input ↔ x ∈ input) ∧
    (sortBatch (·.len) true input).Pairwise (fun a b => if true = true then a.len ≥ b.len else a.len ≤ b.len) :=
  C17_sort_key _ _ _

example :
    sortBatch (·.len) true input = [⟨1, 10⟩, ⟨4, 8⟩, ⟨3, 7⟩, ⟨2, 5⟩, ⟨6, 4⟩, ⟨5, 2⟩, ⟨0, 1⟩] := by
  simp [sortBatch, input, List.mergeSort, List.MergeSort.Internal.splitInTwo]

end LazyDs

import LazyDs.Lemmas.Sound
/-
  C02 — length and integer indexing agree with iteration.

  For every admissible pipeline (see `Adm` in `Lemmas/Sound.lean`: the side conditions are
  exactly the places where the statement is false of the code; each has a counterexample
  theorem), every source, every user function that does not raise `IndexError`, every index.
-/
namespace LazyDs

/-- When iteration ends normally, `len(ds)` is the number of examples it yielded —
    for EVERY dataset that offers a length, indexable or not. -/
theorem C02_len_eq_count (ρ : Env) (hρ : EnvOK ρ) (p : Pipeline) (ha : Adm ρ p) (d : DS)
    (h : build ρ p = .ok d) (n : Nat) (hn : d.len = .ok n) (he : d.iter.err = none) :
    d.iter.vals.length = n := by
  obtain ⟨r, hr, hrel⟩ := build_ref ρ hρ p ha d h
  have wf := ref_wf ρ p ha r hr
  rw [hrel.iter] at he ⊢
  rw [hrel.len] at hn
  exact wf.len n hn he

/-- An indexable dataset reports a length, and it never yields more than that. -/
theorem C02_indexable_has_len (ρ : Env) (hρ : EnvOK ρ) (p : Pipeline) (ha : Adm ρ p) (d : DS)
    (h : build ρ p = .ok d) (hi : d.indexable = true) :
    ∃ n, d.len = .ok n ∧ d.iter.vals.length ≤ n := by
  obtain ⟨r, hr, hrel⟩ := build_ref ρ hρ p ha d h
  have wf := ref_wf ρ p ha r hr
  have hri : r.indexable = true := by rw [← hrel.indexable]; exact hi
  refine ⟨r.outs.length, ?_, ?_⟩
  · rw [hrel.len]; exact wf.lenOuts hri
  · rw [hrel.iter]; exact (wf.pos hri).1

/-- `ds[t]` is the t-th iterated example, for every position iteration reaches. -/
theorem C02_getitem_eq_iter (ρ : Env) (hρ : EnvOK ρ) (p : Pipeline) (ha : Adm ρ p) (d : DS)
    (h : build ρ p = .ok d) (hi : d.indexable = true) (t : Nat) (ht : t < d.iter.vals.length) :
    d.getInt (t : Int) = .ok d.iter.vals[t] := by
  obtain ⟨r, hr, hrel⟩ := build_ref ρ hρ p ha d h
  have wf := ref_wf ρ p ha r hr
  have hri : r.indexable = true := by rw [← hrel.indexable]; exact hi
  have hit := hrel.iter
  obtain ⟨hle, hpos, _⟩ := wf.pos hri
  have ht' : t < r.stream.vals.length := by rw [← hit]; exact ht
  have hlt : t < r.outs.length := Nat.lt_of_lt_of_le ht' hle
  rw [(hrel.idx hri).2, outAt_lt _ t hlt]
  have := hpos t ht'
  rw [List.getElem?_eq_getElem hlt] at this
  injection this with this
  rw [this]
  congr 1
  simp only [hit]

/-- `ds[i - len(ds)]` equals `ds[i]` for every `0 ≤ i < len(ds)`. -/
theorem C02_getitem_negative (ρ : Env) (hρ : EnvOK ρ) (p : Pipeline) (ha : Adm ρ p) (d : DS)
    (h : build ρ p = .ok d) (hi : d.indexable = true) (n : Nat) (hn : d.len = .ok n)
    (i : Int) (h0 : 0 ≤ i) (h1 : i < n) : d.getInt (i - n) = d.getInt i := by
  obtain ⟨r, hr, hrel⟩ := build_ref ρ hρ p ha d h
  have hri : r.indexable = true := by rw [← hrel.indexable]; exact hi
  obtain ⟨hl, hg⟩ := hrel.idx hri
  have : n = r.outs.length := by
    rw [hrel.len, hl] at hn; injection hn with hn; exact hn.symm
  subst this
  rw [hg, hg, outAt_wrap _ i h0 h1]

/-- Every integer outside `[-len(ds), len(ds))` raises `IndexError`; no example is returned. -/
theorem C02_out_of_range_IndexError (ρ : Env) (hρ : EnvOK ρ) (p : Pipeline) (ha : Adm ρ p) (d : DS)
    (h : build ρ p = .ok d) (hi : d.indexable = true) (n : Nat) (hn : d.len = .ok n)
    (i : Int) (ho : i < -(n : Int) ∨ (n : Int) ≤ i) : d.getInt i = .error .indexError := by
  obtain ⟨r, hr, hrel⟩ := build_ref ρ hρ p ha d h
  have hri : r.indexable = true := by rw [← hrel.indexable]; exact hi
  obtain ⟨hl, hg⟩ := hrel.idx hri
  have : n = r.outs.length := by
    rw [hrel.len, hl] at hn; injection hn with hn; exact hn.symm
  subst this
  rw [hg]
  cases ho with
  | inl h => exact outAt_lt_neg _ i h
  | inr h => exact outAt_ge _ i h

/-- If iteration ends normally, EVERY in-range index is covered: `len` examples, `ds[i]` the i-th. -/
theorem C02_complete (ρ : Env) (hρ : EnvOK ρ) (p : Pipeline) (ha : Adm ρ p) (d : DS)
    (h : build ρ p = .ok d) (hi : d.indexable = true) (he : d.iter.err = none) :
    d.len = .ok d.iter.vals.length ∧
    ∀ (t : Nat) (ht : t < d.iter.vals.length), d.getInt (t : Int) = .ok d.iter.vals[t] := by
  obtain ⟨n, hn, _⟩ := C02_indexable_has_len ρ hρ p ha d h hi
  have := C02_len_eq_count ρ hρ p ha d h n hn he
  exact ⟨by rw [hn, this], fun t ht => C02_getitem_eq_iter ρ hρ p ha d h hi t ht⟩

/-- The side condition on `items()` is necessary (known finding F18): over an input whose key
    table is refused, `items()` is indexable and iterates, but `ds.items()[i]` raises the refusal. -/
theorem C02_items_without_keys_counterexample :
    ∃ d, build menuEnv (.items (.concat (.cons (.dictSrc [("d", .int 1)]) (.cons (.dictSrc [("d", .int 2)]) .nil)))) = .ok d ∧
      d.indexable = true ∧ d.len = .ok 2 ∧ d.iter.err = none ∧ d.iter.vals.length = 2 ∧
      d.getInt 0 = .error .assertionError := ⟨_, rfl, rfl, rfl, rfl, rfl, rfl⟩

/-- The side condition on `batch(…, drop_last=True)` is necessary: an index at `len(ds)` walks into
    the dropped tail and surfaces ITS exception instead of `IndexError`. -/
theorem C02_batch_droplast_tail_counterexample :
    ∃ d, build menuEnv (.batch 2 true (.map (.raiseIfMod 3 0 .valueError) (.listSrc [.int 1, .int 2, .int 3]))) = .ok d ∧
      d.indexable = true ∧ d.len = .ok 1 ∧ d.getInt 1 = .error .valueError := ⟨_, rfl, rfl, rfl, rfl⟩

/-! non-vacuity of the hypotheses: an admissible pipeline with a concrete indexable result -/
example : Adm menuEnv (.batch 2 false (.map (.add 1) (.dictSrc [("a", .int 1), ("b", .int 2), ("c", .int 3)]))) := by
  simp [Adm]

end LazyDs

/-
  C19: `lazy_dataset/database.py` -- `Database.get_examples`, `get_dataset([...])`,
  `_merge_database_dicts`, and `_get_dataset` with its weak memo.

  All statements are about the definitions in `LazyDs/Model/Db.lean` as written (namespace
  `LazyDs.Db`); helper lemmas, the well-formedness predicate `WF`, `MembersDisjoint`, `examplesOr`,
  `mrun`, `MemoWF` and the concrete descriptions `demo`, `demoLater`, `demoPlain` used in the
  `example`s are in `LazyDs/Lemmas/DbLemmas.lean`.

  Descriptions are association lists.  They model Python dicts only when the keys are distinct
  (`WF`).  Hypotheses of the form `(keysOf _).Nodup` are exactly the parts of `WF` a theorem needs;
  theorems without such a hypothesis hold for arbitrary association lists.
-/
import LazyDs.Lemmas.DbLemmas

namespace LazyDs
open LazyDs.Db

/-! ### `get_examples` on a dataset name -/

/-- A dataset name that is not an alias yields each stored example exactly once, in stored order,
    each extended by `augment`. -/
theorem C19_examples_once_in_order (d : Desc) (name : String) (ex : Examples)
    (ha : lookup (d.alias.getD []) name = none) (hd : lookup d.datasets name = some ex)
    (hne : ex ≠ []) :
    getExamples d name = .ok (ex.map (fun (id, f) => (id, augment name id f))) := by
  rw [getExamples_dataset d name ha, hd]
  cases ex with
  | nil => exact absurd rfl hne
  | cons p l => rfl

example : (getExamples demo "train").map keysOf = .ok ["a", "b"] := by
  simp [getExamples, demo, lookup, keysOf, bind, Except.bind, Except.map]

/-- In particular the example ids of the result are the stored ids, in stored order. -/
theorem C19_examples_ids_in_order (d : Desc) (name : String) (ex : Examples)
    (ha : lookup (d.alias.getD []) name = none) (hd : lookup d.datasets name = some ex)
    (hne : ex ≠ []) :
    ∃ exs, getExamples d name = .ok exs ∧ keysOf exs = keysOf ex ∧ exs.length = ex.length := by
  refine ⟨_, C19_examples_once_in_order d name ex ha hd hne, ?_, by simp⟩
  simp [keysOf, Function.comp_def]

example : ∃ exs, getExamples demo "dev" = .ok exs ∧ keysOf exs = ["c"] ∧ exs.length = 1 := by
  simp [getExamples, demo, lookup, keysOf, bind, Except.bind]

/-- Every example is extended by its `example_id` and the requested dataset name; all other fields
    are untouched.  No hypothesis on `f` is needed: `lookup` returns the first entry of a key and
    `update` overwrites every entry of the key, so the statement holds even for field lists with
    repeated names (for a Python dict, `(keysOf f).Nodup`, it is the usual dict statement). -/
theorem C19_augmented (name id : String) (f : Fields) :
    lookup (augment name id f) "example_id" = some (.str id) ∧
    lookup (augment name id f) "dataset" = some (.str name) ∧
    ∀ k, k ≠ "example_id" → k ≠ "dataset" → lookup (augment name id f) k = lookup f k :=
  ⟨lookup_augment_example_id name id f, lookup_augment_dataset name id f,
    fun k h1 h2 => lookup_augment_other name id f k h1 h2⟩

example : keysOf (augment "train" "a" [("x", .int 1), ("dataset", .str "old")]) =
    ["x", "dataset", "example_id"] := by
  simp [augment, update, lookup, keysOf]

/-! ### `get_examples` on an alias -/

/-- An alias yields the concatenation of its members (member after member, each in stored
    order), each example tagged with the ALIAS name.  Hypotheses: every member exists, the
    members' example ids are distinct within a member (`hnd`, part of `WF`) and pairwise disjoint
    across members (`hdisj`), and the concatenation is non-empty (otherwise `RuntimeError`, see
    `C19_empty_rejected_alias`). -/
theorem C19_alias_concat (d : Desc) (name : String) (members : List String)
    (ha : lookup (d.alias.getD []) name = some members)
    (hex : ∀ m, m ∈ members → ∃ ex, lookup d.datasets m = some ex)
    (hnd : ∀ m, m ∈ members → (keysOf ((lookup d.datasets m).getD [])).Nodup)
    (hdisj : members.Pairwise (MembersDisjoint d.datasets))
    (hne : (members.map (fun m => (lookup d.datasets m).getD [])).flatten ≠ []) :
    ∃ exs, getExamples d name = .ok exs ∧
      exs = ((members.map (fun m => (lookup d.datasets m).getD [])).flatten).map
              (fun (id, f) => (id, augment name id f)) ∧
      exs.map (·.1) = (members.map (fun m => keysOf ((lookup d.datasets m).getD []))).flatten ∧
      ∀ id fields, (id, fields) ∈ exs →
        ∃ m ex f, m ∈ members ∧ lookup d.datasets m = some ex ∧ lookup ex id = some f ∧
          fields = augment name id f := by
  have hn := nodup_memberKeys d.datasets members hnd hdisj
  have hc := collectAlias_ok d.datasets members [] hex (by simpa using hn)
  rw [List.nil_append] at hc
  have hne' : (memberExamples d.datasets members).isEmpty = false := by
    cases h : memberExamples d.datasets members with
    | nil => exact absurd h hne
    | cons a b => rfl
  refine ⟨_, ?_, rfl, ?_, ?_⟩
  · rw [getExamples_alias d name members ha, hc]
    simp only [hne', Bool.false_eq_true, if_false]
    rfl
  · rw [← keysOf_memberExamples]
    simp [keysOf, memberExamples, Function.comp_def]
  · intro id fields hmem
    obtain ⟨⟨id', f⟩, hp, he⟩ := List.mem_map.1 hmem
    simp only [Prod.mk.injEq] at he
    obtain ⟨rfl, rfl⟩ := he
    obtain ⟨l, hl, hpl⟩ := List.mem_flatten.1 hp
    obtain ⟨m, hm, rfl⟩ := List.mem_map.1 hl
    obtain ⟨ex, hmex⟩ := hex m hm
    have hnm := hnd m hm
    rw [hmex] at hpl hnm
    exact ⟨m, ex, f, hm, hmex, lookup_of_mem hnm hpl, rfl⟩

example : (getExamples demo "all").map
      (fun exs => exs.map (fun p => (p.1, (lookup p.2 "dataset").isSome))) =
    .ok [("a", true), ("b", true), ("c", true)] := by
  simp [getExamples, demo, lookup, keysOf, collectAlias, intersects, update, augment, bind,
    Except.bind, Except.map]

/-- Two members of an alias sharing an example id are rejected (the first two members; no
    distinctness or non-emptiness hypothesis is needed). -/
theorem C19_reject_overlap (ds : Datasets) (m₁ m₂ : String) (rest : List String)
    (e₁ e₂ : Examples) (h₁ : lookup ds m₁ = some e₁) (h₂ : lookup ds m₂ = some e₂)
    (hov : intersects (keysOf e₁) (keysOf e₂) = true) :
    collectAlias ds (m₁ :: m₂ :: rest) [] = .error .assertionError := by
  rw [collectAlias, h₁]
  simp only [keysOf_nil, intersects_nil_left, Bool.false_eq_true, if_false]
  apply collectAlias_overlap ds m₂ rest _ e₂ h₂
  obtain ⟨k, hk1, hk2⟩ := (intersects_eq_true_iff _ _).1 hov
  exact (intersects_eq_true_iff _ _).2 ⟨k, (mem_keysOf_update _ _ _).2 (Or.inr hk1), hk2⟩

example : collectAlias demo.datasets ["train", "dev2"] [] = .error .assertionError := by
  simp [demo, lookup, keysOf, collectAlias, intersects, update]

/-- The same for two members at arbitrary positions: if all members of an alias exist and some
    two of them (at different positions) share an example id, `get_examples` raises the
    assertion. -/
theorem C19_reject_overlap_anywhere (d : Desc) (name : String) (members : List String)
    (ha : lookup (d.alias.getD []) name = some members)
    (hex : ∀ m, m ∈ members → ∃ ex, lookup d.datasets m = some ex)
    (hov : ¬ members.Pairwise (MembersDisjoint d.datasets)) :
    getExamples d name = .error .assertionError := by
  rw [getExamples_alias d name members ha]
  rcases collectAlias_total d.datasets members [] hex with h | ⟨r, _, _, h⟩
  · rw [h]
  · exact absurd h hov

example : getExamples demo "bad" = .error .assertionError := by
  simp [getExamples, demo, lookup, keysOf, collectAlias, intersects, update, bind, Except.bind]

/-! ### Unknown names and empty results -/

/-- A name that is neither an alias nor a dataset raises `KeyError`. -/
theorem C19_unknown_name (d : Desc) (name : String)
    (ha : lookup (d.alias.getD []) name = none) (hd : lookup d.datasets name = none) :
    getExamples d name = .error .keyError := by
  rw [getExamples_dataset d name ha, hd]

example : getExamples demo "nope" = .error .keyError := by
  simp [getExamples, demo, lookup, bind, Except.bind]

/-- An alias with a member that is not a dataset raises `KeyError` as well, provided the members
    before it exist and do not overlap (otherwise the assertion fires first). -/
theorem C19_unknown_member (d : Desc) (name : String) (pre : List String) (m : String)
    (post : List String) (ha : lookup (d.alias.getD []) name = some (pre ++ m :: post))
    (hex : ∀ m', m' ∈ pre → ∃ ex, lookup d.datasets m' = some ex)
    (hnd : ∀ m', m' ∈ pre → (keysOf ((lookup d.datasets m').getD [])).Nodup)
    (hdisj : pre.Pairwise (MembersDisjoint d.datasets))
    (hm : lookup d.datasets m = none) :
    getExamples d name = .error .keyError := by
  rw [getExamples_alias d name _ ha]
  have hn := nodup_memberKeys d.datasets pre hnd hdisj
  have key : ∀ (pre : List String) (acc : Examples),
      (∀ m', m' ∈ pre → ∃ ex, lookup d.datasets m' = some ex) →
      (keysOf acc ++ keysOf (memberExamples d.datasets pre)).Nodup →
      collectAlias d.datasets (pre ++ m :: post) acc = .error .keyError := by
    intro pre
    induction pre with
    | nil => intro acc _ _; simp [collectAlias, hm]
    | cons p pre ih =>
      intro acc hex hn
      obtain ⟨ex, hp⟩ := hex p (by simp)
      have hme : memberExamples d.datasets (p :: pre) = ex ++ memberExamples d.datasets pre := by
        simp [memberExamples, hp]
      rw [hme, keysOf_append, ← List.append_assoc] at hn
      have hn1 := (List.nodup_append.1 hn).1
      have hi : intersects (keysOf acc) (keysOf ex) = false := by
        rw [intersects_eq_false_iff]
        intro k hk hk'
        exact (List.nodup_append.1 hn1).2.2 k hk k hk' rfl
      have hupd : update acc ex = acc ++ ex :=
        update_eq_append (fun k hk hk' => (List.nodup_append.1 hn1).2.2 k hk' k hk rfl)
          (List.nodup_append.1 hn1).2.1
      rw [List.cons_append, collectAlias, hp]
      simp only [hi, Bool.false_eq_true, if_false]
      rw [hupd]
      exact ih _ (fun m' h' => hex m' (List.mem_cons_of_mem _ h'))
        (by rw [keysOf_append]; exact hn)
  rw [key pre [] hex (by simpa using hn)]

example : getExamples { demo with alias := some [("x", ["train", "gone"])] } "x" =
    .error .keyError := by
  simp [getExamples, demo, lookup, keysOf, collectAlias, intersects, bind, Except.bind]

/-- An empty dataset is rejected with `RuntimeError`. -/
theorem C19_empty_rejected (d : Desc) (name : String)
    (ha : lookup (d.alias.getD []) name = none) (hd : lookup d.datasets name = some []) :
    getExamples d name = .error .runtimeError := by
  rw [getExamples_dataset d name ha, hd]; rfl

example : getExamples demo "empty" = .error .runtimeError := by
  simp [getExamples, demo, lookup, bind, Except.bind]

/-- An alias whose members exist and are all empty (in particular an alias without members) is
    rejected with `RuntimeError`. -/
theorem C19_empty_rejected_alias (d : Desc) (name : String) (members : List String)
    (ha : lookup (d.alias.getD []) name = some members)
    (hempty : ∀ m, m ∈ members → lookup d.datasets m = some []) :
    getExamples d name = .error .runtimeError := by
  have hme : memberExamples d.datasets members = [] := by
    simp only [memberExamples, List.flatten_eq_nil_iff, List.mem_map]
    rintro l ⟨m, hm, rfl⟩
    rw [hempty m hm]; rfl
  have hc := collectAlias_ok d.datasets members [] (fun m hm => ⟨[], hempty m hm⟩)
    (by rw [hme]; simp)
  rw [getExamples_alias d name members ha, hc, hme]; rfl

example : getExamples { demo with alias := some [("e", ["empty", "empty"])] } "e" =
    .error .runtimeError := by
  simp [getExamples, demo, lookup, keysOf, collectAlias, intersects, update, bind, Except.bind]

/-! ### `get_dataset([n1, n2, …])` -/

/-- A list of names is processed name by name: the defining equation. -/
theorem C19_list_concat_cons (d : Desc) (n : String) (rest : List String) :
    getMany d (n :: rest) =
      (do let a ← getExamples d n; let b ← getMany d rest; .ok (a ++ b)) := rfl

example : getMany demo [] = .ok [] := rfl

/-- A list of names yields the concatenation of the results of `get_examples`, in order, and
    succeeds exactly when every name succeeds.  (`examplesOr d n` is the result of
    `getExamples d n` if it is `.ok`.) -/
theorem C19_list_concat (d : Desc) (names : List String) (exs : Examples) :
    getMany d names = .ok exs ↔
      (∀ n, n ∈ names → ∃ p, getExamples d n = .ok p) ∧
        exs = (names.map (examplesOr d)).flatten :=
  getMany_ok_iff d names exs

example : (getMany demo ["dev", "train"]).map keysOf = .ok ["c", "a", "b"] := by
  simp [getMany, getExamples, demo, lookup, keysOf, bind, Except.bind, Except.map]

/-- The same in monadic form, which also says which error is raised: the first one. -/
theorem C19_list_concat_mapM (d : Desc) (names : List String) :
    getMany d names = (do let parts ← names.mapM (getExamples d); .ok parts.flatten) :=
  getMany_mapM d names

example : getMany demo ["dev", "nope", "empty"] = .error .keyError := by
  simp [getMany, getExamples, demo, lookup, bind, Except.bind]

/-! ### `_merge_database_dicts` -/

/-- A single description is returned as it is. -/
theorem C19_merge_single (d : Desc) : merge [d] = .ok d := rfl

example : (merge [demo]).map (·.extra) = .ok ["meta"] := rfl

/-- A later description with other top-level keys than `datasets` / `alias` is rejected. -/
theorem C19_reject_extra (d₁ d₂ : Desc) (hx : d₂.extra ≠ []) :
    merge [d₁, d₂] = .error .assertionError :=
  mergeInto_one_extra d₁ d₂ hx

example : (merge [demoLater, demo]).toOption.isNone = true := by
  simp [merge, mergeInto, demo, Except.toOption]

/-- A dataset name or alias name of the later description that is a dataset name or alias name
    of the first one is rejected. -/
theorem C19_reject_duplicates (d₁ d₂ : Desc) (n : String)
    (hn : n ∈ keysOf d₂.datasets ++ keysOf (d₂.alias.getD []))
    (ht : n ∈ keysOf d₁.datasets ++ keysOf (d₁.alias.getD [])) :
    merge [d₁, d₂] = .error .assertionError :=
  mergeInto_one_clash d₁ d₂ n hn ht

example : (merge [demo, { demoLater with alias := some [("train", ["test"])] }]).toOption.isNone
    = true := by
  simp [merge, mergeInto, demo, demoLater, keysOf, intersects, Except.toOption]

/-- Merging is total on what is left: if the later description has only `datasets` / `alias`
    and reuses no name, the merge succeeds; extra top-level keys of the FIRST description are kept;
    the dataset table is the first one followed by the later one, and lookups see the later
    description first; the alias table likewise, where either description may lack an alias section
    (`none` is read as the empty table).  `hn₁`, `hn₂`: the later description is a dict (distinct
    names); without them `lookup` (first entry) and `update` (last entry wins) disagree, see
    `C19_merge_total_counterexample`. -/
theorem C19_merge_total (d₁ d₂ : Desc) (hx : d₂.extra = [])
    (hc : ∀ n, n ∈ keysOf d₂.datasets ++ keysOf (d₂.alias.getD []) →
      n ∉ keysOf d₁.datasets ++ keysOf (d₁.alias.getD []))
    (hn₁ : (keysOf d₂.datasets).Nodup) (hn₂ : (keysOf (d₂.alias.getD [])).Nodup) :
    ∃ m, merge [d₁, d₂] = .ok m ∧ m.extra = d₁.extra ∧
      (∀ n, lookup m.datasets n =
        (lookup d₂.datasets n).orElse (fun _ => lookup d₁.datasets n)) ∧
      (∀ n, lookup (m.alias.getD []) n =
        (lookup (d₂.alias.getD []) n).orElse (fun _ => lookup (d₁.alias.getD []) n)) ∧
      m.datasets = d₁.datasets ++ d₂.datasets ∧
      m.alias.getD [] = d₁.alias.getD [] ++ d₂.alias.getD [] ∧
      m.alias.isSome = (d₁.alias.isSome || d₂.alias.isSome) := by
  refine ⟨_, mergeInto_one_ok d₁ d₂ hx hc, rfl, ?_, ?_, ?_, ?_, ?_⟩
  · intro n; exact lookup_update _ hn₁ n
  · intro n
    cases hal : d₂.alias with
    | none => simp
    | some al =>
      rw [hal] at hn₂
      exact lookup_update _ hn₂ n
  · exact update_eq_append (fun k hk hk' => hc k (by simp [hk]) (by simp [hk'])) hn₁
  · cases hal : d₂.alias with
    | none => simp
    | some al =>
      rw [hal] at hn₂ hc
      exact update_eq_append (fun k hk hk' => hc k (by simp [hk]) (by simp [hk'])) hn₂
  · cases d₂.alias <;> simp

/-- the defect before the fix: only the later description has an alias section, and the first one
    has an extra top-level key -/
example : (merge [demoPlain, demoLater]).map (fun m => (keysOf m.datasets, m.alias, m.extra)) =
    .ok (["train", "test"], some [("eval", ["test"])], ["meta"]) := by
  simp [merge, mergeInto, demoPlain, demoLater, keysOf, intersects, update, lookup, Except.map]

/-- Without distinct names in the later description the lookup clause of `C19_merge_total` fails:
    `update` keeps the last value of a repeated key, `lookup` finds the first. -/
theorem C19_merge_total_counterexample :
    ∃ d₁ d₂ m, d₂.extra = [] ∧ merge [d₁, d₂] = .ok m ∧
      lookup m.datasets "a" ≠ (lookup d₂.datasets "a").orElse (fun _ => lookup d₁.datasets "a") :=
  ⟨⟨[], none, []⟩, ⟨[("a", []), ("a", [("x", [])])], none, []⟩, _, rfl, rfl, by
    simp [update, lookup]⟩

/-- The lookup clauses without any distinctness hypothesis: the LAST entry of a repeated name in
    the later description wins. -/
theorem C19_merge_total_last_wins (d₁ d₂ : Desc) (hx : d₂.extra = [])
    (hc : ∀ n, n ∈ keysOf d₂.datasets ++ keysOf (d₂.alias.getD []) →
      n ∉ keysOf d₁.datasets ++ keysOf (d₁.alias.getD [])) :
    ∃ m, merge [d₁, d₂] = .ok m ∧ m.extra = d₁.extra ∧
      (∀ n, lookup m.datasets n =
        (lookup d₂.datasets.reverse n).orElse (fun _ => lookup d₁.datasets n)) ∧
      (∀ n, lookup (m.alias.getD []) n =
        (lookup (d₂.alias.getD []).reverse n).orElse (fun _ => lookup (d₁.alias.getD []) n)) := by
  refine ⟨_, mergeInto_one_ok d₁ d₂ hx hc, rfl, ?_, ?_⟩
  · intro n; exact lookup_update_last _ _ n
  · intro n
    cases hal : d₂.alias with
    | none => simp
    | some al => exact lookup_update_last _ _ n

example : (merge [demo, demoLater]).map (fun m => keysOf (m.alias.getD [])) =
    .ok ["all", "bad", "eval"] := by
  simp [merge, mergeInto, demo, demoLater, keysOf, intersects, update, lookup, Except.map]

/-- After a successful merge of two descriptions WITHOUT alias sections, `get_examples` on the
    merged description agrees with `get_examples` on the description the dataset name comes from,
    and names of neither description are unknown.  `hn`: the later description is a dict.
    Left out: descriptions with alias sections (an alias name of `d₁` may shadow a dataset name of
    `d₁` itself, which the merge does not check), and requests for alias names. -/
theorem C19_merged_dataset_lookup (d₁ d₂ m : Desc) (h₁ : d₁.alias = none) (h₂ : d₂.alias = none)
    (hn : (keysOf d₂.datasets).Nodup) (hm : merge [d₁, d₂] = .ok m) (n : String) :
    (n ∈ keysOf d₁.datasets → getExamples m n = getExamples d₁ n) ∧
    (n ∈ keysOf d₂.datasets → getExamples m n = getExamples d₂ n) ∧
    (n ∉ keysOf d₁.datasets → n ∉ keysOf d₂.datasets → getExamples m n = .error .keyError) := by
  obtain ⟨hx, hc⟩ := mergeInto_one_inv (show mergeInto d₁ [d₂] = .ok m from hm)
  have hm' := mergeInto_one_ok d₁ d₂ hx hc
  rw [show mergeInto d₁ [d₂] = .ok m from hm] at hm'
  injection hm' with hm'
  have hma : m.alias = none := by rw [hm', h₂]; exact h₁
  have hmd : ∀ k, lookup m.datasets k =
      (lookup d₂.datasets k).orElse (fun _ => lookup d₁.datasets k) := by
    intro k; rw [hm']; exact lookup_update _ hn k
  have ha : ∀ (d : Desc), d.alias = none → lookup (d.alias.getD []) n = none := by
    intro d hd; rw [hd]; rfl
  rw [getExamples_dataset m n (ha m hma), getExamples_dataset d₁ n (ha d₁ h₁),
    getExamples_dataset d₂ n (ha d₂ h₂), hmd n]
  refine ⟨?_, ?_, ?_⟩
  · intro h
    have : n ∉ keysOf d₂.datasets := fun h' =>
      hc n (by simp [newNames, h']) (by simp [takenNames, h])
    rw [(lookup_eq_none_iff _ _).2 this]; rfl
  · intro h
    obtain ⟨v, hv⟩ := Option.isSome_iff_exists.1 ((lookup_isSome_iff _ _).2 h)
    rw [hv]; rfl
  · intro h h'
    rw [(lookup_eq_none_iff _ _).2 h, (lookup_eq_none_iff _ _).2 h']; rfl

example : (merge [demoPlain, { demoLater with alias := none }]).bind
      (fun m => (getExamples m "test").map keysOf) = .ok ["t"] := by
  simp [merge, mergeInto, demoPlain, demoLater, keysOf, intersects, update, lookup, getExamples,
    bind, Except.bind, Except.map]

/-! ### `_get_dataset` and the weak memo -/

/-- (i) Repeated requests are served from one shared dataset while it is alive: once `get name`
    has returned the object `id`, then after arbitrary further operations other than `gc name`
    (requests for any name, collection of other names) `get name` returns the same identity and
    the same examples. -/
theorem C19_memo_shared (d : Desc) (s : MemoSt) (name : String) (ops : List MOp) (id : Nat)
    (ex : Examples) (h : (mstep d s (.get name)).2 = some (.ok (id, ex)))
    (hops : ∀ op, op ∈ ops → op ≠ .gc name) :
    (mstep d (mrun d (mstep d s (.get name)).1 ops) (.get name)).2 = some (.ok (id, ex)) := by
  obtain ⟨hl, hg⟩ := lookup_after_get h
  have hl' := mrun_keeps d _ ops name id hops hl
  rcases mstep_get_cases d (mrun d (mstep d s (.get name)).1 ops) name with
    ⟨e, he, _⟩ | ⟨ex', id', hg', hl'', h'⟩ | ⟨ex', _, hl'', _⟩
  · rw [hg] at he; cases he
  · rw [hg] at hg'; rw [hl'] at hl''
    injection hg' with hg'; injection hl'' with hl''
    rw [h', hg', hl'']
  · rw [hl'] at hl''; cases hl''

example : (mstep demo (mrun demo (mstep demo ⟨[], 0⟩ (.get "dev")).1
      [.get "train", .gc "train", .get "train", .get "dev"]) (.get "dev")).2.map
      (fun r => r.map (·.1)) = some (.ok 0) := by
  simp [mstep, mrun, getExamples, demo, lookup, bind, Except.bind, Except.map]

/-- (ii) After the object for `name` has been collected, the next request builds a FRESH object
    (its identity is the state's next identity, larger than the identity `id₀` handed out before
    and than every identity still in the memo) with EQUAL examples.  `MemoWF s`: every identity in
    the memo is below `s.next`; it holds initially (`⟨[], 0⟩`) and is preserved by every step
    (`memoWF_mstep`). -/
theorem C19_memo_fresh_after_gc (d : Desc) (s : MemoSt) (hs : MemoWF s) (name : String)
    (ops : List MOp) (id₀ : Nat) (ex : Examples)
    (h : (mstep d s (.get name)).2 = some (.ok (id₀, ex))) :
    let s₂ := mrun d (mstep d s (.get name)).1 ops
    let s₃ := (mstep d s₂ (.gc name)).1
    (mstep d s₃ (.get name)).2 = some (.ok (s₃.next, ex)) ∧ id₀ < s₃.next ∧
      (∀ p, p ∈ s₃.memo → p.2 < s₃.next) ∧ s.next ≤ s₃.next := by
  intro s₂ s₃
  obtain ⟨hl, hg⟩ := lookup_after_get h
  have hwf1 := memoWF_mstep d s (.get name) hs
  have hlt := lookup_lt_next hwf1 hl
  have hle2 : (mstep d s (.get name)).1.next ≤ s₂.next := mrun_next_le d _ ops
  have hle3 : s₂.next ≤ s₃.next := mstep_next_le d s₂ (.gc name)
  have hwf3 : MemoWF s₃ := memoWF_mstep d s₂ _ (memoWF_mrun d _ ops hwf1)
  refine ⟨?_, by omega, hwf3, ?_⟩
  · have hnone : lookup s₃.memo name = none := lookup_after_gc d s₂ name
    rcases mstep_get_cases d s₃ name with ⟨e, he, _⟩ | ⟨_, _, _, hl', _⟩ | ⟨ex', hg', _, h'⟩
    · rw [hg] at he; cases he
    · rw [hnone] at hl'; cases hl'
    · rw [hg] at hg'; injection hg' with hg'
      rw [h', hg']
  · have := mstep_next_le d s (.get name)
    omega

example : (mstep demo (mstep demo (mstep demo ⟨[], 0⟩ (.get "dev")).1 (.gc "dev")).1
      (.get "dev")).2.map (fun r => r.map (·.1)) = some (.ok 1) := by
  simp [mstep, getExamples, demo, lookup, bind, Except.bind, Except.map]

/-- (iii) The examples a request returns never depend on the memo state: they are
    `get_examples` of the description.  Conversely a request fails exactly as `get_examples`. -/
theorem C19_memo_examples_independent (d : Desc) (s : MemoSt) (name : String) :
    (∀ id ex, (mstep d s (.get name)).2 = some (.ok (id, ex)) → getExamples d name = .ok ex) ∧
    (∀ e, (mstep d s (.get name)).2 = some (.error e) ↔ getExamples d name = .error e) := by
  rcases mstep_get_cases d s name with ⟨e, he, h⟩ | ⟨ex, id, hg, _, h⟩ | ⟨ex, hg, _, h⟩ <;>
    rw [h] <;> simp_all

example : (mstep demo ⟨[("empty", 7)], 8⟩ (.get "empty")).2 = some (.error .runtimeError) := by
  simp [mstep, getExamples, demo, lookup, bind, Except.bind]

/-! ### The source descriptions are not changed -/

/-- REMARK.  In this functional model a description is an immutable value: `getExamples`,
    `getMany`, `merge` and `mstep` are pure functions of `d` and return new values, so "the
    description is unchanged by a request" cannot even be violated here, and asking twice gives the
    same answer (`rfl`), whatever happened in between (`C19_memo_examples_independent`).  The
    corresponding claim about the real code -- `get_examples` and `_merge_database_dicts` do not
    write to the dictionaries they are given (the `{**a, **b}` copies, the two-level copy in
    `_merge_database_dicts`) -- is NOT established by this theorem; it is established by the
    correspondence check of the Python harness, which compares the source dictionaries before and
    after each call. -/
theorem C19_sources_unchanged (d : Desc) (name : String) (names : List String)
    (r₁ r₂ : Res Examples) (q₁ q₂ : Res Examples)
    (h₁ : r₁ = getExamples d name) (_between : q₁ = getMany d names)
    (h₂ : r₂ = getExamples d name) (_after : q₂ = getMany d names) : r₁ = r₂ ∧ q₁ = q₂ := by
  subst h₁ h₂ _between _after; exact ⟨rfl, rfl⟩

example : getExamples demo "train" = getExamples demo "train" := rfl

end LazyDs

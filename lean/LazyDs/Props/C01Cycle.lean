import LazyDs.Model.Stage
/-
  C01 (cycle) — the first `k` examples of a cycled dataset (`itertools.islice(ds.cycle(), k)`,
  modelled by `cycleTake`) are what the eager list semantics says, for every `k`:
  the `k`-prefix of the endless repetition of the input's iteration.

  `cycleTake s fuel k` : `s` is one iteration of the input, `k` the number of examples asked for,
  `fuel` bounds the number of passes; the driver calls it as `cycleTake d.iter (k + 1) k`.
-/
namespace LazyDs

/-! ### list facts about the repetition of a list -/

/-- `l` repeated `m` times -/
private theorem flatten_replicate_succ {α} (m : Nat) (l : List α) :
    (List.replicate (m + 1) l).flatten = l ++ (List.replicate m l).flatten := by
  simp [List.replicate_succ]

private theorem length_flatten_replicate {α} (m : Nat) (l : List α) :
    ((List.replicate m l).flatten).length = m * l.length := by
  induction m with
  | zero => simp
  | succ m ih => rw [flatten_replicate_succ, List.length_append, ih, Nat.succ_mul, Nat.add_comm]

/-- element `t` of the repetition is element `t % n` of the period -/
theorem getElem?_flatten_replicate {α} (l : List α) (m t : Nat) (h : t < m * l.length) :
    ((List.replicate m l).flatten)[t]? = l[t % l.length]? := by
  induction m generalizing t with
  | zero => simp at h
  | succ m ih =>
    rw [flatten_replicate_succ]
    by_cases ht : t < l.length
    · rw [List.getElem?_append_left ht, Nat.mod_eq_of_lt ht]
    · have hle : l.length ≤ t := Nat.le_of_not_lt ht
      rw [List.getElem?_append_right hle, ih (t - l.length) (by rw [Nat.succ_mul] at h; omega),
        Nat.mod_eq_sub_mod hle]

/-- a `k`-prefix of the repetition does not depend on how many (enough) periods are laid out -/
theorem take_flatten_replicate_congr {α} (l : List α) (k m m' : Nat)
    (hm : k ≤ m * l.length) (hm' : k ≤ m' * l.length) :
    ((List.replicate m l).flatten).take k = ((List.replicate m' l).flatten).take k := by
  have key : ∀ a b : Nat, k ≤ a * l.length →
      ((List.replicate (a + b) l).flatten).take k = ((List.replicate a l).flatten).take k := by
    intro a b ha
    rw [← List.replicate_append_replicate, List.flatten_append,
      List.take_append_of_le_length (by rw [length_flatten_replicate]; exact ha)]
  by_cases hmm : m ≤ m'
  · obtain ⟨b, rfl⟩ := Nat.exists_eq_add_of_le hmm
    exact (key m b hm).symm
  · obtain ⟨b, rfl⟩ := Nat.exists_eq_add_of_le (Nat.le_of_not_le hmm)
    exact key m' b hm'

private theorem lt_div_succ_mul (k n : Nat) (hn : 0 < n) : k < (k / n + 1) * n := by
  have := Nat.lt_mul_div_succ k hn
  rw [Nat.mul_comm]; exact this

/-! ### unfolding `cycleTake` -/

theorem cycleTake_succ_ok (s : Stream Val) (fuel k : Nat) (he : s.err = none) (hne : s.vals ≠ []) :
    cycleTake s (fuel + 1) k =
      if k ≤ s.vals.length then ⟨s.vals.take k, none⟩
      else ⟨s.vals ++ (cycleTake s fuel (k - s.vals.length)).vals,
            (cycleTake s fuel (k - s.vals.length)).err⟩ := by
  have hemp : s.vals.isEmpty = false := by
    cases hv : s.vals with
    | nil => exact absurd hv hne
    | cons _ _ => rfl
  simp only [cycleTake, he, hemp]
  rfl

/-- closed form, with the general fuel bound: one unit of fuel per (started) period -/
theorem cycleTake_closed (s : Stream Val) (he : s.err = none) (hne : s.vals ≠ []) :
    ∀ (fuel k : Nat), k < fuel * s.vals.length + 1 → 0 < fuel →
      cycleTake s fuel k =
        ⟨((List.replicate (k / s.vals.length + 1) s.vals).flatten).take k, none⟩ := by
  have hn : 0 < s.vals.length := List.length_pos_iff.mpr hne
  intro fuel
  induction fuel with
  | zero => intro k _ h0; exact absurd h0 (Nat.lt_irrefl 0)
  | succ fuel ih =>
    intro k hk _
    rw [cycleTake_succ_ok s fuel k he hne]
    by_cases hkn : k ≤ s.vals.length
    · rw [if_pos hkn, flatten_replicate_succ, List.take_append_of_le_length hkn]
    · rw [if_neg hkn]
      have hlt : s.vals.length < k := Nat.lt_of_not_le hkn
      have hfuel : 0 < fuel := by
        rcases Nat.eq_zero_or_pos fuel with h0 | h0
        · subst h0; simp at hk; omega
        · exact h0
      have hk' : k - s.vals.length < fuel * s.vals.length + 1 := by
        rw [Nat.succ_mul] at hk; omega
      rw [ih (k - s.vals.length) hk' hfuel]
      have hdiv : k / s.vals.length = (k - s.vals.length) / s.vals.length + 1 := by
        rw [Nat.div_eq_sub_div hn (Nat.le_of_lt hlt)]
      rw [hdiv, flatten_replicate_succ ((k - s.vals.length) / s.vals.length + 1),
        List.take_append (l₁ := s.vals), List.take_of_length_le (Nat.le_of_lt hlt)]

private theorem fuel_bound (n k fuel : Nat) (hn : 0 < n) (hf : k < fuel) :
    k < fuel * n + 1 ∧ 0 < fuel := by
  refine ⟨?_, by omega⟩
  have : fuel * 1 ≤ fuel * n := Nat.mul_le_mul_left fuel hn
  omega

/-! ### the theorems -/

/-- Closed form: the first `k` examples of the cycled dataset are the `k`-prefix of the input's
    iteration repeated `k / n + 1` times.  Covers the driver's call `cycleTake d.iter (k + 1) k`. -/
theorem C01_cycle_closed (s : Stream Val) (k fuel : Nat) (he : s.err = none) (hne : s.vals ≠ [])
    (hf : k < fuel) :
    cycleTake s fuel k =
      ⟨((List.replicate (k / s.vals.length + 1) s.vals).flatten).take k, none⟩ := by
  have hn : 0 < s.vals.length := List.length_pos_iff.mpr hne
  obtain ⟨h1, h2⟩ := fuel_bound s.vals.length k fuel hn hf
  exact cycleTake_closed s he hne fuel k h1 h2

theorem C01_cycle_closed_vals (s : Stream Val) (k fuel : Nat) (he : s.err = none)
    (hne : s.vals ≠ []) (hf : k < fuel) :
    (cycleTake s fuel k).vals =
      ((List.replicate (k / s.vals.length + 1) s.vals).flatten).take k := by
  rw [C01_cycle_closed s k fuel he hne hf]

/-- The first `k` examples of a cycled dataset: no error, exactly `k` of them, and the `t`-th is
    the `(t mod n)`-th example of the input. -/
theorem C01_cycle_prefix (s : Stream Val) (k fuel : Nat) (he : s.err = none) (hne : s.vals ≠ [])
    (hf : k < fuel) :
    (cycleTake s fuel k).err = none ∧ (cycleTake s fuel k).vals.length = k ∧
      ∀ t, t < k → (cycleTake s fuel k).vals[t]? = s.vals[t % s.vals.length]? := by
  have hn : 0 < s.vals.length := List.length_pos_iff.mpr hne
  have hlt := lt_div_succ_mul k s.vals.length hn
  rw [C01_cycle_closed s k fuel he hne hf]
  refine ⟨rfl, ?_, ?_⟩
  · show (List.take k _).length = k
    rw [List.length_take, length_flatten_replicate]
    exact Nat.min_eq_left (Nat.le_of_lt hlt)
  · intro t ht
    show (List.take k _)[t]? = _
    rw [List.getElem?_take_of_lt ht]
    exact getElem?_flatten_replicate s.vals _ t (Nat.lt_trans ht hlt)

/-- The same with total indexing: the `t`-th example is `s.vals[t % n]`. -/
theorem C01_cycle_getElem (s : Stream Val) (k fuel : Nat) (he : s.err = none) (hne : s.vals ≠ [])
    (hf : k < fuel) (t : Nat) (ht : t < k) :
    (cycleTake s fuel k).vals[t]? =
      some (s.vals[t % s.vals.length]'(Nat.mod_lt _ (List.length_pos_iff.mpr hne))) := by
  rw [(C01_cycle_prefix s k fuel he hne hf).2.2 t ht, List.getElem?_eq_getElem]

/-- A failing input ends the cycle at its first failure, exactly like one pass over the input. -/
theorem C01_cycle_failing (s : Stream Val) (k fuel : Nat) (e : Err) (he : s.err = some e)
    (hf : 0 < fuel) :
    cycleTake s fuel k =
      if k ≤ s.vals.length then ⟨s.vals.take k, none⟩ else ⟨s.vals, some e⟩ := by
  obtain ⟨fuel, rfl⟩ := Nat.exists_eq_succ_of_ne_zero (Nat.ne_of_gt hf)
  simp only [cycleTake, he]

/-- `islice` of a longer prefix extends the shorter one. -/
theorem C01_cycle_mono (s : Stream Val) (k k' fuel fuel' : Nat) (he : s.err = none)
    (hne : s.vals ≠ []) (hkk : k ≤ k') (hf : k < fuel) (hf' : k' < fuel') :
    (cycleTake s fuel k).vals = (cycleTake s fuel' k').vals.take k ∧
      (cycleTake s fuel k).err = (cycleTake s fuel' k').err := by
  have hn : 0 < s.vals.length := List.length_pos_iff.mpr hne
  rw [C01_cycle_closed s k fuel he hne hf, C01_cycle_closed s k' fuel' he hne hf']
  refine ⟨?_, rfl⟩
  show List.take k _ = List.take k (List.take k' _)
  rw [List.take_take, Nat.min_eq_left hkk]
  exact take_flatten_replicate_congr s.vals k _ _
    (Nat.le_of_lt (lt_div_succ_mul k _ hn))
    (Nat.le_trans hkk (Nat.le_of_lt (lt_div_succ_mul k' _ hn)))

/-- Any fuel above `k` gives the same result: the fuel only guards termination. -/
theorem C01_cycle_fuel_irrelevant (s : Stream Val) (k fuel fuel' : Nat) (he : s.err = none)
    (hne : s.vals ≠ []) (hf : k < fuel) (hf' : k < fuel') :
    cycleTake s fuel k = cycleTake s fuel' k := by
  rw [C01_cycle_closed s k fuel he hne hf, C01_cycle_closed s k fuel' he hne hf']

/-- What the driver computes: `cycleTake d.iter (k + 1) k`. -/
theorem C01_cycle_driver (s : Stream Val) (k : Nat) (he : s.err = none) (hne : s.vals ≠ []) :
    cycleTake s (k + 1) k =
      ⟨((List.replicate (k / s.vals.length + 1) s.vals).flatten).take k, none⟩ :=
  C01_cycle_closed s k (k + 1) he hne (Nat.lt_succ_self k)

/-- The bound `k < fuel` is not necessary; the sharp one is one unit of fuel per started period.
    With less fuel the result is cut short (so `hf` cannot be dropped): -/
example : (cycleTake ⟨[.int 1, .int 2], none⟩ 1 3).vals.length = 2 := by
  simp [cycleTake, Stream.nil]

/-! ### non-vacuity -/

example : (cycleTake ⟨[.int 1, .int 2, .int 3], none⟩ 8 7).vals
    = [.int 1, .int 2, .int 3, .int 1, .int 2, .int 3, .int 1] := by
  simp [cycleTake]

example : (cycleTake ⟨[.int 1, .int 2, .int 3], none⟩ 8 7).err = none := by
  simp [cycleTake]

example : (cycleTake ⟨[.int 1, .int 2, .int 3], some .valueError⟩ 8 7).vals
    = [.int 1, .int 2, .int 3] ∧
    (cycleTake ⟨[.int 1, .int 2, .int 3], some .valueError⟩ 8 7).err = some .valueError := by
  simp [cycleTake]

example : (cycleTake ⟨[.int 1, .int 2, .int 3], some .valueError⟩ 8 2).vals = [.int 1, .int 2] ∧
    (cycleTake ⟨[.int 1, .int 2, .int 3], some .valueError⟩ 8 2).err = none := by
  simp [cycleTake]

end LazyDs

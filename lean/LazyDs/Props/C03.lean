import LazyDs.Lemmas.Sound
/-
  C03 — keys(), items() and key lookup are aligned with iteration order.
  (The clause "an absent key raises" is in `Lemmas/AbsentKey.lean`: it holds for sources, map,
  items, cache, concatenate, intersperse, key_zip and is FALSE for slice-like stages — known
  finding F15, `absent_slice_counterexample`.)
-/
namespace LazyDs

/-- With a key table on an indexable dataset: one key per example, `items()` yields exactly the
    pairs `(keys[t], t-th iterated example)` in that order, and raises exactly when iteration does. -/
theorem C03_keys_aligned (ρ : Env) (hρ : EnvOK ρ) (p : Pipeline) (ha : Adm ρ p) (d : DS)
    (h : build ρ p = .ok d) (hi : d.indexable = true) (ks : List String) (hk : d.keys = .ok ks) :
    d.len = .ok ks.length ∧
    d.iterK.vals.map (·.2) = d.iter.vals ∧
    d.iterK.vals.map (·.1) = ks.take d.iterK.vals.length ∧
    d.iterK.err = d.iter.err := by
  obtain ⟨r, hr, hrel⟩ := build_ref ρ hρ p ha d h
  have wf := ref_wf ρ p ha r hr
  have hri : r.indexable = true := by rw [← hrel.indexable]; exact hi
  have hrk : r.keys = .ok ks := by rw [← hrel.keys]; exact hk
  obtain ⟨h1, h2, h3⟩ := wf.keyed ks hrk hri
  refine ⟨?_, ?_, ?_, ?_⟩
  · rw [hrel.len, wf.lenOuts hri, wf.keysLen hri ks hrk]
  · rw [hrel.iterK, hrel.iter]; exact h2
  · rw [hrel.iterK]; exact h3
  · rw [hrel.iterK, hrel.iter]; exact h1

/-- When iteration ends normally there is exactly one key per yielded example (also for an empty selection). -/
theorem C03_keys_one_per_example (ρ : Env) (hρ : EnvOK ρ) (p : Pipeline) (ha : Adm ρ p) (d : DS)
    (h : build ρ p = .ok d) (hi : d.indexable = true) (ks : List String) (hk : d.keys = .ok ks)
    (he : d.iter.err = none) : ks.length = d.iter.vals.length ∧ d.iterK.vals.map (·.1) = ks := by
  obtain ⟨r, hr, hrel⟩ := build_ref ρ hρ p ha d h
  have wf := ref_wf ρ p ha r hr
  have hri : r.indexable = true := by rw [← hrel.indexable]; exact hi
  have hrk : r.keys = .ok ks := by rw [← hrel.keys]; exact hk
  obtain ⟨h1, h2, h3⟩ := wf.keyed ks hrk hri
  have he' : r.stream.err = none := by rw [← hrel.iter]; exact he
  have hlen : r.stream.vals.length = r.outs.length := (wf.pos hri).2.2 he'
  have hkl := wf.keysLen hri ks hrk
  have hkv : r.kstream.vals.length = r.stream.vals.length := by
    rw [← h2, List.length_map]
  refine ⟨?_, ?_⟩
  · rw [hrel.iter, hkl, hlen]
  · rw [hrel.iterK, h3, hkv, hlen, ← hkl, List.take_length]

/-- Every dataset (derived by filtering, prefetching, catching, … included): what `items()` yields
    is a correctly paired prefix of what iteration yields, and if `items()` does not raise it is
    complete — it pairs every yielded example or refuses loudly. -/
theorem C03_items_pair_or_refuse (ρ : Env) (hρ : EnvOK ρ) (p : Pipeline) (ha : Adm ρ p) (d : DS)
    (h : build ρ p = .ok d) :
    (d.iterK.vals.map (·.2)) <+: d.iter.vals ∧
    (d.iterK.err = none → d.iterK.vals.map (·.2) = d.iter.vals ∧ d.iter.err = none) := by
  obtain ⟨r, hr, hrel⟩ := build_ref ρ hρ p ha d h
  have wf := ref_wf ρ p ha r hr
  rw [hrel.iterK, hrel.iter]
  exact wf.pairs

/-- `ds[key]` for the key listed at position `j` returns the example at position `j`. -/
theorem C03_getKey_present (ρ : Env) (hρ : EnvOK ρ) (p : Pipeline) (ha : Adm ρ p) (d : DS)
    (h : build ρ p = .ok d) (hi : d.indexable = true) (ks : List String) (hk : d.keys = .ok ks)
    (j : Nat) (hj : j < ks.length) : d.getKey ks[j] = d.getInt (j : Int) := by
  obtain ⟨r, hr, hrel⟩ := build_ref ρ hρ p ha d h
  have hri : r.indexable = true := by rw [← hrel.indexable]; exact hi
  have hrk : r.keys = .ok ks := by rw [← hrel.keys]; exact hk
  rw [hrel.getKey hri ks hrk j hj, (hrel.idx hri).2]

/-- … and that is the j-th iterated example whenever iteration reaches position j. -/
theorem C03_getKey_is_iterated_example (ρ : Env) (hρ : EnvOK ρ) (p : Pipeline) (ha : Adm ρ p) (d : DS)
    (h : build ρ p = .ok d) (hi : d.indexable = true) (ks : List String) (hk : d.keys = .ok ks)
    (j : Nat) (hj : j < ks.length) (hjv : j < d.iter.vals.length) : d.getKey ks[j] = .ok d.iter.vals[j] := by
  rw [C03_getKey_present ρ hρ p ha d h hi ks hk j hj]
  obtain ⟨r, hr, hrel⟩ := build_ref ρ hρ p ha d h
  have wf := ref_wf ρ p ha r hr
  have hri : r.indexable = true := by rw [← hrel.indexable]; exact hi
  obtain ⟨hle, hpos, _⟩ := wf.pos hri
  have hit := hrel.iter
  have ht' : j < r.stream.vals.length := by rw [← hit]; exact hjv
  have hlt : j < r.outs.length := Nat.lt_of_lt_of_le ht' hle
  rw [(hrel.idx hri).2, outAt_lt _ j hlt]
  have := hpos j ht'
  rw [List.getElem?_eq_getElem hlt] at this
  injection this with this
  rw [this]
  congr 1
  simp only [hit]

/-- The empty selection has the empty key table (the defect F2, fixed: it used to raise `TypeError`). -/
theorem C03_empty_selection_keys :
    ∃ d, build menuEnv (.slice (.range (some 0) (some 0) none) (.dictSrc [("a", .int 1), ("b", .int 2)])) = .ok d ∧
      d.keys = .ok [] ∧ d.len = .ok 0 ∧ d.iter = ⟨[], none⟩ := ⟨_, rfl, rfl, rfl, rfl⟩

/-- A slice forwards key lookup to its input without consulting the selection (known finding F15). -/
theorem C03_getKey_absent_slice_counterexample :
    ∃ d, build menuEnv (.slice (.range (some 1) none none) (.dictSrc [("a", .int 1), ("b", .int 2)])) = .ok d ∧
      d.keys = .ok ["b"] ∧ d.getKey "a" = .ok (.int 1) := ⟨_, rfl, rfl, rfl⟩

end LazyDs

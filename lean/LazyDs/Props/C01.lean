import LazyDs.Lemmas.Sound
/-
  C01 — iterating a pipeline equals the eager reference semantics.

  `build ρ p` is the model of the lazy code (`LazyDs/Model/Stage.lean`, validated against
  /repo on every run by the correspondence check); `ref ρ p` evaluates the same pipeline with
  eager list operations on plain data (`LazyDs/Spec/Ref.lean`).  The theorems hold for EVERY
  pipeline `p` (any composition, any depth), every source, every parameter and every
  interpretation `ρ` of the user functions (functions that may raise anything but `IndexError`).
-/
namespace LazyDs

/-- Iteration of the lazy pipeline yields exactly the stream of the eager reference — the values
    and how it ends (normally, or with which exception at which position). -/
theorem C01_iter_eq_ref (ρ : Env) (hρ : EnvOK ρ) (p : Pipeline) (ha : Adm ρ p) (d : DS)
    (h : build ρ p = .ok d) : ∃ r, ref ρ p = .ok r ∧ d.iter = r.stream := by
  obtain ⟨r, hr, hrel⟩ := build_ref ρ hρ p ha d h
  exact ⟨r, hr, hrel.iter⟩

/-- The same for iteration with keys (`items()`): same pairs, same order, same refusal. -/
theorem C01_items_eq_ref (ρ : Env) (hρ : EnvOK ρ) (p : Pipeline) (ha : Adm ρ p) (d : DS)
    (h : build ρ p = .ok d) : ∃ r, ref ρ p = .ok r ∧ d.iterK = r.kstream ∧
      (itemsDS d).iter = (Ref.items r).stream := by
  obtain ⟨r, hr, hrel⟩ := build_ref ρ hρ p ha d h
  refine ⟨r, hr, hrel.iterK, ?_⟩
  simp only [itemsDS, Ref.items, hrel.iterK, Ref.mapErr]

/-- Length, key table and indexability agree with the reference as well. -/
theorem C01_len_keys_eq_ref (ρ : Env) (hρ : EnvOK ρ) (p : Pipeline) (ha : Adm ρ p) (d : DS)
    (h : build ρ p = .ok d) : ∃ r, ref ρ p = .ok r ∧ d.len = r.len ∧ d.keys = r.keys ∧
      d.indexable = r.indexable := by
  obtain ⟨r, hr, hrel⟩ := build_ref ρ hρ p ha d h
  exact ⟨r, hr, hrel.len, hrel.keys, hrel.indexable⟩

/-- Positional access is Python list indexing of the reference's outcome list (negative indices
    wrap once, anything else outside raises `IndexError`). -/
theorem C01_getitem_eq_ref (ρ : Env) (hρ : EnvOK ρ) (p : Pipeline) (ha : Adm ρ p) (d : DS)
    (h : build ρ p = .ok d) (hi : d.indexable = true) :
    ∃ r, ref ρ p = .ok r ∧ ∀ i, d.getInt i = outAt r.outs i := by
  obtain ⟨r, hr, hrel⟩ := build_ref ρ hρ p ha d h
  exact ⟨r, hr, (hrel.idx (by rw [← hrel.indexable]; exact hi)).2⟩

/-- `copy()` (frozen or not) of a stateless pipeline denotes the same dataset. -/
theorem C01_copy_transparent (ρ : Env) (f : Bool) (p : Pipeline) : build ρ (.copy f p) = build ρ p := by
  simp only [build]

/-- The eager operations are what they should be on plain lists: a one-time shuffle, an eager
    filter, a sort and a shard are positional selections by an index list. -/
theorem C01_shuffle_is_reindex (perm : List Nat) (d : DS) (n : Nat) (hn : d.len = .ok n)
    (hp : perm.length = n) : mkShuffleOnce perm d = mkSlice (.idx (perm.map Int.ofNat)) d := by
  simp [mkShuffleOnce, hn, hp, bind, Except.bind]

/-- Python slicing: the positions a `slice(start, stop, step)` selects are exactly the arithmetic
    progression from the clamped start below (above) the clamped stop. -/
theorem C01_pyslice_spec_pos (n : Nat) (a b : Option Int) (st : Int) (hst : 0 < st) :
    pySliceIdx n a b (some st) = .ok ((List.range n).filter (fun j : Nat =>
      decide (clampBound n a 0 0 n ≤ (j : Int) ∧ (j : Int) < clampBound n b n 0 n ∧
        ((j : Int) - clampBound n a 0 0 n) % st = 0))) :=
  pySliceIdx_spec_pos n a b hst

theorem C01_pyslice_spec_neg (n : Nat) (a b : Option Int) (st : Int) (hst : st < 0) :
    pySliceIdx n a b (some st) = .ok ((List.range n).filter (fun j : Nat =>
      decide (clampBound n b (-1) (-1) (n - 1) < (j : Int) ∧ (j : Int) ≤ clampBound n a (n - 1) (-1) (n - 1) ∧
        (clampBound n a (n - 1) (-1) (n - 1) - (j : Int)) % (-st) = 0))).reverse :=
  pySliceIdx_spec_neg n a b hst

/-! non-vacuity: a concrete admissible pipeline of depth 3 with a failing user function -/
example : ∃ d, build menuEnv (.batch 2 false (.map (.add 10) (.slice (.range (some 1) none none)
    (.dictSrc [("a", .int 1), ("b", .int 2), ("c", .int 3), ("d", .int 4)])))) = .ok d ∧
    d.iter = ⟨[.list [.int 12, .int 13], .list [.int 14]], none⟩ := ⟨_, rfl, rfl⟩

end LazyDs

/-
  C11: `DiskCacheDataset` (persistent cache directory, process death), final theorems about the
  model `LazyDs.Disk`.

  Vocabulary (definitions in `LazyDs.Lemmas.CacheInv`):
  * `Disk.Good f s` : the invariant.  Every entry `(i, v)` of every existing directory has
    `v = f i ∧ i < s.n`, with at most one entry per `i` (`(keys es).Nodup`); every alive wrapper
    has `holders ≥ 1`, its directory exists, no two alive wrappers share a directory;
    `s.calls.length = s.n`.
  * `Disk.NoAliveOn s d` : no alive wrapper of `s` has directory `d`
    (`∀ wr ∈ s.wrappers, wr.alive = true → wr.dir ≠ d`).
  * `Disk.Reach f n ndirs s` : `∃ ops, (Disk.run f (Disk.init n ndirs) ops).1 = s`.
  Every theorem is followed by an `example` on the concrete history `Disk.Ex.hist` (16 operations
  on a dataset of length 4 with two directory names: two caches, a copy, a `kill` in the middle,
  a refused and a successful reopening, a dead wrapper, a clearing finaliser), with `V := Nat`
  and `fEx i = 10 * i + 7`; `sPre`, `sKilled`, `sReopen` are the states before the `kill`, after
  it, and after directory 1 was reopened.
-/
import LazyDs.Lemmas.CacheInv

namespace LazyDs

open Disk (St Op Out Wrapper step run init lookup keys Good NoAliveOn Reach)
open Disk.Ex

example : (run fEx (init 4 2) hist).2 =
    [.opened 0, .val 27, .ok, .opened 1, .val 37, .val 17, .ok, .ok,
     .refused, .opened 2, .val 37, .val 7, .bad, .ok, .opened 3, .val 27] := by decide
example : (run fEx (init 4 2) hist).1.dirs = [some [(2, 27)], none] := by decide
example : (run fEx (init 4 2) hist).1.calls = [1, 1, 1, 1] := by decide
example : sPre.dirs = [some [(2, 27)], some [(3, 37), (1, 17)]] ∧ sKilled.dirs = sPre.dirs := by
  decide

/-! ## The invariant -/

/-- The initial state (no directory exists, no wrapper) is `Good`. -/
theorem C11_good_init {V : Type} (f : Nat → V) (n ndirs : Nat) : Good f (init n ndirs) :=
  Disk.good_init f n ndirs

example : (init 4 2 : St Nat) = ⟨4, [none, none], [], [0, 0, 0, 0]⟩ := by decide

/-- EVERY operation preserves `Good`, including `kill` (the process dies without running any
    finaliser). -/
theorem C11_good_step {V : Type} (f : Nat → V) (s : St V) (op : Op) (hg : Good f s) :
    Good f (step f s op).1 :=
  Disk.good_step hg op

/-- ... hence every history does ... -/
theorem C11_good_run {V : Type} (f : Nat → V) (s : St V) (ops : List Op) (hg : Good f s) :
    Good f (run f s ops).1 :=
  Disk.good_run hg ops

/-- ... and every reachable state is `Good`. -/
theorem C11_good_reach {V : Type} (f : Nat → V) (n ndirs : Nat) (s : St V)
    (h : Reach f n ndirs s) : Good f s :=
  h.good

-- the contents of `Good` on the state before the kill: entries right, wrappers 0 and 1 alive
-- with one holder each on different existing directories
example : (∀ es ∈ sPre.dirs, ∀ e ∈ es, ∀ p ∈ e, p.2 = fEx p.1 ∧ p.1 < 4) ∧
    (∀ es ∈ sPre.dirs, ∀ e ∈ es, (keys e).Nodup) ∧
    sPre.wrappers = [⟨0, true, 1, true⟩, ⟨1, false, 1, true⟩] ∧ sPre.calls.length = 4 := by
  decide

/-! ## Values -/

/-- A `get` never returns a corrupt or misplaced example: whatever it returns is `f i`. -/
theorem C11_values {V : Type} (f : Nat → V) (s s' : St V) (w i : Nat) (v : V) (hg : Good f s)
    (h : step f s (.get w i) = (s', .val v)) : v = f i :=
  Disk.step_get_value hg h

example : (step fEx sReopen (.get 2 3)).2 = .val (fEx 3) ∧
    (step fEx sReopen (.get 2 0)).2 = .val (fEx 0) := by decide

/-- The `.bad` branch "a live wrapper without its directory" of the model is unreachable: in a
    `Good` state a `get` through an alive wrapper with `i < n` returns a value. -/
theorem C11_alive_has_dir {V : Type} (f : Nat → V) (s : St V) (w i : Nat) (wr : Wrapper)
    (hg : Good f s) (hw : s.wrappers[w]? = some wr) (ha : wr.alive = true) (hi : i < s.n) :
    (∃ es, s.dirs[wr.dir]? = some (some es)) ∧ (step f s (.get w i)).2 = .val (f i) ∧
      (step f s (.get w i)).2 ≠ .bad := by
  obtain ⟨es, hd⟩ := hg.has_dir w wr hw ha
  have hv : (step f s (.get w i)).2 = .val (f i) := by
    cases hl : lookup es i with
    | none => rw [Disk.step_get_miss f hw ha hi hd hl]
    | some v =>
      rw [Disk.step_get_hit f hw ha hi hd hl]
      rw [(hg.entries _ es hd i v (Disk.mem_of_lookup hl)).1]
  exact ⟨⟨es, hd⟩, hv, by rw [hv]; intro h; cases h⟩

example : ∀ w < 2, ∀ i < 4, (step fEx sPre (.get w i)).2 = .val (fEx i) := by decide

/-! ## Reuse, also after the writing process was killed -/

/-- An entry that is in the directory is served from it: the state does not change at all, in
    particular `calls` does not (no recomputation). -/
theorem C11_reuse_no_recompute {V : Type} (f : Nat → V) (s : St V) (w i : Nat) (wr : Wrapper)
    (es : List (Nat × V)) (v : V) (hg : Good f s)
    (hw : s.wrappers[w]? = some wr) (ha : wr.alive = true)
    (hd : s.dirs[wr.dir]? = some (some es)) (hl : lookup es i = some v) :
    step f s (.get w i) = (s, .val v) :=
  Disk.step_get_hit f hw ha (hg.entries _ es hd i v (Disk.mem_of_lookup hl)).2 hd hl

example : step fEx sReopen (.get 2 3) = (sReopen, .val 37) := by decide

/-- `kill` touches neither the file system nor the call counters; it only takes all wrappers
    away, without finaliser. -/
theorem C11_kill_preserves_dirs {V : Type} (f : Nat → V) (s : St V) :
    (step f s .kill).1.dirs = s.dirs ∧ (step f s .kill).1.calls = s.calls ∧
      ∀ d, NoAliveOn (step f s .kill).1 d := by
  refine ⟨rfl, rfl, ?_⟩
  intro d wr hwr ha
  rw [Disk.step_kill] at hwr
  simp only [List.mem_map] at hwr
  obtain ⟨a, _, rfl⟩ := hwr
  cases ha

example : (step fEx sPre .kill).1.dirs = sPre.dirs ∧ (step fEx sPre .kill).1.calls = sPre.calls ∧
    (step fEx sPre .kill).1.wrappers = [⟨0, true, 0, false⟩, ⟨1, false, 0, false⟩] := by decide

/-- Opening an existing directory with `reuse = True` succeeds and keeps the file system as it
    is; the new wrapper is alive on `d` with one holder. -/
theorem C11_open_reuse_keeps_entries {V : Type} (f : Nat → V) (s : St V) (d : Nat) (clear : Bool)
    (es : List (Nat × V)) (hd : s.dirs[d]? = some (some es)) (hn : NoAliveOn s d) :
    (step f s (.open_ d true clear)).1.dirs = s.dirs ∧
    (step f s (.open_ d true clear)).1.calls = s.calls ∧
    (step f s (.open_ d true clear)).2 = .opened s.wrappers.length ∧
    (step f s (.open_ d true clear)).1.wrappers[s.wrappers.length]? = some ⟨d, clear, 1, true⟩ := by
  rw [Disk.step_open_reuse f clear hn hd]
  exact ⟨rfl, rfl, rfl, by simp⟩

example : (step fEx sKilled (.open_ 1 true true)).1.dirs = sKilled.dirs ∧
    (step fEx sKilled (.open_ 1 true true)).2 = .opened 2 := by decide

/-- Reuse after the writing process was killed, in one statement: from a `Good` state in which
    directory `d` holds an entry for `i`, the history `kill; open d (reuse); get i` returns that
    entry (which is `f i`) and changes neither the file system nor the call counters. -/
theorem C11_reuse_after_kill {V : Type} (f : Nat → V) (s : St V) (d i : Nat) (clear : Bool)
    (es : List (Nat × V)) (v : V) (hg : Good f s)
    (hd : s.dirs[d]? = some (some es)) (hl : lookup es i = some v) :
    (run f s [.kill, .open_ d true clear, .get s.wrappers.length i]).2 =
        [.ok, .opened s.wrappers.length, .val v] ∧ v = f i ∧
    (run f s [.kill, .open_ d true clear, .get s.wrappers.length i]).1.dirs = s.dirs ∧
    (run f s [.kill, .open_ d true clear, .get s.wrappers.length i]).1.calls = s.calls := by
  obtain ⟨hv, hi⟩ := hg.entries d es hd i v (Disk.mem_of_lookup hl)
  -- after the kill
  have hk := C11_kill_preserves_dirs f s
  have hg₁ : Good f (step f s .kill).1 := Disk.good_step hg .kill
  have hd₁ : (step f s .kill).1.dirs[d]? = some (some es) := by rw [hk.1]; exact hd
  have hlen₁ : (step f s .kill).1.wrappers.length = s.wrappers.length := by
    rw [Disk.step_kill]; simp
  have hn₁ : (step f s .kill).1.n = s.n := rfl
  -- after the reopening
  have ho := C11_open_reuse_keeps_entries f (step f s .kill).1 d clear es hd₁ (hk.2.2 d)
  rw [hlen₁] at ho
  have hg₂ : Good f (step f (step f s .kill).1 (.open_ d true clear)).1 := Disk.good_step hg₁ _
  have hd₂ : (step f (step f s .kill).1 (.open_ d true clear)).1.dirs[d]? = some (some es) := by
    rw [ho.1]; exact hd₁
  have hn₂ : (step f (step f s .kill).1 (.open_ d true clear)).1.n = s.n := by
    rw [Disk.step_open_reuse f clear (hk.2.2 d) hd₁]; rfl
  -- the access
  have hget := Disk.step_get_hit f (w := s.wrappers.length) (i := i) ho.2.2.2 rfl
    (by rw [hn₂]; exact hi) hd₂ hl
  simp only [Disk.run_cons, Disk.run_nil, hget]
  exact ⟨by rw [ho.2.2.1]; rfl, hv, by rw [ho.1, hk.1], by rw [ho.2.1, hk.2.1]⟩

-- directory 1 was written by wrapper 1; after the kill, wrapper 2 reads the same 37 from it
example : (run fEx sPre [.kill, .open_ 1 true true, .get 2 3]).2 = [.ok, .opened 2, .val 37] ∧
    (run fEx sPre [.kill, .open_ 1 true true, .get 2 3]).1.calls = sPre.calls := by decide

/-- Kill at ANY point of ANY history: the final state is `Good` and every value read after the
    kill (position `ops₁.length + 1 + k` of the whole history is position `k` of `ops₂`) is `f i`.
    (By `Disk.run_values` the same holds for every value read before the kill.) -/
theorem C11_kill_anywhere {V : Type} (f : Nat → V) (n ndirs : Nat) (ops₁ ops₂ : List Op) :
    Good f (run f (init n ndirs) (ops₁ ++ [.kill] ++ ops₂)).1 ∧
    ∀ (k w i : Nat) (v : V), ops₂[k]? = some (Op.get w i) →
      (run f (init n ndirs) (ops₁ ++ [.kill] ++ ops₂)).2[ops₁.length + 1 + k]? = some (Out.val v) →
      v = f i := by
  refine ⟨Disk.good_run (Disk.good_init f n ndirs) _, ?_⟩
  intro k w i v hk ho
  refine Disk.run_values (Disk.good_init f n ndirs) _ (ops₁.length + 1 + k) w i v ?_ ho
  rw [List.getElem?_append_right (by simp)]
  simpa using hk

example : hist = hist₁ ++ [.kill] ++ hist₂ ∧
    (∀ k w i v, hist₂[k]? = some (Op.get w i) →
      (run fEx (init 4 2) hist).2[hist₁.length + 1 + k]? = some (Out.val v) → v = fEx i) :=
  ⟨by decide, fun k w i v h₁ h₂ =>
    (C11_kill_anywhere fEx 4 2 hist₁ hist₂).2 k w i v h₁ (by
      have : hist₁ ++ [Op.kill] ++ hist₂ = hist := by decide
      rw [this]; exact h₂)⟩
example : (run fEx (init 4 2) hist).2.drop 8 =
    [.refused, .opened 2, .val (fEx 3), .val (fEx 0), .bad, .ok, .opened 3, .val (fEx 2)] := by
  decide

/-! ## Refusing and clearing -/

/-- Opening an existing directory with `reuse = False` is refused and changes nothing. -/
theorem C11_refuse_nonempty {V : Type} (f : Nat → V) (s : St V) (d : Nat) (clear : Bool)
    (es : List (Nat × V)) (hd : s.dirs[d]? = some (some es)) (hn : NoAliveOn s d) :
    step f s (.open_ d false clear) = (s, .refused) :=
  Disk.step_open_refuse f clear hn hd

example : step fEx sKilled (.open_ 1 false false) = (sKilled, .refused) := by decide

/-- The finaliser: when the LAST holder of an alive wrapper `w` on directory `d` is released, the
    directory is removed iff `clear`; precisely, the new file system is `dirs.set d none` if
    `clear` and `dirs` otherwise.  Releasing a holder that is not the last, `copy` and `kill`
    leave the file system alone. -/
theorem C11_clear_iff {V : Type} (f : Nat → V) (s : St V) (w : Nat) (wr : Wrapper)
    (hg : Good f s) (hw : s.wrappers[w]? = some wr) (ha : wr.alive = true) :
    (wr.holders = 1 →
      ((step f s (.release w)).1.dirs[wr.dir]? = some none ↔ wr.clear = true) ∧
      (step f s (.release w)).1.dirs = (if wr.clear then s.dirs.set wr.dir none else s.dirs)) ∧
    (1 < wr.holders → (step f s (.release w)).1.dirs = s.dirs) ∧
    (step f s (.copy w)).1.dirs = s.dirs ∧
    (step f s .kill).1.dirs = s.dirs := by
  obtain ⟨es, hd⟩ := hg.has_dir w wr hw ha
  have hdl := Disk.lt_of_getElem?_eq_some hd
  have ha' : (!wr.alive) = false := by simp [ha]
  refine ⟨?_, ?_, ?_, rfl⟩
  · intro hh
    have e : step f s (.release w) =
        ({ s with dirs := if wr.clear then s.dirs.set wr.dir none else s.dirs,
                  wrappers := s.wrappers.set w { wr with holders := 0, alive := false } },
          .ok) := by
      simp [step, hw, ha, hh]
    rw [e]
    refine ⟨?_, rfl⟩
    cases hc : wr.clear with
    | false => simp [hd]
    | true => simp [hdl]
  · intro hh
    simp [step, hw, ha, hh]
  · simp [step, hw, ha]

-- wrapper 2 (clear, one holder) removes directory 1; wrapper 1 before the kill (no clear) would
-- have left it; wrapper 0 with two holders leaves directory 0 although it has clear
example : (step fEx (run fEx (init 4 2) (hist.take 13)).1 (.release 2)).1.dirs[1]? = some none ∧
    (step fEx sPre (.release 1)).1.dirs = sPre.dirs ∧
    (step fEx (run fEx (init 4 2) (hist.take 6)).1 (.release 0)).1.dirs =
      (run fEx (init 4 2) (hist.take 6)).1.dirs := by decide

/-- The only way a directory disappears: if `d` does not exist after a step, it did not exist
    before, or the step was the release of the last holder of an alive wrapper on `d` that has
    `clear`.  So `open_`, `get`, `copy`, `kill`, and a `release` that is not the last or has no
    `clear`, never remove a directory. -/
theorem C11_clear_only {V : Type} (f : Nat → V) (s : St V) (op : Op) (d : Nat) (hg : Good f s)
    (h : (step f s op).1.dirs[d]? = some none) :
    s.dirs[d]? = some none ∨
      ∃ w wr, op = .release w ∧ s.wrappers[w]? = some wr ∧ wr.alive = true ∧ wr.holders = 1 ∧
        wr.clear = true ∧ wr.dir = d := by
  rcases Disk.dir_removed op h with h | ⟨w, wr, e, hw, ha, hh, hc, hd⟩
  · exact .inl h
  · have := hg.holders w wr hw ha
    exact .inr ⟨w, wr, e, hw, ha, by omega, hc, hd⟩

-- in the whole example history the only step after which a directory is newly missing is
-- number 13, `release 2`
example : (List.range 16).filter (fun k =>
      (List.range 2).any (fun d =>
        (run fEx (init 4 2) (hist.take (k + 1))).1.dirs[d]? == some none &&
        (run fEx (init 4 2) (hist.take k)).1.dirs[d]? != some none)) = [13] ∧
    hist[13]? = some (.release 2) := by decide

/-! ## The upstream pipeline runs only on a miss -/

/-- If a step changes the call counter of example `i`, the step is a `get _ i` through an alive
    wrapper whose directory has no entry for `i`; the counter then grows by exactly 1 and the
    value returned is `f i`. -/
theorem C11_calls_only_on_miss {V : Type} (f : Nat → V) (s : St V) (op : Op) (i : Nat)
    (hg : Good f s) (h : (step f s op).1.calls.getD i 0 ≠ s.calls.getD i 0) :
    ∃ w wr es, op = .get w i ∧ s.wrappers[w]? = some wr ∧ wr.alive = true ∧ i < s.n ∧
      s.dirs[wr.dir]? = some (some es) ∧ lookup es i = none ∧
      (step f s op).2 = .val (f i) ∧
      (step f s op).1.calls.getD i 0 = s.calls.getD i 0 + 1 :=
  Disk.calls_changed hg op h

-- the call counters before the history and after each of its 16 steps: they move at the four
-- misses (operations number 1, 4, 5, 11, counted from 0) only, and each example was computed once
-- in total, across the kill
example : (List.range 17).map (fun k => (run fEx (init 4 2) (hist.take k)).1.calls) =
    [[0,0,0,0], [0,0,0,0], [0,0,1,0], [0,0,1,0], [0,0,1,0], [0,0,1,1], [0,1,1,1], [0,1,1,1],
     [0,1,1,1], [0,1,1,1], [0,1,1,1], [0,1,1,1], [1,1,1,1], [1,1,1,1], [1,1,1,1], [1,1,1,1],
     [1,1,1,1]] := by decide

end LazyDs

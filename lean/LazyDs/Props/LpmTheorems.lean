/-
  Final theorems about `lazy_parallel_map` (model: `LazyDs.Conc.Lpm`).
  Every statement quantifies over every reachable state, i.e. over every interleaving of the
  consumer, the environment (`resume`/`close`) and the pool (`start`/`finish i`), and over every
  completion order.  Proof machinery: `LazyDs.Lemmas.LpmInv`.  CORE LEAN ONLY.

  Executor flavours: `(waitAll, cancelQueued)` = concurrent.futures thread/process pool,
  `(killAll, nothing)` = multiprocessing.Pool, `(killOnError, terminatePool)` = pathos (with the
  `except BaseException: terminate(executor, q)` fix), `(leaveRunning, terminatePool)` = pathos as
  it was before that fix (kept to document the defect, `lpm_leaveRunning_counterexample`).
-/
import LazyDs.Lemmas.LpmInv

namespace LazyDs.Lpm

variable {α β ε : Type} {w b : Nat} {ek : ExitKind} {tk : TermKind} {f : α → Except ε β}
  {src₀ : List α} {ending : Option ε} {s s' : St α β ε}

/-! ## C04  transparent: same results, same order, each once -/

/-- C04. In every reachable state the delivered values are `f` applied to a prefix of the source,
    in source order, without loss or duplication (and every one of them is an `.ok`). -/
theorem lpm_delivered_prefix (h : Reachable w b ek tk f src₀ ending s) :
    ∃ k, k = s.delivered.length ∧ (src₀.take k).map f = s.delivered.map Except.ok :=
  ⟨_, rfl, (inv_reachable h).deliv⟩

/-- C04. Normal exhaustion (`done none false`) delivers exactly `map f src₀`.
    (`ending = none` is in fact implied by `s.c = .done none false`; it is kept as requested.) -/
theorem lpm_complete (h : Reachable w b ek tk f src₀ ending s) (hc : s.c = .done none false)
    (_hend : ending = none) : src₀.map f = s.delivered.map Except.ok := by
  have hI := inv_reachable h
  have hph := hI.phase
  simp only [PhaseInv, hc, ExitInv] at hph
  have hlen : s.delivered.length = src₀.length := (hph.1.2.2 trivial).1
  have := hI.deliv
  rwa [hlen, List.take_length] at this

/-- C04 (once). A cancelled future stays cancelled over any step: it is never started. -/
theorem lpm_once_cancelled {t : Tid} {i : Nat} {x : α} (h : step s t = some s')
    (hi : s.futs[i]? = some (x, .cancelled)) : s'.futs[i]? = some (x, .cancelled) :=
  cancelled_run (sched := [t]) (by simp [run, h]) hi

/-- C04 (once). A finished future keeps its result over any step: it is never run again. -/
theorem lpm_once_done {t : Tid} {i : Nat} {x : α} {r : Except ε β} (h : step s t = some s')
    (hi : s.futs[i]? = some (x, .done r)) : s'.futs[i]? = some (x, .done r) := by
  obtain ⟨st', h1, htr⟩ := futs_step h hi
  rcases htr with rfl | ⟨_, h2, _⟩ | ⟨_, h2, _⟩ | ⟨_, _, _, h2, _⟩ | ⟨_, _, h2, _⟩
  · exact h1
  · cases h2
  · cases h2
  · cases h2
  · simp [isActive] at h2

/-- C04 (once). A running future keeps running, or finishes with `f` of its argument (by its own
    `finish i`), or is killed — the latter only by the consumer under `killAll` (multiprocessing
    `__exit__`), `killOnError` (pathos `terminate()` on an exception) or `terminatePool` (pathos
    `terminate()` on close).  It never becomes pending again. -/
theorem lpm_once_running {t : Tid} {i : Nat} {x : α} (h : step s t = some s')
    (hi : s.futs[i]? = some (x, .running)) :
    s'.futs[i]? = some (x, .running) ∨
    (t = .finish i ∧ s'.futs[i]? = some (x, .done (s.f x))) ∨
    (t = .consumer ∧ (s.exitKind = .killAll ∨ s.exitKind = .killOnError ∨ s.termKind = .terminatePool) ∧
      s'.futs[i]? = some (x, .cancelled)) := by
  obtain ⟨st', h1, htr⟩ := futs_step h hi
  rcases htr with rfl | ⟨_, h2, _⟩ | ⟨ht, _, rfl⟩ | ⟨_, _, _, h2, _⟩ | ⟨ht, hk, _, rfl⟩
  · exact .inl h1
  · cases h2
  · exact .inr (.inl ⟨ht, h1⟩)
  · cases h2
  · refine .inr (.inr ⟨ht, ?_, h1⟩)
    rcases hk with ⟨hk, _⟩ | ⟨hk, _⟩ | ⟨hk, _⟩
    · exact .inr (.inr hk)
    · exact .inl hk
    · exact .inr (.inl hk)

/-- C04 (once). The only transition into `.running` is `start` from `.pending`, and it is counted
    in `started`: so every future is started at most once (it never returns to `.pending`,
    see `lpm_once_running`, `lpm_once_done`, `lpm_once_cancelled`). -/
theorem lpm_once_started {t : Tid} {i : Nat} {x : α} (h : step s t = some s')
    (hi : s'.futs[i]? = some (x, .running)) :
    s.futs[i]? = some (x, .running) ∨
    (t = .start ∧ s.futs[i]? = some (x, .pending) ∧ s'.started = s.started + 1) := by
  cases hold : s.futs[i]? with
  | none =>
    have := (futs_step_new h hold hi).1
    cases this
  | some p =>
    obtain ⟨y, st⟩ := p
    obtain ⟨st', h1, htr⟩ := futs_step h hold
    rw [h1] at hi
    injection hi with hi; injection hi with hy hst; subst hy; subst hst
    rcases htr with h2 | ⟨ht, rfl, _⟩ | ⟨_, _, h2⟩ | ⟨_, _, _, _, h2⟩ | ⟨_, _, _, h2⟩
    · subst h2; exact .inl rfl
    · subst ht
      obtain ⟨_, _, _, _, _, rfl⟩ := step_start h
      exact .inr ⟨rfl, rfl, rfl⟩
    · cases h2
    · cases h2
    · cases h2

/-- C04 (once), bundled: the four one-step monotonicity facts. -/
theorem lpm_once {t : Tid} {i : Nat} {x : α} (h : step s t = some s') :
    (s.futs[i]? = some (x, .cancelled) → s'.futs[i]? = some (x, .cancelled)) ∧
    (∀ r, s.futs[i]? = some (x, .done r) → s'.futs[i]? = some (x, .done r)) ∧
    (s.futs[i]? = some (x, .running) →
      s'.futs[i]? = some (x, .running) ∨
      (t = .finish i ∧ s'.futs[i]? = some (x, .done (s.f x))) ∨
      (t = .consumer ∧ (s.exitKind = .killAll ∨ s.exitKind = .killOnError ∨ s.termKind = .terminatePool) ∧
        s'.futs[i]? = some (x, .cancelled))) ∧
    (s'.futs[i]? = some (x, .running) →
      s.futs[i]? = some (x, .running) ∨
      (t = .start ∧ s.futs[i]? = some (x, .pending) ∧ s'.started = s.started + 1)) :=
  ⟨lpm_once_cancelled h, fun _ => lpm_once_done h, lpm_once_running h, lpm_once_started h⟩

/-! ## C06  errors at the right position -/

/-- if `map f l` is all `.ok`, the `.ok` values are `filterMap` of `f` over `l` -/
theorem eq_filterMap_of_map_ok {l : List α} {d : List β} (h : l.map f = d.map Except.ok) :
    d = l.filterMap (fun x => (f x).toOption) := by
  induction l generalizing d with
  | nil => cases d <;> simp_all
  | cons x l ih =>
    cases d with
    | nil => simp at h
    | cons v d =>
      simp only [List.map_cons, List.cons.injEq] at h
      have hd := ih h.2
      have hx : (f x).toOption = some v := by rw [h.1]; rfl
      rw [List.filterMap_cons, hx, ← hd]

/-- C06. An error exit (`done (some e) false`, no `close` involved), whatever the source does:
    the delivered results are `f` of the first `k` source items, all `.ok` (so `k` items is the
    longest all-ok prefix that was submitted), and
    * either item `k` is the FIRST failing item and `e` is exactly its exception,
    * or no item fails at all: the source itself raised `e` after its last item
      (`ending = some e`), and EVERY item of the source was delivered before `e` came out
      (F17 is gone: nothing that was queued when the source raised is dropped). -/
theorem lpm_error_position {e : ε} (h : Reachable w b ek tk f src₀ ending s)
    (hc : s.c = .done (some e) false) :
    ∃ k, k = s.delivered.length ∧ (src₀.take k).map f = s.delivered.map Except.ok ∧
      (src₀[k]?.map f = some (.error e) ∨
       (ending = some e ∧ k = src₀.length ∧ s.pulled = src₀.length ∧
        src₀.map f = s.delivered.map Except.ok ∧
        s.delivered = src₀.filterMap (fun x => (f x).toOption))) := by
  have hI := inv_reachable h
  have hph := hI.phase
  simp only [PhaseInv, hc, ExitInv] at hph
  refine ⟨_, rfl, hI.deliv, ?_⟩
  rcases hph.1.2.2 trivial with ⟨he, hsrc, hlen⟩ | he
  · have hall : src₀.map f = s.delivered.map Except.ok := by
      have := hI.deliv
      rwa [hlen, List.take_length] at this
    have := hI.srcLen
    exact .inr ⟨he, hlen, by simpa [hsrc] using this, hall, eq_filterMap_of_map_ok hall⟩
  · exact .inl he

/-- C06, the statement for a non-failing source (the form `lpm_error_position` had before the
    source-error repair): every result before the first failing item is delivered (all `.ok`), and
    the exception that comes out is exactly that item's exception. -/
theorem lpm_error_position_total_source {e : ε} (h : Reachable w b ek tk f src₀ ending s)
    (hc : s.c = .done (some e) false) (hend : ending = none) :
    ∃ k, k = s.delivered.length ∧ (src₀.take k).map f = s.delivered.map Except.ok ∧
      src₀[k]?.map f = some (.error e) := by
  obtain ⟨k, hk, hd, he | ⟨he, _⟩⟩ := lpm_error_position h hc
  · exact ⟨k, hk, hd, he⟩
  · rw [hend] at he; cases he

/-- C06. If some source item fails, then — whether or not the source itself raises afterwards — the
    exception that comes out is the one of the FIRST failing item, after exactly the results of
    the items before it. -/
theorem lpm_error_first_failure {e : ε} (h : Reachable w b ek tk f src₀ ending s)
    (hc : s.c = .done (some e) false) (hfail : ∃ x ∈ src₀, ∃ e', f x = .error e') :
    ∃ k, k = s.delivered.length ∧ (src₀.take k).map f = s.delivered.map Except.ok ∧
      src₀[k]?.map f = some (.error e) := by
  obtain ⟨k, hk, hd, he | ⟨_, _, _, hall, _⟩⟩ := lpm_error_position h hc
  · exact ⟨k, hk, hd, he⟩
  · obtain ⟨x, hx, e', hfx⟩ := hfail
    have : f x ∈ s.delivered.map Except.ok := hall ▸ List.mem_map_of_mem hx
    rw [hfx] at this
    simp at this

/-- C06 (F17 repaired). When no item fails and the generator nevertheless ends with the exception
    `e`, then `e` is the source's exception and ALL results were delivered before it, in order:
    the results that were queued when the source raised are drained, not dropped. -/
theorem lpm_source_error_delivers_all {e : ε} (h : Reachable w b ek tk f src₀ ending s)
    (hc : s.c = .done (some e) false) (hok : ∀ x ∈ src₀, ∃ v, f x = .ok v) :
    ending = some e ∧ s.delivered = src₀.filterMap (fun x => (f x).toOption) ∧
      src₀.map f = s.delivered.map Except.ok ∧ s.delivered.length = src₀.length := by
  obtain ⟨k, hk, _, he | ⟨he, hlen, _, hall, hfm⟩⟩ := lpm_error_position h hc
  · exfalso
    cases hx : src₀[k]? with
    | none => simp [hx] at he
    | some x =>
      obtain ⟨v, hv⟩ := hok x (List.mem_of_getElem? hx)
      simp [hx, hv] at he
  · exact ⟨he, hfm, hall, by omega⟩

/-- C06 (F17 repaired), with the source's exception named: when the source raises `e'` after its
    last item, an error exit either reports the first failing item (exactly as without a source
    error), or it reports `e'` — and then every item of the source was delivered before. -/
theorem lpm_source_error_position {e e' : ε} (h : Reachable w b ek tk f src₀ ending s)
    (hc : s.c = .done (some e) false) (hend : ending = some e') :
    ∃ k, k = s.delivered.length ∧ (src₀.take k).map f = s.delivered.map Except.ok ∧
      ((e = e' ∧ k = src₀.length ∧ s.delivered = src₀.filterMap (fun x => (f x).toOption)) ∨
       src₀[k]?.map f = some (.error e)) := by
  obtain ⟨k, hk, hd, he | ⟨he, hlen, _, _, hfm⟩⟩ := lpm_error_position h hc
  · exact ⟨k, hk, hd, .inr he⟩
  · rw [hend] at he; injection he with he
    exact ⟨k, hk, hd, .inl ⟨he.symm, hlen, hfm⟩⟩

/-- C06, non-vacuity of `lpm_source_error_delivers_all` (the schedule that showed F17, now with
    the good outcome). `w = 1, b = 2`, source `[1, 2, 3]` then raises `7`, `f = .ok`.
    In `s₀` the source has just raised: one result is delivered, futures 1 and 2 are finished and
    still queued.  The generator then drains the queue (two `yield`s, each resumed), re-raises `7`
    and leaves the executor: in `s` all three results were delivered before the error. -/
theorem lpm_source_error_example :
    ∃ s₀ s : St Nat Nat Nat,
      Reachable 1 2 .waitAll .cancelQueued (fun x => .ok x) [1, 2, 3] (some 7) s₀ ∧
      s₀.c = .drainErr 7 ∧ s₀.delivered = [1] ∧ s₀.q = [1, 2] ∧
      s₀.futs = [(1, .done (.ok 1)), (2, .done (.ok 2)), (3, .done (.ok 3))] ∧
      run s₀ [.consumer, .resume, .consumer, .resume, .consumer, .consumer] = some s ∧
      Reachable 1 2 .waitAll .cancelQueued (fun x => .ok x) [1, 2, 3] (some 7) s ∧
      s.c = .done (some 7) false ∧ s.delivered = [1, 2, 3] ∧ s.q = [] ∧
      s.futs = [(1, .done (.ok 1)), (2, .done (.ok 2)), (3, .done (.ok 3))] :=
  ⟨_, _, .of_run [.consumer, .consumer, .consumer, .consumer, .consumer, .start, .finish 0, .consumer,
                  .resume, .consumer, .start, .finish 1, .start, .finish 2, .consumer] rfl,
   rfl, rfl, rfl, rfl, rfl,
   .of_run [.consumer, .consumer, .consumer, .consumer, .consumer, .start, .finish 0, .consumer,
            .resume, .consumer, .start, .finish 1, .start, .finish 2, .consumer,
            .consumer, .resume, .consumer, .resume, .consumer, .consumer] rfl,
   rfl, rfl, rfl, rfl⟩

/-! ## C05  clean stop -/

/-- C05. No deadlock: unless the generator is suspended at a `yield` (`.yielded`: main loop and
    normal drain; `.yieldedErr`: the drain after a source error) or has finished, some thread
    of the system (consumer, pool start, some pool finish) can move.  (`w ≤ b` is only used
    through `1 ≤ b`.) -/
theorem lpm_no_deadlock (hw : 1 ≤ w) (hwb : w ≤ b) (h : Reachable w b ek tk f src₀ ending s)
    (hnd : isDone s = false) (hny : ∀ x, s.c ≠ .yielded x) (hnye : ∀ e, s.c ≠ .yieldedErr e) :
    (∃ s', step s .consumer = some s') ∨ (∃ s', step s .start = some s') ∨
      (∃ i s', step s (.finish i) = some s') :=
  no_deadlock_inv (inv_reachable h) hw (by omega) hnd hny hnye

/-- C05. At a `yield` the environment can both resume and close the generator. -/
theorem lpm_yield_enabled {x : Option α} (hc : s.c = .yielded x) :
    (∃ s', step s .resume = some s') ∧ (∃ s', step s .close = some s') := by
  cases x <;> simp [step, hc]

/-- C05. The same at a `yield` of the error drain (the source raised, queued results are being
    delivered): the environment can both resume and close the generator. -/
theorem lpm_yieldErr_enabled {e : ε} (hc : s.c = .yieldedErr e) :
    (∃ s', step s .resume = some s') ∧ (∃ s', step s .close = some s') := by
  simp [step, hc]

/-- C05. Termination: the `Nat` measure `mu` (8·remaining source items + 6·held item +
    2·pending + 1·running + 3·|q| + program-point rank) strictly decreases on every step of every
    thread (consumer, resume, close, start, finish); no invariant and no fairness is needed. -/
theorem lpm_terminates {t : Tid} (h : step s t = some s') : mu s' < mu s :=
  mu_step h

/-- C05. Hence every executable schedule is finite: from the initial state at most
    `8 * |src₀| + 4` steps. -/
theorem lpm_schedule_bounded {sched : List Tid} (h : run (init w b ek tk f src₀ ending) sched = some s) :
    sched.length ≤ 8 * src₀.length + 4 := by
  have := run_length_le_mu h
  simp [mu, init, held, rank, nPending, nRunning] at this
  omega

/-- C05, most general form. Nothing is pending or running once control is back at the caller
    after every exit that is a `QuiescentExit`: any exit under `waitAll` / `killAll`, an exit with
    an exception under `killOnError`, and — whatever the flavour — normal exhaustion
    (`done none false`: every submitted future was popped and delivered) and `close` under
    `terminatePool`. -/
theorem lpm_quiescent_exit {r : Option ε} {cl : Bool} (h : Reachable w b ek tk f src₀ ending s)
    (hc : s.c = .done r cl) (hq : QuiescentExit ek tk r cl) : ∀ p ∈ s.futs, isActive p.2 = false := by
  have hph := (inv_reachable h).phase
  simp only [PhaseInv, hc] at hph
  exact mem_of_forall_idx (P := fun st => isActive st = false) (hph.2 hq)

/-- every exit of the flavours `waitAll`, `killAll` and `(killOnError, terminatePool)` is quiescent -/
theorem quiescentExit_of_flavour {r : Option ε} {cl : Bool} (hk : ek ≠ .leaveRunning)
    (hk2 : ek = .killOnError → tk = .terminatePool) : QuiescentExit ek tk r cl := by
  cases ek with
  | waitAll => exact .inl rfl
  | killAll => exact .inr (.inl rfl)
  | leaveRunning => exact absurd rfl hk
  | killOnError =>
    cases r with
    | some e => exact .inr (.inr (.inl ⟨rfl, by simp⟩))
    | none =>
      cases cl with
      | false => exact .inr (.inr (.inr (.inl ⟨rfl, rfl⟩)))
      | true => exact .inr (.inr (.inr (.inr ⟨rfl, hk2 rfl⟩)))

/-- C05. For the `waitAll` and `killAll` flavours, and for `killOnError` (the repaired pathos)
    when `terminate` is `terminatePool`, nothing is pending or running once control is back at the
    caller (after normal end, error, or close).  The extra hypothesis for `killOnError` is needed:
    under `(killOnError, cancelQueued)` or `(killOnError, nothing)` a `close` leaves the running
    futures running (`lpm_killOnError_needs_terminatePool`). -/
theorem lpm_quiescent (h : Reachable w b ek tk f src₀ ending s) (hd : isDone s = true)
    (hk : s.exitKind ≠ .leaveRunning ∧ (s.exitKind = .killOnError → s.termKind = .terminatePool)) :
    ∀ p ∈ s.futs, isActive p.2 = false := by
  have hI := inv_reachable h
  cases hc : s.c with
  | done r cl =>
    exact lpm_quiescent_exit h hc
      (quiescentExit_of_flavour (hI.hek ▸ hk.1) (fun he => hI.htk ▸ hk.2 (hI.hek.trans he)))
  | _ => simp [isDone, hc] at hd

/-- C05 for the repaired pathos flavour `(killOnError, terminatePool)`: after normal end, error,
    or close nothing is pending or running once control is back at the caller. -/
theorem lpm_quiescent_pathos_fixed (h : Reachable w b .killOnError .terminatePool f src₀ ending s)
    (hd : isDone s = true) : ∀ p ∈ s.futs, isActive p.2 = false := by
  have hI := inv_reachable h
  exact lpm_quiescent h hd ⟨by rw [hI.hek]; simp, fun _ => hI.htk⟩

/-- C05 (known defect F16, pathos BEFORE the fix). `exitKind = leaveRunning` describes pathos as
    it was before `except BaseException: if backend == "mp": terminate(executor, q)` was added:
    after an ERROR exit (no `close` involved) control is back at the caller while future 1 is still
    running user code.  The fixed flavour is `(killOnError, terminatePool)`: see
    `lpm_quiescent_pathos_fixed` and, for the same schedule, `lpm_killOnError_error_example`. -/
theorem lpm_leaveRunning_counterexample :
    ∃ s : St Nat Nat Nat,
      Reachable 1 2 .leaveRunning .terminatePool (fun x => if x = 1 then .error 9 else .ok x)
        [1, 2, 3] none s ∧
      isDone s = true ∧ s.c = .done (some 9) false ∧ s.futs[1]? = some (2, .running) :=
  ⟨_, .of_run [.consumer, .consumer, .consumer, .consumer, .consumer, .start, .finish 0, .start,
               .consumer, .consumer] rfl, rfl, rfl, rfl⟩

/-- C05, non-vacuity of `lpm_quiescent_pathos_fixed` (F16 fixed). The schedule of
    `lpm_leaveRunning_counterexample` under the repaired flavour `(killOnError, terminatePool)`:
    future 0 fails, future 1 is running when the error travels out (state `s₀`); the consumer's exit
    step then discards it, and in the done state it is cancelled and nothing is active. -/
theorem lpm_killOnError_error_example :
    ∃ s₀ s : St Nat Nat Nat,
      Reachable 1 2 .killOnError .terminatePool (fun x => if x = 1 then .error 9 else .ok x)
        [1, 2, 3] none s₀ ∧
      s₀.c = .exitWait (some 9) false ∧ s₀.futs[1]? = some (2, .running) ∧
      step s₀ .consumer = some s ∧
      Reachable 1 2 .killOnError .terminatePool (fun x => if x = 1 then .error 9 else .ok x)
        [1, 2, 3] none s ∧
      isDone s = true ∧ s.c = .done (some 9) false ∧ s.futs[1]? = some (2, .cancelled) ∧
      s.futs = [(1, .done (.error 9)), (2, .cancelled)] :=
  ⟨_, _, .of_run [.consumer, .consumer, .consumer, .consumer, .consumer, .start, .finish 0, .start,
                  .consumer] rfl, rfl, rfl, rfl,
   .of_run [.consumer, .consumer, .consumer, .consumer, .consumer, .start, .finish 0, .start,
            .consumer, .consumer] rfl, rfl, rfl, rfl, rfl⟩

/-- The extra hypothesis of `lpm_quiescent` for `killOnError` is needed: under
    `(killOnError, cancelQueued)` (not a real flavour) a `close` cancels the queued futures only
    and the no-exception exit does nothing, so future 1 is still running at the caller. -/
theorem lpm_killOnError_needs_terminatePool :
    ∃ s : St Nat Nat Nat,
      Reachable 1 2 .killOnError .cancelQueued (fun x => .ok x) [1, 2, 3] none s ∧
      isDone s = true ∧ s.c = .done none true ∧ s.futs[1]? = some (2, .running) :=
  ⟨_, .of_run [.consumer, .consumer, .consumer, .consumer, .consumer, .start, .finish 0, .consumer,
               .start, .close, .consumer, .consumer, .consumer] rfl, rfl, rfl, rfl⟩

/-- C05. After an early `close`, once control is back no future is left pending: for
    `cancelQueued` because every pending future is in `q` and the cancel loop empties `q`; for
    `terminatePool` because it discards everything; for `waitAll`/`killAll` because `__exit__`
    waits for / kills everything.  Covered: every combination except `(leaveRunning, nothing)`
    and `(killOnError, nothing)` (a close leaves without exception, so `killOnError` does nothing
    then), in particular the real flavours `(waitAll, cancelQueued)`, `(killAll, nothing)`,
    `(killOnError, terminatePool)` and the old `(leaveRunning, terminatePool)`.  The hypothesis is
    weaker than the requested `termKind ≠ nothing ∨ exitKind = killAll`; for the three original
    exit kinds it is the original `termKind ≠ nothing ∨ exitKind ≠ leaveRunning`. -/
theorem lpm_close_terminates_pool {r : Option ε} (h : Reachable w b ek tk f src₀ ending s)
    (hc : s.c = .done r true)
    (hk : s.termKind ≠ .nothing ∨ (s.exitKind ≠ .leaveRunning ∧ s.exitKind ≠ .killOnError)) :
    ∀ p ∈ s.futs, isPending p.2 = false := by
  have hI := inv_reachable h
  have hph := hI.phase
  simp only [PhaseInv, hc, ExitInv] at hph
  rcases hk with hk | hk
  · exact mem_of_forall_idx (P := fun st => isPending st = false) (hph.1.1 trivial (hI.htk ▸ hk))
  · refine mem_of_forall_idx (P := fun st => isPending st = false) (hph.2 ?_).noPending
    rw [← hI.hek]
    cases hek : s.exitKind with
    | waitAll => exact .inl rfl
    | killAll => exact .inr (.inl rfl)
    | leaveRunning => exact absurd hek hk.1
    | killOnError => exact absurd hek hk.2

/-- The excluded combination `(leaveRunning, nothing)` (not a real flavour) really fails:
    after `close` future 1 stays pending. -/
theorem lpm_close_terminates_pool_counterexample :
    ∃ s : St Nat Nat Nat,
      Reachable 1 2 .leaveRunning .nothing (fun x => .ok x) [1, 2, 3] none s ∧
      s.c = .done none true ∧ s.futs[1]? = some (2, .pending) :=
  ⟨_, .of_run [.consumer, .consumer, .consumer, .consumer, .consumer, .start, .finish 0, .consumer,
               .close, .consumer, .consumer] rfl, rfl, rfl⟩

/-- The other excluded combination `(killOnError, nothing)` (not a real flavour) fails in the
    same way: the close travels out without exception, so nothing is terminated. -/
theorem lpm_close_terminates_pool_counterexample_killOnError :
    ∃ s : St Nat Nat Nat,
      Reachable 1 2 .killOnError .nothing (fun x => .ok x) [1, 2, 3] none s ∧
      s.c = .done none true ∧ s.futs[1]? = some (2, .pending) :=
  ⟨_, .of_run [.consumer, .consumer, .consumer, .consumer, .consumer, .start, .finish 0, .consumer,
               .close, .consumer, .consumer] rfl, rfl, rfl⟩

/-- C05. Once `futs[i]` is `cancelled` it stays `cancelled` in every later state (so it is never
    started).  Holds from any state, in particular from any reachable one. -/
theorem lpm_cancelled_never_runs {sched : List Tid} {i : Nat} {x : α} (h : run s sched = some s')
    (hi : s.futs[i]? = some (x, .cancelled)) : s'.futs[i]? = some (x, .cancelled) :=
  cancelled_run h hi

/-! ## C07  bounded read-ahead -/

/-- C07. The FIFO never holds more than `buffer` futures.  (True even without `1 ≤ b`.) -/
theorem lpm_queue_bound (h : Reachable w b ek tk f src₀ ending s) : s.q.length ≤ s.buffer := by
  have hI := inv_reachable h
  rw [hI.hb]; exact hI.qBound

/-- C07. At most `buffer + 1` source items are taken beyond what was delivered. -/
theorem lpm_pulled_bound (h : Reachable w b ek tk f src₀ ending s) :
    s.pulled ≤ s.delivered.length + s.buffer + 1 := by
  have hI := inv_reachable h
  have := hI.pulledLe; have := hI.bufInv; rw [hI.hb]; omega

/-- C07. At most `buffer` futures were ever started beyond what was delivered. -/
theorem lpm_started_bound (h : Reachable w b ek tk f src₀ ending s) :
    s.started ≤ s.delivered.length + s.buffer := by
  have hI := inv_reachable h
  have := hI.startedLe; have := hI.bufInv; rw [hI.hb]; omega

/-- C07 (pool contract, sanity of the model). Never more than `workers` futures run at a time. -/
theorem lpm_running_bound (h : Reachable w b ek tk f src₀ ending s) : numRunning s ≤ s.workers := by
  have hI := inv_reachable h
  rw [numRunning_eq, hI.hw]; exact hI.runLe

/-! ## Concrete reachable states satisfying the hypotheses (non-vacuity), `α = β = ε = Nat` -/

section Examples
open Tid

/-- `lpm_delivered_prefix`: suspended at the first `yield`, one result delivered. -/
example : ∃ s : St Nat Nat Nat,
    Reachable 1 1 .waitAll .cancelQueued (fun x => .ok (x + 10)) [1, 2] none s ∧
    s.c = .yielded (some 2) ∧ s.delivered = [11] :=
  ⟨_, .of_run [consumer, consumer, consumer, start, finish 0, consumer] rfl, rfl, rfl⟩

/-- `lpm_complete`, `lpm_quiescent` (`waitAll`): normal exhaustion. -/
example : ∃ s : St Nat Nat Nat,
    Reachable 1 1 .waitAll .cancelQueued (fun x => .ok (x + 10)) [1, 2] none s ∧
    s.c = .done none false ∧ isDone s = true ∧
    (s.exitKind ≠ .leaveRunning ∧ (s.exitKind = .killOnError → s.termKind = .terminatePool)) ∧
    s.delivered = [11, 12] :=
  ⟨_, .of_run [consumer, consumer, consumer, start, finish 0, consumer, resume, consumer, consumer,
               start, finish 1, consumer, resume, consumer, consumer] rfl, rfl, rfl, by decide, rfl⟩

/-- `lpm_once`, `lpm_once_cancelled`, `lpm_cancelled_never_runs`: after `close` the cancel loop has
    cancelled the pending future 1, and the consumer can step on. -/
example : ∃ s s' : St Nat Nat Nat,
    Reachable 1 2 .waitAll .cancelQueued (fun x => .ok x) [1, 2, 3] none s ∧
    step s .consumer = some s' ∧ s.futs[1]? = some (2, .cancelled) :=
  ⟨_, _, .of_run [consumer, consumer, consumer, consumer, consumer, start, finish 0, consumer,
                  close, consumer] rfl, rfl, rfl⟩

/-- `lpm_once_running`, `lpm_once_started`, `lpm_once_done`: future 0 running, `finish 0` enabled. -/
example : ∃ s s' : St Nat Nat Nat,
    Reachable 1 1 .waitAll .cancelQueued (fun x => .ok x) [1, 2] none s ∧
    s.futs[0]? = some (1, .running) ∧ step s (.finish 0) = some s' ∧
    s'.futs[0]? = some (1, .done (.ok 1)) :=
  ⟨_, _, .of_run [consumer, consumer, consumer, start] rfl, rfl, rfl, rfl⟩

/-- `lpm_error_position`: `f 2` fails; `[f 1]` is delivered, then exactly `f 2`'s exception. -/
example : ∃ s : St Nat Nat Nat,
    Reachable 1 1 .waitAll .cancelQueued (fun x => if x = 2 then .error 9 else .ok x) [1, 2, 3] none s ∧
    s.c = .done (some 9) false ∧ s.delivered = [1] :=
  ⟨_, .of_run [consumer, consumer, consumer, start, finish 0, consumer, resume, consumer, consumer,
               start, finish 1, consumer, consumer] rfl, rfl, rfl⟩

/-- `lpm_error_position`, `lpm_source_error_delivers_all`, `lpm_source_error_position`: the source
    `[1, 2]` raises `7` while both results are queued; both are delivered, then `7` comes out. -/
example : ∃ s : St Nat Nat Nat,
    Reachable 1 2 .waitAll .cancelQueued (fun x => .ok x) [1, 2] (some 7) s ∧
    s.c = .done (some 7) false ∧ s.src = [] ∧ s.pulled = 2 ∧ s.delivered = [1, 2] :=
  ⟨_, .of_run [consumer, consumer, consumer, consumer, start, finish 0, start, finish 1,
               consumer, consumer, resume, consumer, resume, consumer, consumer] rfl, rfl, rfl, rfl, rfl⟩

/-- `lpm_error_first_failure`, `lpm_source_error_position`: the source `[1, 2]` raises `7`, but the
    queued result of item 2 fails with `9`: `[f 1]` is delivered, then `9` (not `7`) comes out —
    exactly as in the normal drain loop. -/
example : ∃ s : St Nat Nat Nat,
    Reachable 1 2 .waitAll .cancelQueued (fun x => if x = 2 then .error 9 else .ok x) [1, 2] (some 7) s ∧
    s.c = .done (some 9) false ∧ s.delivered = [1] :=
  ⟨_, .of_run [consumer, consumer, consumer, consumer, start, finish 0, start, finish 1,
               consumer, consumer, resume, consumer, consumer] rfl, rfl, rfl⟩

/-- `lpm_yieldErr_enabled`, `lpm_close_terminates_pool`: a `close()` at a `yield` of the error drain
    cancels as usual (future 1 was still pending and queued: it is cancelled; no exception). -/
example : ∃ s₀ s : St Nat Nat Nat,
    Reachable 1 2 .waitAll .cancelQueued (fun x => .ok x) [1, 2] (some 7) s₀ ∧
    s₀.c = .yieldedErr 7 ∧ s₀.delivered = [1] ∧
    run s₀ [close, consumer, consumer, consumer] = some s ∧
    s.c = .done none true ∧ s.futs = [(1, .done (.ok 1)), (2, .cancelled)] :=
  ⟨_, _, .of_run [consumer, consumer, consumer, consumer, start, finish 0, consumer, consumer] rfl,
   rfl, rfl, rfl, rfl, rfl⟩

/-- `lpm_no_deadlock`: the consumer waits for the head of `q` (it cannot move), the pool can. -/
example : ∃ s s' : St Nat Nat Nat,
    Reachable 1 1 .waitAll .cancelQueued (fun x => .ok x) [1, 2] none s ∧
    isDone s = false ∧ s.c = .waitHead 2 ∧ step s .consumer = none ∧ step s .start = some s' :=
  ⟨_, _, .of_run [consumer, consumer, consumer] rfl, rfl, rfl, rfl, rfl⟩

/-- `lpm_yield_enabled`: at the first `yield`. -/
example : ∃ s s₁ s₂ : St Nat Nat Nat,
    Reachable 1 1 .waitAll .cancelQueued (fun x => .ok x) [1, 2] none s ∧
    s.c = .yielded (some 2) ∧ step s .resume = some s₁ ∧ step s .close = some s₂ :=
  ⟨_, _, _, .of_run [consumer, consumer, consumer, start, finish 0, consumer] rfl, rfl, rfl, rfl⟩

/-- `lpm_terminates`, `lpm_schedule_bounded`: `mu` of the initial state is `8·2+4`; after three
    consumer steps and a `start` it is 15; a complete run of 15 steps ends with `mu = 0`. -/
example : mu (init 1 1 .waitAll .cancelQueued (fun x : Nat => (.ok x : Except Nat Nat)) [1, 2] none) = 20 ∧
    (run (init 1 1 .waitAll .cancelQueued (fun x : Nat => (.ok x : Except Nat Nat)) [1, 2] none)
      [consumer, consumer, consumer, start]).map mu = some 15 ∧
    (run (init 1 1 .waitAll .cancelQueued (fun x : Nat => (.ok x : Except Nat Nat)) [1, 2] none)
      [consumer, consumer, consumer, start, finish 0, consumer, resume, consumer, consumer,
       start, finish 1, consumer, resume, consumer, consumer]).map mu = some 0 :=
  ⟨by decide, by decide, by decide⟩

/-- `lpm_close_terminates_pool`, `lpm_quiescent`: concurrent.futures flavour after `close`;
    the queued future 1 was cancelled, nothing is active. -/
example : ∃ s : St Nat Nat Nat,
    Reachable 1 2 .waitAll .cancelQueued (fun x => .ok x) [1, 2, 3] none s ∧
    s.c = .done none true ∧ s.futs = [(1, .done (.ok 1)), (2, .cancelled)] :=
  ⟨_, .of_run [consumer, consumer, consumer, consumer, consumer, start, finish 0, consumer,
               close, consumer, consumer, consumer] rfl, rfl, rfl⟩

/-- `lpm_close_terminates_pool`, `lpm_quiescent`: multiprocessing flavour `(killAll, nothing)`. -/
example : ∃ s : St Nat Nat Nat,
    Reachable 1 2 .killAll .nothing (fun x => .ok x) [1, 2, 3] none s ∧
    s.c = .done none true ∧ s.exitKind = .killAll ∧ s.futs = [(1, .done (.ok 1)), (2, .cancelled)] :=
  ⟨_, .of_run [consumer, consumer, consumer, consumer, consumer, start, finish 0, consumer,
               close, consumer, consumer] rfl, rfl, rfl, rfl⟩

/-- `lpm_close_terminates_pool`: pathos flavour `(leaveRunning, terminatePool)`; future 1 was
    running when `terminate()` discarded it. -/
example : ∃ s : St Nat Nat Nat,
    Reachable 1 2 .leaveRunning .terminatePool (fun x => .ok x) [1, 2, 3] none s ∧
    s.c = .done none true ∧ s.termKind ≠ .nothing ∧ s.started = 2 ∧
    s.futs = [(1, .done (.ok 1)), (2, .cancelled)] :=
  ⟨_, .of_run [consumer, consumer, consumer, consumer, consumer, start, finish 0, consumer, start,
               close, consumer, consumer] rfl, rfl, by decide, rfl, rfl⟩

/-- `lpm_quiescent_pathos_fixed`, `lpm_close_terminates_pool`: repaired pathos flavour
    `(killOnError, terminatePool)` after `close`; future 1 was running when `terminate()`
    discarded it. -/
example : ∃ s : St Nat Nat Nat,
    Reachable 1 2 .killOnError .terminatePool (fun x => .ok x) [1, 2, 3] none s ∧
    s.c = .done none true ∧ isDone s = true ∧ s.started = 2 ∧
    s.futs = [(1, .done (.ok 1)), (2, .cancelled)] :=
  ⟨_, .of_run [consumer, consumer, consumer, consumer, consumer, start, finish 0, consumer, start,
               close, consumer, consumer] rfl, rfl, rfl, rfl, rfl⟩

/-- `lpm_quiescent_pathos_fixed`, `lpm_complete`: repaired pathos flavour, normal exhaustion (the
    exit step does nothing, yet nothing is active: everything submitted was delivered). -/
example : ∃ s : St Nat Nat Nat,
    Reachable 1 1 .killOnError .terminatePool (fun x => .ok (x + 10)) [1, 2] none s ∧
    s.c = .done none false ∧ isDone s = true ∧ s.delivered = [11, 12] ∧
    s.futs = [(1, .done (.ok 11)), (2, .done (.ok 12))] :=
  ⟨_, .of_run [consumer, consumer, consumer, start, finish 0, consumer, resume, consumer, consumer,
               start, finish 1, consumer, resume, consumer, consumer] rfl, rfl, rfl, rfl, rfl⟩

/-- `lpm_queue_bound`, `lpm_pulled_bound`, `lpm_started_bound`, `lpm_running_bound`: all four
    bounds are attained (`|q| = b = 1`, `pulled = 0 + b + 1`, `started = 0 + b`, one worker busy). -/
example : ∃ s : St Nat Nat Nat,
    Reachable 1 1 .waitAll .cancelQueued (fun x => .ok x) [1, 2] none s ∧
    s.q.length = s.buffer ∧ s.pulled = s.delivered.length + s.buffer + 1 ∧
    s.started = s.delivered.length + s.buffer ∧ numRunning s = s.workers :=
  ⟨_, .of_run [consumer, consumer, consumer, start] rfl, rfl, rfl, rfl, rfl⟩

end Examples

end LazyDs.Lpm

/-
  C09: isolation of handed-out examples from the dataset's storage (aliasing), final theorems
  about the heap model `LazyDs.Heap`.

  Vocabulary (definitions in `LazyDs.Model.Heap` and `LazyDs.Lemmas.HeapLemmas`):
  * `Stored.tree t`          : serialising modes (pickle / wu) and the memory / disk cache: the
                               dataset keeps immutable bytes; `Stored.addr a`: copy mode, the dataset
                               keeps the caller's object and deep-copies on access;
  * `run s ops`              : final state and the list of outputs (one per op; `mutate` outputs `none`);
  * `ClosedBelow h w`        : `∀ a < w, ∀ c, h[a]? = some c → ∀ b ∈ c.addrs, b < w`
                               (cells below the watermark only point below the watermark);
  * `Cell.addrs`             : the addresses stored inside a cell.
  The examples use `Heap.Ex`: the caller's object `{"x": [1, 2]}` (cells 0..3, root 3),
  `sPickle` (store `[.tree tEx]`), `sCopy` (store `[.addr 3]`), and two histories
  `access 0; mutate; mutate; access 0` that mutate the handed-out copy (cells 4..7) resp. the
  caller's original list (cell 2), and `histRoots`, which mutates only handed-out ROOTS.
-/
import LazyDs.Lemmas.HeapLemmas

namespace LazyDs

open Heap
open Heap.Ex

/-- Serialising modes (pickle / wu) and the caches: if the store consists of trees, then for
    EVERY history (arbitrary accesses and mutations at ANY address, including the caller's
    original container) (1) every access to entry `i` returns exactly the stored tree, and
    (2) every access to an in-range index succeeds in this way.
    (Part (1) does not need `hs`: it holds entry-wise for every `.tree` entry of a mixed store,
    `Heap.isolated_tree`; `hs` is used for (2).) -/
theorem C09_isolated_serialising (s : St) (hs : ∀ x ∈ s.store, ∃ t, x = Stored.tree t)
    (ops : List Op) :
    (∀ (k i : Nat) (t : Tree), ops[k]? = some (.access i) → s.store[i]? = some (.tree t) →
      (run s ops).2[k]? = some (some t)) ∧
    (∀ (k i : Nat), ops[k]? = some (.access i) → i < s.store.length →
      ∃ t, s.store[i]? = some (.tree t) ∧ (run s ops).2[k]? = some (some t)) := by
  refine ⟨fun k i t hop hst => isolated_tree s ops k i t hop hst, fun k i hop hi => ?_⟩
  obtain ⟨t, ht⟩ := hs s.store[i] (List.getElem_mem hi)
  have hst : s.store[i]? = some (.tree t) := by rw [List.getElem?_eq_getElem hi, ht]
  exact ⟨t, hst, isolated_tree s ops k i t hop hst⟩

example : (run sPickle histOriginal).2 = [some tEx, none, none, some tEx] := rfl
example : (run sPickle histOriginal).2[3]? = some (some tEx) :=
  (C09_isolated_serialising sPickle (by simp [sPickle]) histOriginal).1 3 0 tEx rfl rfl

/-- Copy mode: let `w = s.heap.length` be the watermark at construction; assume the heap is closed
    below `w`, and every stored address `a` is `< w` and reads as the tree `t a`.  If every
    `mutate` of the history targets an address `≥ w` (only handed-out copies are mutated, never
    the original container), every access to an `.addr a` entry returns `t a`. -/
theorem C09_isolated_copy (s : St) (t : Addr → Tree)
    (hcl : ClosedBelow s.heap s.heap.length)
    (hst : ∀ a : Nat, Stored.addr a ∈ s.store →
      a < s.heap.length ∧ snapshot s.heap (fuelOf s.heap) a = some (t a))
    (ops : List Op) (hm : ∀ (a : Nat) c, Op.mutate a c ∈ ops → s.heap.length ≤ a) :
    ∀ (k i a : Nat), ops[k]? = some (.access i) → s.store[i]? = some (.addr a) →
      (run s ops).2[k]? = some (some (t a)) := by
  intro k i a hop hsi
  have ha := hst a (List.mem_of_getElem? hsi)
  exact isolated_addr s s.heap.length (Nat.le_refl _) hcl ops hm k i a (t a) hop hsi ha.1 ha.2

example : (run sCopy histHanded).2 = [some tEx, none, none, some tEx] := rfl
example : (run sCopy histHanded).2[3]? = some (some tEx) :=
  C09_isolated_copy sCopy (fun _ => tEx) (closedBelow_of_check (by decide))
    (by intro a ha; simp [sCopy] at ha; subst ha; exact ⟨by decide, rfl⟩)
    histHanded (by intro a c h; simp [histHanded] at h; rcases h with ⟨rfl, _⟩ | ⟨rfl, _⟩ <;> decide)
    3 0 3 rfl rfl

/-- Copy mode does NOT protect against the caller mutating the original container after
    construction (a `mutate` BELOW the watermark): the later access returns the mutated value.
    This is why immunity to that is promised for the serialising modes only. -/
theorem C09_copy_mode_aliases_original :
    (run sCopy histOriginal).2 =
      [some (.dict [("x", .list [.int 1, .int 2])]), none, none,
       some (.dict [("x", .list [.int 1])])] := rfl

example : (run sPickle histOriginal).2[3]? = some (some (.dict [("x", .list [.int 1, .int 2])])) := rfl
example : (run sCopy histOriginal).2[3]? = some (some (.dict [("x", .list [.int 1])])) := rfl

/-- Every address handed out by an access is fresh: it is `≥` the heap length before the access
    (hence different from every stored object and from everything handed out earlier, all of
    which are valid addresses of the old heap) and valid in the new heap. -/
theorem C09_handed_out_fresh (s s' : St) (i : Nat) (t : Tree)
    (h : step s (.access i) = (s', some t)) :
    ∃ a : Nat, s'.handed = a :: s.handed ∧ s.heap.length ≤ a ∧ a < s'.heap.length :=
  step_access_handed s s' i t h

example : (run sCopy histHanded).1.handed = [11, 7] := rfl
example : (step sCopy (.access 0)).1.handed = [7] ∧ sCopy.heap.length = 4 := by decide

/-- Consequently, starting from the construction state (nothing handed out yet), the handed-out
    roots are pairwise distinct and all at or above the construction watermark. -/
theorem C09_handed_out_distinct (s : St) (hh : s.handed = []) (ops : List Op) :
    (run s ops).1.handed.Nodup ∧ ∀ a : Nat, a ∈ (run s ops).1.handed → s.heap.length ≤ a := by
  refine ⟨(run_handed_nodup s ops (by simp [hh]) (by simp [hh])).2, fun a ha => ?_⟩
  rcases run_handed_ge s ops a ha with h | h
  · simp [hh] at h
  · exact h

example : (run sCopy histHanded).1.handed.Nodup := (C09_handed_out_distinct sCopy rfl histHanded).1

/-- Both modes: in a history started at construction in which every `mutate` targets an address
    that was handed out earlier, any two accesses to the same valid index return the same tree,
    namely the stored tree (`.tree`) resp. the tree read at construction (`.addr`).  The heap
    hypotheses of `C09_isolated_copy` are needed only if the store contains an `.addr` entry. -/
theorem C09_mutate_handed_does_not_touch_store (s : St) (t : Addr → Tree) (hh : s.handed = [])
    (hcl : (∃ a, Stored.addr a ∈ s.store) → ClosedBelow s.heap s.heap.length)
    (hst : ∀ a : Nat, Stored.addr a ∈ s.store →
      a < s.heap.length ∧ snapshot s.heap (fuelOf s.heap) a = some (t a))
    (ops : List Op)
    (hm : ∀ k a c, ops[k]? = some (.mutate a c) → a ∈ (run s (ops.take k)).1.handed)
    (k₁ k₂ i : Nat) (h₁ : ops[k₁]? = some (.access i)) (h₂ : ops[k₂]? = some (.access i))
    (hi : i < s.store.length) :
    ∃ u, (run s ops).2[k₁]? = some (some u) ∧ (run s ops).2[k₂]? = some (some u) ∧
      (s.store[i]? = some (.tree u) ∨ ∃ a, s.store[i]? = some (.addr a) ∧ u = t a) := by
  have hge := mutates_ge_of_handed s.heap.length s ops (Nat.le_refl _) (by simp [hh]) hm
  cases hsi : s.store[i]? with
  | none => rw [List.getElem?_eq_none_iff] at hsi; omega
  | some x =>
    cases x with
    | tree u =>
      exact ⟨u, isolated_tree s ops k₁ i u h₁ hsi, isolated_tree s ops k₂ i u h₂ hsi, Or.inl rfl⟩
    | addr a =>
      have hmem := List.mem_of_getElem? hsi
      have ha := hst a hmem
      have hcl' := hcl ⟨a, hmem⟩
      exact ⟨t a,
        isolated_addr s _ (Nat.le_refl _) hcl' ops hge k₁ i a (t a) h₁ hsi ha.1 ha.2,
        isolated_addr s _ (Nat.le_refl _) hcl' ops hge k₂ i a (t a) h₂ hsi ha.1 ha.2,
        Or.inr ⟨a, rfl, rfl⟩⟩

example : (run sCopy histRoots).2 = [some tEx, none, some tEx, none, some tEx] := rfl
example : (run sPickle histRoots).2 = [some tEx, none, some tEx, none, some tEx] := rfl
example : (run sCopy histRoots).1.handed = [15, 11, 7] := rfl
example : ∃ u, (run sCopy histRoots).2[0]? = some (some u) ∧
    (run sCopy histRoots).2[4]? = some (some u) ∧
    (sCopy.store[0]? = some (.tree u) ∨ ∃ a, sCopy.store[0]? = some (.addr a) ∧ u = tEx) :=
  C09_mutate_handed_does_not_touch_store sCopy (fun _ => tEx) rfl
    (fun _ => closedBelow_of_check (by decide))
    (by intro a ha; simp [sCopy] at ha; subst ha; exact ⟨by decide, rfl⟩)
    histRoots
    (by
      intro k a c h
      match k, h with
      | 0, h => simp [histRoots] at h
      | 1, h => simp [histRoots] at h; obtain ⟨rfl, _⟩ := h; decide
      | 2, h => simp [histRoots] at h
      | 3, h => simp [histRoots] at h; obtain ⟨rfl, _⟩ := h; decide
      | 4, h => simp [histRoots] at h
      | k + 5, h => simp [histRoots] at h)
    0 4 0 rfl rfl (by decide)

end LazyDs

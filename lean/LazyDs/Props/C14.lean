/-
  C14: exception-based filtering drops exactly the failing examples.

  `ds.catch(E)` (`CatchExceptionDataset`, model `catchDS` / `catchOuts`, reference `Ref.catch_`)
  yields, in order, precisely the examples whose evaluation does not raise an exception of a class
  listed in `E` (subclasses included, `Err.isA`); an exception of any other class propagates
  unchanged at the position of the failing example.  The statements are about the definitions in
  `LazyDs/Model/Stage.lean`, `LazyDs/Model/Basic.lean` and `LazyDs/Spec/Ref.lean` as written; helper
  lemmas are in `LazyDs/Lemmas/CatchLemmas.lean`, the refinement theorem in `LazyDs/Lemmas/Sound.lean`.
-/
import LazyDs.Lemmas.CatchLemmas

namespace LazyDs

/-! ### what `catch(E)` yields -/

/-- The yielded examples are, in order, precisely those whose evaluation does not raise a listed
    exception type: `catchOuts E` is the plain run (`Stream.ofOuts`: yield until the first failure,
    which is raised) of the outcomes that remain after deleting the failures that `except E`
    swallows.  So the first exception of another type is raised at its position and ends the
    iteration. -/
theorem C14_catchOuts_spec {α} (E : List Err) (l : List (Res α)) :
    catchOuts E l =
      Stream.ofOuts (l.filter (fun o => match o with | .error e => !e.isAny E | .ok _ => true)) :=
  catchOuts_eq_ofOuts_filter E l

example : catchOuts [Err.userA] [.ok 1, .error .userB, .ok 2, .error .valueError, .ok 3]
    = (⟨[1, 2], some .valueError⟩ : Stream Nat) := rfl

example : [(.ok 1 : Res Nat), .error .userB, .ok 2, .error .valueError, .ok 3].filter
      (fun o => match o with | .error e => !e.isAny [Err.userA] | .ok _ => true)
    = [.ok 1, .ok 2, .error .valueError, .ok 3] := rfl

/-- If every failure is of a listed type, exactly the successful examples come out, in order, and
    nothing is raised. -/
theorem C14_catch_values {α} (E : List Err) (l : List (Res α))
    (h : ∀ o ∈ l, ∀ e, o = .error e → e.isAny E = true) :
    catchOuts E l = ⟨l.filterMap (fun o => match o with | .ok v => some v | .error _ => none), none⟩ :=
  catchOuts_all_caught E l h

example : catchOuts [Err.userA, Err.lookupError] [.ok 1, .error .userB, .ok 2, .error .keyError, .ok 3]
    = (⟨[1, 2, 3], none⟩ : Stream Nat) := rfl

/-- An exception of another type propagates unchanged, at the position of the failing example:
    if the examples before it were evaluated without an uncaught exception, the iteration yields
    exactly what it yields for those examples and then raises `e`; nothing after it is evaluated. -/
theorem C14_other_propagates {α} (E : List Err) (l pre post : List (Res α)) (e : Err)
    (hl : l = pre ++ [.error e] ++ post) (he : e.isAny E = false)
    (hpre : (catchOuts E pre).err = none) :
    (catchOuts E l).err = some e ∧ (catchOuts E l).vals = (catchOuts E pre).vals := by
  subst hl
  exact catchOuts_uncaught E pre post e he hpre

example : (catchOuts [Err.userA] ([.ok 1, .error .userB, .ok 2] ++ [.error .typeError] ++ [.ok 3, .error .userA])
    : Stream Nat) = ⟨[1, 2], some .typeError⟩ := rfl

/-- `catchOuts` over a concatenation: the second part is only run if the first did not raise. -/
theorem C14_catch_append {α} (E : List Err) (a b : List (Res α)) :
    catchOuts E (a ++ b) = (catchOuts E a).append (catchOuts E b) :=
  catchOuts_append E a b

example : (catchOuts [Err.userA] ([.ok 1, .error .userA] ++ [.ok 2]) : Stream Nat) = ⟨[1, 2], none⟩ := rfl

/-! ### in a pipeline: wherever upstream the exception originates -/

/-- For every admissible pipeline `p` (any chain of stages), the model of the lazy code for
    `p.catch(E)` iterates as `catchOuts E` of the positional outcomes `r.outs` of the reference of
    the WHOLE upstream pipeline: an example is dropped iff evaluating it through all upstream stages
    raises a listed exception, no matter which stage raises.  The same holds for iteration with keys
    (`items()`), where position `j` is paired with `keys[j]`. -/
theorem C14_catch_pipeline (ρ : Env) (hρ : EnvOK ρ) (E : List Err) (p : Pipeline)
    (ha : Adm ρ (.catch E p)) (d : DS) (hb : build ρ (.catch E p) = .ok d) :
    ∃ r, ref ρ p = .ok r ∧ d.iter = catchOuts E r.outs ∧
      (∀ ks, r.keys = .ok ks → d.iterK = catchOuts E ((List.range ks.length).map (fun (j : Nat) => (do
          let k ← pyIndex ks (j : Int)
          let v ← outAt r.outs (j : Int)
          .ok (k, v) : Res (String × Val))))) := by
  obtain ⟨r, hr, _, _, h1, h2⟩ := catch_pipeline ρ hρ E p ha d hb
  exact ⟨r, hr, h1, h2⟩

example (d : DS) (hb : build c14Env (c14Pipe [.userA]) = .ok d) :
    ∃ r, ref c14Env (.map .identity (.listSrc [.int 1, .int 2, .int 3])) = .ok r ∧
      d.iter = catchOuts [.userA] r.outs := by
  obtain ⟨r, h1, h2, _⟩ := C14_catch_pipeline c14Env c14Env_ok [.userA] _ (c14Pipe_adm _) d hb
  exact ⟨r, h1, h2⟩

example : (build c14Env (c14Pipe [.userA])).toOption.map (·.iter.vals.length) = some 2 := rfl

/-- With a key table upstream, the key iteration of `p.catch(E)` yields exactly the (key, value)
    pairs of the value iteration, and raises exactly when the value iteration does. -/
theorem C14_catch_keys_values (ρ : Env) (hρ : EnvOK ρ) (E : List Err) (p : Pipeline)
    (ha : Adm ρ (.catch E p)) (d : DS) (hb : build ρ (.catch E p) = .ok d)
    (r : RefDS) (hr : ref ρ p = .ok r) (ks : List String) (hks : r.keys = .ok ks) :
    d.iterK.vals.map (·.2) = d.iter.vals ∧ d.iterK.err = d.iter.err := by
  obtain ⟨r', hr', hwf, hi, h1, h2⟩ := catch_pipeline ρ hρ E p ha d hb
  rw [hr] at hr'
  injection hr' with hr'
  subst hr'
  obtain ⟨a, b⟩ := catchOuts_pair E r.outs ks (hwf.keysLen hi ks hks)
  rw [h1, h2 ks hks]
  exact ⟨b, a⟩

example :
    let d := catchDS [.userA] (mapDS (c14Env.fn .identity) (dictSrc [("a", .int 1), ("b", .int 2), ("c", .int 3)]))
    d.iterK.vals.map (·.1) = ["a", "c"] ∧ d.iterK.vals.length = d.iter.vals.length ∧ d.iterK.err = none := by
  decide

/-! ### "a listed exception type": the subclass relation -/

/-- `Err.isA` is the subclass relation of the modelled class tree.  In particular
    `_ItemsNotDefined` (the internal marker, a `BaseException`) and a user class derived from
    `BaseException` are NOT caught by `catch(Exception)`, while `FilterException` is. -/
theorem C14_subclass :
    Err.userB.isA .userA = true ∧
    Err.userA.isA .userB = false ∧
    Err.filterException.isA .exception = true ∧
    Err.itemsNotDefinedInternal.isA .exception = false ∧
    Err.userBase.isA .exception = false ∧
    Err.keyError.isA .lookupError = true := by
  decide

example : (catchOuts [Err.exception] [.ok 1, .error .filterException, .ok 2, .error .itemsNotDefinedInternal, .ok 3]
    : Stream Nat) = ⟨[1, 2], some .itemsNotDefinedInternal⟩ := rfl

/-- every class is caught by `except` of itself -/
theorem C14_isA_refl (e : Err) : e.isA e = true := isA_refl e

example : Err.notImplemented.isA .notImplemented = true := rfl

/-- the subclass relation is transitive -/
theorem C14_isA_trans (a b c : Err) (hab : a.isA b = true) (hbc : b.isA c = true) : a.isA c = true :=
  isA_trans a b c hab hbc

example : Err.notImplemented.isA .baseException = true :=
  C14_isA_trans .notImplemented .runtimeError .baseException rfl rfl

/-- `except (c,)` is `except c` -/
theorem C14_isAny_singleton (e c : Err) : e.isAny [c] = e.isA c := isAny_singleton e c

/-- `except (c, c', …)`: a tuple of types catches what any member catches -/
theorem C14_isAny_cons (e c : Err) (cs : List Err) : e.isAny (c :: cs) = (e.isA c || e.isAny cs) :=
  isAny_cons e c cs

example : Err.userB.isAny [.lookupError, .userA] = true ∧ Err.userC.isAny [.lookupError, .userA] = false := by
  decide

/-! ### the three ways of filtering agree -/

/-- For a total predicate `q` and an indexable reference dataset whose examples all evaluate without
    error (and whose iteration is the run of its outcome list: true of sources, slices, caches),
    (i) the lazy filter, (ii) the eager filter (`filter(lazy=False)`, which succeeds) and (iii)
    `catch(FilterException)` over a map that raises `FilterException` unless `q` holds all iterate to
    the same thing: the examples that satisfy `q`, in order, ending normally. -/
theorem C14_three_filters_agree (q : Val → Bool) (r : RefDS) (hi : r.indexable = true) (hw : RefWF2 r)
    (hall : ∀ o ∈ r.outs, ∃ v, o = .ok v) (hs : r.stream = .ofOuts r.outs) :
    (Ref.filter (fun v => .ok (q v)) r).stream = ⟨(okVals r.outs).filter q, none⟩ ∧
    (∃ r', Ref.mkFilterEager (fun v => .ok (q v)) r = .ok r' ∧
      r'.stream = ⟨(okVals r.outs).filter q, none⟩) ∧
    (Ref.catch_ [.filterException]
      (Ref.map (fun v => if q v then .ok v else .error .filterException) r)).stream
        = ⟨(okVals r.outs).filter q, none⟩ := by
  have ho := outs_eq_map_okVals r.outs hall
  have hs' : r.stream = ⟨okVals r.outs, none⟩ := by
    rw [hs]
    conv => lhs; rw [ho]
    exact ofOuts_map_ok _
  exact ⟨filter_lazy_total q r _ hs', filter_eager_total q r hi hw _ ho hs', filter_catch_total q r hi hw _ ho⟩

/-- The hypothesis `hs` of `C14_three_filters_agree` follows from well-formedness (C02) whenever the
    iteration of the dataset ends normally. -/
theorem C14_stream_ofOuts (r : RefDS) (hi : r.indexable = true) (hw : RefWF2 r)
    (he : r.stream.err = none) : r.stream = .ofOuts r.outs :=
  stream_eq_ofOuts_of_err_none r hi hw he

example :
    let q : Val → Bool := fun v => match v with | .int i => i % 2 == 0 | _ => false
    let r := Ref.listSrc [.int 1, .int 2, .int 3, .int 4]
    (Ref.filter (fun v => .ok (q v)) r).stream.vals.length = 2 ∧
    ((Ref.mkFilterEager (fun v => .ok (q v)) r).toOption.map (·.stream.vals.length)) = some 2 ∧
    (Ref.catch_ [.filterException]
      (Ref.map (fun v => if q v then .ok v else .error .filterException) r)).stream.vals.length = 2 := by
  decide

example (q : Val → Bool) (xs : List Val) :=
  C14_three_filters_agree q (Ref.listSrc xs) rfl (wf2_listSrc xs) (by simp [Ref.listSrc])
    (by simp [Ref.listSrc, Stream.ofList, ofOuts_map_ok])

end LazyDs

/-
  Invariants, reachability and helper lemmas for the two cache state machines
  `LazyDs.Cache` (in-memory `CacheDataset`, C10) and `LazyDs.Disk` (`DiskCacheDataset`, C11).
  The final theorems are in `LazyDs.Props.C10` / `LazyDs.Props.C11`.  Core Lean only.
-/
import LazyDs.Model.Cache
import LazyDs.Model.Disk

/-! # Part 1: the in-memory cache -/
namespace LazyDs.Cache

variable {V : Type}

deriving instance DecidableEq for Out
deriving instance DecidableEq for Op
deriving instance DecidableEq for St

/-- the integer `i` or `i + n` that Python looks at -/
def normInt (n : Nat) (i : Int) : Int := if i < 0 then i + (n : Int) else i

/-- Python's index normalisation: `i` for `0 ≤ i < n`, `i + n` for `-n ≤ i < 0`, otherwise the
    access raises `IndexError` (`none`). -/
def normIdx (n : Nat) (i : Int) : Option Nat :=
  if normInt n i < 0 || normInt n i ≥ (n : Int) then none else some (normInt n i).toNat

/-- the example indices that have an entry in the store -/
def keys (store : List (Nat × V)) : List Nat := store.map (·.1)

/-- a state is reachable from the initial state of a dataset of length `n` -/
def Reach (up : Nat → Nat → V) (n : Nat) (s : St V) : Prop :=
  ∃ ops, (run up (init n) ops).1 = s

/-! ## `normIdx` -/

theorem normIdx_some_iff {n : Nat} {i : Int} {j : Nat} :
    normIdx n i = some j ↔ (0 ≤ i ∧ i < n ∧ (j : Int) = i) ∨ (i < 0 ∧ -(n : Int) ≤ i ∧ (j : Int) = i + n) := by
  unfold normIdx normInt
  split <;> split <;> simp at * <;> omega

theorem normIdx_none_iff {n : Nat} {i : Int} :
    normIdx n i = none ↔ (i < -(n : Int) ∨ (n : Int) ≤ i) := by
  unfold normIdx normInt
  split <;> split <;> simp at * <;> omega

theorem normIdx_lt {n : Nat} {i : Int} {j : Nat} (h : normIdx n i = some j) : j < n := by
  rw [normIdx_some_iff] at h; omega

theorem normIdx_nonneg {n : Nat} {i : Int} (h0 : 0 ≤ i) (h1 : i < n) :
    normIdx n i = some i.toNat := by
  rw [normIdx_some_iff]; omega

theorem normIdx_neg {n : Nat} {i : Int} (h0 : 0 ≤ i) (h1 : i < n) :
    normIdx n (i - n) = some i.toNat := by
  rw [normIdx_some_iff]; omega

theorem normIdx_out {n : Nat} {i : Int} (h : i < -(n : Int) ∨ (n : Int) ≤ i) :
    normIdx n i = none := normIdx_none_iff.2 h

/-- the normalised index is `i` or `i + n` -/
theorem normIdx_eq {n : Nat} {i : Int} {j : Nat} (h : normIdx n i = some j) :
    (0 ≤ i ∧ (j : Int) = i) ∨ (i < 0 ∧ (j : Int) = i + n) := by
  rw [normIdx_some_iff] at h; omega

/-! ## `lookup` -/

theorem lookup_eq_none_iff {st : List (Nat × V)} {j : Nat} :
    lookup st j = none ↔ j ∉ keys st := by
  simp [lookup, keys, List.find?_eq_none]
  constructor
  · intro h v hv; exact h j v hv rfl
  · intro h a b hab e; subst e; exact h b hab

theorem mem_of_lookup {st : List (Nat × V)} {j : Nat} {v : V} (h : lookup st j = some v) :
    (j, v) ∈ st := by
  simp only [lookup, Option.map_eq_some_iff] at h
  obtain ⟨⟨a, b⟩, hf, hb⟩ := h
  have h1 := List.find?_some hf
  have h2 := List.mem_of_find?_eq_some hf
  simp at h1 hb
  subst h1; subst hb; exact h2

theorem lookup_append_of_some {st e : List (Nat × V)} {j : Nat} {v : V}
    (h : lookup st j = some v) : lookup (st ++ e) j = some v := by
  simp only [lookup, Option.map_eq_some_iff] at h ⊢
  obtain ⟨p, hf, hb⟩ := h
  exact ⟨p, by simp [List.find?_append, hf], hb⟩

theorem lookup_append_of_none {st e : List (Nat × V)} {j : Nat}
    (h : lookup st j = none) : lookup (st ++ e) j = lookup e j := by
  simp only [lookup, Option.map_eq_none_iff] at h
  simp [lookup, List.find?_append, h]

theorem lookup_of_mem_nodup {st : List (Nat × V)} {j : Nat} {v : V}
    (hn : (keys st).Nodup) (hm : (j, v) ∈ st) : lookup st j = some v := by
  induction st with
  | nil => simp at hm
  | cons p r ih =>
    obtain ⟨a, b⟩ := p
    simp only [keys, List.map_cons, List.nodup_cons] at hn
    simp only [List.mem_cons, Prod.mk.injEq] at hm
    rcases hm with ⟨h1, h2⟩ | hm
    · subst h1; subst h2; simp [lookup]
    · have hne : a ≠ j := by
        intro e; subst e
        exact hn.1 (List.mem_map.2 ⟨(a, v), hm, rfl⟩)
      have := ih hn.2 hm
      simp only [lookup] at this ⊢
      simp [hne, this]

/-! ## `check` and the shape of a step -/

theorem check_snd_cases (s : St V) (inst : Nat) (mem : Bool) :
    (check s inst mem).2 = s.latch ∨
      (mem = false ∧ (check s inst mem).1 = false ∧ (check s inst mem).2 = s.latch.set inst false) := by
  unfold check
  split
  · split <;> simp_all
  · simp

theorem check_fst_true {s : St V} {inst : Nat} {mem : Bool} (h : (check s inst mem).1 = true) :
    mem = true ∧ s.latch[inst]? = some true ∧ (check s inst mem).2 = s.latch := by
  unfold check at h ⊢
  split at h
  · split at h <;> simp_all
  · simp at h

theorem check_true_of {s : St V} {inst : Nat} (h : s.latch[inst]? = some true) :
    check s inst true = (true, s.latch) := by
  simp [check, h]

theorem check_length (s : St V) (inst : Nat) (mem : Bool) :
    (check s inst mem).2.length = s.latch.length := by
  rcases check_snd_cases s inst mem with h | ⟨_, _, h⟩ <;> simp [h]

theorem step_copy_ok (up : Nat → Nat → V) {s : St V} {inst : Nat} (h : inst < s.latch.length) :
    step up s (.copy inst) = ({ s with latch := s.latch ++ [true] }, .newInst s.latch.length) := by
  simp [step, h]

theorem step_copy_bad (up : Nat → Nat → V) {s : St V} {inst : Nat} (h : s.latch.length ≤ inst) :
    step up s (.copy inst) = (s, .badInst) := by
  have : ¬ inst < s.latch.length := by omega
  simp [step, this]

/-- the state after a miss -/
def missSt (up : Nat → Nat → V) (s : St V) (inst : Nat) (mem : Bool) (j : Nat) : St V :=
  { s with
    store := if (check s inst mem).1 then s.store ++ [(j, up j (s.calls.getD j 0))] else s.store
    latch := (check s inst mem).2
    calls := s.calls.set j (s.calls.getD j 0 + 1) }

/-- `step` on a `get`, written with `normIdx` and `missSt` -/
theorem step_get_eq (up : Nat → Nat → V) (s : St V) (inst : Nat) (i : Int) (mem : Bool) :
    step up s (.get inst i mem) =
      if s.latch.length ≤ inst then (s, .badInst) else
      match normIdx s.n i with
      | none => (s, .indexError)
      | some j =>
        match lookup s.store j with
        | some v => (s, .val v)
        | none => (missSt up s inst mem j, .val (up j (s.calls.getD j 0))) := by
  simp only [step, normIdx, ge_iff_le, missSt]
  rw [show (if i < 0 then i + (s.n : Int) else i) = normInt s.n i from rfl]
  generalize normInt s.n i = jz
  split
  · rfl
  · split
    · rfl
    · dsimp only
      cases lookup s.store jz.toNat with
      | some v => rfl
      | none =>
        cases hck : check s inst mem with
        | mk ok l => cases ok <;> simp

theorem step_get_bad (up : Nat → Nat → V) {s : St V} {inst : Nat} (i : Int) (mem : Bool)
    (h : s.latch.length ≤ inst) : step up s (.get inst i mem) = (s, .badInst) := by
  rw [step_get_eq]; simp [h]

theorem step_get_out (up : Nat → Nat → V) {s : St V} {inst : Nat} {i : Int} (mem : Bool)
    (h : inst < s.latch.length) (hn : normIdx s.n i = none) :
    step up s (.get inst i mem) = (s, .indexError) := by
  have h' : ¬ s.latch.length ≤ inst := by omega
  rw [step_get_eq]; simp [h', hn]

theorem step_get_hit (up : Nat → Nat → V) {s : St V} {inst : Nat} {i : Int} (mem : Bool)
    {j : Nat} {v : V}
    (h : inst < s.latch.length) (hn : normIdx s.n i = some j) (hl : lookup s.store j = some v) :
    step up s (.get inst i mem) = (s, .val v) := by
  have h' : ¬ s.latch.length ≤ inst := by omega
  rw [step_get_eq]; simp [h', hn, hl]

theorem step_get_miss (up : Nat → Nat → V) {s : St V} {inst : Nat} {i : Int} (mem : Bool)
    {j : Nat}
    (h : inst < s.latch.length) (hn : normIdx s.n i = some j) (hl : lookup s.store j = none) :
    step up s (.get inst i mem) = (missSt up s inst mem j, .val (up j (s.calls.getD j 0))) := by
  have h' : ¬ s.latch.length ≤ inst := by omega
  rw [step_get_eq]; simp [h', hn, hl]

/-- the four ways a `get` can go -/
theorem step_get_cases (up : Nat → Nat → V) (s : St V) (inst : Nat) (i : Int) (mem : Bool) :
    (s.latch.length ≤ inst ∧ step up s (.get inst i mem) = (s, .badInst)) ∨
    (inst < s.latch.length ∧ normIdx s.n i = none ∧
        step up s (.get inst i mem) = (s, .indexError)) ∨
    (∃ j v, inst < s.latch.length ∧ normIdx s.n i = some j ∧ lookup s.store j = some v ∧
        step up s (.get inst i mem) = (s, .val v)) ∨
    (∃ j, inst < s.latch.length ∧ normIdx s.n i = some j ∧ lookup s.store j = none ∧
        step up s (.get inst i mem) =
          (missSt up s inst mem j, .val (up j (s.calls.getD j 0)))) := by
  by_cases h : inst < s.latch.length
  · cases hn : normIdx s.n i with
    | none => exact .inr (.inl ⟨h, rfl, step_get_out up mem h hn⟩)
    | some j =>
      cases hl : lookup s.store j with
      | none => exact .inr (.inr (.inr ⟨j, h, rfl, hl, step_get_miss up mem h hn hl⟩))
      | some v => exact .inr (.inr (.inl ⟨j, v, h, rfl, hl, step_get_hit up mem h hn hl⟩))
  · exact .inl ⟨by omega, step_get_bad up i mem (by omega)⟩

/-! ## `run` -/

@[simp] theorem run_nil (up : Nat → Nat → V) (s : St V) : run up s [] = (s, []) := rfl

theorem run_cons (up : Nat → Nat → V) (s : St V) (op : Op) (ops : List Op) :
    run up s (op :: ops) =
      ((run up (step up s op).1 ops).1, (step up s op).2 :: (run up (step up s op).1 ops).2) := rfl

theorem run_append (up : Nat → Nat → V) (s : St V) (a b : List Op) :
    run up s (a ++ b) =
      ((run up (run up s a).1 b).1, (run up s a).2 ++ (run up (run up s a).1 b).2) := by
  induction a generalizing s with
  | nil => simp
  | cons op a ih => simp [run_cons, ih]

theorem run_length (up : Nat → Nat → V) (s : St V) (ops : List Op) :
    (run up s ops).2.length = ops.length := by
  induction ops generalizing s with
  | nil => simp
  | cons op ops ih => simp [run_cons, ih]

theorem Reach.init (up : Nat → Nat → V) (n : Nat) : Reach up n (init n) := ⟨[], rfl⟩

theorem Reach.step {up : Nat → Nat → V} {n : Nat} {s : St V} (h : Reach up n s) (op : Op) :
    Reach up n (step up s op).1 := by
  obtain ⟨ops, rfl⟩ := h
  exact ⟨ops ++ [op], by simp [run_append, run_cons]⟩

theorem Reach.run {up : Nat → Nat → V} {n : Nat} {s : St V} (h : Reach up n s) (ops : List Op) :
    Reach up n (run up s ops).1 := by
  obtain ⟨ops₀, rfl⟩ := h
  exact ⟨ops₀ ++ ops, by simp [run_append]⟩

/-- induction principle: a property of the initial state preserved by every step holds along
    every run -/
theorem run_induction {up : Nat → Nat → V} (P : St V → Prop)
    (hstep : ∀ s op, P s → P (step up s op).1) {s : St V} (h : P s) (ops : List Op) :
    P (run up s ops).1 := by
  induction ops generalizing s with
  | nil => exact h
  | cons op ops ih => rw [run_cons]; exact ih (hstep s op h)

/-! ## The invariant -/

/-- the invariant of the in-memory cache -/
structure Inv (up : Nat → Nat → V) (s : St V) : Prop where
  /-- the call counters cover exactly the examples -/
  calls_len : s.calls.length = s.n
  /-- at most one entry per example index -/
  nodup : (keys s.store).Nodup
  /-- every stored index is an example index -/
  key_lt : ∀ j v, (j, v) ∈ s.store → j < s.n
  /-- every stored value was produced by the upstream pipeline for that example -/
  produced : ∀ j v, (j, v) ∈ s.store → ∃ c, c < s.calls.getD j 0 ∧ v = up j c

theorem getD_set_self {l : List Nat} {j : Nat} (x : Nat) (h : j < l.length) :
    (l.set j x).getD j 0 = x := by
  simp [List.getD_eq_getElem?_getD, h]

theorem getD_set_ne {l : List Nat} {j k : Nat} (x : Nat) (h : j ≠ k) :
    (l.set j x).getD k 0 = l.getD k 0 := by
  simp [List.getD_eq_getElem?_getD, h]

theorem getD_set_ge {l : List Nat} {j k : Nat} (h : j < l.length) :
    l.getD k 0 ≤ (l.set j (l.getD j 0 + 1)).getD k 0 := by
  by_cases e : j = k
  · subst e; rw [getD_set_self _ h]; omega
  · rw [getD_set_ne _ e]; omega

theorem inv_init (up : Nat → Nat → V) (n : Nat) : Inv up (init n) where
  calls_len := by simp [init]
  nodup := by simp [init, keys]
  key_lt := by simp [init]
  produced := by simp [init]

theorem inv_missSt {up : Nat → Nat → V} {s : St V} (hi : Inv up s) (inst : Nat) (mem : Bool)
    {j : Nat} (hj : j < s.n) (hl : lookup s.store j = none) : Inv up (missSt up s inst mem j) := by
  have hjl : j < s.calls.length := by rw [hi.calls_len]; exact hj
  have hmem : ∀ p, p ∈ (missSt up s inst mem j).store →
      p ∈ s.store ∨ p = (j, up j (s.calls.getD j 0)) := by
    intro p hp
    simp only [missSt] at hp
    split at hp
    · simp at hp; exact hp
    · exact .inl hp
  refine ⟨?_, ?_, ?_, ?_⟩
  · simp [missSt, hi.calls_len]
  · simp only [missSt]
    split
    · simp only [keys, List.map_append, List.map_cons, List.map_nil]
      rw [List.nodup_append]
      refine ⟨hi.nodup, by simp, ?_⟩
      intro a ha b hb
      simp at hb; subst hb
      intro e; subst e
      exact (lookup_eq_none_iff.1 hl) ha
    · exact hi.nodup
  · intro k v hk
    rcases hmem _ hk with h | h
    · exact hi.key_lt k v h
    · simp only [Prod.mk.injEq] at h
      show k < s.n
      omega
  · intro k v hk
    show ∃ c, c < (s.calls.set j (s.calls.getD j 0 + 1)).getD k 0 ∧ v = up k c
    rcases hmem _ hk with h | h
    · obtain ⟨c, hc, hv⟩ := hi.produced k v h
      exact ⟨c, Nat.lt_of_lt_of_le hc (getD_set_ge hjl), hv⟩
    · simp only [Prod.mk.injEq] at h
      obtain ⟨rfl, rfl⟩ := h
      exact ⟨s.calls.getD k 0, by rw [getD_set_self _ hjl]; omega, rfl⟩

theorem n_step (up : Nat → Nat → V) (s : St V) (op : Op) : (step up s op).1.n = s.n := by
  cases op with
  | copy inst =>
    by_cases h : inst < s.latch.length
    · rw [step_copy_ok up h]
    · rw [step_copy_bad up (by omega)]
  | get inst i mem =>
    rcases step_get_cases up s inst i mem with ⟨_, h⟩ | ⟨_, _, h⟩ | ⟨_, _, _, _, _, h⟩ | ⟨_, _, _, _, h⟩ <;>
      rw [h] <;> rfl

theorem inv_step {up : Nat → Nat → V} {s : St V} (hi : Inv up s) (op : Op) :
    Inv up (step up s op).1 := by
  cases op with
  | copy inst =>
    by_cases h : inst < s.latch.length
    · rw [step_copy_ok up h]; exact ⟨hi.calls_len, hi.nodup, hi.key_lt, hi.produced⟩
    · rw [step_copy_bad up (by omega)]; exact hi
  | get inst i mem =>
    rcases step_get_cases up s inst i mem with ⟨_, h⟩ | ⟨_, _, h⟩ | ⟨_, _, _, _, _, h⟩ | ⟨j, _, hn, hl, h⟩ <;>
      rw [h]
    · exact hi
    · exact hi
    · exact hi
    · exact inv_missSt hi inst mem (normIdx_lt hn) hl

theorem inv_run {up : Nat → Nat → V} {s : St V} (hi : Inv up s) (ops : List Op) :
    Inv up (run up s ops).1 :=
  run_induction (Inv up) (fun _ op h => inv_step h op) hi ops

theorem n_run (up : Nat → Nat → V) (s : St V) (ops : List Op) : (run up s ops).1.n = s.n := by
  induction ops generalizing s with
  | nil => rfl
  | cons op ops ih => rw [run_cons, ih, n_step]

theorem Reach.inv {up : Nat → Nat → V} {n : Nat} {s : St V} (h : Reach up n s) : Inv up s := by
  obtain ⟨ops, rfl⟩ := h
  exact inv_run (inv_init up n) ops

theorem Reach.n_eq {up : Nat → Nat → V} {n : Nat} {s : St V} (h : Reach up n s) : s.n = n := by
  obtain ⟨ops, rfl⟩ := h
  rw [n_run]; rfl

/-! ## Frozen entries, latches -/

theorem store_step_frozen (up : Nat → Nat → V) (s : St V) (op : Op) {j : Nat} {v : V}
    (hl : lookup s.store j = some v) : lookup (step up s op).1.store j = some v := by
  cases op with
  | copy inst =>
    by_cases h : inst < s.latch.length
    · rw [step_copy_ok up h]; exact hl
    · rw [step_copy_bad up (by omega)]; exact hl
  | get inst i mem =>
    rcases step_get_cases up s inst i mem with ⟨_, h⟩ | ⟨_, _, h⟩ | ⟨_, _, _, _, _, h⟩ | ⟨k, _, hn, _, h⟩ <;>
      rw [h]
    · exact hl
    · exact hl
    · exact hl
    · simp only [missSt]
      split
      · exact lookup_append_of_some hl
      · exact hl

theorem store_run_frozen (up : Nat → Nat → V) (s : St V) (ops : List Op) {j : Nat} {v : V}
    (hl : lookup s.store j = some v) : lookup (run up s ops).1.store j = some v :=
  run_induction (fun t => lookup t.store j = some v)
    (fun t op h => store_step_frozen up t op h) hl ops

theorem latch_step_false (up : Nat → Nat → V) (s : St V) (op : Op) {k : Nat}
    (hk : s.latch[k]? = some false) : (step up s op).1.latch[k]? = some false := by
  have hlt : k < s.latch.length := by
    rcases Nat.lt_or_ge k s.latch.length with h | h
    · exact h
    · rw [List.getElem?_eq_none h] at hk; cases hk
  cases op with
  | copy inst =>
    by_cases h : inst < s.latch.length
    · rw [step_copy_ok up h]
      show (s.latch ++ [true])[k]? = some false
      rw [List.getElem?_append_left hlt]; exact hk
    · rw [step_copy_bad up (by omega)]; exact hk
  | get inst i mem =>
    rcases step_get_cases up s inst i mem with ⟨_, h⟩ | ⟨_, _, h⟩ | ⟨_, _, _, _, _, h⟩ | ⟨j, _, hn, _, h⟩ <;>
      rw [h]
    · exact hk
    · exact hk
    · exact hk
    · show (check s inst mem).2[k]? = some false
      rcases check_snd_cases s inst mem with e | ⟨_, _, e⟩ <;> rw [e]
      · exact hk
      · rw [List.getElem?_set]
        split
        · simp [*]
        · exact hk

theorem latch_length_step (up : Nat → Nat → V) (s : St V) (op : Op) :
    s.latch.length ≤ (step up s op).1.latch.length := by
  cases op with
  | copy inst =>
    by_cases h : inst < s.latch.length
    · rw [step_copy_ok up h]; simp
    · rw [step_copy_bad up (by omega)]; exact Nat.le_refl _
  | get inst i mem =>
    rcases step_get_cases up s inst i mem with ⟨_, h⟩ | ⟨_, _, h⟩ | ⟨_, _, _, _, _, h⟩ | ⟨j, _, hn, _, h⟩ <;>
      rw [h] <;> simp [missSt, check_length]

/-! ## Histories in which memory never runs short -/

/-- no access of the history ever finds memory short -/
def AllMem (ops : List Op) : Prop := ∀ inst i mem, Op.get inst i mem ∈ ops → mem = true

/-- the stronger invariant of such histories: no instance is latched, every example is either
    not yet evaluated or evaluated once and stored as that first value -/
structure TInv (up : Nat → Nat → V) (s : St V) : Prop where
  latch_true : ∀ (k : Nat) (b : Bool), s.latch[k]? = some b → b = true
  calls_le : ∀ j, s.calls.getD j 0 ≤ 1
  calls_zero : ∀ j, j ∉ keys s.store → s.calls.getD j 0 = 0
  first : ∀ j v, (j, v) ∈ s.store → v = up j 0

theorem tinv_init (up : Nat → Nat → V) (n : Nat) : TInv up (init n) where
  latch_true := by
    intro k b h
    simp only [init] at h
    cases k with
    | zero => simp at h; exact h
    | succ k => simp at h
  calls_le := by
    intro j
    simp [init, List.getD_eq_getElem?_getD, List.getElem?_replicate]
    split <;> simp
  calls_zero := by
    intro j _
    simp [init, List.getD_eq_getElem?_getD, List.getElem?_replicate]
    split <;> simp
  first := by simp [init]

/-- a step with `mem = true` (or a copy) preserves `TInv`, and the value returned by a `get`
    is the first value of the upstream pipeline -/
theorem tinv_step {up : Nat → Nat → V} {s : St V} (hi : Inv up s) (ht : TInv up s) (op : Op)
    (hm : ∀ inst i mem, op = .get inst i mem → mem = true) :
    TInv up (step up s op).1 ∧
      ∀ inst i mem v, op = .get inst i mem → (step up s op).2 = .val v →
        ∃ j, normIdx s.n i = some j ∧ v = up j 0 := by
  cases op with
  | copy inst =>
    refine ⟨?_, by intro _ _ _ _ h; cases h⟩
    by_cases h : inst < s.latch.length
    · rw [step_copy_ok up h]
      refine ⟨?_, ht.calls_le, ht.calls_zero, ht.first⟩
      intro k b hk
      simp only [List.getElem?_append] at hk
      split at hk
      · exact ht.latch_true k b hk
      · rcases Nat.eq_zero_or_pos (k - s.latch.length) with e | e
        · rw [e] at hk; simp at hk; exact hk
        · rw [List.getElem?_eq_none (by simp; omega)] at hk; cases hk
    · rw [step_copy_bad up (by omega)]; exact ht
  | get inst i mem =>
    have hmem : mem = true := hm inst i mem rfl
    subst hmem
    rcases step_get_cases up s inst i true with ⟨_, h⟩ | ⟨_, _, h⟩ | ⟨j, v, _, hn, hl, h⟩ | ⟨j, hlt, hn, hl, h⟩ <;>
      rw [h]
    · exact ⟨ht, by intro _ _ _ _ _ h; cases h⟩
    · exact ⟨ht, by intro _ _ _ _ _ h; cases h⟩
    · refine ⟨ht, ?_⟩
      intro inst' i' mem' v' e hv
      cases e
      simp only [Out.val.injEq] at hv
      subst hv
      exact ⟨j, hn, ht.first j v (mem_of_lookup hl)⟩
    · have hj : j < s.calls.length := by rw [hi.calls_len]; exact normIdx_lt hn
      have hz : s.calls.getD j 0 = 0 := ht.calls_zero j (lookup_eq_none_iff.1 hl)
      obtain ⟨b, hb⟩ : ∃ b, s.latch[inst]? = some b := ⟨s.latch[inst], by simp [hlt]⟩
      have hb' : s.latch[inst]? = some true := by rw [hb, ht.latch_true inst b hb]
      have hck := check_true_of hb'
      refine ⟨⟨?_, ?_, ?_, ?_⟩, ?_⟩
      · simp only [missSt, hck]; exact ht.latch_true
      · intro k
        simp only [missSt]
        by_cases e : j = k
        · subst e; rw [getD_set_self _ hj]; omega
        · rw [getD_set_ne _ e]; exact ht.calls_le k
      · intro k hk
        simp only [missSt, hck, if_true, keys, List.map_append, List.map_cons, List.map_nil,
          List.mem_append, List.mem_singleton, not_or] at hk ⊢
        rw [getD_set_ne _ (Ne.symm hk.2)]
        exact ht.calls_zero k hk.1
      · intro k v hk
        simp only [missSt, hck, if_true, List.mem_append, List.mem_singleton,
          Prod.mk.injEq] at hk
        rcases hk with hk | ⟨rfl, rfl⟩
        · exact ht.first k v hk
        · rw [hz]
      · intro inst' i' mem' v' e hv
        cases e
        simp only [Out.val.injEq] at hv
        subst hv
        exact ⟨j, hn, by rw [hz]⟩

/-- along a history in which memory never runs short: the invariant holds in the final state
    and every value returned is the first value the upstream pipeline produced -/
theorem tinv_run {up : Nat → Nat → V} {s : St V} (hi : Inv up s) (ht : TInv up s)
    (ops : List Op) (hm : AllMem ops) :
    TInv up (run up s ops).1 ∧
      ∀ (k inst : Nat) (i : Int) (mem : Bool) (v : V), ops[k]? = some (Op.get inst i mem) →
        (run up s ops).2[k]? = some (Out.val v) → ∃ j, normIdx s.n i = some j ∧ v = up j 0 := by
  induction ops generalizing s with
  | nil => exact ⟨ht, by simp⟩
  | cons op ops ih =>
    have hm1 : ∀ inst i mem, op = .get inst i mem → mem = true := by
      intro inst i mem e; exact hm inst i mem (by simp [e])
    have hm2 : AllMem ops := by
      intro inst i mem h; exact hm inst i mem (List.mem_cons_of_mem _ h)
    obtain ⟨ht', hv'⟩ := tinv_step hi ht op hm1
    obtain ⟨hf, hvs⟩ := ih (inv_step hi op) ht' hm2
    rw [run_cons]
    refine ⟨hf, ?_⟩
    intro k inst i mem v hk ho
    cases k with
    | zero =>
      simp only [List.getElem?_cons_zero, Option.some.injEq] at hk ho
      exact hv' inst i mem v hk ho
    | succ k =>
      simp only [List.getElem?_cons_succ] at hk ho
      have := hvs k inst i mem v hk ho
      rwa [n_step] at this

/-! ## A concrete history (used by the examples of `LazyDs.Props.C10`) -/
namespace Ex

/-- the `c`-th evaluation of example `j` yields `100 * j + c`: the result DEPENDS on how often
    the example was evaluated -/
def upEx (j c : Nat) : Nat := 100 * j + c

/-- a history on a dataset of length 3 with a copy, negative indices, a memory shortage that
    latches the copy, an out-of-range index and an unknown instance -/
def hist : List Op :=
  [ .get 0 1 true,        -- miss, stored:            100
    .get 0 (-2) true,     -- the same entry, hit:     100
    .copy 0,              -- instance 1
    .get 1 (-1) false,    -- miss, memory short: instance 1 latches, nothing stored: 200
    .get 1 2 true,        -- instance 1 is latched: evaluated again, not stored:     201
    .get 0 2 true,        -- instance 0 still caches: evaluated again, stored:       202
    .get 1 (-1) true,     -- the latched copy sees the shared store: hit              202
    .get 0 5 true,        -- IndexError
    .get 7 0 true ]       -- no such instance

/-- the same kind of accesses when memory never runs short -/
def histMem : List Op :=
  [ .get 0 1 true, .get 0 (-2) true, .copy 0, .get 1 (-1) true, .get 1 2 true, .get 0 2 true,
    .get 1 (-3) true, .get 0 0 true ]

/-- the state after `hist` -/
def sEx : St Nat := (run upEx (init 3) hist).1

theorem sEx_reach : Reach upEx 3 sEx := ⟨hist, rfl⟩

end Ex

end LazyDs.Cache

/-! # Part 2: the disk cache -/
namespace LazyDs.Disk

variable {V : Type}

deriving instance DecidableEq for Out
deriving instance DecidableEq for Op
deriving instance DecidableEq for Wrapper
deriving instance DecidableEq for St

/-- the example indices that have an entry in a directory -/
def keys (es : List (Nat × V)) : List Nat := es.map (·.1)

/-- no alive wrapper (of the current process) has directory `d` open -/
def NoAliveOn (s : St V) (d : Nat) : Prop :=
  ∀ wr ∈ s.wrappers, wr.alive = true → wr.dir ≠ d

/-- a state is reachable from the initial state (dataset of length `n`, `ndirs` directory names,
    none of which exists) -/
def Reach (f : Nat → V) (n ndirs : Nat) (s : St V) : Prop :=
  ∃ ops, (run f (init n ndirs) ops).1 = s

/-- the invariant of the disk cache -/
structure Good (f : Nat → V) (s : St V) : Prop where
  /-- the call counters cover exactly the examples -/
  calls_len : s.calls.length = s.n
  /-- every entry of every existing directory is the right value at the right index -/
  entries : ∀ (d : Nat) (es : List (Nat × V)), s.dirs[d]? = some (some es) →
    ∀ i v, (i, v) ∈ es → v = f i ∧ i < s.n
  /-- at most one entry per example in every existing directory -/
  nodup : ∀ (d : Nat) (es : List (Nat × V)), s.dirs[d]? = some (some es) → (keys es).Nodup
  /-- an alive wrapper has a holder -/
  holders : ∀ (w : Nat) (wr : Wrapper), s.wrappers[w]? = some wr → wr.alive = true →
    1 ≤ wr.holders
  /-- the directory of an alive wrapper exists -/
  has_dir : ∀ (w : Nat) (wr : Wrapper), s.wrappers[w]? = some wr → wr.alive = true →
    ∃ es, s.dirs[wr.dir]? = some (some es)
  /-- no two alive wrappers share a directory -/
  unique : ∀ (w w' : Nat) (wr wr' : Wrapper), s.wrappers[w]? = some wr →
    s.wrappers[w']? = some wr' → wr.alive = true → wr'.alive = true → wr.dir = wr'.dir → w = w'

/-! ## `lookup` -/

theorem lookup_eq_cache (es : List (Nat × V)) (j : Nat) : lookup es j = Cache.lookup es j := rfl

theorem lookup_eq_none_iff {es : List (Nat × V)} {j : Nat} : lookup es j = none ↔ j ∉ keys es :=
  Cache.lookup_eq_none_iff

theorem mem_of_lookup {es : List (Nat × V)} {j : Nat} {v : V} (h : lookup es j = some v) :
    (j, v) ∈ es := Cache.mem_of_lookup h

theorem lookup_of_mem_nodup {es : List (Nat × V)} {j : Nat} {v : V}
    (hn : (keys es).Nodup) (hm : (j, v) ∈ es) : lookup es j = some v :=
  Cache.lookup_of_mem_nodup hn hm

/-! ## The shape of a step -/

theorem any_alive_eq_false_iff (s : St V) (d : Nat) :
    (s.wrappers.any (fun wr => wr.alive && wr.dir == d)) = false ↔ NoAliveOn s d := by
  simp [NoAliveOn, List.any_eq_false]

theorem any_alive_eq_true_iff (s : St V) (d : Nat) :
    (s.wrappers.any (fun wr => wr.alive && wr.dir == d)) = true ↔ ¬ NoAliveOn s d := by
  rw [← any_alive_eq_false_iff]; simp

theorem step_open_busy (f : Nat → V) {s : St V} {d : Nat} (reuse clear : Bool)
    (h : ¬ NoAliveOn s d) : step f s (.open_ d reuse clear) = (s, .bad) := by
  rw [← any_alive_eq_true_iff] at h
  simp only [step, h, if_true]

theorem step_open_nodir (f : Nat → V) {s : St V} {d : Nat} (reuse clear : Bool)
    (hd : s.dirs[d]? = none) : step f s (.open_ d reuse clear) = (s, .bad) := by
  simp only [step, hd]
  split <;> rfl

theorem step_open_new (f : Nat → V) {s : St V} {d : Nat} (reuse clear : Bool)
    (h : NoAliveOn s d) (hd : s.dirs[d]? = some none) :
    step f s (.open_ d reuse clear) =
      ({ s with dirs := s.dirs.set d (some []),
                wrappers := s.wrappers ++ [⟨d, clear, 1, true⟩] }, .opened s.wrappers.length) := by
  rw [← any_alive_eq_false_iff] at h
  simp [step, h, hd]

theorem step_open_reuse (f : Nat → V) {s : St V} {d : Nat} (clear : Bool)
    {es : List (Nat × V)} (h : NoAliveOn s d) (hd : s.dirs[d]? = some (some es)) :
    step f s (.open_ d true clear) =
      ({ s with wrappers := s.wrappers ++ [⟨d, clear, 1, true⟩] }, .opened s.wrappers.length) := by
  rw [← any_alive_eq_false_iff] at h
  simp [step, h, hd]

theorem step_open_refuse (f : Nat → V) {s : St V} {d : Nat} (clear : Bool)
    {es : List (Nat × V)} (h : NoAliveOn s d) (hd : s.dirs[d]? = some (some es)) :
    step f s (.open_ d false clear) = (s, .refused) := by
  rw [← any_alive_eq_false_iff] at h
  simp [step, h, hd]

/-- the ways an `open_` can go -/
theorem step_open_cases (f : Nat → V) (s : St V) (d : Nat) (reuse clear : Bool) :
    step f s (.open_ d reuse clear) = (s, .bad) ∨
    step f s (.open_ d reuse clear) = (s, .refused) ∨
    (NoAliveOn s d ∧ s.dirs[d]? = some none ∧ step f s (.open_ d reuse clear) =
      ({ s with dirs := s.dirs.set d (some []),
                wrappers := s.wrappers ++ [⟨d, clear, 1, true⟩] }, .opened s.wrappers.length)) ∨
    (∃ es, NoAliveOn s d ∧ s.dirs[d]? = some (some es) ∧ step f s (.open_ d reuse clear) =
      ({ s with wrappers := s.wrappers ++ [⟨d, clear, 1, true⟩] }, .opened s.wrappers.length)) := by
  by_cases h : NoAliveOn s d
  · cases hd : s.dirs[d]? with
    | none => exact .inl (step_open_nodir f reuse clear hd)
    | some o =>
      cases o with
      | none => exact .inr (.inr (.inl ⟨h, rfl, step_open_new f reuse clear h hd⟩))
      | some es =>
        cases reuse with
        | false => exact .inr (.inl (step_open_refuse f clear h hd))
        | true => exact .inr (.inr (.inr ⟨es, h, rfl, step_open_reuse f clear h hd⟩))
  · exact .inl (step_open_busy f reuse clear h)

theorem step_get_hit (f : Nat → V) {s : St V} {w i : Nat} {wr : Wrapper}
    {es : List (Nat × V)} {v : V}
    (hw : s.wrappers[w]? = some wr) (ha : wr.alive = true) (hi : i < s.n)
    (hd : s.dirs[wr.dir]? = some (some es)) (hl : lookup es i = some v) :
    step f s (.get w i) = (s, .val v) := by
  have : ¬ s.n ≤ i := by omega
  simp [step, hw, ha, this, hd, hl]

theorem step_get_miss (f : Nat → V) {s : St V} {w i : Nat} {wr : Wrapper}
    {es : List (Nat × V)}
    (hw : s.wrappers[w]? = some wr) (ha : wr.alive = true) (hi : i < s.n)
    (hd : s.dirs[wr.dir]? = some (some es)) (hl : lookup es i = none) :
    step f s (.get w i) =
      ({ s with dirs := s.dirs.set wr.dir (some (es ++ [(i, f i)])),
                calls := s.calls.set i (s.calls.getD i 0 + 1) }, .val (f i)) := by
  have : ¬ s.n ≤ i := by omega
  simp [step, hw, ha, this, hd, hl]

/-- the ways a `get` can go -/
theorem step_get_cases (f : Nat → V) (s : St V) (w i : Nat) :
    step f s (.get w i) = (s, .bad) ∨
    (∃ wr es v, s.wrappers[w]? = some wr ∧ wr.alive = true ∧ i < s.n ∧
        s.dirs[wr.dir]? = some (some es) ∧ lookup es i = some v ∧
        step f s (.get w i) = (s, .val v)) ∨
    (∃ wr es, s.wrappers[w]? = some wr ∧ wr.alive = true ∧ i < s.n ∧
        s.dirs[wr.dir]? = some (some es) ∧ lookup es i = none ∧
        step f s (.get w i) =
          ({ s with dirs := s.dirs.set wr.dir (some (es ++ [(i, f i)])),
                    calls := s.calls.set i (s.calls.getD i 0 + 1) }, .val (f i))) := by
  cases hw : s.wrappers[w]? with
  | none => left; simp [step, hw]
  | some wr =>
    by_cases ha : wr.alive = true
    · by_cases hi : i < s.n
      · cases hd : s.dirs[wr.dir]? with
        | none => left; simp [step, hw, hd]
        | some o =>
          cases o with
          | none => left; simp [step, hw, hd]
          | some es =>
            cases hl : lookup es i with
            | none => exact .inr (.inr ⟨wr, es, rfl, ha, hi, hd, hl, step_get_miss f hw ha hi hd hl⟩)
            | some v => exact .inr (.inl ⟨wr, es, v, rfl, ha, hi, hd, hl, step_get_hit f hw ha hi hd hl⟩)
      · left
        have : s.n ≤ i := by omega
        simp [step, hw, this]
    · left; simp [step, hw, ha]

/-- the ways a `copy` can go -/
theorem step_copy_cases (f : Nat → V) (s : St V) (w : Nat) :
    step f s (.copy w) = (s, .bad) ∨
    (∃ wr, s.wrappers[w]? = some wr ∧ wr.alive = true ∧ step f s (.copy w) =
      ({ s with wrappers := s.wrappers.set w { wr with holders := wr.holders + 1 } }, .ok)) := by
  cases hw : s.wrappers[w]? with
  | none => left; simp [step, hw]
  | some wr =>
    by_cases ha : wr.alive = true
    · right; exact ⟨wr, rfl, ha, by simp [step, hw, ha]⟩
    · left; simp [step, hw, ha]

/-- the ways a `release` can go -/
theorem step_release_cases (f : Nat → V) (s : St V) (w : Nat) :
    step f s (.release w) = (s, .bad) ∨
    (∃ wr, s.wrappers[w]? = some wr ∧ wr.alive = true ∧ 1 < wr.holders ∧ step f s (.release w) =
      ({ s with wrappers := s.wrappers.set w { wr with holders := wr.holders - 1 } }, .ok)) ∨
    (∃ wr, s.wrappers[w]? = some wr ∧ wr.alive = true ∧ wr.holders ≤ 1 ∧ step f s (.release w) =
      ({ s with dirs := if wr.clear then s.dirs.set wr.dir none else s.dirs,
                wrappers := s.wrappers.set w { wr with holders := 0, alive := false } }, .ok)) := by
  cases hw : s.wrappers[w]? with
  | none => left; simp [step, hw]
  | some wr =>
    by_cases ha : wr.alive = true
    · by_cases hh : 1 < wr.holders
      · right; left; exact ⟨wr, rfl, ha, hh, by simp [step, hw, ha, hh]⟩
      · right; right; exact ⟨wr, rfl, ha, by omega, by simp [step, hw, ha, hh]⟩
    · left; simp [step, hw, ha]

theorem step_kill (f : Nat → V) (s : St V) :
    step f s .kill =
      ({ s with wrappers := s.wrappers.map (fun wr => { wr with holders := 0, alive := false }) },
        .ok) := rfl

/-! ## `run` -/

@[simp] theorem run_nil (f : Nat → V) (s : St V) : run f s [] = (s, []) := rfl

theorem run_cons (f : Nat → V) (s : St V) (op : Op) (ops : List Op) :
    run f s (op :: ops) =
      ((run f (step f s op).1 ops).1, (step f s op).2 :: (run f (step f s op).1 ops).2) := rfl

theorem run_append (f : Nat → V) (s : St V) (a b : List Op) :
    run f s (a ++ b) =
      ((run f (run f s a).1 b).1, (run f s a).2 ++ (run f (run f s a).1 b).2) := by
  induction a generalizing s with
  | nil => simp
  | cons op a ih => simp [run_cons, ih]

theorem run_length (f : Nat → V) (s : St V) (ops : List Op) :
    (run f s ops).2.length = ops.length := by
  induction ops generalizing s with
  | nil => simp
  | cons op ops ih => simp [run_cons, ih]

theorem Reach.init (f : Nat → V) (n nd : Nat) : Reach f n nd (init n nd) := ⟨[], rfl⟩

theorem Reach.step {f : Nat → V} {n nd : Nat} {s : St V} (h : Reach f n nd s) (op : Op) :
    Reach f n nd (step f s op).1 := by
  obtain ⟨ops, rfl⟩ := h
  exact ⟨ops ++ [op], by simp [run_append, run_cons]⟩

theorem Reach.run {f : Nat → V} {n nd : Nat} {s : St V} (h : Reach f n nd s) (ops : List Op) :
    Reach f n nd (run f s ops).1 := by
  obtain ⟨ops₀, rfl⟩ := h
  exact ⟨ops₀ ++ ops, by simp [run_append]⟩

/-! ## The invariant is inductive -/

theorem getElem?_append_singleton {α : Type} {l : List α} {a x : α} {w : Nat}
    (h : (l ++ [a])[w]? = some x) : l[w]? = some x ∨ (w = l.length ∧ x = a) := by
  rw [List.getElem?_append] at h
  split at h
  · exact .inl h
  · right
    rcases Nat.eq_zero_or_pos (w - l.length) with e | e
    · rw [e] at h; simp at h; exact ⟨by omega, h.symm⟩
    · rw [List.getElem?_eq_none (by simp; omega)] at h; cases h

theorem getElem?_set_some_cases {α : Type} {l : List α} {d d' : Nat} {a x : α}
    (h : (l.set d a)[d']? = some x) : (d = d' ∧ x = a) ∨ (d ≠ d' ∧ l[d']? = some x) := by
  rw [List.getElem?_set] at h
  by_cases e : d = d'
  · rw [if_pos e] at h
    by_cases e' : d < l.length
    · rw [if_pos e'] at h; exact .inl ⟨e, by cases h; rfl⟩
    · rw [if_neg e'] at h; cases h
  · rw [if_neg e] at h; exact .inr ⟨e, h⟩

theorem lt_of_getElem?_eq_some {α : Type} {l : List α} {x : α} {w : Nat} (h : l[w]? = some x) :
    w < l.length := by
  rcases Nat.lt_or_ge w l.length with h' | h'
  · exact h'
  · rw [List.getElem?_eq_none h'] at h; cases h

theorem good_init (f : Nat → V) (n nd : Nat) : Good f (init n nd) where
  calls_len := by simp [init]
  entries := by
    intro d es h
    simp [init, List.getElem?_replicate] at h
  nodup := by
    intro d es h
    simp [init, List.getElem?_replicate] at h
  holders := by intro w wr h; simp [init] at h
  has_dir := by intro w wr h; simp [init] at h
  unique := by intro w w' wr wr' h; simp [init] at h

theorem good_open_new {f : Nat → V} {s : St V} (hg : Good f s) {d : Nat} (clear : Bool)
    (h : NoAliveOn s d) (hd : s.dirs[d]? = some none) :
    Good f { s with dirs := s.dirs.set d (some []),
                    wrappers := s.wrappers ++ [⟨d, clear, 1, true⟩] } := by
  have hdl := lt_of_getElem?_eq_some hd
  refine ⟨hg.calls_len, ?_, ?_, ?_, ?_, ?_⟩
  · intro d' es he
    rcases getElem?_set_some_cases he with ⟨_, he⟩ | ⟨_, he⟩
    · simp only [Option.some.injEq] at he; subst he; simp
    · exact hg.entries d' es he
  · intro d' es he
    rcases getElem?_set_some_cases he with ⟨_, he⟩ | ⟨_, he⟩
    · simp only [Option.some.injEq] at he; subst he; simp [keys]
    · exact hg.nodup d' es he
  · intro w wr hw ha
    rcases getElem?_append_singleton hw with hw | ⟨_, rfl⟩
    · exact hg.holders w wr hw ha
    · exact Nat.le_refl 1
  · intro w wr hw ha
    simp only [List.getElem?_set]
    rcases getElem?_append_singleton hw with hw | ⟨_, rfl⟩
    · split
      · simp
      · exact hg.has_dir w wr hw ha
    · simp [hdl]
  · intro w w' wr wr' hw hw' ha ha' hdd
    rcases getElem?_append_singleton hw with hw | ⟨e, rfl⟩ <;>
      rcases getElem?_append_singleton hw' with hw' | ⟨e', rfl⟩
    · exact hg.unique w w' wr wr' hw hw' ha ha' hdd
    · exact absurd hdd (h wr (List.mem_of_getElem? hw) ha)
    · exact absurd hdd.symm (h wr' (List.mem_of_getElem? hw') ha')
    · omega

theorem good_open_reuse {f : Nat → V} {s : St V} (hg : Good f s) {d : Nat} (clear : Bool)
    {es : List (Nat × V)} (h : NoAliveOn s d) (hd : s.dirs[d]? = some (some es)) :
    Good f { s with wrappers := s.wrappers ++ [⟨d, clear, 1, true⟩] } := by
  refine ⟨hg.calls_len, hg.entries, hg.nodup, ?_, ?_, ?_⟩
  · intro w wr hw ha
    rcases getElem?_append_singleton hw with hw | ⟨_, rfl⟩
    · exact hg.holders w wr hw ha
    · exact Nat.le_refl 1
  · intro w wr hw ha
    rcases getElem?_append_singleton hw with hw | ⟨_, rfl⟩
    · exact hg.has_dir w wr hw ha
    · exact ⟨es, hd⟩
  · intro w w' wr wr' hw hw' ha ha' hdd
    rcases getElem?_append_singleton hw with hw | ⟨e, rfl⟩ <;>
      rcases getElem?_append_singleton hw' with hw' | ⟨e', rfl⟩
    · exact hg.unique w w' wr wr' hw hw' ha ha' hdd
    · exact absurd hdd (h wr (List.mem_of_getElem? hw) ha)
    · exact absurd hdd.symm (h wr' (List.mem_of_getElem? hw') ha')
    · omega

theorem good_get_miss {f : Nat → V} {s : St V} (hg : Good f s) {i : Nat} {wr : Wrapper}
    {es : List (Nat × V)} (hi : i < s.n)
    (hd : s.dirs[wr.dir]? = some (some es)) (hl : lookup es i = none) :
    Good f { s with dirs := s.dirs.set wr.dir (some (es ++ [(i, f i)])),
                    calls := s.calls.set i (s.calls.getD i 0 + 1) } := by
  have hdl := lt_of_getElem?_eq_some hd
  refine ⟨by simp [hg.calls_len], ?_, ?_, hg.holders, ?_, hg.unique⟩
  · intro d' es' he
    rcases getElem?_set_some_cases he with ⟨_, he⟩ | ⟨_, he⟩
    · simp only [Option.some.injEq] at he; subst he
      intro k v hk
      simp only [List.mem_append, List.mem_singleton, Prod.mk.injEq] at hk
      rcases hk with hk | ⟨rfl, rfl⟩
      · exact hg.entries _ es hd k v hk
      · exact ⟨rfl, hi⟩
    · exact hg.entries d' es' he
  · intro d' es' he
    rcases getElem?_set_some_cases he with ⟨_, he⟩ | ⟨_, he⟩
    · simp only [Option.some.injEq] at he; subst he
      simp only [keys, List.map_append, List.map_cons, List.map_nil]
      rw [List.nodup_append]
      refine ⟨hg.nodup _ es hd, by simp, ?_⟩
      intro a ha b hb
      simp at hb; subst hb
      intro e; subst e
      exact (lookup_eq_none_iff.1 hl) ha
    · exact hg.nodup d' es' he
  · intro w' wr' hw' ha'
    simp only [List.getElem?_set]
    split
    · simp
    · exact hg.has_dir w' wr' hw' ha'

theorem good_copy {f : Nat → V} {s : St V} (hg : Good f s) {w : Nat} {wr : Wrapper}
    (hw : s.wrappers[w]? = some wr) (k : Nat) (hk : 1 ≤ k) :
    Good f { s with wrappers := s.wrappers.set w { wr with holders := k } } := by
  have hwl := lt_of_getElem?_eq_some hw
  -- every wrapper of the new list is an old wrapper up to `holders`
  have key : ∀ (w' : Nat) (wr' : Wrapper),
      (s.wrappers.set w { wr with holders := k })[w']? = some wr' →
      ∃ wr₀, s.wrappers[w']? = some wr₀ ∧ wr₀.alive = wr'.alive ∧ wr₀.dir = wr'.dir ∧
        (wr'.alive = true → 1 ≤ wr₀.holders → 1 ≤ wr'.holders) := by
    intro w' wr' h
    rcases getElem?_set_some_cases h with ⟨e, h'⟩ | ⟨_, h'⟩
    · subst e; subst h'
      exact ⟨wr, hw, rfl, rfl, fun _ _ => hk⟩
    · exact ⟨wr', h', rfl, rfl, fun _ h => h⟩
  refine ⟨hg.calls_len, hg.entries, hg.nodup, ?_, ?_, ?_⟩
  · intro w' wr' h ha
    obtain ⟨wr₀, h0, e1, _, e3⟩ := key w' wr' h
    exact e3 ha (hg.holders w' wr₀ h0 (e1 ▸ ha))
  · intro w' wr' h ha
    obtain ⟨wr₀, h0, e1, e2, _⟩ := key w' wr' h
    rw [← e2]; exact hg.has_dir w' wr₀ h0 (e1 ▸ ha)
  · intro w₁ w₂ wr₁ wr₂ h₁ h₂ ha₁ ha₂ hdd
    obtain ⟨a₁, h01, e11, e12, _⟩ := key w₁ wr₁ h₁
    obtain ⟨a₂, h02, e21, e22, _⟩ := key w₂ wr₂ h₂
    exact hg.unique w₁ w₂ a₁ a₂ h01 h02 (e11 ▸ ha₁) (e21 ▸ ha₂) (by rw [e12, e22]; exact hdd)

theorem good_release_last {f : Nat → V} {s : St V} (hg : Good f s) {w : Nat} {wr : Wrapper}
    (hw : s.wrappers[w]? = some wr) (ha : wr.alive = true) :
    Good f { s with dirs := if wr.clear then s.dirs.set wr.dir none else s.dirs,
                    wrappers := s.wrappers.set w { wr with holders := 0, alive := false } } := by
  have hwl := lt_of_getElem?_eq_some hw
  -- an alive wrapper of the new list is an old one at another position
  have key : ∀ (w' : Nat) (wr' : Wrapper),
      (s.wrappers.set w { wr with holders := 0, alive := false })[w']? = some wr' →
      wr'.alive = true → w ≠ w' ∧ s.wrappers[w']? = some wr' := by
    intro w' wr' h ha'
    rcases getElem?_set_some_cases h with ⟨_, h'⟩ | ⟨e, h'⟩
    · subst h'; cases ha'
    · exact ⟨e, h'⟩
  -- an existing directory of the new file system is an old one
  have dkey : ∀ (d : Nat) (es : List (Nat × V)),
      (if wr.clear then s.dirs.set wr.dir none else s.dirs)[d]? = some (some es) →
      s.dirs[d]? = some (some es) := by
    intro d es h
    split at h
    · rcases getElem?_set_some_cases h with ⟨_, h⟩ | ⟨_, h⟩
      · cases h
      · exact h
    · exact h
  refine ⟨hg.calls_len, ?_, ?_, ?_, ?_, ?_⟩
  · intro d es h; exact hg.entries d es (dkey d es h)
  · intro d es h; exact hg.nodup d es (dkey d es h)
  · intro w' wr' h ha'
    exact hg.holders w' wr' (key w' wr' h ha').2 ha'
  · intro w' wr' h ha'
    obtain ⟨hne, h0⟩ := key w' wr' h ha'
    obtain ⟨es, he⟩ := hg.has_dir w' wr' h0 ha'
    refine ⟨es, ?_⟩
    show (if wr.clear then s.dirs.set wr.dir none else s.dirs)[wr'.dir]? = _
    split
    · rw [List.getElem?_set]
      have : wr.dir ≠ wr'.dir := fun e => hne (hg.unique w w' wr wr' hw h0 ha ha' e)
      simp [this, he]
    · exact he
  · intro w₁ w₂ wr₁ wr₂ h₁ h₂ ha₁ ha₂ hdd
    exact hg.unique w₁ w₂ wr₁ wr₂ (key w₁ wr₁ h₁ ha₁).2 (key w₂ wr₂ h₂ ha₂).2 ha₁ ha₂ hdd

theorem good_kill {f : Nat → V} {s : St V} (hg : Good f s) :
    Good f { s with
      wrappers := s.wrappers.map (fun wr => { wr with holders := 0, alive := false }) } := by
  have key : ∀ (w : Nat) (wr : Wrapper),
      (s.wrappers.map (fun wr => { wr with holders := 0, alive := false }))[w]? = some wr →
      wr.alive = false := by
    intro w wr h
    simp only [List.getElem?_map, Option.map_eq_some_iff] at h
    obtain ⟨a, _, rfl⟩ := h
    rfl
  refine ⟨hg.calls_len, hg.entries, hg.nodup, ?_, ?_, ?_⟩
  · intro w wr h ha; rw [key w wr h] at ha; cases ha
  · intro w wr h ha; rw [key w wr h] at ha; cases ha
  · intro w _ wr _ h _ ha; rw [key w wr h] at ha; cases ha

theorem good_step {f : Nat → V} {s : St V} (hg : Good f s) (op : Op) :
    Good f (step f s op).1 := by
  cases op with
  | open_ d reuse clear =>
    rcases step_open_cases f s d reuse clear with h | h | ⟨hn, hd, h⟩ | ⟨es, hn, hd, h⟩ <;> rw [h]
    · exact hg
    · exact hg
    · exact good_open_new hg clear hn hd
    · exact good_open_reuse hg clear hn hd
  | get w i =>
    rcases step_get_cases f s w i with h | ⟨_, _, _, _, _, _, _, _, h⟩ | ⟨wr, es, _, _, hi, hd, hl, h⟩ <;>
      rw [h]
    · exact hg
    · exact hg
    · exact good_get_miss hg hi hd hl
  | copy w =>
    rcases step_copy_cases f s w with h | ⟨wr, hw, ha, h⟩ <;> rw [h]
    · exact hg
    · exact good_copy hg hw _ (by omega)
  | release w =>
    rcases step_release_cases f s w with h | ⟨wr, hw, ha, hh, h⟩ | ⟨wr, hw, ha, hh, h⟩ <;> rw [h]
    · exact hg
    · exact good_copy hg hw _ (by omega)
    · exact good_release_last hg hw ha
  | kill => exact good_kill hg

theorem good_run {f : Nat → V} {s : St V} (hg : Good f s) (ops : List Op) :
    Good f (run f s ops).1 := by
  induction ops generalizing s with
  | nil => exact hg
  | cons op ops ih => rw [run_cons]; exact ih (good_step hg op)

theorem Reach.good {f : Nat → V} {n nd : Nat} {s : St V} (h : Reach f n nd s) : Good f s := by
  obtain ⟨ops, rfl⟩ := h
  exact good_run (good_init f n nd) ops

/-! ## Values -/

theorem step_get_value {f : Nat → V} {s s' : St V} (hg : Good f s) {w i : Nat} {v : V}
    (h : step f s (.get w i) = (s', .val v)) : v = f i := by
  rcases step_get_cases f s w i with e | ⟨wr, es, v', _, _, _, hd, hl, e⟩ | ⟨_, _, _, _, _, _, _, e⟩ <;>
    rw [e] at h
  · cases h
  · simp only [Prod.mk.injEq, Out.val.injEq] at h
    rw [← h.2]
    exact (hg.entries _ es hd i v' (mem_of_lookup hl)).1
  · simp only [Prod.mk.injEq, Out.val.injEq] at h
    exact h.2.symm

/-- every value read along a run from a `Good` state is the right one -/
theorem run_values {f : Nat → V} {s : St V} (hg : Good f s) (ops : List Op) :
    ∀ (k w i : Nat) (v : V), ops[k]? = some (Op.get w i) →
      (run f s ops).2[k]? = some (Out.val v) → v = f i := by
  induction ops generalizing s with
  | nil => simp
  | cons op ops ih =>
    intro k w i v hk ho
    rw [run_cons] at ho
    cases k with
    | zero =>
      simp only [List.getElem?_cons_zero, Option.some.injEq] at hk ho
      subst hk
      exact step_get_value hg (s' := (step f s (.get w i)).1) (Prod.ext rfl ho)
    | succ k =>
      simp only [List.getElem?_cons_succ] at hk ho
      exact ih (good_step hg op) k w i v hk ho

/-! ## Directories and call counters along a step -/

/-- a directory that does not exist after a step did not exist before, or was removed by the
    finaliser of the last holder of a wrapper with `clear` -/
theorem dir_removed {f : Nat → V} {s : St V} (op : Op) {d : Nat}
    (h : (step f s op).1.dirs[d]? = some none) :
    s.dirs[d]? = some none ∨
      ∃ w wr, op = .release w ∧ s.wrappers[w]? = some wr ∧ wr.alive = true ∧ wr.holders ≤ 1 ∧
        wr.clear = true ∧ wr.dir = d := by
  cases op with
  | open_ d' reuse clear =>
    rcases step_open_cases f s d' reuse clear with e | e | ⟨_, _, e⟩ | ⟨_, _, _, e⟩ <;> rw [e] at h
    · exact .inl h
    · exact .inl h
    · rcases getElem?_set_some_cases h with ⟨_, h'⟩ | ⟨_, h'⟩
      · cases h'
      · exact .inl h'
    · exact .inl h
  | get w i =>
    rcases step_get_cases f s w i with e | ⟨_, _, _, _, _, _, _, _, e⟩ | ⟨_, _, _, _, _, _, _, e⟩ <;>
      rw [e] at h
    · exact .inl h
    · exact .inl h
    · rcases getElem?_set_some_cases h with ⟨_, h'⟩ | ⟨_, h'⟩
      · cases h'
      · exact .inl h'
  | copy w =>
    rcases step_copy_cases f s w with e | ⟨_, _, _, e⟩ <;> rw [e] at h <;> exact .inl h
  | release w =>
    rcases step_release_cases f s w with e | ⟨_, _, _, _, e⟩ | ⟨wr, hw, ha, hh, e⟩ <;> rw [e] at h
    · exact .inl h
    · exact .inl h
    · cases hc : wr.clear with
      | false => simp only [hc] at h; exact .inl h
      | true =>
        simp only [hc, if_true] at h
        rcases getElem?_set_some_cases h with ⟨e', _⟩ | ⟨_, h'⟩
        · exact .inr ⟨w, wr, rfl, hw, ha, hh, hc, e'⟩
        · exact .inl h'
  | kill => exact .inl h

/-- a call counter changes only in a `get` that misses, and then by exactly one -/
theorem calls_changed {f : Nat → V} {s : St V} (hg : Good f s) (op : Op) {i : Nat}
    (h : (step f s op).1.calls.getD i 0 ≠ s.calls.getD i 0) :
    ∃ w wr es, op = .get w i ∧ s.wrappers[w]? = some wr ∧ wr.alive = true ∧ i < s.n ∧
      s.dirs[wr.dir]? = some (some es) ∧ lookup es i = none ∧
      (step f s op).2 = .val (f i) ∧
      (step f s op).1.calls.getD i 0 = s.calls.getD i 0 + 1 := by
  cases op with
  | open_ d' reuse clear =>
    rcases step_open_cases f s d' reuse clear with e | e | ⟨_, _, e⟩ | ⟨_, _, _, e⟩ <;>
      rw [e] at h <;> exact absurd rfl h
  | get w i' =>
    rcases step_get_cases f s w i' with e | ⟨_, _, _, _, _, _, _, _, e⟩ | ⟨wr, es, hw, ha, hi, hd, hl, e⟩ <;>
      rw [e] at h ⊢
    · exact absurd rfl h
    · exact absurd rfl h
    · by_cases hii : i' = i
      · subst hii
        refine ⟨w, wr, es, rfl, hw, ha, hi, hd, hl, rfl, ?_⟩
        show (s.calls.set i' (s.calls.getD i' 0 + 1)).getD i' 0 = _
        rw [Cache.getD_set_self _ (by rw [hg.calls_len]; exact hi)]
      · exact absurd (Cache.getD_set_ne _ hii) h
  | copy w =>
    rcases step_copy_cases f s w with e | ⟨_, _, _, e⟩ <;> rw [e] at h <;> exact absurd rfl h
  | release w =>
    rcases step_release_cases f s w with e | ⟨_, _, _, _, e⟩ | ⟨wr, hw, ha, hh, e⟩ <;>
      rw [e] at h <;> exact absurd rfl h
  | kill => exact absurd rfl h

/-! ## A concrete history (used by the examples of `LazyDs.Props.C11`) -/
namespace Ex

/-- the upstream pipeline of the examples -/
def fEx (i : Nat) : Nat := 10 * i + 7

/-- a history on a dataset of length 4 and two directory names: two caches, a copy, a process
    death in the middle of the work, a refused and a successful reopening, a dead wrapper, a
    clearing finaliser -/
def hist : List Op :=
  [ .open_ 0 false true,    -- wrapper 0 on directory 0 (created), clear
    .get 0 2,               -- miss: 27 written to directory 0
    .copy 0,                -- two holders
    .open_ 1 false false,   -- wrapper 1 on directory 1 (created), no clear
    .get 1 3,               -- miss: 37 written to directory 1
    .get 1 1,               -- miss: 17 written to directory 1
    .release 0,             -- one holder left: nothing happens
    .kill,                  -- the process dies: no finaliser, both directories stay
    .open_ 1 false false,   -- refused: the directory exists and reuse = False
    .open_ 1 true true,     -- wrapper 2 reuses directory 1, clear
    .get 2 3,               -- hit: 37, not recomputed
    .get 2 0,               -- miss: 7
    .get 1 3,               -- wrapper 1 died with the process: bad
    .release 2,             -- last holder, clear: directory 1 is removed
    .open_ 0 true false,    -- wrapper 3 reuses directory 0 (its clearing wrapper was killed)
    .get 3 2 ]              -- hit: 27

/-- the part of `hist` before the `kill` -/
def hist₁ : List Op := hist.take 7
/-- the part of `hist` after the `kill` -/
def hist₂ : List Op := hist.drop 8

/-- the state just before the `kill` -/
def sPre : St Nat := (run fEx (init 4 2) hist₁).1
/-- the state just after the `kill` -/
def sKilled : St Nat := (run fEx (init 4 2) (hist.take 8)).1
/-- the state after wrapper 2 has reopened directory 1 -/
def sReopen : St Nat := (run fEx (init 4 2) (hist.take 10)).1

end Ex

end LazyDs.Disk

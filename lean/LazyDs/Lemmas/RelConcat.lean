import LazyDs.Lemmas.Rel
import Batteries.Data.List.Basic
/-
  Refinement lemmas for the n-ary stages: `ConcatenateDataset` (`concatDS`, `mkConcat`, `mkTile`)
  and `ZipDataset` (`zipDS`, `mkZip`).  "Componentwise related" is `List.Forall₂ Rel ds rs`
  (the inductive comes from `Batteries.Data.List.Basic`; nothing else of Batteries is used).
-/
namespace LazyDs

open List (Forall₂)

/-! ### `outAt` at natural positions and on appended lists -/

theorem outAt_natC (l : List (Res Val)) (j : Nat) :
    outAt l (j : Int) = match l[j]? with | some o => o | none => .error .indexError := by
  unfold outAt; rw [pyIndex_nat]; cases l[j]? <;> rfl

theorem outAt_append_left (a b : List (Res Val)) (i : Int) (h0 : 0 ≤ i) (h : i < a.length) :
    outAt (a ++ b) i = outAt a i := by
  obtain ⟨j, rfl⟩ := Int.eq_ofNat_of_zero_le h0
  rw [outAt_natC, outAt_natC, List.getElem?_append_left (by omega)]

theorem outAt_append_right (a b : List (Res Val)) (i : Int) (h : (a.length : Int) ≤ i) :
    outAt (a ++ b) i = outAt b (i - a.length) := by
  have h0 : 0 ≤ i := by omega
  obtain ⟨j, rfl⟩ := Int.eq_ofNat_of_zero_le h0
  have hj : a.length ≤ j := by omega
  have e : ((j : Int) - (a.length : Int)) = ((j - a.length : Nat) : Int) := by omega
  rw [e, outAt_natC, outAt_natC, List.getElem?_append_right hj]

/-! ### duplicates -/

theorem hasDup_false_iff_nodup (ks : List String) : hasDup ks = false ↔ ks.Nodup := by
  induction ks with
  | nil => simp [hasDup]
  | cons k ks ih =>
    simp only [hasDup, Bool.or_eq_false_iff, List.nodup_cons, ih]
    constructor
    · rintro ⟨h1, h2⟩
      exact ⟨by simpa using h1, h2⟩
    · rintro ⟨h1, h2⟩
      exact ⟨by simpa using h1, h2⟩

/-! ### facts about `Forall₂ Rel` -/

theorem forall₂_all_indexable {ds : List DS} {rs : List RefDS} (h : Forall₂ Rel ds rs) :
    ds.all (·.indexable) = rs.all (·.indexable) := by
  induction h with
  | nil => rfl
  | cons hr _ ih => simp only [List.all_cons, hr.indexable, ih]

theorem forall₂_length {ds : List DS} {rs : List RefDS} (h : Forall₂ Rel ds rs) :
    ds.length = rs.length := by
  induction h with
  | nil => rfl
  | cons _ _ ih => simp [ih]

theorem sumLens_eq {ds : List DS} {rs : List RefDS} (h : Forall₂ Rel ds rs) :
    sumLens ds = Ref.sumLens rs := by
  induction h with
  | nil => rfl
  | cons hr _ ih => simp only [sumLens, Ref.sumLens, hr.len, ih]

theorem allLens_eq {ds : List DS} {rs : List RefDS} (h : Forall₂ Rel ds rs) :
    allLens ds = Ref.allLens rs := by
  induction h with
  | nil => rfl
  | cons hr _ ih => simp only [allLens, Ref.allLens, hr.len, ih]

theorem foldr_iter_eq {ds : List DS} {rs : List RefDS} (h : Forall₂ Rel ds rs) :
    ds.foldr (fun d acc => d.iter.append acc) .nil
      = rs.foldr (fun r acc => r.stream.append acc) .nil := by
  induction h with
  | nil => rfl
  | cons hr _ ih => simp only [List.foldr_cons, hr.iter, ih]

theorem foldr_iterK_eq {ds : List DS} {rs : List RefDS} (h : Forall₂ Rel ds rs) :
    ds.foldr (fun d acc => d.iterK.append acc) .nil
      = rs.foldr (fun r acc => r.kstream.append acc) .nil := by
  induction h with
  | nil => rfl
  | cons hr _ ih => simp only [List.foldr_cons, hr.iterK, ih]

theorem forall₂_len_outs {ds : List DS} {rs : List RefDS} (h : Forall₂ Rel ds rs) :
    ∀ r ∈ rs, r.indexable = true → r.len = .ok r.outs.length := by
  induction h with
  | nil => intro r hr; cases hr
  | cons hr _ ih =>
    intro r' hmem hix
    rcases List.mem_cons.1 hmem with rfl | hm
    · exact (hr.idx hix).1
    · exact ih r' hm hix

/-- the flattened outcome list of the parts -/
abbrev flatOuts (rs : List RefDS) : List (Res Val) := (rs.map (·.outs)).flatten

theorem ref_sumLens_indexable {rs : List RefDS} (hlen : ∀ r ∈ rs, r.len = .ok r.outs.length) :
    Ref.sumLens rs = .ok (flatOuts rs).length := by
  induction rs with
  | nil => rfl
  | cons r rs ih =>
    have h1 := hlen r (by simp)
    have h2 := ih (fun r' hr' => hlen r' (by simp [hr']))
    simp only [Ref.sumLens, h1, h2, flatOuts, List.map_cons, List.flatten_cons, List.length_append]
    rfl

/-! ### the part walk -/

theorem concatWalk_eq {ds : List DS} {rs : List RefDS} (h : Forall₂ Rel ds rs)
    (hi : ∀ r ∈ rs, r.indexable = true) (j : Int) (hj : 0 ≤ j) :
    concatWalk ds j = outAt (flatOuts rs) j := by
  induction h generalizing j with
  | nil =>
    simp only [concatWalk, flatOuts, List.map_nil, List.flatten_nil]
    rw [outAt_ge]; simpa using hj
  | @cons d r ds rs hr _ ih =>
    obtain ⟨hl, hg⟩ := hr.idx (hi r (by simp))
    have ih' := ih (fun r' hr' => hi r' (by simp [hr']))
    simp only [concatWalk, hr.len, hl, flatOuts, List.map_cons, List.flatten_cons]
    by_cases hc : (r.outs.length : Int) ≤ j
    · have : concatWalk ds (j - r.outs.length) = outAt (flatOuts rs) (j - r.outs.length) :=
        ih' _ (by omega)
      rw [outAt_append_right _ _ _ hc, ← this]
      simp [bind, Except.bind, hc]
    · rw [outAt_append_left _ _ _ hj (by omega), ← hg j]
      simp [bind, Except.bind, hc]

theorem concat_getInt_eq {ds : List DS} {rs : List RefDS} (h : Forall₂ Rel ds rs)
    (hi : ∀ r ∈ rs, r.indexable = true) (i : Int) :
    (concatDS ds).getInt i = outAt (flatOuts rs) i := by
  have hlen : Ref.sumLens rs = .ok (flatOuts rs).length :=
    ref_sumLens_indexable (fun r hr => forall₂_len_outs h r hr (hi r hr))
  simp only [concatDS]
  by_cases hneg : i < 0
  · simp only [hneg, if_true, sumLens_eq h, hlen, bind, Except.bind]
    by_cases hj : i + ((flatOuts rs).length : Int) < 0
    · simp only [hj, if_true]
      rw [outAt_lt_neg]; omega
    · simp only [hj, if_false]
      rw [concatWalk_eq h hi _ (by omega)]
      have := outAt_wrap (flatOuts rs) (i + (flatOuts rs).length) (by omega) (by omega)
      rw [← this]; congr 1; omega
  · simp only [hneg, if_false]
    exact concatWalk_eq h hi i (by omega)

/-! ### key tables of a concatenation -/

theorem mapM_cons_ok {α β} (f : α → Res β) (a : α) (l : List α) (out : List β)
    (h : (a :: l).mapM f = .ok out) : ∃ b bs, f a = .ok b ∧ l.mapM f = .ok bs ∧ out = b :: bs := by
  simp only [List.mapM_cons] at h
  cases hfa : f a with
  | error e => rw [hfa] at h; cases h
  | ok b =>
    rw [hfa] at h
    cases hl : l.mapM f with
    | error e => rw [hl] at h; cases h
    | ok bs =>
      rw [hl] at h
      cases h
      exact ⟨b, bs, rfl, rfl, rfl⟩

theorem concatKeysRaw_eq {ds : List DS} {rs : List RefDS} (h : Forall₂ Rel ds rs) :
    concatKeysRaw ds = (do let kss ← rs.mapM (·.keys); .ok kss.flatten) := by
  induction h with
  | nil => rfl
  | @cons d r ds rs hr _ ih =>
    simp only [concatKeysRaw, hr.keys, ih, List.mapM_cons]
    cases r.keys with
    | error e => rfl
    | ok a =>
      cases rs.mapM (·.keys) with
      | error e => rfl
      | ok as => rfl

theorem concatKeys_eq {ds : List DS} {rs : List RefDS} (h : Forall₂ Rel ds rs) :
    concatKeys ds = Ref.concatKeys rs := by
  simp only [concatKeys, Ref.concatKeys, concatKeysRaw_eq h]
  cases rs.mapM (·.keys) with
  | error e => rfl
  | ok kss => rfl

theorem ref_concatKeys_ok {rs : List RefDS} {ks : List String} (h : Ref.concatKeys rs = .ok ks) :
    ∃ kss, rs.mapM (·.keys) = .ok kss ∧ ks = kss.flatten ∧ ks.Nodup := by
  simp only [Ref.concatKeys] at h
  cases hm : rs.mapM (·.keys) with
  | error e => rw [hm] at h; cases h
  | ok kss =>
    rw [hm] at h
    simp only [bind, Except.bind] at h
    cases hd : hasDup kss.flatten with
    | true => rw [hd] at h; cases h
    | false =>
      rw [hd] at h
      cases h
      exact ⟨kss, rfl, rfl, (hasDup_false_iff_nodup _).1 hd⟩

theorem concat_keysLen {ds : List DS} {rs : List RefDS} (h : Forall₂ Rel ds rs)
    (hi : ∀ r ∈ rs, r.indexable = true) (kss : List (List String))
    (hm : rs.mapM (·.keys) = .ok kss) : kss.flatten.length = (flatOuts rs).length := by
  induction h generalizing kss with
  | nil =>
    simp only [List.mapM_nil] at hm
    cases hm; rfl
  | @cons d r ds rs hr _ ih =>
    obtain ⟨b, bs, hb, hbs, rfl⟩ := mapM_cons_ok _ _ _ _ hm
    have h1 := hr.keysLen (hi r (by simp)) b hb
    have h2 := ih (fun r' hr' => hi r' (by simp [hr'])) bs hbs
    simp only [flatOuts, List.map_cons, List.flatten_cons, List.length_append, h1]
    simp only [flatOuts] at h2
    rw [h2]

theorem firstWithKey_eq {ds : List DS} {rs : List RefDS} (h : Forall₂ Rel ds rs)
    (hi : ∀ r ∈ rs, r.indexable = true) (kss : List (List String))
    (hm : rs.mapM (·.keys) = .ok kss) (hn : kss.flatten.Nodup) (j : Nat) (k : String)
    (hk : kss.flatten[j]? = some k) :
    firstWithKey ds k = some (outAt (flatOuts rs) (j : Int)) := by
  induction h generalizing kss j with
  | nil =>
    simp only [List.mapM_nil] at hm
    cases hm
    simp at hk
  | @cons d r ds rs hr _ ih =>
    obtain ⟨b, bs, hb, hbs, rfl⟩ := mapM_cons_ok _ _ _ _ hm
    have hir := hi r (by simp)
    have hlenb : b.length = r.outs.length := hr.keysLen hir b hb
    simp only [List.flatten_cons] at hn hk
    obtain ⟨_, hn2, hdisj⟩ := List.nodup_append.1 hn
    simp only [firstWithKey, hr.keys, hb, flatOuts, List.map_cons, List.flatten_cons]
    by_cases hj : j < b.length
    · rw [List.getElem?_append_left hj] at hk
      have hkb : b[j] = k := by
        rw [List.getElem?_eq_getElem hj] at hk; injection hk
      have hmem : k ∈ b := hkb ▸ List.getElem_mem hj
      have hc : b.contains k = true := by simpa using hmem
      simp only [hc, if_true]
      rw [← hkb, hr.getKey hir b hb j hj]
      rw [outAt_append_left _ _ _ (by omega) (by omega)]
    · have hj' : b.length ≤ j := by omega
      rw [List.getElem?_append_right hj'] at hk
      have hmem : k ∈ bs.flatten := List.mem_of_getElem? hk
      have hc : b.contains k = false := by
        cases hcc : b.contains k with
        | false => rfl
        | true =>
          have : k ∈ b := by simpa using hcc
          exact absurd rfl (hdisj k this k hmem)
      simp only [hc, Bool.false_eq_true, if_false]
      rw [ih (fun r' hr' => hi r' (by simp [hr'])) bs hbs hn2 (j - b.length) hk]
      rw [outAt_append_right _ _ _ (by omega)]
      congr 2
      omega

/-! ### concatenation refines the flattened reference -/

theorem all_indexable_mem {rs : List RefDS} (h : rs.all (·.indexable) = true) :
    ∀ r ∈ rs, r.indexable = true := by
  simpa using h

theorem rel_concat {ds : List DS} {rs : List RefDS} (h : Forall₂ Rel ds rs) :
    Rel (concatDS ds) (Ref.concat rs) where
  indexable := forall₂_all_indexable h
  len := sumLens_eq h
  keys := concatKeys_eq h
  iter := foldr_iter_eq h
  iterK := foldr_iterK_eq h
  idx := by
    intro hix
    have hi := all_indexable_mem hix
    refine ⟨ref_sumLens_indexable (fun r hr => forall₂_len_outs h r hr (hi r hr)), ?_⟩
    intro i
    exact concat_getInt_eq h hi i
  noIdxErr := by
    intro hix o ho
    have hi := all_indexable_mem hix
    simp only [Ref.concat, List.mem_flatten, List.mem_map] at ho
    obtain ⟨l, ⟨r, hr, rfl⟩, hol⟩ := ho
    -- find the model part related to `r`
    have : ∀ {ds : List DS} {rs : List RefDS}, Forall₂ Rel ds rs → ∀ r ∈ rs, ∃ d, Rel d r := by
      intro ds rs h
      induction h with
      | nil => intro r hr; cases hr
      | @cons d r' _ _ hr' _ ih =>
        intro r hr
        rcases List.mem_cons.1 hr with rfl | hm
        · exact ⟨d, hr'⟩
        · exact ih r hm
    obtain ⟨d, hd⟩ := this h r hr
    exact hd.noIdxErr (hi r hr) o hol
  keysLen := by
    intro hix ks hk
    have hi := all_indexable_mem hix
    obtain ⟨kss, hm, rfl, _⟩ := ref_concatKeys_ok hk
    exact concat_keysLen h hi kss hm
  getKey := by
    intro hix ks hk j hj
    have hi := all_indexable_mem hix
    obtain ⟨kss, hm, rfl, hn⟩ := ref_concatKeys_ok hk
    have hk' : concatKeys ds = .ok kss.flatten := (concatKeys_eq h).trans hk
    have hf := firstWithKey_eq h hi kss hm hn j (kss.flatten[j]) (List.getElem?_eq_getElem hj)
    simp only [concatDS, hk', hf, bind, Except.bind, Ref.concat]

/-! ### `concatenate(...)` and `tile` -/

theorem rel_mkConcat {ds : List DS} {rs : List RefDS} {d : DS} (h : Forall₂ Rel ds rs)
    (hm : mkConcat ds = .ok d) : ∃ r, Ref.mkConcat rs = .ok r ∧ Rel d r := by
  cases h with
  | nil => cases hm
  | @cons d0 r0 ds' rs' hr ht =>
    cases ht with
    | nil =>
      simp only [mkConcat] at hm
      cases hm
      exact ⟨r0, rfl, hr⟩
    | @cons d1 r1 ds'' rs'' hr1 ht' =>
      simp only [mkConcat] at hm
      cases hm
      exact ⟨Ref.concat (r0 :: r1 :: rs''), rfl, rel_concat (.cons hr (.cons hr1 ht'))⟩

theorem forall₂_replicate {d : DS} {r : RefDS} (h : Rel d r) (n : Nat) :
    Forall₂ Rel (List.replicate n d) (List.replicate n r) := by
  induction n with
  | zero => exact .nil
  | succ n ih => exact .cons h ih

theorem rel_mkTile {d d' : DS} {r : RefDS} {n : Nat} (h : Rel d r) (hm : mkTile n d = .ok d') :
    ∃ r', Ref.mkTile n r = .ok r' ∧ Rel d' r' := by
  match n, hm with
  | 0, hm => cases hm
  | 1, hm =>
    simp only [mkTile] at hm
    cases hm
    exact ⟨r, rfl, h⟩
  | n + 2, hm =>
    simp only [mkTile] at hm
    cases hm
    exact ⟨Ref.concat (List.replicate (n + 2) r), rfl, rel_concat (forall₂_replicate h (n + 2))⟩

/-! ### zip: rows of outcomes -/

/-- row `i` of a positional zip: the tuple of the parts' outcomes at `i`, first failure wins -/
def rowAt (ls : List (List (Res Val))) (i : Int) : Res Val := do
  let row ← ls.mapM (fun l => outAt l i)
  .ok (.tup row)

theorem zipOuts_succ (ls : List (List (Res Val))) (n : Nat) :
    Ref.zipOuts ls (n + 1) = Ref.zipOuts ls n ++ [rowAt ls (n : Int)] := rfl

theorem zipOuts_length (ls : List (List (Res Val))) (n : Nat) : (Ref.zipOuts ls n).length = n := by
  induction n with
  | zero => rfl
  | succ n ih => rw [zipOuts_succ, List.length_append, ih]; rfl

theorem zipOuts_getElem? (ls : List (List (Res Val))) (n t : Nat) (h : t < n) :
    (Ref.zipOuts ls n)[t]? = some (rowAt ls (t : Int)) := by
  induction n with
  | zero => omega
  | succ n ih =>
    rw [zipOuts_succ]
    by_cases ht : t < n
    · rw [List.getElem?_append_left (by rw [zipOuts_length]; exact ht)]
      exact ih ht
    · have : t = n := by omega
      subst this
      rw [List.getElem?_append_right (by rw [zipOuts_length]; exact Nat.le_refl _)]
      simp [zipOuts_length]

theorem mapM_congr_mem {α β} (f g : α → Res β) (l : List α) (h : ∀ a ∈ l, f a = g a) :
    l.mapM f = l.mapM g := by
  induction l with
  | nil => rfl
  | cons a l ih =>
    simp only [List.mapM_cons, h a (by simp), ih (fun a' ha' => h a' (by simp [ha']))]

theorem mapM_error_mem {α β} (f : α → Res β) (l : List α) (e : Err) (h : l.mapM f = .error e) :
    ∃ a ∈ l, f a = .error e := by
  induction l with
  | nil => simp only [List.mapM_nil] at h; cases h
  | cons a l ih =>
    simp only [List.mapM_cons] at h
    cases hfa : f a with
    | error e' =>
      rw [hfa] at h
      cases h
      exact ⟨a, by simp, hfa⟩
    | ok b =>
      rw [hfa] at h
      cases hl : l.mapM f with
      | error e' =>
        rw [hl] at h
        cases h
        obtain ⟨a', ha', hf'⟩ := ih hl
        exact ⟨a', by simp [ha'], hf'⟩
      | ok bs => rw [hl] at h; cases h

theorem rowAt_error (ls : List (List (Res Val))) (i : Int) (e : Err) (h : rowAt ls i = .error e) :
    ∃ l ∈ ls, outAt l i = .error e := by
  unfold rowAt at h
  cases hm : ls.mapM (fun l => outAt l i) with
  | error e' =>
    rw [hm] at h
    cases h
    exact mapM_error_mem _ _ _ hm
  | ok row => rw [hm] at h; cases h

theorem rowAt_head_error (l : List (Res Val)) (ls : List (List (Res Val))) (i : Int) (e : Err)
    (h : outAt l i = .error e) : rowAt (l :: ls) i = .error e := by
  simp only [rowAt, List.mapM_cons, h]
  rfl

/-- the positional clause of `ZipDataset.__getitem__`: every part is asked for `i`, left to right -/
theorem rowAt_eq_outAt (ls : List (List (Res Val))) (n : Nat) (hne : ls ≠ [])
    (hlen : ∀ l ∈ ls, l.length = n) (i : Int) : rowAt ls i = outAt (Ref.zipOuts ls n) i := by
  have hzl := zipOuts_length ls n
  by_cases h0 : 0 ≤ i
  · obtain ⟨t, rfl⟩ := Int.eq_ofNat_of_zero_le h0
    by_cases ht : t < n
    · rw [outAt_natC, zipOuts_getElem? ls n t ht]
    · rw [outAt_ge _ _ (by rw [hzl]; omega)]
      cases ls with
      | nil => exact absurd rfl hne
      | cons l ls =>
        exact rowAt_head_error l ls _ _ (outAt_ge _ _ (by rw [hlen l (by simp)]; omega))
  · by_cases hlo : i < -(n : Int)
    · rw [outAt_lt_neg _ _ (by rw [hzl]; exact hlo)]
      cases ls with
      | nil => exact absurd rfl hne
      | cons l ls =>
        exact rowAt_head_error l ls _ _ (outAt_lt_neg _ _ (by rw [hlen l (by simp)]; exact hlo))
    · -- wrapped position `i + n`
      have hw : outAt (Ref.zipOuts ls n) i = outAt (Ref.zipOuts ls n) (i + n) := by
        have := outAt_wrap (Ref.zipOuts ls n) (i + n) (by omega) (by rw [hzl]; omega)
        rw [← this, hzl]; congr 1; omega
      have hr : rowAt ls i = rowAt ls (i + n) := by
        unfold rowAt
        rw [mapM_congr_mem (fun l => outAt l i) (fun l => outAt l (i + n)) ls]
        intro l hl
        have hl' := hlen l hl
        have := outAt_wrap l (i + n) (by omega) (by rw [hl']; omega)
        rw [← this, hl']; congr 1; omega
      rw [hw, hr]
      obtain ⟨t, ht⟩ := Int.eq_ofNat_of_zero_le (show 0 ≤ i + n by omega)
      rw [ht, outAt_natC, zipOuts_getElem? ls n t (by omega)]

theorem tupleGet_eq_rowAt {ds : List DS} {rs : List RefDS} (h : Forall₂ Rel ds rs)
    (hi : ∀ r ∈ rs, r.indexable = true) (i : Int) :
    tupleGet ds (·.getInt i) = rowAt (rs.map (·.outs)) i := by
  have : ds.mapM (·.getInt i) = (rs.map (·.outs)).mapM (fun l => outAt l i) := by
    induction h with
    | nil => rfl
    | @cons d r ds rs hr _ ih =>
      simp only [List.map_cons, List.mapM_cons, (hr.idx (hi r (by simp))).2 i,
        ih (fun r' hr' => hi r' (by simp [hr']))]
  simp only [tupleGet, rowAt, this]

theorem forall₂_map_iter {ds : List DS} {rs : List RefDS} (h : Forall₂ Rel ds rs) :
    ds.map (·.iter) = rs.map (·.stream) := by
  induction h with
  | nil => rfl
  | cons hr _ ih => simp only [List.map_cons, hr.iter, ih]

theorem forall₂_rel_of_mem {ds : List DS} {rs : List RefDS} (h : Forall₂ Rel ds rs) :
    ∀ r ∈ rs, ∃ d, Rel d r := by
  induction h with
  | nil => intro r hr; cases hr
  | @cons d r' _ _ hr' _ ih =>
    intro r hr
    rcases List.mem_cons.1 hr with rfl | hm
    · exact ⟨d, hr'⟩
    · exact ih r hm

/-! ### zip refines the positional zip of the outcome lists -/

theorem rel_zip {ds : List DS} {rs : List RefDS} (h : Forall₂ Rel ds rs) (hne : ds ≠ [])
    (hsame : ∃ n, ∀ r ∈ rs, r.len = .ok n) : Rel (zipDS ds) (Ref.zip rs) := by
  obtain ⟨n, hn⟩ := hsame
  cases h with
  | nil => exact absurd rfl hne
  | @cons d r ds' rs' hr ht =>
    have h : Forall₂ Rel (d :: ds') (r :: rs') := .cons hr ht
    -- when everything is indexable, all outcome lists have length `n`
    have houts : (∀ r' ∈ r :: rs', r'.indexable = true) →
        ∀ l ∈ (r :: rs').map (·.outs), l.length = n := by
      intro hi l hl
      obtain ⟨r', hr', rfl⟩ := List.mem_map.1 hl
      have h1 := forall₂_len_outs h r' hr' (hi r' hr')
      have h2 := hn r' hr'
      rw [h1] at h2
      injection h2
    refine
      { indexable := forall₂_all_indexable h, len := hr.len, keys := rfl, iter := ?_, iterK := rfl,
        idx := ?_, noIdxErr := ?_, keysLen := ?_, getKey := ?_ }
    · simp only [zipDS, Ref.zip, forall₂_map_iter h]
    · intro hix
      have hi := all_indexable_mem hix
      have hl := houts hi
      have hrn : r.outs.length = n := hl r.outs (by simp)
      refine ⟨?_, ?_⟩
      · simp only [Ref.zip, zipOuts_length]
        exact (hr.idx (hi r (by simp))).1
      · intro i
        simp only [zipDS, Ref.zip, hrn]
        rw [tupleGet_eq_rowAt h hi i]
        exact rowAt_eq_outAt _ n (by simp) hl i
    · intro hix o ho
      have hi := all_indexable_mem hix
      have hl := houts hi
      have hrn : r.outs.length = n := hl r.outs (by simp)
      simp only [Ref.zip, hrn] at ho
      obtain ⟨t, ht, hto⟩ := List.getElem_of_mem ho
      rw [zipOuts_length] at ht
      have hrow : o = rowAt ((r :: rs').map (·.outs)) (t : Int) := by
        have := zipOuts_getElem? ((r :: rs').map (·.outs)) n t ht
        rw [List.getElem?_eq_getElem (by rw [zipOuts_length]; exact ht)] at this
        injection this with this
        rw [← hto, this]
      intro hbad
      rw [hrow] at hbad
      obtain ⟨l, hlmem, hle⟩ := rowAt_error _ _ _ hbad
      obtain ⟨r', hr', rfl⟩ := List.mem_map.1 hlmem
      obtain ⟨d', hd'⟩ := forall₂_rel_of_mem h r' hr'
      have hlt : t < r'.outs.length := by rw [hl _ hlmem]; exact ht
      rw [outAt_lt _ t hlt] at hle
      exact hd'.noIdxErr (hi r' hr') _ (List.getElem_mem hlt) hle
    · intro _ ks hk; cases hk
    · intro _ ks hk; cases hk

/-! ### `ZipDataset.__init__` -/

theorem ref_allLens_mem {rs : List RefDS} {lens : List Nat} (h : Ref.allLens rs = .ok lens) :
    ∀ r ∈ rs, ∃ a ∈ lens, r.len = .ok a := by
  induction rs generalizing lens with
  | nil => intro r hr; cases hr
  | cons r0 rs ih =>
    simp only [Ref.allLens] at h
    cases h0 : r0.len with
    | error e => rw [h0] at h; cases h
    | ok a =>
      rw [h0] at h
      cases h1 : Ref.allLens rs with
      | error e => rw [h1] at h; cases h
      | ok as =>
        rw [h1] at h
        cases h
        intro r hr
        rcases List.mem_cons.1 hr with rfl | hm
        · exact ⟨a, by simp, h0⟩
        · obtain ⟨b, hb, hrb⟩ := ih h1 r hm
          exact ⟨b, by simp [hb], hrb⟩

theorem allEq_mem {lens : List Nat} (h : allEq lens = true) : ∀ a ∈ lens, a = lens.headD 0 := by
  cases lens with
  | nil => intro a ha; cases ha
  | cons a0 rest =>
    intro a ha
    simp only [allEq, List.all_eq_true, beq_iff_eq] at h
    rcases List.mem_cons.1 ha with rfl | hm
    · rfl
    · exact h a hm

theorem rel_mkZip {ds : List DS} {rs : List RefDS} {d : DS} (h : Forall₂ Rel ds rs)
    (hm : mkZip ds = .ok d) : ∃ r, Ref.mkZip rs = .ok r ∧ Rel d r := by
  cases h with
  | nil => cases hm
  | @cons d0 r0 ds' rs' hr ht =>
    have h : Forall₂ Rel (d0 :: ds') (r0 :: rs') := .cons hr ht
    have hal := allLens_eq h
    simp only [mkZip, List.isEmpty_cons, Bool.false_eq_true, if_false] at hm
    simp only [Ref.mkZip, List.isEmpty_cons, Bool.false_eq_true, if_false, ← hal]
    cases hl : allLens (d0 :: ds') with
    | error e => rw [hl] at hm; cases hm
    | ok lens =>
      rw [hl] at hm
      simp only [bind, Except.bind] at hm ⊢
      cases he : allEq lens with
      | false => rw [he] at hm; cases hm
      | true =>
        rw [he] at hm
        cases hm
        refine ⟨Ref.zip (r0 :: rs'), rfl, rel_zip h (by simp) ⟨lens.headD 0, ?_⟩⟩
        intro r hr
        obtain ⟨a, ha, hra⟩ := ref_allLens_mem (hal ▸ hl) r hr
        rw [hra, allEq_mem he a ha]

end LazyDs

import LazyDs.Lemmas.Rel
import Batteries.Data.List.Basic
/-
  Refinement lemmas for the n-ary stages: `ConcatenateDataset` (`concatDS`, `mkConcat`, `mkTile`)
  and `ZipDataset` (`zipDS`, `mkZip`).  "Componentwise related" is `List.Forall₂ Rel ds rs`
  (the inductive comes from `Batteries.Data.List.Basic`; nothing else of Batteries is used).
-/
namespace LazyDs

open List (Forall₂)

/-! ### `outAt` at natural positions and on appended lists -/

theorem outAt_nat (l : List (Res Val)) (j : Nat) :
    outAt l (j : Int) = match l[j]? with | some o => o | none => .error .indexError := by
  unfold outAt; rw [pyIndex_nat]; cases l[j]? <;> rfl

theorem outAt_append_left (a b : List (Res Val)) (i : Int) (h0 : 0 ≤ i) (h : i < a.length) :
    outAt (a ++ b) i = outAt a i := by
  obtain ⟨j, rfl⟩ := Int.eq_ofNat_of_zero_le h0
  rw [outAt_nat, outAt_nat, List.getElem?_append_left (by omega)]

theorem outAt_append_right (a b : List (Res Val)) (i : Int) (h : (a.length : Int) ≤ i) :
    outAt (a ++ b) i = outAt b (i - a.length) := by
  have h0 : 0 ≤ i := by omega
  obtain ⟨j, rfl⟩ := Int.eq_ofNat_of_zero_le h0
  have hj : a.length ≤ j := by omega
  have e : ((j : Int) - (a.length : Int)) = ((j - a.length : Nat) : Int) := by omega
  rw [e, outAt_nat, outAt_nat, List.getElem?_append_right hj]

/-! ### duplicates -/

theorem hasDup_false_iff_nodup (ks : List String) : hasDup ks = false ↔ ks.Nodup := by
  induction ks with
  | nil => simp [hasDup]
  | cons k ks ih =>
    simp only [hasDup, Bool.or_eq_false_iff, List.nodup_cons, ih]
    constructor
    · rintro ⟨h1, h2⟩
      exact ⟨by simpa using h1, h2⟩
    · rintro ⟨h1, h2⟩
      exact ⟨by simpa using h1, h2⟩

/-! ### facts about `Forall₂ Rel` -/

theorem forall₂_all_indexable {ds : List DS} {rs : List RefDS} (h : Forall₂ Rel ds rs) :
    ds.all (·.indexable) = rs.all (·.indexable) := by
  induction h with
  | nil => rfl
  | cons hr _ ih => simp only [List.all_cons, hr.indexable, ih]

theorem forall₂_length {ds : List DS} {rs : List RefDS} (h : Forall₂ Rel ds rs) :
    ds.length = rs.length := by
  induction h with
  | nil => rfl
  | cons _ _ ih => simp [ih]

theorem sumLens_eq {ds : List DS} {rs : List RefDS} (h : Forall₂ Rel ds rs) :
    sumLens ds = Ref.sumLens rs := by
  induction h with
  | nil => rfl
  | cons hr _ ih => simp only [sumLens, Ref.sumLens, hr.len, ih]

theorem allLens_eq {ds : List DS} {rs : List RefDS} (h : Forall₂ Rel ds rs) :
    allLens ds = Ref.allLens rs := by
  induction h with
  | nil => rfl
  | cons hr _ ih => simp only [allLens, Ref.allLens, hr.len, ih]

theorem foldr_iter_eq {ds : List DS} {rs : List RefDS} (h : Forall₂ Rel ds rs) :
    ds.foldr (fun d acc => d.iter.append acc) .nil
      = rs.foldr (fun r acc => r.stream.append acc) .nil := by
  induction h with
  | nil => rfl
  | cons hr _ ih => simp only [List.foldr_cons, hr.iter, ih]

theorem foldr_iterK_eq {ds : List DS} {rs : List RefDS} (h : Forall₂ Rel ds rs) :
    ds.foldr (fun d acc => d.iterK.append acc) .nil
      = rs.foldr (fun r acc => r.kstream.append acc) .nil := by
  induction h with
  | nil => rfl
  | cons hr _ ih => simp only [List.foldr_cons, hr.iterK, ih]

theorem forall₂_len_outs {ds : List DS} {rs : List RefDS} (h : Forall₂ Rel ds rs) :
    ∀ r ∈ rs, r.indexable = true → r.len = .ok r.outs.length := by
  induction h with
  | nil => intro r hr; cases hr
  | cons hr _ ih =>
    intro r' hmem hix
    rcases List.mem_cons.1 hmem with rfl | hm
    · exact (hr.idx hix).1
    · exact ih r' hm hix

/-- the flattened outcome list of the parts -/
abbrev flatOuts (rs : List RefDS) : List (Res Val) := (rs.map (·.outs)).flatten

theorem ref_sumLens_indexable {rs : List RefDS} (hlen : ∀ r ∈ rs, r.len = .ok r.outs.length) :
    Ref.sumLens rs = .ok (flatOuts rs).length := by
  induction rs with
  | nil => rfl
  | cons r rs ih =>
    have h1 := hlen r (by simp)
    have h2 := ih (fun r' hr' => hlen r' (by simp [hr']))
    simp only [Ref.sumLens, h1, h2, flatOuts, List.map_cons, List.flatten_cons, List.length_append]
    rfl

/-! ### the part walk -/

theorem concatWalk_eq {ds : List DS} {rs : List RefDS} (h : Forall₂ Rel ds rs)
    (hi : ∀ r ∈ rs, r.indexable = true) (j : Int) (hj : 0 ≤ j) :
    concatWalk ds j = outAt (flatOuts rs) j := by
  induction h generalizing j with
  | nil =>
    simp only [concatWalk, flatOuts, List.map_nil, List.flatten_nil]
    rw [outAt_ge]; simpa using hj
  | @cons d r ds rs hr _ ih =>
    obtain ⟨hl, hg⟩ := hr.idx (hi r (by simp))
    have ih' := ih (fun r' hr' => hi r' (by simp [hr']))
    simp only [concatWalk, hr.len, hl, flatOuts, List.map_cons, List.flatten_cons]
    by_cases hc : (r.outs.length : Int) ≤ j
    · have : concatWalk ds (j - r.outs.length) = outAt (flatOuts rs) (j - r.outs.length) :=
        ih' _ (by omega)
      rw [outAt_append_right _ _ _ hc, ← this]
      simp [bind, Except.bind, hc]
    · rw [outAt_append_left _ _ _ hj (by omega), ← hg j]
      simp [bind, Except.bind, hc]

theorem concat_getInt_eq {ds : List DS} {rs : List RefDS} (h : Forall₂ Rel ds rs)
    (hi : ∀ r ∈ rs, r.indexable = true) (i : Int) :
    (concatDS ds).getInt i = outAt (flatOuts rs) i := by
  have hlen : Ref.sumLens rs = .ok (flatOuts rs).length :=
    ref_sumLens_indexable (fun r hr => forall₂_len_outs h r hr (hi r hr))
  simp only [concatDS]
  by_cases hneg : i < 0
  · simp only [hneg, if_true, sumLens_eq h, hlen, bind, Except.bind]
    by_cases hj : i + ((flatOuts rs).length : Int) < 0
    · simp only [hj, if_true]
      rw [outAt_lt_neg]; omega
    · simp only [hj, if_false]
      rw [concatWalk_eq h hi _ (by omega)]
      have := outAt_wrap (flatOuts rs) (i + (flatOuts rs).length) (by omega) (by omega)
      rw [← this]; congr 1; omega
  · simp only [hneg, if_false]
    exact concatWalk_eq h hi i (by omega)

/-! ### key tables of a concatenation -/

theorem mapM_cons_ok {α β} (f : α → Res β) (a : α) (l : List α) (out : List β)
    (h : (a :: l).mapM f = .ok out) : ∃ b bs, f a = .ok b ∧ l.mapM f = .ok bs ∧ out = b :: bs := by
  simp only [List.mapM_cons] at h
  cases hfa : f a with
  | error e => rw [hfa] at h; cases h
  | ok b =>
    rw [hfa] at h
    cases hl : l.mapM f with
    | error e => rw [hl] at h; cases h
    | ok bs =>
      rw [hl] at h
      cases h
      exact ⟨b, bs, rfl, rfl, rfl⟩

theorem concatKeysRaw_eq {ds : List DS} {rs : List RefDS} (h : Forall₂ Rel ds rs) :
    concatKeysRaw ds = (do let kss ← rs.mapM (·.keys); .ok kss.flatten) := by
  induction h with
  | nil => rfl
  | @cons d r ds rs hr _ ih =>
    simp only [concatKeysRaw, hr.keys, ih, List.mapM_cons]
    cases r.keys with
    | error e => rfl
    | ok a =>
      cases rs.mapM (·.keys) with
      | error e => rfl
      | ok as => rfl

theorem concatKeys_eq {ds : List DS} {rs : List RefDS} (h : Forall₂ Rel ds rs) :
    concatKeys ds = Ref.concatKeys rs := by
  simp only [concatKeys, Ref.concatKeys, concatKeysRaw_eq h]
  cases rs.mapM (·.keys) with
  | error e => rfl
  | ok kss => rfl

theorem ref_concatKeys_ok {rs : List RefDS} {ks : List String} (h : Ref.concatKeys rs = .ok ks) :
    ∃ kss, rs.mapM (·.keys) = .ok kss ∧ ks = kss.flatten ∧ ks.Nodup := by
  simp only [Ref.concatKeys] at h
  cases hm : rs.mapM (·.keys) with
  | error e => rw [hm] at h; cases h
  | ok kss =>
    rw [hm] at h
    simp only [bind, Except.bind] at h
    cases hd : hasDup kss.flatten with
    | true => rw [hd] at h; cases h
    | false =>
      rw [hd] at h
      cases h
      exact ⟨kss, rfl, rfl, (hasDup_false_iff_nodup _).1 hd⟩

theorem concat_keysLen {ds : List DS} {rs : List RefDS} (h : Forall₂ Rel ds rs)
    (hi : ∀ r ∈ rs, r.indexable = true) (kss : List (List String))
    (hm : rs.mapM (·.keys) = .ok kss) : kss.flatten.length = (flatOuts rs).length := by
  induction h generalizing kss with
  | nil =>
    simp only [List.mapM_nil] at hm
    cases hm; rfl
  | @cons d r ds rs hr _ ih =>
    obtain ⟨b, bs, hb, hbs, rfl⟩ := mapM_cons_ok _ _ _ _ hm
    have h1 := hr.keysLen (hi r (by simp)) b hb
    have h2 := ih (fun r' hr' => hi r' (by simp [hr'])) bs hbs
    simp only [flatOuts, List.map_cons, List.flatten_cons, List.length_append, h1]
    simp only [flatOuts] at h2
    rw [h2]

theorem firstWithKey_eq {ds : List DS} {rs : List RefDS} (h : Forall₂ Rel ds rs)
    (hi : ∀ r ∈ rs, r.indexable = true) (kss : List (List String))
    (hm : rs.mapM (·.keys) = .ok kss) (hn : kss.flatten.Nodup) (j : Nat) (k : String)
    (hk : kss.flatten[j]? = some k) :
    firstWithKey ds k = some (outAt (flatOuts rs) (j : Int)) := by
  induction h generalizing kss j with
  | nil =>
    simp only [List.mapM_nil] at hm
    cases hm
    simp at hk
  | @cons d r ds rs hr _ ih =>
    obtain ⟨b, bs, hb, hbs, rfl⟩ := mapM_cons_ok _ _ _ _ hm
    have hir := hi r (by simp)
    have hlenb : b.length = r.outs.length := hr.keysLen hir b hb
    simp only [List.flatten_cons] at hn hk
    obtain ⟨_, hn2, hdisj⟩ := List.nodup_append.1 hn
    simp only [firstWithKey, hr.keys, hb, flatOuts, List.map_cons, List.flatten_cons]
    by_cases hj : j < b.length
    · rw [List.getElem?_append_left hj] at hk
      have hkb : b[j] = k := by
        rw [List.getElem?_eq_getElem hj] at hk; injection hk
      have hmem : k ∈ b := hkb ▸ List.getElem_mem hj
      have hc : b.contains k = true := by simpa using hmem
      simp only [hc, if_true]
      rw [← hkb, hr.getKey hir b hb j hj]
      rw [outAt_append_left _ _ _ (by omega) (by omega)]
    · have hj' : b.length ≤ j := by omega
      rw [List.getElem?_append_right hj'] at hk
      have hmem : k ∈ bs.flatten := List.mem_of_getElem? hk
      have hc : b.contains k = false := by
        cases hcc : b.contains k with
        | false => rfl
        | true =>
          have : k ∈ b := by simpa using hcc
          exact absurd rfl (hdisj k this k hmem)
      simp only [hc, Bool.false_eq_true, if_false]
      rw [ih (fun r' hr' => hi r' (by simp [hr'])) bs hbs hn2 (j - b.length) hk]
      rw [outAt_append_right _ _ _ (by omega)]
      congr 2
      omega

/-! ### concatenation refines the flattened reference -/

theorem all_indexable_mem {rs : List RefDS} (h : rs.all (·.indexable) = true) :
    ∀ r ∈ rs, r.indexable = true := by
  simpa using h

theorem rel_concat {ds : List DS} {rs : List RefDS} (h : Forall₂ Rel ds rs) :
    Rel (concatDS ds) (Ref.concat rs) where
  indexable := forall₂_all_indexable h
  len := sumLens_eq h
  keys := concatKeys_eq h
  iter := foldr_iter_eq h
  iterK := foldr_iterK_eq h
  idx := by
    intro hix
    have hi := all_indexable_mem hix
    refine ⟨ref_sumLens_indexable (fun r hr => forall₂_len_outs h r hr (hi r hr)), ?_⟩
    intro i
    exact concat_getInt_eq h hi i
  noIdxErr := by
    intro hix o ho
    have hi := all_indexable_mem hix
    simp only [Ref.concat, List.mem_flatten, List.mem_map] at ho
    obtain ⟨l, ⟨r, hr, rfl⟩, hol⟩ := ho
    -- find the model part related to `r`
    have : ∀ {ds : List DS} {rs : List RefDS}, Forall₂ Rel ds rs → ∀ r ∈ rs, ∃ d, Rel d r := by
      intro ds rs h
      induction h with
      | nil => intro r hr; cases hr
      | @cons d r' _ _ hr' _ ih =>
        intro r hr
        rcases List.mem_cons.1 hr with rfl | hm
        · exact ⟨d, hr'⟩
        · exact ih r hm
    obtain ⟨d, hd⟩ := this h r hr
    exact hd.noIdxErr (hi r hr) o hol
  keysLen := by
    intro hix ks hk
    have hi := all_indexable_mem hix
    obtain ⟨kss, hm, rfl, _⟩ := ref_concatKeys_ok hk
    exact concat_keysLen h hi kss hm
  getKey := by
    intro hix ks hk j hj
    have hi := all_indexable_mem hix
    obtain ⟨kss, hm, rfl, hn⟩ := ref_concatKeys_ok hk
    have hk' : concatKeys ds = .ok kss.flatten := (concatKeys_eq h).trans hk
    have hf := firstWithKey_eq h hi kss hm hn j (kss.flatten[j]) (List.getElem?_eq_getElem hj)
    simp only [concatDS, hk', hf, bind, Except.bind, Ref.concat]

/-! ### `concatenate(...)` and `tile` -/

theorem rel_mkConcat {ds : List DS} {rs : List RefDS} {d : DS} (h : Forall₂ Rel ds rs)
    (hm : mkConcat ds = .ok d) : ∃ r, Ref.mkConcat rs = .ok r ∧ Rel d r := by
  cases h with
  | nil => cases hm
  | @cons d0 r0 ds' rs' hr ht =>
    cases ht with
    | nil =>
      simp only [mkConcat] at hm
      cases hm
      exact ⟨r0, rfl, hr⟩
    | @cons d1 r1 ds'' rs'' hr1 ht' =>
      simp only [mkConcat] at hm
      cases hm
      exact ⟨Ref.concat (r0 :: r1 :: rs''), rfl, rel_concat (.cons hr (.cons hr1 ht'))⟩

theorem forall₂_replicate {d : DS} {r : RefDS} (h : Rel d r) (n : Nat) :
    Forall₂ Rel (List.replicate n d) (List.replicate n r) := by
  induction n with
  | zero => exact .nil
  | succ n ih => exact .cons h ih

theorem rel_mkTile {d d' : DS} {r : RefDS} {n : Nat} (h : Rel d r) (hm : mkTile n d = .ok d') :
    ∃ r', Ref.mkTile n r = .ok r' ∧ Rel d' r' := by
  match n, hm with
  | 0, hm => cases hm
  | 1, hm =>
    simp only [mkTile] at hm
    cases hm
    exact ⟨r, rfl, h⟩
  | n + 2, hm =>
    simp only [mkTile] at hm
    cases hm
    exact ⟨Ref.concat (List.replicate (n + 2) r), rfl, rel_concat (forall₂_replicate h (n + 2))⟩

end LazyDs

/-
  Helper lemmas for the filter laws of C16: fusion of two lazy filters, lazy filter over sequential
  composition of generators (concatenation).  Statements of the property are in `LazyDs/Props/C16.lean`.
-/
import LazyDs.Lemmas.Laws

namespace LazyDs

/-- `if f(x): if g(x): yield x` as one predicate: `g` is only evaluated where `f` said yes -/
def andThenPred {α} (f g : α → Res Bool) : α → Res Bool :=
  fun x => do let a ← f x; if a then g x else .ok false

theorem filterMAux_fuse {α} (f g : α → Res Bool) (e : Option Err) : ∀ (l : List α),
    Stream.filterM g (Stream.filterMAux f l e) = Stream.filterMAux (andThenPred f g) l e
  | [] => by simp [Stream.filterM, Stream.filterMAux]
  | x :: xs => by
    have ih := filterMAux_fuse f g e xs
    simp only [Stream.filterM] at ih ⊢
    cases hf : f x with
    | error e' => simp [Stream.filterMAux, andThenPred, hf, bind, Except.bind]
    | ok b =>
      cases b with
      | false => simp [Stream.filterMAux, andThenPred, hf, bind, Except.bind, ih]
      | true =>
        cases hg : g x with
        | error e' => simp [Stream.filterMAux, andThenPred, hf, hg, bind, Except.bind]
        | ok c => cases c <;> simp [Stream.filterMAux, andThenPred, hf, hg, bind, Except.bind, ih]

theorem filterMAux_append {α} (f : α → Res Bool) (t : Stream α) : ∀ (l : List α),
    Stream.filterMAux f (l ++ t.vals) t.err
      = (Stream.filterMAux f l none).append (Stream.filterM f t)
  | [] => by
    simp [Stream.filterMAux, Stream.append, Stream.filterM]
  | x :: xs => by
    have ih := filterMAux_append f t xs
    cases hf : f x with
    | error e' => simp [Stream.filterMAux, Stream.append, hf]
    | ok b =>
      cases b with
      | false => simp [Stream.filterMAux, hf, ih]
      | true =>
        simp only [List.cons_append, Stream.filterMAux, hf, ih]
        simp only [Stream.append]
        split <;> simp_all

theorem filterMAux_some_err {α} (f : α → Res Bool) (e : Err) : ∀ (l : List α),
    ∃ e', (Stream.filterMAux f l (some e)).err = some e'
  | [] => ⟨e, by simp [Stream.filterMAux]⟩
  | x :: xs => by
    obtain ⟨e', ih⟩ := filterMAux_some_err f e xs
    cases hf : f x with
    | error e'' => exact ⟨e'', by simp [Stream.filterMAux, hf]⟩
    | ok b => cases b <;> exact ⟨e', by simp [Stream.filterMAux, hf, ih]⟩

theorem filterMAux_some_append {α} (f : α → Res Bool) (e : Err) (u : Stream α) (l : List α) :
    (Stream.filterMAux f l (some e)).append u = Stream.filterMAux f l (some e) := by
  obtain ⟨e', h⟩ := filterMAux_some_err f e l
  simp only [Stream.append, h]
  rw [← h]

/-- lazy filter distributes over sequential composition of generators -/
theorem filterM_append {α} (f : α → Res Bool) (s t : Stream α) :
    Stream.filterM f (s.append t) = (Stream.filterM f s).append (Stream.filterM f t) := by
  cases s with
  | mk vals err =>
    cases err with
    | some e => simpa [Stream.filterM, Stream.append] using (filterMAux_some_append f e (Stream.filterM f t) vals).symm
    | none => simpa [Stream.append, Stream.filterM] using filterMAux_append f t vals

theorem filterM_nil {α} (f : α → Res Bool) : Stream.filterM f (.nil : Stream α) = .nil := by
  simp [Stream.filterM, Stream.nil, Stream.filterMAux]

theorem filter_filter_eq (f g : Val → Res Bool) (r : RefDS) :
    Ref.filter g (Ref.filter f r) = Ref.filter (andThenPred f g) r := by
  simp only [Ref.filter, Stream.filterM]
  congr 1
  · exact filterMAux_fuse f g _ _
  · exact filterMAux_fuse (fun (kv : String × Val) => f kv.2) (fun kv => g kv.2) _ _

theorem ref_filter_filter (ρ : Env) (f g h : PredSym)
    (hh : ∀ v, ρ.pred h v = andThenPred (ρ.pred f) (ρ.pred g) v) (p : Pipeline) :
    ref ρ (.filterLazy g (.filterLazy f p)) = ref ρ (.filterLazy h p) := by
  have : ρ.pred h = andThenPred (ρ.pred f) (ρ.pred g) := funext hh
  simp only [ref]
  cases ref ρ p with
  | error e => rfl
  | ok r => simp only [bind, Except.bind, filter_filter_eq, this]


/-! ### `items()` followed by dropping the keys -/

/-- `lambda kv: kv[1]` on the pairs `items()` yields -/
def sndOfPair : Val → Res Val
  | .tup [_, v] => .ok v
  | _ => .error .typeError

theorem mapMAux_snd_pairVal (e : Option Err) : ∀ (l : List (String × Val)),
    Stream.mapMAux sndOfPair (l.map pairVal) e = ⟨l.map (·.2), e⟩
  | [] => by simp [Stream.mapMAux]
  | kv :: l => by
    simp [Stream.mapMAux, pairVal, sndOfPair, mapMAux_snd_pairVal e l]


end LazyDs

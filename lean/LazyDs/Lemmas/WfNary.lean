import LazyDs.Lemmas.RefWF
import LazyDs.Lemmas.RelBatch
/-
  The C02 / C03 statements on eager data (`RefWF2`) are preserved by the n-ary combinators
  `Ref.concat` (`mkConcat`, `mkTile`), `Ref.zip` (`mkZip`) and by `Ref.batch`.

  NOTE on imports: `RelConcat` and `RelBatch` both declare `LazyDs.outAt_nat`, so they cannot be
  imported together.  This file imports `RelBatch` (closed forms of the chunking) and carries its
  own copies of the few small facts about `zipOuts` / `mapM` / `allLens` it needs, in the namespace
  `LazyDs.WfNary`, so that nothing here collides with either file.
-/
namespace LazyDs
namespace WfNary

/-! ### streams: `append` -/

theorem append_of_some {α} {s t : Stream α} {e : Err} (h : s.err = some e) :
    s.append t = ⟨s.vals, some e⟩ := by simp only [Stream.append, h]

theorem append_of_none {α} {s t : Stream α} (h : s.err = none) :
    s.append t = ⟨s.vals ++ t.vals, t.err⟩ := by simp only [Stream.append, h]

theorem vals_prefix_append {α} (s t : Stream α) : s.vals <+: (s.append t).vals := by
  cases he : s.err with
  | some e => rw [append_of_some he]; exact List.prefix_refl _
  | none => rw [append_of_none he]; exact List.prefix_append _ _

/-! ### the positional clause of C02, in a form that is convenient to produce and to consume -/

/-- "the t-th yielded value is the t-th positional outcome, and a normal end means all positions" -/
def PosOK (outs : List (Res Val)) (s : Stream Val) : Prop :=
  (∀ (t : Nat) (v : Val), s.vals[t]? = some v → outs[t]? = some (.ok v)) ∧ (s.err = none → s.vals.length = outs.length)

theorem posOK_prefix {outs : List (Res Val)} {s : Stream Val} (h : PosOK outs s) :
    s.vals.map Except.ok <+: outs := by
  rw [List.prefix_iff_getElem?]
  intro i hi
  have hi' : i < s.vals.length := by simpa using hi
  rw [h.1 i s.vals[i] (List.getElem?_eq_getElem hi')]
  simp

theorem posOK_of_prefix {outs : List (Res Val)} {s : Stream Val} (h1 : s.vals.map Except.ok <+: outs)
    (h2 : s.err = none → s.vals.length = outs.length) : PosOK outs s := by
  refine ⟨?_, h2⟩
  intro t v hv
  obtain ⟨ht, rfl⟩ := List.getElem?_eq_some_iff.1 hv
  have := List.prefix_iff_getElem?.1 h1 t (by simpa using ht)
  simpa using this

theorem PosOK.length_le {outs : List (Res Val)} {s : Stream Val} (h : PosOK outs s) :
    s.vals.length ≤ outs.length := by
  simpa using (posOK_prefix h).length_le

theorem PosOK.toPos {outs : List (Res Val)} {s : Stream Val} (h : PosOK outs s) :
    s.vals.length ≤ outs.length ∧
      (∀ (t : Nat) (ht : t < s.vals.length), outs[t]? = some (.ok s.vals[t])) ∧
      (s.err = none → s.vals.length = outs.length) :=
  ⟨h.length_le, fun t ht => h.1 t _ (List.getElem?_eq_getElem ht), h.2⟩

theorem posOK_of_wf {r : RefDS} (h : RefWF r) (hi : r.indexable = true) : PosOK r.outs r.stream := by
  obtain ⟨_, h2, h3⟩ := h.pos hi
  refine ⟨?_, h3⟩
  intro t v hv
  obtain ⟨ht, rfl⟩ := List.getElem?_eq_some_iff.1 hv
  exact h2 t ht

/-- the pairing clause of C03 -/
def PairsOK (k : Stream (String × Val)) (s : Stream Val) : Prop :=
  (k.vals.map (·.2)) <+: s.vals ∧ (k.err = none → k.vals.map (·.2) = s.vals ∧ s.err = none)

/-! ### `mapM` in `Except` (copies of the small facts in `RelConcat`) -/

theorem mapM_cons_ok {α β} (f : α → Res β) (a : α) (l : List α) (out : List β)
    (h : (a :: l).mapM f = .ok out) : ∃ b bs, f a = .ok b ∧ l.mapM f = .ok bs ∧ out = b :: bs := by
  simp only [List.mapM_cons] at h
  cases hfa : f a with
  | error e => rw [hfa] at h; cases h
  | ok b =>
    rw [hfa] at h
    cases hl : l.mapM f with
    | error e => rw [hl] at h; cases h
    | ok bs =>
      rw [hl] at h
      cases h
      exact ⟨b, bs, rfl, rfl, rfl⟩

theorem mapM_cons_of_ok {α β} (f : α → Res β) (a : α) (l : List α) (b : β) (bs : List β)
    (h1 : f a = .ok b) (h2 : l.mapM f = .ok bs) : (a :: l).mapM f = .ok (b :: bs) := by
  simp only [List.mapM_cons, h1, h2]
  rfl

theorem concatKeys_ok {rs : List RefDS} {ks : List String} (h : Ref.concatKeys rs = .ok ks) :
    ∃ kss, rs.mapM (·.keys) = .ok kss ∧ ks = kss.flatten := by
  simp only [Ref.concatKeys] at h
  cases hm : rs.mapM (·.keys) with
  | error e => rw [hm] at h; cases h
  | ok kss =>
    rw [hm] at h
    simp only [bind, Except.bind] at h
    cases hd : hasDup kss.flatten with
    | true => rw [hd] at h; cases h
    | false =>
      rw [hd] at h
      cases h
      exact ⟨kss, rfl, rfl⟩

/-! ### concatenation -/

theorem concat_cons_indexable (r : RefDS) (rs : List RefDS) :
    (Ref.concat (r :: rs)).indexable = (r.indexable && (Ref.concat rs).indexable) := rfl

theorem concat_cons_outs (r : RefDS) (rs : List RefDS) :
    (Ref.concat (r :: rs)).outs = r.outs ++ (Ref.concat rs).outs := by
  simp only [Ref.concat, List.map_cons, List.flatten_cons]

theorem concat_cons_stream (r : RefDS) (rs : List RefDS) :
    (Ref.concat (r :: rs)).stream = r.stream.append (Ref.concat rs).stream := rfl

theorem concat_cons_kstream (r : RefDS) (rs : List RefDS) :
    (Ref.concat (r :: rs)).kstream = r.kstream.append (Ref.concat rs).kstream := rfl

theorem all_indexable_mem {rs : List RefDS} (h : rs.all (·.indexable) = true) :
    ∀ r ∈ rs, r.indexable = true := by
  simpa using h

theorem posOK_append {o1 o2 : List (Res Val)} {s1 s2 : Stream Val} (h1 : PosOK o1 s1)
    (h2 : PosOK o2 s2) : PosOK (o1 ++ o2) (s1.append s2) := by
  cases he : s1.err with
  | some e =>
    rw [append_of_some he]
    exact posOK_of_prefix ((posOK_prefix h1).trans (List.prefix_append _ _)) (fun h => by cases h)
  | none =>
    rw [append_of_none he]
    have hl := h1.2 he
    have heq : s1.vals.map Except.ok = o1 := (posOK_prefix h1).eq_of_length (by simpa using hl)
    apply posOK_of_prefix
    · show (s1.vals ++ s2.vals).map Except.ok <+: o1 ++ o2
      rw [List.map_append, heq]
      exact (List.prefix_append_right_inj _).2 (posOK_prefix h2)
    · intro h
      show (s1.vals ++ s2.vals).length = (o1 ++ o2).length
      rw [List.length_append, List.length_append, hl, h2.2 h]

theorem concat_posOK : ∀ (rs : List RefDS), (∀ r ∈ rs, PosOK r.outs r.stream) →
    PosOK (Ref.concat rs).outs (Ref.concat rs).stream
  | [], _ => ⟨fun t v h => by simp [Ref.concat, Stream.nil] at h, fun _ => rfl⟩
  | r :: rs, h => by
    rw [concat_cons_outs, concat_cons_stream]
    exact posOK_append (h r (by simp)) (concat_posOK rs (fun r' hr' => h r' (by simp [hr'])))

theorem concat_len : ∀ (rs : List RefDS),
    (∀ r ∈ rs, ∀ n, r.len = .ok n → r.stream.err = none → r.stream.vals.length = n) →
    ∀ n, Ref.sumLens rs = .ok n → (Ref.concat rs).stream.err = none →
      (Ref.concat rs).stream.vals.length = n
  | [], _, n, hn, _ => by
    simp only [Ref.sumLens] at hn
    cases hn
    rfl
  | r :: rs, h, n, hn, he => by
    simp only [Ref.sumLens] at hn
    cases ha : r.len with
    | error e => rw [ha] at hn; cases hn
    | ok a =>
      rw [ha] at hn
      cases hb : Ref.sumLens rs with
      | error e => rw [hb] at hn; cases hn
      | ok b =>
        rw [hb] at hn
        cases hn
        rw [concat_cons_stream] at he ⊢
        cases h1 : r.stream.err with
        | some e => rw [append_of_some h1] at he; cases he
        | none =>
          rw [append_of_none h1] at he ⊢
          have e1 := h r (by simp) a ha h1
          have e2 := concat_len rs (fun r' hr' => h r' (by simp [hr'])) b hb he
          show (r.stream.vals ++ (Ref.concat rs).stream.vals).length = a + b
          rw [List.length_append, e1, e2]

theorem pairsOK_append {k1 k2 : Stream (String × Val)} {s1 s2 : Stream Val} (h1 : PairsOK k1 s1)
    (h2 : PairsOK k2 s2) : PairsOK (k1.append k2) (s1.append s2) := by
  cases he : k1.err with
  | some e =>
    rw [append_of_some he]
    exact ⟨h1.1.trans (vals_prefix_append s1 s2), fun h => by cases h⟩
  | none =>
    obtain ⟨e1, e2⟩ := h1.2 he
    rw [append_of_none he, append_of_none e2]
    refine ⟨?_, ?_⟩
    · show (k1.vals ++ k2.vals).map (·.2) <+: s1.vals ++ s2.vals
      rw [List.map_append, e1]
      exact (List.prefix_append_right_inj _).2 h2.1
    · intro h
      obtain ⟨a, b⟩ := h2.2 h
      refine ⟨?_, b⟩
      show (k1.vals ++ k2.vals).map (·.2) = s1.vals ++ s2.vals
      rw [List.map_append, e1, a]

theorem concat_pairsOK : ∀ (rs : List RefDS), (∀ r ∈ rs, PairsOK r.kstream r.stream) →
    PairsOK (Ref.concat rs).kstream (Ref.concat rs).stream
  | [], _ => ⟨List.prefix_refl _, fun _ => ⟨rfl, rfl⟩⟩
  | r :: rs, h => by
    rw [concat_cons_kstream, concat_cons_stream]
    exact pairsOK_append (h r (by simp)) (concat_pairsOK rs (fun r' hr' => h r' (by simp [hr'])))

theorem concat_keyed : ∀ (rs : List RefDS), (∀ r ∈ rs, RefWF2 r) → (∀ r ∈ rs, r.indexable = true) →
    ∀ kss, rs.mapM (·.keys) = .ok kss →
      (Ref.concat rs).kstream.err = (Ref.concat rs).stream.err ∧
      (Ref.concat rs).kstream.vals.map (·.2) = (Ref.concat rs).stream.vals ∧
      (Ref.concat rs).kstream.vals.map (·.1) = kss.flatten.take (Ref.concat rs).kstream.vals.length
  | [], _, _, kss, hm => by
    simp only [List.mapM_nil] at hm
    cases hm
    exact ⟨rfl, rfl, rfl⟩
  | r :: rs, hwf, hi, kss, hm => by
    obtain ⟨b, bs, hb, hbs, rfl⟩ := mapM_cons_ok _ _ _ _ hm
    have hw := hwf r (by simp)
    have hir := hi r (by simp)
    obtain ⟨k1, k2, k3⟩ := hw.keyed b hb hir
    obtain ⟨p1, _, p3⟩ := hw.pos hir
    have hbl : b.length = r.outs.length := hw.keysLen hir b hb
    have hkl : r.kstream.vals.length = r.stream.vals.length := by
      rw [← k2, List.length_map]
    obtain ⟨i1, i2, i3⟩ := concat_keyed rs (fun r' hr' => hwf r' (by simp [hr']))
      (fun r' hr' => hi r' (by simp [hr'])) bs hbs
    rw [concat_cons_kstream, concat_cons_stream, List.flatten_cons]
    cases he : r.stream.err with
    | some e =>
      have he' : r.kstream.err = some e := by rw [k1, he]
      rw [append_of_some he, append_of_some he']
      refine ⟨rfl, k2, ?_⟩
      show r.kstream.vals.map (·.1) = (b ++ bs.flatten).take r.kstream.vals.length
      rw [List.take_append_of_le_length (by omega), k3]
    | none =>
      have he' : r.kstream.err = none := by rw [k1, he]
      have hlen : r.kstream.vals.length = b.length := by
        rw [hkl, p3 he, hbl]
      rw [append_of_none he, append_of_none he']
      refine ⟨i1, ?_, ?_⟩
      · show (r.kstream.vals ++ (Ref.concat rs).kstream.vals).map (·.2)
            = r.stream.vals ++ (Ref.concat rs).stream.vals
        rw [List.map_append, k2, i2]
      · show (r.kstream.vals ++ (Ref.concat rs).kstream.vals).map (·.1)
            = (b ++ bs.flatten).take (r.kstream.vals ++ (Ref.concat rs).kstream.vals).length
        rw [List.map_append, k3, i3, List.length_append, hlen, List.take_length,
          List.take_length_add_append]

theorem concat_lenOuts : ∀ (rs : List RefDS), (∀ r ∈ rs, r.len = .ok r.outs.length) →
    Ref.sumLens rs = .ok (Ref.concat rs).outs.length
  | [], _ => rfl
  | r :: rs, h => by
    rw [concat_cons_outs, List.length_append]
    simp only [Ref.sumLens, h r (by simp), concat_lenOuts rs (fun r' hr' => h r' (by simp [hr']))]
    rfl

theorem concat_keysLen : ∀ (rs : List RefDS),
    (∀ r ∈ rs, ∀ ks, r.keys = .ok ks → ks.length = r.outs.length) →
    ∀ kss, rs.mapM (·.keys) = .ok kss → kss.flatten.length = (Ref.concat rs).outs.length
  | [], _, kss, hm => by
    simp only [List.mapM_nil] at hm
    cases hm
    rfl
  | r :: rs, h, kss, hm => by
    obtain ⟨b, bs, hb, hbs, rfl⟩ := mapM_cons_ok _ _ _ _ hm
    rw [concat_cons_outs, List.flatten_cons, List.length_append, List.length_append,
      h r (by simp) b hb, concat_keysLen rs (fun r' hr' => h r' (by simp [hr'])) bs hbs]

end WfNary

open WfNary

/-- **C02 / C03 are preserved by concatenation.** -/
theorem wf2_concat {rs : List RefDS} (h : ∀ r ∈ rs, RefWF2 r) : RefWF2 (Ref.concat rs) where
  pos := by
    intro hix
    have hi := all_indexable_mem hix
    exact (concat_posOK rs (fun r hr => posOK_of_wf (h r hr).toRefWF (hi r hr))).toPos
  len := by
    intro n hn he
    exact concat_len rs (fun r hr => (h r hr).len) n hn he
  pairs := concat_pairsOK rs (fun r hr => (h r hr).pairs)
  keyed := by
    intro ks hk hix
    have hi := all_indexable_mem hix
    obtain ⟨kss, hm, rfl⟩ := concatKeys_ok hk
    exact concat_keyed rs h hi kss hm
  lenOuts := by
    intro hix
    have hi := all_indexable_mem hix
    exact concat_lenOuts rs (fun r hr => (h r hr).lenOuts (hi r hr))
  keysLen := by
    intro hix ks hk
    have hi := all_indexable_mem hix
    obtain ⟨kss, hm, rfl⟩ := concatKeys_ok hk
    exact concat_keysLen rs (fun r hr => (h r hr).keysLen (hi r hr)) kss hm

/-- `concatenate(...)`: one part is returned as is, several parts are concatenated -/
theorem wf2_mkConcat {rs : List RefDS} {r : RefDS} (h : ∀ r ∈ rs, RefWF2 r)
    (hm : Ref.mkConcat rs = .ok r) : RefWF2 r := by
  match rs, h, hm with
  | [], _, hm => cases hm
  | [r0], h, hm =>
    simp only [Ref.mkConcat] at hm
    cases hm
    exact h _ (by simp)
  | r0 :: r1 :: rs', h, hm =>
    simp only [Ref.mkConcat] at hm
    cases hm
    exact wf2_concat h

/-- `tile(n)` -/
theorem wf2_mkTile {r r' : RefDS} {n : Nat} (h : RefWF2 r) (hm : Ref.mkTile n r = .ok r') :
    RefWF2 r' := by
  match n, hm with
  | 0, hm => cases hm
  | 1, hm =>
    simp only [Ref.mkTile] at hm
    cases hm
    exact h
  | n + 2, hm =>
    simp only [Ref.mkTile] at hm
    cases hm
    exact wf2_concat (fun r0 hr0 => by rw [List.eq_of_mem_replicate hr0]; exact h)

namespace WfNary

/-! ### zip: what Python's `zip` over generators yields -/

theorem zipRow_cons_ok {α} (s : Stream α) (ss : List (Stream α)) (p : Nat) (row : List α)
    (h : zipRow (s :: ss) p = .ok row) :
    ∃ v row', s.vals[p]? = some v ∧ zipRow ss p = .ok row' ∧ row = v :: row' := by
  simp only [zipRow] at h
  cases hv : s.vals[p]? with
  | none => rw [hv] at h; cases h
  | some v =>
    rw [hv] at h
    cases hr : zipRow ss p with
    | error e => rw [hr] at h; cases h
    | ok row' =>
      rw [hr] at h
      cases h
      exact ⟨v, row', rfl, rfl, rfl⟩

/-- a full row: every iterator had a value at that position -/
theorem zipRow_ok_lt {α} : ∀ (ss : List (Stream α)) (p : Nat) (row : List α), zipRow ss p = .ok row →
    ∀ s ∈ ss, p < s.vals.length
  | [], _, _, _, s, hs => by cases hs
  | s0 :: ss, p, row, h, s, hs => by
    obtain ⟨v, row', hv, hr, _⟩ := zipRow_cons_ok s0 ss p row h
    rcases List.mem_cons.1 hs with rfl | hm
    · exact (List.getElem?_eq_some_iff.1 hv).1
    · exact zipRow_ok_lt ss p row' hr s hm

/-- no full row: some iterator was exhausted there, and the way it ended is the way the zip ends -/
theorem zipRow_error {α} : ∀ (ss : List (Stream α)) (p : Nat) (e : Option Err), zipRow ss p = .error e →
    ∃ s ∈ ss, s.vals.length ≤ p ∧ s.err = e
  | [], _, _, h => by simp only [zipRow] at h; cases h
  | s0 :: ss, p, e, h => by
    simp only [zipRow] at h
    cases hv : s0.vals[p]? with
    | none =>
      rw [hv] at h
      cases h
      exact ⟨s0, by simp, by simpa using hv, rfl⟩
    | some v =>
      rw [hv] at h
      cases hr : zipRow ss p with
      | ok row' => rw [hr] at h; cases h
      | error e' =>
        rw [hr] at h
        cases h
        obtain ⟨s, hs, h1, h2⟩ := zipRow_error ss p _ hr
        exact ⟨s, by simp [hs], h1, h2⟩

theorem zipRun_spec {α} (ss : List (Stream α)) : ∀ (fuel p : Nat),
    (zipRun ss fuel p).vals.length ≤ fuel ∧
    (∀ t row, (zipRun ss fuel p).vals[t]? = some row → zipRow ss (p + t) = .ok row) ∧
    ((zipRun ss fuel p).vals.length < fuel →
      zipRow ss (p + (zipRun ss fuel p).vals.length) = .error (zipRun ss fuel p).err)
  | 0, p => by
    refine ⟨Nat.le_refl _, ?_, ?_⟩
    · intro t row h
      simp [zipRun, Stream.nil] at h
    · intro h
      simp [zipRun, Stream.nil] at h
  | fuel + 1, p => by
    obtain ⟨i1, i2, i3⟩ := zipRun_spec ss fuel (p + 1)
    unfold zipRun
    cases hr : zipRow ss p with
    | error e =>
      refine ⟨Nat.zero_le _, ?_, ?_⟩
      · intro t row h
        simp at h
      · intro _
        exact hr
    | ok row0 =>
      simp only [Stream.cons, List.length_cons]
      refine ⟨by omega, ?_, ?_⟩
      · intro t row h
        cases t with
        | zero =>
          simp only [List.getElem?_cons_zero] at h
          cases h
          exact hr
        | succ t =>
          simp only [List.getElem?_cons_succ] at h
          have := i2 t row h
          rw [show p + (t + 1) = p + 1 + t by omega]
          exact this
      · intro h
        have := i3 (by omega)
        rw [show p + ((zipRun ss fuel (p + 1)).vals.length + 1)
            = p + 1 + (zipRun ss fuel (p + 1)).vals.length by omega]
        exact this

/-- the rows of `zipStreams`: row `t` is a full row at position `t`, and the zip ends where the
    first incomplete row is, the way that row's first exhausted iterator ended -/
theorem zipStreams_spec {α} (s : Stream α) (ss : List (Stream α)) :
    (∀ t row, (zipStreams (s :: ss)).vals[t]? = some row → zipRow (s :: ss) t = .ok row) ∧
    zipRow (s :: ss) (zipStreams (s :: ss)).vals.length = .error (zipStreams (s :: ss)).err := by
  obtain ⟨h1, h2, h3⟩ := zipRun_spec (s :: ss) (s.vals.length + 1) 0
  have hrow : ∀ t row, (zipStreams (s :: ss)).vals[t]? = some row → zipRow (s :: ss) t = .ok row := by
    intro t row h
    have := h2 t row h
    rwa [Nat.zero_add] at this
  refine ⟨hrow, ?_⟩
  have hlt : (zipStreams (s :: ss)).vals.length < s.vals.length + 1 := by
    apply Nat.lt_of_le_of_ne h1
    intro heq
    have hget : s.vals.length < (zipStreams (s :: ss)).vals.length := by
      show s.vals.length < (zipRun (s :: ss) (s.vals.length + 1) 0).vals.length
      omega
    have := zipRow_ok_lt _ _ _ (hrow s.vals.length _ (List.getElem?_eq_getElem hget)) s (by simp)
    omega
  have := h3 hlt
  rwa [Nat.zero_add] at this

/-! ### zip: the outcome rows (copies of the small facts in `RelConcat`) -/

theorem zipOuts_length (ls : List (List (Res Val))) (n : Nat) : (Ref.zipOuts ls n).length = n := by
  induction n with
  | zero => rfl
  | succ n ih => simp only [Ref.zipOuts, List.length_append, ih, List.length_cons, List.length_nil]

theorem zipOuts_getElem? (ls : List (List (Res Val))) (n t : Nat) (h : t < n) :
    (Ref.zipOuts ls n)[t]? =
      some (do let row ← ls.mapM (fun l => outAt l (t : Int)); .ok (.tup row)) := by
  induction n with
  | zero => omega
  | succ n ih =>
    simp only [Ref.zipOuts]
    by_cases ht : t < n
    · rw [List.getElem?_append_left (by rw [zipOuts_length]; exact ht)]
      exact ih ht
    · have : t = n := by omega
      subst this
      rw [List.getElem?_append_right (by rw [zipOuts_length]; exact Nat.le_refl _)]
      simp [zipOuts_length]

/-- a full row of yielded values is the row of the parts' positional outcomes -/
theorem zipRow_outs (t : Nat) : ∀ (rs : List RefDS) (row : List Val),
    (∀ r ∈ rs, PosOK r.outs r.stream) → zipRow (rs.map (·.stream)) t = .ok row →
    (rs.map (·.outs)).mapM (fun l => outAt l (t : Int)) = .ok row
  | [], row, _, h => by
    simp only [List.map_nil, zipRow] at h
    cases h
    rfl
  | r :: rs, row, hp, h => by
    obtain ⟨v, row', hv, hr, rfl⟩ := zipRow_cons_ok _ _ _ _ h
    have ih := zipRow_outs t rs row' (fun r' hr' => hp r' (by simp [hr'])) hr
    have h1 : outAt r.outs (t : Int) = .ok v := by
      rw [outAt_nat, (hp r (by simp)).1 t v hv]
    exact mapM_cons_of_ok _ _ _ _ _ h1 ih

theorem allLens_mem {rs : List RefDS} {lens : List Nat} (h : Ref.allLens rs = .ok lens) :
    ∀ r ∈ rs, ∃ a ∈ lens, r.len = .ok a := by
  induction rs generalizing lens with
  | nil => intro r hr; cases hr
  | cons r0 rs ih =>
    simp only [Ref.allLens] at h
    cases h0 : r0.len with
    | error e => rw [h0] at h; cases h
    | ok a =>
      rw [h0] at h
      cases h1 : Ref.allLens rs with
      | error e => rw [h1] at h; cases h
      | ok as =>
        rw [h1] at h
        cases h
        intro r hr
        rcases List.mem_cons.1 hr with rfl | hm
        · exact ⟨a, by simp, h0⟩
        · obtain ⟨b, hb, hrb⟩ := ih h1 r hm
          exact ⟨b, by simp [hb], hrb⟩

theorem allEq_mem {lens : List Nat} (h : allEq lens = true) : ∀ a ∈ lens, a = lens.headD 0 := by
  cases lens with
  | nil => intro a ha; cases ha
  | cons a0 rest =>
    intro a ha
    simp only [allEq, List.all_eq_true, beq_iff_eq] at h
    rcases List.mem_cons.1 ha with rfl | hm
    · rfl
    · exact h a hm

/-- the number of rows: parts that report the common length `n` and end normally yield `n` values,
    so a zip that ends normally has `n` rows -/
theorem zip_rows {rs : List RefDS} {n : Nat} (hne : rs ≠ [])
    (hlen : ∀ r ∈ rs, r.stream.err = none → r.stream.vals.length = n)
    (he : (zipStreams (rs.map (·.stream))).err = none) :
    (zipStreams (rs.map (·.stream))).vals.length = n := by
  cases rs with
  | nil => exact absurd rfl hne
  | cons r rs' =>
    rw [List.map_cons] at he ⊢
    obtain ⟨h1, h2⟩ := zipStreams_spec r.stream (rs'.map (·.stream))
    rw [he] at h2
    obtain ⟨s, hs, hle, hse⟩ := zipRow_error _ _ _ h2
    rw [← List.map_cons] at hs
    obtain ⟨r0, hr0, rfl⟩ := List.mem_map.1 hs
    have hn := hlen r0 hr0 hse
    apply Nat.le_antisymm
    · apply Nat.le_of_not_lt
      intro hgt
      have hget : n < (zipStreams (r.stream :: rs'.map (·.stream))).vals.length := hgt
      have := zipRow_ok_lt _ _ _ (h1 n _ (List.getElem?_eq_getElem hget)) r0.stream
        (by rw [← List.map_cons]; exact List.mem_map_of_mem hr0)
      omega
    · omega

end WfNary

open WfNary

/-- **C02 / C03 are preserved by `zip`** (of parts that report the same length) -/
theorem wf2_zip {rs : List RefDS} (h : ∀ r ∈ rs, RefWF2 r) (hne : rs ≠ [])
    (hsame : ∃ n, ∀ r ∈ rs, r.len = .ok n) : RefWF2 (Ref.zip rs) := by
  obtain ⟨n, hn⟩ := hsame
  cases rs with
  | nil => exact absurd rfl hne
  | cons r rs' =>
    have hrows : (zipStreams ((r :: rs').map (·.stream))).err = none →
        (zipStreams ((r :: rs').map (·.stream))).vals.length = n :=
      zip_rows hne (fun r0 hr0 => (h r0 hr0).len n (hn r0 hr0))
    refine
      { pos := ?_, len := ?_, pairs := ?_, keyed := ?_, lenOuts := ?_, keysLen := ?_ }
    · intro hix
      have hi := all_indexable_mem hix
      have hp : ∀ r0 ∈ r :: rs', PosOK r0.outs r0.stream :=
        fun r0 hr0 => posOK_of_wf (h r0 hr0).toRefWF (hi r0 hr0)
      have hrn : r.outs.length = n := by
        have h1 := (h r (by simp)).lenOuts (hi r (by simp))
        rw [hn r (by simp)] at h1
        injection h1 with h1
        exact h1.symm
      have hol : (Ref.zip (r :: rs')).outs.length = n := by
        simp only [Ref.zip, zipOuts_length, hrn]
      apply PosOK.toPos
      refine ⟨?_, ?_⟩
      · intro t v hv
        simp only [Ref.zip, List.getElem?_map] at hv
        cases hz : (zipStreams ((r :: rs').map (·.stream))).vals[t]? with
        | none => rw [hz] at hv; cases hv
        | some row =>
          rw [hz] at hv
          simp only [Option.map_some] at hv
          cases hv
          rw [List.map_cons] at hz
          have hrow := (zipStreams_spec r.stream (rs'.map (·.stream))).1 t row hz
          rw [← List.map_cons] at hrow
          have ht : t < r.outs.length := by
            have h1 := zipRow_ok_lt _ _ _ hrow r.stream (by simp)
            have h2 := (hp r (by simp)).length_le
            omega
          simp only [Ref.zip]
          rw [zipOuts_getElem? _ _ _ ht, zipRow_outs t _ row hp hrow]
          rfl
      · intro he
        rw [hol]
        simp only [Ref.zip, List.length_map] at he ⊢
        exact hrows he
    · intro m hm he
      simp only [Ref.zip] at hm he ⊢
      rw [hn r (by simp)] at hm
      injection hm with hm
      subst hm
      rw [List.length_map]
      exact hrows he
    · simp [Ref.zip, Stream.fail]
    · intro ks hk; cases hk
    · intro hix
      have hi := all_indexable_mem hix
      simp only [Ref.zip, zipOuts_length]
      exact (h r (by simp)).lenOuts (hi r (by simp))
    · intro _ ks hk; cases hk

/-- `ZipDataset.__init__` -/
theorem wf2_mkZip {rs : List RefDS} {r : RefDS} (h : ∀ r ∈ rs, RefWF2 r)
    (hm : Ref.mkZip rs = .ok r) : RefWF2 r := by
  cases rs with
  | nil => cases hm
  | cons r0 rs' =>
    simp only [Ref.mkZip, List.isEmpty_cons, Bool.false_eq_true, if_false] at hm
    cases hl : Ref.allLens (r0 :: rs') with
    | error e => rw [hl] at hm; cases hm
    | ok lens =>
      rw [hl] at hm
      simp only [bind, Except.bind] at hm
      cases he : allEq lens with
      | false => rw [he] at hm; cases hm
      | true =>
        rw [he] at hm
        cases hm
        refine wf2_zip h (by simp) ⟨lens.headD 0, ?_⟩
        intro r hr
        obtain ⟨a, ha, hra⟩ := allLens_mem hl r hr
        rw [hra, allEq_mem he a ha]

namespace WfNary

/-! ### batch -/

theorem mapM_id_map_ok : ∀ (c : List Val), (c.map Except.ok).mapM id = (.ok c : Res (List Val))
  | [] => rfl
  | v :: c => mapM_cons_of_ok id (Except.ok v) (c.map Except.ok) v c rfl (mapM_id_map_ok c)

theorem chunkOut_map_ok (c : List Val) : Ref.chunkOut (c.map Except.ok) = .ok (.list c) := by
  simp only [Ref.chunkOut, mapM_id_map_ok]
  rfl

/-- closed form of what the generator loop yields: the `k`-th batch is `l[k*bs : (k+1)*bs]`; with
    `drop_last` only full batches are yielded -/
theorem chunkAux_getElem? {α} {bs : Nat} (hbs : 1 ≤ bs) (dl : Bool) (l : List α) (k : Nat) :
    (chunkAux bs dl l [])[k]? =
      if (if dl then (k + 1) * bs ≤ l.length else k * bs < l.length)
      then some ((l.drop (k * bs)).take bs) else none := by
  cases dl with
  | false =>
    rw [chunkAux_eq_chunks hbs, chunks_getElem? hbs _ _ (Nat.lt_add_one _)]
    simp only [Bool.false_eq_true, if_false]
  | true =>
    rw [chunkAux_dropLast hbs, chunks_filter_full hbs _ _ (Nat.lt_add_one _), List.getElem?_take,
      chunks_getElem? hbs _ _ (Nat.lt_add_one _) k]
    simp only [if_true]
    have hiff : k < l.length / bs ↔ (k + 1) * bs ≤ l.length := Nat.le_div_iff_mul_le (by omega)
    rw [Nat.succ_mul] at hiff
    rw [Nat.succ_mul]
    by_cases hk : k * bs + bs ≤ l.length
    · have h1 : k * bs < l.length := by omega
      simp only [hiff.mpr hk, hk, h1, if_true]
    · have h1 : ¬ (k < l.length / bs) := fun h => hk (hiff.mp h)
      simp only [h1, hk, if_false]

theorem chunkAux_length {α} {bs : Nat} (hbs : 1 ≤ bs) (dl : Bool) (l : List α) :
    (chunkAux bs dl l []).length = if dl then l.length / bs else (l.length + bs - 1) / bs := by
  cases dl with
  | false =>
    rw [chunkAux_eq_chunks hbs]
    simp only [Bool.false_eq_true, if_false]
    exact chunks_length hbs _ _ (Nat.lt_add_one _)
  | true =>
    rw [chunkAux_dropLast hbs, chunks_filter_full hbs _ _ (Nat.lt_add_one _), List.length_take]
    simp only [if_true]
    have h1 := (chunks_length_bounds hbs _ l (Nat.lt_add_one _)).1
    have : l.length / bs ≤ (Ref.chunks bs l (l.length + 1)).length :=
      Nat.div_le_of_le_mul (by rw [Nat.mul_comm]; exact h1)
    omega

theorem batch_outs_getElem? {bs : Nat} (hbs : 1 ≤ bs) (dl : Bool) (r : RefDS) (k : Nat) :
    (Ref.batch bs dl r).outs[k]? =
      if (if dl then (k + 1) * bs ≤ r.outs.length else k * bs < r.outs.length)
      then some (Ref.chunkOut ((r.outs.drop (k * bs)).take bs)) else none := by
  cases dl with
  | false => rw [batch_outs_keep hbs]; simp only [Bool.false_eq_true, if_false]
  | true => rw [batch_outs_drop hbs]; simp only [if_true]

/-- a chunk of positions that lies inside the yielded prefix (or anywhere, if everything was
    yielded) consists of the yielded values -/
theorem chunk_outs_eq {O : List (Res Val)} {V : List Val} (hpre : V.map Except.ok <+: O)
    (k bs : Nat) (hk : (k + 1) * bs ≤ V.length ∨ V.length = O.length) :
    (O.drop (k * bs)).take bs = ((V.drop (k * bs)).take bs).map Except.ok := by
  rw [List.map_take, List.map_drop]
  rcases hk with hk | hk
  · obtain ⟨rest, rfl⟩ := hpre
    rw [Nat.succ_mul] at hk
    rw [List.drop_append_of_le_length (by rw [List.length_map]; omega),
      List.take_append_of_le_length (by rw [List.length_drop, List.length_map]; omega)]
  · rw [hpre.eq_of_length (by rw [List.length_map]; exact hk)]

theorem batchStream_vals (bs : Nat) (dl : Bool) (s : Stream Val) :
    (batchStream bs dl s).vals = (chunkAux bs (dl || s.err.isSome) s.vals []).map Val.list := by
  unfold batchStream
  cases s.err <;> simp

theorem batchStream_err (bs : Nat) (dl : Bool) (s : Stream Val) : (batchStream bs dl s).err = s.err := by
  unfold batchStream
  cases s.err <;> rfl

theorem batch_posOK {r : RefDS} {bs : Nat} (hbs : 1 ≤ bs) (dl : Bool) (hp : PosOK r.outs r.stream) :
    PosOK (Ref.batch bs dl r).outs (Ref.batch bs dl r).stream := by
  have hstream : (Ref.batch bs dl r).stream = batchStream bs dl r.stream := rfl
  have hle := hp.length_le
  have hpre := posOK_prefix hp
  rw [hstream]
  refine ⟨?_, ?_⟩
  · intro t v hv
    rw [batchStream_vals, List.getElem?_map, chunkAux_getElem? hbs] at hv
    by_cases hc : (if (dl || r.stream.err.isSome) = true then (t + 1) * bs ≤ r.stream.vals.length
        else t * bs < r.stream.vals.length)
    · rw [if_pos hc, Option.map_some] at hv
      cases hv
      have hbt : t * bs < (t + 1) * bs := by rw [Nat.succ_mul]; omega
      -- the chunk lies inside the yielded prefix, or everything was yielded
      have hk : (t + 1) * bs ≤ r.stream.vals.length ∨ r.stream.vals.length = r.outs.length := by
        cases he : r.stream.err with
        | none => exact Or.inr (hp.2 he)
        | some e =>
          rw [he] at hc
          simp only [Option.isSome_some, Bool.or_true, if_true] at hc
          exact Or.inl hc
      have hcond : (if dl then (t + 1) * bs ≤ r.outs.length else t * bs < r.outs.length) := by
        rcases hk with hk | hk
        · cases dl
          · simp only [Bool.false_eq_true, if_false]; omega
          · simp only [if_true]; omega
        · cases he : r.stream.err with
          | none =>
            rw [he] at hc
            simp only [Option.isSome_none, Bool.or_false] at hc
            rw [← hk]
            exact hc
          | some e =>
            rw [he] at hc
            simp only [Option.isSome_some, Bool.or_true, if_true] at hc
            cases dl
            · simp only [Bool.false_eq_true, if_false]; omega
            · simp only [if_true]; omega
      rw [batch_outs_getElem? hbs, if_pos hcond, chunk_outs_eq hpre t bs hk, chunkOut_map_ok]
    · rw [if_neg hc, Option.map_none] at hv
      cases hv
  · intro he
    rw [batchStream_err] at he
    have hl := hp.2 he
    rw [batchStream_vals, List.length_map, chunkAux_length hbs, batch_outs_length hbs, he, hl]
    simp only [Option.isSome_none, Bool.or_false]

theorem batch_len {r : RefDS} {bs : Nat} (hbs : 1 ≤ bs) (dl : Bool)
    (hlen : ∀ n, r.len = .ok n → r.stream.err = none → r.stream.vals.length = n) :
    ∀ m, (Ref.batch bs dl r).len = .ok m → (Ref.batch bs dl r).stream.err = none →
      (Ref.batch bs dl r).stream.vals.length = m := by
  intro m hm he
  have hstream : (Ref.batch bs dl r).stream = batchStream bs dl r.stream := rfl
  rw [hstream] at he ⊢
  rw [batchStream_err] at he
  have hb : (bs == 0) = false := by simp only [beq_eq_false_iff_ne, ne_eq]; omega
  simp only [Ref.batch] at hm
  cases hn : r.len with
  | error e => rw [hn] at hm; cases hm
  | ok n =>
    rw [hn] at hm
    simp only [bind, Except.bind, hb, Bool.false_eq_true, if_false] at hm
    have hl := hlen n hn he
    rw [batchStream_vals, List.length_map, chunkAux_length hbs, he, hl]
    simp only [Option.isSome_none, Bool.or_false]
    cases dl with
    | false =>
      simp only [Bool.false_eq_true, if_false] at hm ⊢
      injection hm
    | true =>
      simp only [if_true] at hm ⊢
      injection hm

end WfNary

open WfNary

/-- **C02 / C03 are preserved by `batch`** -/
theorem wf2_batch {r : RefDS} {bs : Nat} {dropLast : Bool} (h : RefWF2 r) (hbs : 1 ≤ bs) :
    RefWF2 (Ref.batch bs dropLast r) where
  pos := by
    intro hi
    have hi' : r.indexable = true := hi
    exact (batch_posOK hbs dropLast (posOK_of_wf h.toRefWF hi')).toPos
  len := batch_len hbs dropLast h.len
  pairs := by simp [Ref.batch, Stream.fail]
  keyed := by intro ks hk; cases hk
  lenOuts := by
    intro hi
    have hi' : r.indexable = true := hi
    exact batch_len_eq hbs dropLast r (h.lenOuts hi')
  keysLen := by intro _ ks hk; cases hk

end LazyDs

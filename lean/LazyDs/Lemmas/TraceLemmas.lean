import LazyDs.Model.Trace
/-
  Helper lemmas for C08 (demand-driven evaluation) about the chunked-trace semantics of
  `LazyDs/Model/Trace.lean`.  CORE LEAN ONLY.
-/
namespace LazyDs.Trace

/-! ### `logAfter` / `fullLog` bookkeeping -/

@[simp] theorem logAfter_zero (t : TStream) : t.logAfter 0 = [] := by
  simp [TStream.logAfter]

@[simp] theorem logAfter_nil (tl : Log) (e : Option Err) (k : Nat) :
    (TStream.mk [] tl e).logAfter k = [] := by
  simp [TStream.logAfter]

@[simp] theorem logAfter_cons_succ (c : Log × Val) (cs : List (Log × Val)) (tl : Log) (e : Option Err) (k : Nat) :
    (TStream.mk (c :: cs) tl e).logAfter (k + 1) = c.1 ++ (TStream.mk cs tl e).logAfter k := by
  simp [TStream.logAfter]

/-- `logAfter` only looks at the chunks -/
theorem logAfter_congr (t : TStream) (tl : Log) (e : Option Err) (k : Nat) :
    (TStream.mk t.chunks tl e).logAfter k = t.logAfter k := rfl

theorem logAfter_mono (t : TStream) {k k' : Nat} (h : k ≤ k') : t.logAfter k <+: t.logAfter k' := by
  unfold TStream.logAfter
  obtain ⟨r, hr⟩ := List.take_prefix_take_left (l := t.chunks) h
  rw [← hr]
  simp only [List.map_append, List.flatten_append]
  exact List.prefix_append _ _

theorem logAfter_all (t : TStream) {k : Nat} (h : t.chunks.length ≤ k) :
    t.logAfter k ++ t.tail = t.fullLog := by
  simp [TStream.logAfter, TStream.fullLog, List.take_of_length_le h]

/-- the arguments a stage `sid` was applied to, in order, according to a log -/
def sidArgs (sid : Nat) (l : Log) : List Val := (l.filter (·.stage == sid)).map (·.arg)

@[simp] theorem sidArgs_nil (sid : Nat) : sidArgs sid [] = [] := rfl

@[simp] theorem sidArgs_append (sid : Nat) (a b : Log) :
    sidArgs sid (a ++ b) = sidArgs sid a ++ sidArgs sid b := by
  simp [sidArgs]

@[simp] theorem sidArgs_self (sid : Nat) (v : Val) : sidArgs sid [⟨sid, v⟩] = [v] := by
  simp [sidArgs]

theorem sidArgs_fresh (sid : Nat) (l : Log) (h : ∀ c ∈ l, c.stage ≠ sid) : sidArgs sid l = [] := by
  simp only [sidArgs, List.map_eq_nil_iff, List.filter_eq_nil_iff]
  intro c hc
  simpa using h c hc

/-! ### erasure -/

theorem erase_map (ρ : Env) (sid : Nat) (f : FnSym) (cs : List (Log × Val)) (tl : Log) (e : Option Err) :
    (mapT ρ sid f cs tl e).erase = Stream.mapMAux (ρ.fn f) (cs.map (·.2)) e := by
  induction cs with
  | nil => simp [mapT, Stream.mapMAux, TStream.erase]
  | cons c rest ih =>
    obtain ⟨lg, v⟩ := c
    simp only [mapT, List.map_cons, Stream.mapMAux]
    cases h : ρ.fn f v with
    | ok w =>
      simp only [TStream.erase] at ih ⊢
      simp [← ih]
    | error er => simp [TStream.erase]

theorem erase_filter (ρ : Env) (sid : Nat) (f : PredSym) (cs : List (Log × Val)) (pending tl : Log)
    (e : Option Err) :
    (filterT ρ sid f cs pending tl e).erase = Stream.filterMAux (ρ.pred f) (cs.map (·.2)) e := by
  induction cs generalizing pending with
  | nil => simp [filterT, Stream.filterMAux, TStream.erase]
  | cons c rest ih =>
    obtain ⟨lg, v⟩ := c
    simp only [filterT, List.map_cons, Stream.filterMAux]
    cases h : ρ.pred f v with
    | ok b =>
      cases b with
      | true =>
        have := ih []
        simp only [TStream.erase] at this ⊢
        simp [← this]
      | false => simpa using ih _
    | error er => simp [TStream.erase]

theorem erase_unbatch (cs : List (Log × Val)) (pending tl : Log) (e : Option Err) :
    (unbatchT cs pending tl e).erase = unbatchAux (cs.map (·.2)) e := by
  induction cs generalizing pending with
  | nil => simp [unbatchT, unbatchAux, TStream.erase]
  | cons c rest ih =>
    obtain ⟨lg, v⟩ := c
    have h0 := ih []
    simp only [TStream.erase] at h0
    cases v with
    | list xs =>
      cases xs with
      | nil =>
        simp only [unbatchT, List.map_cons, unbatchAux, List.nil_append]
        rw [ih]
      | cons x xs =>
        simp only [unbatchT, List.map_cons, unbatchAux, TStream.erase]
        simp [← h0, List.map_map, Function.comp_def]
    | tup xs =>
      cases xs with
      | nil =>
        simp only [unbatchT, List.map_cons, unbatchAux, List.nil_append]
        rw [ih]
      | cons x xs =>
        simp only [unbatchT, List.map_cons, unbatchAux, TStream.erase]
        simp [← h0, List.map_map, Function.comp_def]
    | none => simp [unbatchT, unbatchAux, TStream.erase]
    | int i => simp [unbatchT, unbatchAux, TStream.erase]
    | str s => simp [unbatchT, unbatchAux, TStream.erase]
    | dict kvs => simp [unbatchT, unbatchAux, TStream.erase]

theorem erase_append (a b : TStream) : (appendT a b).erase = a.erase.append b.erase := by
  unfold appendT Stream.append TStream.erase
  cases ha : a.err with
  | some e => simp [ha]
  | none =>
    cases hb : b.chunks with
    | nil => simp
    | cons c rest => obtain ⟨lg, v⟩ := c; simp

/-- erasure of the batch loop, for any partially collected batch `cur` (no hypothesis on `n`) -/
theorem erase_batch_gen (n : Nat) (dl : Bool) (cs : List (Log × Val)) (cur : List Val) (lg tl : Log)
    (e : Option Err) :
    (batchT n dl cs cur lg tl e).erase =
      match e with
      | none => ⟨(chunkAux n dl (cs.map (·.2)) cur).map Val.list, none⟩
      | some er => ⟨(chunkAux n true (cs.map (·.2)) cur).map Val.list, some er⟩ := by
  induction cs generalizing cur lg with
  | nil =>
    cases e with
    | some er => simp [batchT, chunkAux, TStream.erase]
    | none =>
      by_cases h : (cur.length > 0 && !dl) = true
      · simp [batchT, chunkAux, TStream.erase, h]
      · simp [batchT, chunkAux, TStream.erase, h]
  | cons c rest ih =>
    obtain ⟨l, v⟩ := c
    by_cases h : n ≤ cur.length + 1
    · have h0 := ih [] []
      simp only [TStream.erase] at h0
      cases e with
      | none =>
        simp only [Stream.mk.injEq] at h0
        simp [batchT, chunkAux, TStream.erase, h, h0.1, h0.2]
      | some er =>
        simp only [Stream.mk.injEq] at h0
        simp [batchT, chunkAux, TStream.erase, h, h0.1, h0.2]
    · have h1 := ih (v :: cur) (lg ++ l)
      cases e with
      | none => simpa [batchT, chunkAux, h] using h1
      | some er => simpa [batchT, chunkAux, h] using h1

end LazyDs.Trace

import LazyDs.Model.Trace
import LazyDs.Lemmas.RelIntersperse
/-
  Helper lemmas for C08 (demand-driven evaluation) about the chunked-trace semantics of
  `LazyDs/Model/Trace.lean`.  Core Lean; the facts about the order table of `intersperse`
  (`order_ok`, `order_entries`, `order_length`) come from `LazyDs/Lemmas/RelIntersperse.lean`.
  This file is not linked into the driver.
-/
namespace LazyDs.Trace

/-! ### `logAfter` / `fullLog` bookkeeping -/

@[simp] theorem logAfter_zero (t : TStream) : t.logAfter 0 = [] := by
  simp [TStream.logAfter]

@[simp] theorem logAfter_nil (tl : Log) (e : Option Err) (k : Nat) :
    (TStream.mk [] tl e).logAfter k = [] := by
  simp [TStream.logAfter]

@[simp] theorem logAfter_cons_succ (c : Log × Val) (cs : List (Log × Val)) (tl : Log) (e : Option Err) (k : Nat) :
    (TStream.mk (c :: cs) tl e).logAfter (k + 1) = c.1 ++ (TStream.mk cs tl e).logAfter k := by
  simp [TStream.logAfter]

/-- `logAfter` only looks at the chunks -/
theorem logAfter_congr (t : TStream) (tl : Log) (e : Option Err) (k : Nat) :
    (TStream.mk t.chunks tl e).logAfter k = t.logAfter k := rfl

theorem logAfter_mono (t : TStream) {k k' : Nat} (h : k ≤ k') : t.logAfter k <+: t.logAfter k' := by
  unfold TStream.logAfter
  obtain ⟨r, hr⟩ := List.take_prefix_take_left (l := t.chunks) h
  rw [← hr]
  simp only [List.map_append, List.flatten_append]
  exact List.prefix_append _ _

theorem logAfter_all (t : TStream) {k : Nat} (h : t.chunks.length ≤ k) :
    t.logAfter k ++ t.tail = t.fullLog := by
  simp [TStream.logAfter, TStream.fullLog, List.take_of_length_le h]

/-- the arguments a stage `sid` was applied to, in order, according to a log -/
def sidArgs (sid : Nat) (l : Log) : List Val := (l.filter (·.stage == sid)).map (·.arg)

@[simp] theorem sidArgs_nil (sid : Nat) : sidArgs sid [] = [] := rfl

@[simp] theorem sidArgs_append (sid : Nat) (a b : Log) :
    sidArgs sid (a ++ b) = sidArgs sid a ++ sidArgs sid b := by
  simp [sidArgs]

@[simp] theorem sidArgs_self (sid : Nat) (v : Val) : sidArgs sid [⟨sid, v⟩] = [v] := by
  simp [sidArgs]

@[simp] theorem sidArgs_cons_self (sid : Nat) (v : Val) (l : Log) :
    sidArgs sid (⟨sid, v⟩ :: l) = v :: sidArgs sid l := by
  simp [sidArgs]

theorem sidArgs_fresh (sid : Nat) (l : Log) (h : ∀ c ∈ l, c.stage ≠ sid) : sidArgs sid l = [] := by
  simp only [sidArgs, List.map_eq_nil_iff, List.filter_eq_nil_iff]
  intro c hc
  simpa using h c hc

/-! ### erasure -/

theorem erase_map (ρ : Env) (sid : Nat) (f : FnSym) (cs : List (Log × Val)) (tl : Log) (e : Option Err) :
    (mapT ρ sid f cs tl e).erase = Stream.mapMAux (ρ.fn f) (cs.map (·.2)) e := by
  induction cs with
  | nil => simp [mapT, Stream.mapMAux, TStream.erase]
  | cons c rest ih =>
    obtain ⟨lg, v⟩ := c
    simp only [mapT, List.map_cons, Stream.mapMAux]
    cases h : ρ.fn f v with
    | ok w =>
      simp only [TStream.erase] at ih ⊢
      simp [← ih]
    | error er => simp [TStream.erase]

theorem erase_filter (ρ : Env) (sid : Nat) (f : PredSym) (cs : List (Log × Val)) (pending tl : Log)
    (e : Option Err) :
    (filterT ρ sid f cs pending tl e).erase = Stream.filterMAux (ρ.pred f) (cs.map (·.2)) e := by
  induction cs generalizing pending with
  | nil => simp [filterT, Stream.filterMAux, TStream.erase]
  | cons c rest ih =>
    obtain ⟨lg, v⟩ := c
    simp only [filterT, List.map_cons, Stream.filterMAux]
    cases h : ρ.pred f v with
    | ok b =>
      cases b with
      | true =>
        have := ih []
        simp only [TStream.erase] at this ⊢
        simp [← this]
      | false => simpa using ih _
    | error er => simp [TStream.erase]

theorem erase_unbatch (cs : List (Log × Val)) (pending tl : Log) (e : Option Err) :
    (unbatchT cs pending tl e).erase = unbatchAux (cs.map (·.2)) e := by
  induction cs generalizing pending with
  | nil => simp [unbatchT, unbatchAux, TStream.erase]
  | cons c rest ih =>
    obtain ⟨lg, v⟩ := c
    have h0 := ih []
    simp only [TStream.erase] at h0
    cases v with
    | list xs =>
      cases xs with
      | nil =>
        simp only [unbatchT, List.map_cons, unbatchAux, List.nil_append]
        rw [ih]
      | cons x xs =>
        simp only [unbatchT, List.map_cons, unbatchAux, TStream.erase]
        simp [← h0, List.map_map, Function.comp_def]
    | tup xs =>
      cases xs with
      | nil =>
        simp only [unbatchT, List.map_cons, unbatchAux, List.nil_append]
        rw [ih]
      | cons x xs =>
        simp only [unbatchT, List.map_cons, unbatchAux, TStream.erase]
        simp [← h0, List.map_map, Function.comp_def]
    | none => simp [unbatchT, unbatchAux, TStream.erase]
    | int i => simp [unbatchT, unbatchAux, TStream.erase]
    | str s => simp [unbatchT, unbatchAux, TStream.erase]
    | dict kvs => simp [unbatchT, unbatchAux, TStream.erase]

theorem erase_append (a b : TStream) : (appendT a b).erase = a.erase.append b.erase := by
  unfold appendT Stream.append TStream.erase
  cases ha : a.err with
  | some e => simp [ha]
  | none =>
    cases hb : b.chunks with
    | nil => simp
    | cons c rest => obtain ⟨lg, v⟩ := c; simp

/-- erasure of the batch loop, for any partially collected batch `cur` (no hypothesis on `n`) -/
theorem erase_batch_gen (n : Nat) (dl : Bool) (cs : List (Log × Val)) (cur : List Val) (lg tl : Log)
    (e : Option Err) :
    (batchT n dl cs cur lg tl e).erase =
      match e with
      | none => ⟨(chunkAux n dl (cs.map (·.2)) cur).map Val.list, none⟩
      | some er => ⟨(chunkAux n true (cs.map (·.2)) cur).map Val.list, some er⟩ := by
  induction cs generalizing cur lg with
  | nil =>
    cases e with
    | some er => simp [batchT, chunkAux, TStream.erase]
    | none =>
      by_cases h : (cur.length > 0 && !dl) = true
      · simp [batchT, chunkAux, TStream.erase, h]
      · simp [batchT, chunkAux, TStream.erase, h]
  | cons c rest ih =>
    obtain ⟨l, v⟩ := c
    by_cases h : n ≤ cur.length + 1
    · have h0 := ih [] []
      simp only [TStream.erase] at h0
      cases e with
      | none =>
        simp only [Stream.mk.injEq] at h0
        simp [batchT, chunkAux, TStream.erase, h, h0.1, h0.2]
      | some er =>
        simp only [Stream.mk.injEq] at h0
        simp [batchT, chunkAux, TStream.erase, h, h0.1, h0.2]
    · have h1 := ih (v :: cur) (lg ++ l)
      cases e with
      | none => simpa [batchT, chunkAux, h] using h1
      | some er => simpa [batchT, chunkAux, h] using h1

/-! ### conservation of the log and no look-ahead: `map` -/

@[simp] theorem fullLog_nil (tl : Log) (e : Option Err) : (TStream.mk [] tl e).fullLog = tl := by
  simp [TStream.fullLog]

@[simp] theorem flatten_map_fst_nil (xs : List Val) :
    ((xs.map (fun y => (([] : Log), y))).map (·.1)).flatten = [] := by
  induction xs with
  | nil => rfl
  | cons x xs ih => simp

theorem fullLog_congr (t : TStream) (e : Option Err) :
    (TStream.mk t.chunks t.tail e).fullLog = t.fullLog := rfl

@[simp] theorem fullLog_cons (c : Log × Val) (cs : List (Log × Val)) (tl : Log) (e : Option Err) :
    (TStream.mk (c :: cs) tl e).fullLog = c.1 ++ (TStream.mk cs tl e).fullLog := by
  simp [TStream.fullLog]

theorem fresh_cons {sid : Nat} {lg : Log} {v : Val} {rest : List (Log × Val)} {tl : Log}
    (h : ∀ c ∈ ((((lg, v) :: rest).map (·.1)).flatten ++ tl), c.stage ≠ sid) :
    (∀ c ∈ lg, c.stage ≠ sid) ∧ (∀ c ∈ ((rest.map (·.1)).flatten ++ tl), c.stage ≠ sid) := by
  constructor
  · intro c hc; apply h; simp [hc]
  · intro c hc; apply h
    simp only [List.map_cons, List.flatten_cons, List.append_assoc, List.mem_append] at hc ⊢
    exact Or.inr hc

theorem fresh_tail {sid : Nat} {cs : List (Log × Val)} {tl : Log}
    (h : ∀ c ∈ ((cs.map (·.1)).flatten ++ tl), c.stage ≠ sid) : ∀ c ∈ tl, c.stage ≠ sid := by
  intro c hc; apply h; simp [hc]

/-- exact form: the function has been applied to the inputs up to and including the one after the last result
    (the one that raised, if any) -/
theorem log_map_exact (ρ : Env) (sid : Nat) (f : FnSym) (cs : List (Log × Val)) (tl : Log) (e : Option Err)
    (hf : ∀ c ∈ ((cs.map (·.1)).flatten ++ tl), c.stage ≠ sid) :
    sidArgs sid (mapT ρ sid f cs tl e).fullLog = (cs.map (·.2)).take ((mapT ρ sid f cs tl e).chunks.length + 1) := by
  induction cs with
  | nil => simpa [mapT] using sidArgs_fresh sid tl (fresh_tail hf)
  | cons c rest ih =>
    obtain ⟨lg, v⟩ := c
    obtain ⟨h1, h2⟩ := fresh_cons hf
    simp only [mapT]
    cases h : ρ.fn f v with
    | ok w =>
      simp [sidArgs_fresh sid lg h1, fullLog_congr, ih h2]
    | error er => simp [sidArgs_fresh sid lg h1]

theorem map_chunks_length_le (ρ : Env) (sid : Nat) (f : FnSym) (cs : List (Log × Val)) (tl : Log) (e : Option Err) :
    (mapT ρ sid f cs tl e).chunks.length ≤ cs.length := by
  induction cs with
  | nil => simp [mapT]
  | cons c rest ih =>
    obtain ⟨lg, v⟩ := c
    simp only [mapT]
    cases h : ρ.fn f v <;> simp [ih]

theorem map_err_none (ρ : Env) (sid : Nat) (f : FnSym) (cs : List (Log × Val)) (tl : Log) (e : Option Err)
    (h : (mapT ρ sid f cs tl e).err = none) : (mapT ρ sid f cs tl e).chunks.length = cs.length := by
  induction cs with
  | nil => simp [mapT]
  | cons c rest ih =>
    obtain ⟨lg, v⟩ := c
    simp only [mapT] at h ⊢
    cases h' : ρ.fn f v with
    | ok w => rw [h'] at h; simp at h ⊢; exact ih h
    | error er => rw [h'] at h; simp at h

/-- the calls of the other stages pass through unchanged, up to where the stage stopped -/
theorem log_map_others (ρ : Env) (sid : Nat) (f : FnSym) (cs : List (Log × Val)) (tl : Log) (e : Option Err) :
    (mapT ρ sid f cs tl e).fullLog.filter (·.stage != sid) <+:
      ((cs.map (·.1)).flatten ++ tl).filter (·.stage != sid) := by
  induction cs with
  | nil => simp [mapT]
  | cons c rest ih =>
    obtain ⟨lg, v⟩ := c
    simp only [mapT]
    cases h : ρ.fn f v with
    | ok w =>
      simp only [TStream.fullLog] at ih
      simp only [TStream.fullLog, List.map_cons, List.flatten_cons, List.append_assoc, List.filter_append]
      have : List.filter (fun x => x.stage != sid) [(⟨sid, v⟩ : Call)] = [] := by simp
      rw [this, List.nil_append, List.prefix_append_right_inj]
      simpa [List.filter_append] using ih
    | error er =>
      simp only [fullLog_nil, List.map_cons, List.flatten_cons, List.append_assoc, List.filter_append]
      have : List.filter (fun x => x.stage != sid) [(⟨sid, v⟩ : Call)] = [] := by simp
      rw [this, List.append_nil]
      exact List.prefix_append _ _

theorem log_map_others_eq (ρ : Env) (sid : Nat) (f : FnSym) (cs : List (Log × Val)) (tl : Log) (e : Option Err)
    (he : (mapT ρ sid f cs tl e).err = none) :
    (mapT ρ sid f cs tl e).fullLog.filter (·.stage != sid) =
      ((cs.map (·.1)).flatten ++ tl).filter (·.stage != sid) := by
  induction cs with
  | nil => simp [mapT]
  | cons c rest ih =>
    obtain ⟨lg, v⟩ := c
    simp only [mapT] at he ⊢
    cases h : ρ.fn f v with
    | ok w =>
      rw [h] at he
      have := ih he
      simp only [TStream.fullLog] at this
      simp only [TStream.fullLog, List.map_cons, List.flatten_cons, List.append_assoc, List.filter_append]
      have h0 : List.filter (fun x => x.stage != sid) [(⟨sid, v⟩ : Call)] = [] := by simp
      rw [h0, List.nil_append]
      simpa [List.filter_append] using this
    | error er => rw [h] at he; simp at he

theorem no_lookahead_map (ρ : Env) (sid : Nat) (f : FnSym) (cs : List (Log × Val)) (tl : Log) (e : Option Err)
    (hf : ∀ c ∈ ((cs.map (·.1)).flatten ++ tl), c.stage ≠ sid) (k : Nat) :
    sidArgs sid ((mapT ρ sid f cs tl e).logAfter k) =
      (cs.map (·.2)).take (min k (mapT ρ sid f cs tl e).chunks.length) := by
  induction cs generalizing k with
  | nil => simp [mapT]
  | cons c rest ih =>
    obtain ⟨lg, v⟩ := c
    obtain ⟨h1, h2⟩ := fresh_cons hf
    simp only [mapT]
    cases h : ρ.fn f v with
    | ok w =>
      cases k with
      | zero => simp
      | succ k =>
        simp [sidArgs_fresh sid lg h1, logAfter_congr, ih h2 k, Nat.succ_min_succ]
    | error er => simp

/-! ### conservation of the log and no look-ahead: `filter` -/

theorem sidArgs_prefix (sid : Nat) {a b : Log} (h : a <+: b) : sidArgs sid a <+: sidArgs sid b :=
  (h.filter _).map _

theorem logAfter_prefix_fullLog (t : TStream) (k : Nat) : t.logAfter k <+: t.fullLog := by
  unfold TStream.logAfter TStream.fullLog
  obtain ⟨r, hr⟩ := List.take_prefix k t.chunks
  conv => rhs; rw [← hr]
  simp only [List.map_append, List.flatten_append, List.append_assoc]
  exact List.prefix_append _ _

/-- the predicate accepted `v` (returned `True`) -/
def accepted (ρ : Env) (f : PredSym) (v : Val) : Bool :=
  match ρ.pred f v with
  | .ok true => true
  | _ => false

theorem log_filter_gen (ρ : Env) (sid : Nat) (f : PredSym) (cs : List (Log × Val)) (pending tl : Log)
    (e : Option Err) (hf : ∀ c ∈ ((cs.map (·.1)).flatten ++ tl), c.stage ≠ sid) :
    sidArgs sid (filterT ρ sid f cs pending tl e).fullLog <+: sidArgs sid pending ++ cs.map (·.2) := by
  induction cs generalizing pending with
  | nil => simp [filterT, sidArgs_fresh sid tl (fresh_tail hf)]
  | cons c rest ih =>
    obtain ⟨lg, v⟩ := c
    obtain ⟨h1, h2⟩ := fresh_cons hf
    simp only [filterT]
    cases h : ρ.pred f v with
    | ok b =>
      cases b with
      | true =>
        have := ih [] h2
        simp only [sidArgs_nil, List.nil_append] at this
        simp [sidArgs_fresh sid lg h1, fullLog_congr, List.prefix_append_right_inj, List.cons_prefix_cons, this]
      | false =>
        have := ih (pending ++ lg ++ [⟨sid, v⟩]) h2
        simpa [sidArgs_fresh sid lg h1] using this
    | error er =>
      simp [sidArgs_fresh sid lg h1, List.prefix_append_right_inj, List.cons_prefix_cons]

theorem log_filter_eq_gen (ρ : Env) (sid : Nat) (f : PredSym) (cs : List (Log × Val)) (pending tl : Log)
    (e : Option Err) (hf : ∀ c ∈ ((cs.map (·.1)).flatten ++ tl), c.stage ≠ sid)
    (he : (filterT ρ sid f cs pending tl e).err = none) :
    sidArgs sid (filterT ρ sid f cs pending tl e).fullLog = sidArgs sid pending ++ cs.map (·.2) := by
  induction cs generalizing pending with
  | nil => simp [filterT, sidArgs_fresh sid tl (fresh_tail hf)]
  | cons c rest ih =>
    obtain ⟨lg, v⟩ := c
    obtain ⟨h1, h2⟩ := fresh_cons hf
    simp only [filterT] at he ⊢
    cases h : ρ.pred f v with
    | ok b =>
      rw [h] at he
      cases b with
      | true =>
        have := ih [] h2 he
        simp only [sidArgs_nil, List.nil_append] at this
        simp [sidArgs_fresh sid lg h1, fullLog_congr, this]
      | false =>
        have := ih (pending ++ lg ++ [⟨sid, v⟩]) h2 he
        simpa [sidArgs_fresh sid lg h1] using this
    | error er => rw [h] at he; simp at he

theorem filter_accepted_gen (ρ : Env) (sid : Nat) (f : PredSym) (cs : List (Log × Val)) (pending tl : Log)
    (e : Option Err) (hf : ∀ c ∈ ((cs.map (·.1)).flatten ++ tl), c.stage ≠ sid)
    (hp : ∀ v ∈ sidArgs sid pending, accepted ρ f v = false) (k : Nat) :
    (sidArgs sid ((filterT ρ sid f cs pending tl e).logAfter k)).filter (accepted ρ f) =
      ((filterT ρ sid f cs pending tl e).chunks.take k).map (·.2) := by
  induction cs generalizing pending k with
  | nil => simp [filterT]
  | cons c rest ih =>
    obtain ⟨lg, v⟩ := c
    obtain ⟨h1, h2⟩ := fresh_cons hf
    simp only [filterT]
    cases h : ρ.pred f v with
    | ok b =>
      cases b with
      | true =>
        cases k with
        | zero => simp
        | succ k =>
          have hv : accepted ρ f v = true := by simp [accepted, h]
          have h0 : (sidArgs sid pending).filter (accepted ρ f) = [] := by
            rw [List.filter_eq_nil_iff]; intro a ha; simp [hp a ha]
          have := ih [] h2 (by simp) k
          simp [sidArgs_fresh sid lg h1, logAfter_congr, List.filter_append, h0, hv, this]
      | false =>
        have hv : accepted ρ f v = false := by simp [accepted, h]
        apply ih _ h2
        intro a ha
        simp only [sidArgs_append, sidArgs_fresh sid lg h1, sidArgs_self, List.append_nil, List.mem_append,
          List.mem_singleton] at ha
        rcases ha with ha | ha
        · exact hp a ha
        · rw [ha]; exact hv
    | error er => simp

theorem filter_last_gen (ρ : Env) (sid : Nat) (f : PredSym) (cs : List (Log × Val)) (pending tl : Log)
    (e : Option Err) (hf : ∀ c ∈ ((cs.map (·.1)).flatten ++ tl), c.stage ≠ sid) (k : Nat)
    (hk : k < (filterT ρ sid f cs pending tl e).chunks.length) :
    (sidArgs sid ((filterT ρ sid f cs pending tl e).logAfter (k + 1))).getLast? =
      ((filterT ρ sid f cs pending tl e).chunks[k]?).map (·.2) := by
  induction cs generalizing pending k with
  | nil => simp [filterT] at hk
  | cons c rest ih =>
    obtain ⟨lg, v⟩ := c
    obtain ⟨h1, h2⟩ := fresh_cons hf
    simp only [filterT] at hk ⊢
    cases h : ρ.pred f v with
    | ok b =>
      rw [h] at hk
      cases b with
      | true =>
        cases k with
        | zero => simp [sidArgs_fresh sid lg h1, List.getLast?_append]
        | succ k =>
          simp only [List.length_cons, Nat.add_lt_add_iff_right] at hk
          have := ih [] h2 k hk
          have hs : ((filterT ρ sid f rest [] tl e).chunks[k]?).map (·.2) =
              some ((filterT ρ sid f rest [] tl e).chunks[k]).2 := by
            simp [List.getElem?_eq_getElem hk]
          rw [hs] at this
          simp [sidArgs_fresh sid lg h1, logAfter_congr, List.getLast?_append, List.getLast?_cons, this,
            List.getElem?_eq_getElem hk]
      | false => exact ih _ h2 k hk
    | error er => rw [h] at hk; simp at hk

/-! ### batch: at most one batch ahead -/

theorem batch_chunk_gen (n : Nat) (dl : Bool) (cs : List (Log × Val)) (cur : List Val) (lg tl : Log)
    (e : Option Err) (hc : cur.length < n) (k : Nat) (hm : k * n + n - cur.length ≤ cs.length) :
    (batchT n dl cs cur lg tl e).logAfter (k + 1) =
      lg ++ ((cs.take (k * n + n - cur.length)).map (·.1)).flatten := by
  induction cs generalizing cur lg k with
  | nil => simp at hm; omega
  | cons c rest ih =>
    obtain ⟨l, v⟩ := c
    simp only [batchT, List.length_cons, ge_iff_le]
    by_cases h : n ≤ cur.length + 1
    · rw [if_pos h]
      simp only [logAfter_cons_succ, logAfter_congr]
      cases k with
      | zero =>
        have : n - cur.length = 1 := by omega
        simp [this]
      | succ k =>
        have hidx : (k + 1) * n + n - cur.length = (k * n + n - ([] : List Val).length) + 1 := by
          rw [Nat.succ_mul]; simp; omega
        have hm' : k * n + n - ([] : List Val).length ≤ rest.length := by
          rw [hidx] at hm; simpa using hm
        rw [ih [] [] (by simp; omega) k hm', hidx]
        simp
    · rw [if_neg h]
      have hidx : k * n + n - cur.length = (k * n + n - (v :: cur).length) + 1 := by
        simp; omega
      have hm' : k * n + n - (v :: cur).length ≤ rest.length := by
        rw [hidx] at hm; simpa using hm
      rw [ih (v :: cur) (lg ++ l) (by simp; omega) k hm', hidx]
      simp

theorem batch_chunk (n : Nat) (dl : Bool) (cs : List (Log × Val)) (tl : Log) (e : Option Err) (hn : 1 ≤ n)
    (k : Nat) (hk : k * n ≤ cs.length) :
    (batchT n dl cs [] [] tl e).logAfter k = ((cs.take (k * n)).map (·.1)).flatten := by
  cases k with
  | zero => simp
  | succ k =>
    have := batch_chunk_gen n dl cs [] [] tl e (by simp; omega) k (by rw [Nat.succ_mul] at hk; simpa using hk)
    rw [this, Nat.succ_mul]; simp

/-! ### local shuffle: exactly `bs - 1` inputs ahead -/

theorem local_gen (bs : Nat) (cs : List (Log × Val)) (buf : List Val) (lg : Log) (choices final : List Nat)
    (tl : Log) (e : Option Err) (hb : buf.length < bs) (k : Nat)
    (hk : k + bs - buf.length ≤ cs.length) (hc : k + 1 ≤ choices.length)
    (hv : ∀ c ∈ choices.take (k + 1), c < bs) :
    (localT bs cs buf lg choices final tl e).logAfter (k + 1) =
      lg ++ ((cs.take (k + bs - buf.length)).map (·.1)).flatten := by
  induction cs generalizing buf lg choices k with
  | nil => simp at hk; omega
  | cons c rest ih =>
    obtain ⟨l, v⟩ := c
    by_cases h : bs ≤ buf.length + 1
    · cases choices with
      | nil => simp at hc
      | cons c cs' =>
        have hcb : c < bs := hv c (by simp)
        have hlen : c < (buf ++ [v]).length := by simp; omega
        simp only [localT, List.length_append, List.length_cons, List.length_nil, ge_iff_le, Nat.zero_add, if_pos h,
          List.getElem?_eq_getElem hlen, logAfter_cons_succ, logAfter_congr]
        cases k with
        | zero =>
          have : bs - buf.length = 1 := by omega
          simp [this]
        | succ k =>
          have hl' : ((buf ++ [v]).eraseIdx c).length = bs - 1 := by
            rw [List.length_eraseIdx, if_pos hlen]; simp; omega
          have hl : ((buf ++ [v]).eraseIdx c).length < bs := by omega
          have hidx : k + 1 + bs - buf.length = (k + bs - ((buf ++ [v]).eraseIdx c).length) + 1 := by
            rw [hl']; omega
          rw [ih ((buf ++ [v]).eraseIdx c) [] cs' hl k (by rw [hidx] at hk; simpa using hk)
            (by simpa using hc) (fun x hx => hv x (by simp [List.take_succ_cons, hx])), hidx]
          simp
    · have hidx : k + bs - buf.length = (k + bs - (buf ++ [v]).length) + 1 := by simp; omega
      simp only [localT, List.length_append, List.length_cons, List.length_nil, ge_iff_le, Nat.zero_add, if_neg h]
      rw [ih (buf ++ [v]) (lg ++ l) choices (by simp; omega) k (by rw [hidx] at hk; simpa using hk) hc hv, hidx]
      simp

/-! ### index-driven iteration -/

theorem slice_iter_full (ρ : Env) (p : TPipe) (sel : List Nat) :
    (sliceT ρ p sel).chunks.map (fun c => (c.1, (Except.ok c.2 : Res Val))) =
      (sel.take (sliceT ρ p sel).chunks.length).map (getT ρ p) := by
  induction sel with
  | nil => simp [sliceT]
  | cons j rest ih =>
    rw [sliceT]
    cases h : getT ρ p j with
    | mk lg r =>
      cases r with
      | ok v => simp [ih, h]
      | error er => simp

theorem slice_iter_chunks (ρ : Env) (p : TPipe) (sel : List Nat) :
    (sliceT ρ p sel).chunks.map (·.1) =
      (sel.take (sliceT ρ p sel).chunks.length).map (fun j => (getT ρ p j).1) := by
  have := congrArg (List.map (·.1)) (slice_iter_full ρ p sel)
  simpa [List.map_map, Function.comp_def] using this

/-! ### provenance: calls only ever arise in `map` / `filter` stages -/

/-- the stage identifiers that own a user function in a pipeline -/
def stages : TPipe → List Nat
  | .src _ => []
  | .map sid _ p => sid :: stages p
  | .filter sid _ p => sid :: stages p
  | .batch _ _ p => stages p
  | .unbatch p => stages p
  | .concat p q => stages p ++ stages q
  | .slice _ p => stages p
  | .zip p q => stages p ++ stages q
  | .localShuffle _ _ _ p => stages p
  | .catch _ p => stages p
  | .reshuffle _ p => stages p
  | .cache p => stages p
  | .tile _ p => stages p
  | .intersperse p q => stages p ++ stages q

section Provenance
variable (P : Call → Prop)

theorem all_cons_split {lg : Log} {v : Val} {rest : List (Log × Val)} {tl : Log}
    (h : ∀ c ∈ ((((lg, v) :: rest).map (·.1)).flatten ++ tl), P c) :
    (∀ c ∈ lg, P c) ∧ (∀ c ∈ ((rest.map (·.1)).flatten ++ tl), P c) := by
  simp only [List.map_cons, List.flatten_cons, List.append_assoc, List.forall_mem_append] at h
  exact ⟨h.1, List.forall_mem_append.2 h.2⟩

theorem all_tail {cs : List (Log × Val)} {tl : Log}
    (h : ∀ c ∈ ((cs.map (·.1)).flatten ++ tl), P c) : ∀ c ∈ tl, P c :=
  (List.forall_mem_append.1 h).2

theorem all_log_map (ρ : Env) (sid : Nat) (f : FnSym) (cs : List (Log × Val)) (tl : Log) (e : Option Err)
    (hin : ∀ c ∈ ((cs.map (·.1)).flatten ++ tl), P c) (hs : ∀ v, P ⟨sid, v⟩) :
    ∀ c ∈ (mapT ρ sid f cs tl e).fullLog, P c := by
  induction cs with
  | nil => simpa [mapT] using all_tail P hin
  | cons c rest ih =>
    obtain ⟨lg, v⟩ := c
    obtain ⟨h1, h2⟩ := all_cons_split P hin
    simp only [mapT]
    cases h : ρ.fn f v with
    | ok w =>
      simp only [fullLog_cons, fullLog_congr, List.forall_mem_append, List.forall_mem_singleton]
      exact ⟨⟨h1, hs v⟩, ih h2⟩
    | error er =>
      simp only [fullLog_nil, List.forall_mem_append, List.forall_mem_singleton]
      exact ⟨h1, hs v⟩

theorem all_log_filter (ρ : Env) (sid : Nat) (f : PredSym) (cs : List (Log × Val)) (pending tl : Log)
    (e : Option Err) (hin : ∀ c ∈ ((cs.map (·.1)).flatten ++ tl), P c) (hp : ∀ c ∈ pending, P c)
    (hs : ∀ v, P ⟨sid, v⟩) :
    ∀ c ∈ (filterT ρ sid f cs pending tl e).fullLog, P c := by
  induction cs generalizing pending with
  | nil =>
    simp only [filterT, fullLog_nil, List.forall_mem_append]
    exact ⟨hp, all_tail P hin⟩
  | cons c rest ih =>
    obtain ⟨lg, v⟩ := c
    obtain ⟨h1, h2⟩ := all_cons_split P hin
    have hpl : ∀ c ∈ pending ++ lg ++ [⟨sid, v⟩], P c := by
      simp only [List.forall_mem_append, List.forall_mem_singleton]
      exact ⟨⟨hp, h1⟩, hs v⟩
    simp only [filterT]
    cases h : ρ.pred f v with
    | ok b =>
      cases b with
      | true =>
        simp only [fullLog_cons, fullLog_congr]
        exact List.forall_mem_append.2 ⟨hpl, ih [] h2 (by simp)⟩
      | false => exact ih _ h2 hpl
    | error er => simpa only [fullLog_nil] using hpl

theorem all_log_batch (n : Nat) (dl : Bool) (cs : List (Log × Val)) (cur : List Val) (lg tl : Log)
    (e : Option Err) (hin : ∀ c ∈ ((cs.map (·.1)).flatten ++ tl), P c) (hl : ∀ c ∈ lg, P c) :
    ∀ c ∈ (batchT n dl cs cur lg tl e).fullLog, P c := by
  induction cs generalizing cur lg with
  | nil =>
    have h0 : ∀ c ∈ lg ++ tl, P c := List.forall_mem_append.2 ⟨hl, all_tail P hin⟩
    simp only [batchT]
    cases e with
    | some er => simpa only [fullLog_nil] using h0
    | none =>
      simp only
      split
      · simpa [TStream.fullLog] using h0
      · simpa only [fullLog_nil] using h0
  | cons c rest ih =>
    obtain ⟨l, v⟩ := c
    obtain ⟨h1, h2⟩ := all_cons_split P hin
    have hll : ∀ c ∈ lg ++ l, P c := List.forall_mem_append.2 ⟨hl, h1⟩
    simp only [batchT]
    split
    · simp only [fullLog_cons, fullLog_congr]
      exact List.forall_mem_append.2 ⟨hll, ih [] [] h2 (by simp)⟩
    · exact ih _ _ h2 hll

theorem all_log_unbatch (cs : List (Log × Val)) (pending tl : Log) (e : Option Err)
    (hin : ∀ c ∈ ((cs.map (·.1)).flatten ++ tl), P c) (hp : ∀ c ∈ pending, P c) :
    ∀ c ∈ (unbatchT cs pending tl e).fullLog, P c := by
  induction cs generalizing pending with
  | nil =>
    simp only [unbatchT, fullLog_nil]
    exact List.forall_mem_append.2 ⟨hp, all_tail P hin⟩
  | cons c rest ih =>
    obtain ⟨lg, v⟩ := c
    obtain ⟨h1, h2⟩ := all_cons_split P hin
    have hpl : ∀ c ∈ pending ++ lg, P c := List.forall_mem_append.2 ⟨hp, h1⟩
    have hcons : ∀ (x : Val) (xs : List Val), ∀ c ∈ (TStream.mk ((pending ++ lg, x) :: xs.map (fun y => (([] : Log), y)) ++
        (unbatchT rest [] tl e).chunks) (unbatchT rest [] tl e).tail (unbatchT rest [] tl e).err).fullLog, P c := by
      intro x xs
      have h0 := ih [] h2 (by simp)
      simp only [TStream.fullLog] at h0 ⊢
      simp only [List.cons_append, List.map_cons, List.map_append, List.flatten_cons,
        List.flatten_append, flatten_map_fst_nil, List.nil_append, List.append_assoc, List.forall_mem_append]
      exact ⟨hp, h1, List.forall_mem_append.1 h0⟩
    cases v with
    | list xs =>
      cases xs with
      | nil => simpa only [unbatchT] using ih _ h2 hpl
      | cons x xs => simpa only [unbatchT] using hcons x xs
    | tup xs =>
      cases xs with
      | nil => simpa only [unbatchT] using ih _ h2 hpl
      | cons x xs => simpa only [unbatchT] using hcons x xs
    | none => simpa only [unbatchT, fullLog_nil] using hpl
    | int i => simpa only [unbatchT, fullLog_nil] using hpl
    | str s => simpa only [unbatchT, fullLog_nil] using hpl
    | dict kvs => simpa only [unbatchT, fullLog_nil] using hpl

theorem all_log_append (a b : TStream) (ha : ∀ c ∈ a.fullLog, P c) (hb : ∀ c ∈ b.fullLog, P c) :
    ∀ c ∈ (appendT a b).fullLog, P c := by
  unfold appendT
  cases hae : a.err with
  | some e => simpa using ha
  | none =>
    simp only
    cases hbc : b.chunks with
    | nil =>
      simp only [TStream.fullLog, hbc, List.map_nil, List.flatten_nil, List.nil_append] at ha hb ⊢
      rw [← List.append_assoc]
      exact List.forall_mem_append.2 ⟨ha, hb⟩
    | cons c rest =>
      obtain ⟨lg, v⟩ := c
      simp only [TStream.fullLog, hbc, List.map_cons, List.flatten_cons, List.map_append, List.flatten_append,
        List.append_assoc, List.forall_mem_append] at ha hb ⊢
      exact ⟨ha.1, ha.2, hb.1, hb.2.1, hb.2.2⟩

theorem all_log_zip (ca : List (Log × Val)) (tla : Log) (ea : Option Err) (cb : List (Log × Val)) (tlb : Log)
    (eb : Option Err) (ha : ∀ c ∈ ((ca.map (·.1)).flatten ++ tla), P c)
    (hb : ∀ c ∈ ((cb.map (·.1)).flatten ++ tlb), P c) :
    ∀ c ∈ (zipT ca tla ea cb tlb eb).fullLog, P c := by
  induction ca generalizing cb with
  | nil => simpa [zipT] using all_tail P ha
  | cons a ra ih =>
    obtain ⟨la, va⟩ := a
    obtain ⟨h1, h2⟩ := all_cons_split P ha
    cases cb with
    | nil =>
      simp only [zipT, fullLog_nil]
      exact List.forall_mem_append.2 ⟨h1, all_tail P hb⟩
    | cons b rb =>
      obtain ⟨lb, vb⟩ := b
      obtain ⟨h3, h4⟩ := all_cons_split P hb
      simp only [zipT, fullLog_cons, fullLog_congr]
      exact List.forall_mem_append.2 ⟨List.forall_mem_append.2 ⟨h1, h3⟩, ih rb h2 h4⟩

theorem all_log_local (bs : Nat) (cs : List (Log × Val)) (buf : List Val) (lg : Log) (choices final : List Nat)
    (tl : Log) (e : Option Err) (hin : ∀ c ∈ ((cs.map (·.1)).flatten ++ tl), P c) (hl : ∀ c ∈ lg, P c) :
    ∀ c ∈ (localT bs cs buf lg choices final tl e).fullLog, P c := by
  induction cs generalizing buf lg choices with
  | nil =>
    have h0 : ∀ c ∈ lg ++ tl, P c := List.forall_mem_append.2 ⟨hl, all_tail P hin⟩
    simp only [localT]
    cases e with
    | some er => simpa only [fullLog_nil] using h0
    | none =>
      simp only
      split
      · simpa only [fullLog_nil] using h0
      · intro c hc
        apply h0 c
        simpa only [TStream.fullLog, List.map_cons, List.flatten_cons, flatten_map_fst_nil, List.append_nil] using hc
  | cons c rest ih =>
    obtain ⟨l, v⟩ := c
    obtain ⟨h1, h2⟩ := all_cons_split P hin
    have hll : ∀ c ∈ lg ++ l, P c := List.forall_mem_append.2 ⟨hl, h1⟩
    simp only [localT]
    split
    · split
      · split
        · simp only [fullLog_cons, fullLog_congr]
          exact List.forall_mem_append.2 ⟨hll, ih _ [] _ h2 (by simp)⟩
        · simpa only [fullLog_nil] using hll
      · simpa only [fullLog_nil] using hll
    · exact ih _ _ _ h2 hll

theorem all_log_tile (t : TStream) (h : ∀ c ∈ t.fullLog, P c) (r : Nat) : ∀ c ∈ (tileT t r).fullLog, P c := by
  induction r with
  | zero => simp [tileT]
  | succ r ih => rw [tileT]; exact all_log_append P _ _ h ih

/-- one step of the interleaving loop (the generated equations of `interT` are split by the shape of both parts) -/
theorem interT_cons (o : OrdEntry) (rest : List OrdEntry) (ca : List (Log × Val)) (tla : Log) (ea : Option Err)
    (cb : List (Log × Val)) (tlb : Log) (eb : Option Err) :
    interT (o :: rest) ca tla ea cb tlb eb =
      if o.d == 0 then
        match ca with
        | (lg, v) :: ca' => let t := interT rest ca' tla ea cb tlb eb; ⟨(lg, v) :: t.chunks, t.tail, t.err⟩
        | [] => ⟨[], tla, some (match ea with | some er => er | none => .runtimeError)⟩
      else
        match cb with
        | (lg, v) :: cb' => let t := interT rest ca tla ea cb' tlb eb; ⟨(lg, v) :: t.chunks, t.tail, t.err⟩
        | [] => ⟨[], tlb, some (match eb with | some er => er | none => .runtimeError)⟩ := by
  rw [interT.eq_def]
  rfl

theorem all_log_inter (order : List OrdEntry) (ca : List (Log × Val)) (tla : Log) (ea : Option Err)
    (cb : List (Log × Val)) (tlb : Log) (eb : Option Err)
    (ha : ∀ c ∈ ((ca.map (·.1)).flatten ++ tla), P c) (hb : ∀ c ∈ ((cb.map (·.1)).flatten ++ tlb), P c) :
    ∀ c ∈ (interT order ca tla ea cb tlb eb).fullLog, P c := by
  induction order generalizing ca cb with
  | nil => simp [interT]
  | cons o rest ih =>
    rw [interT_cons]
    split
    · cases ca with
      | nil => simpa only [fullLog_nil] using all_tail P ha
      | cons a ra =>
        obtain ⟨la, va⟩ := a
        obtain ⟨h1, h2⟩ := all_cons_split P ha
        simp only [fullLog_cons, fullLog_congr]
        exact List.forall_mem_append.2 ⟨h1, ih ra cb h2 hb⟩
    · cases cb with
      | nil => simpa only [fullLog_nil] using all_tail P hb
      | cons b rb =>
        obtain ⟨lb, vb⟩ := b
        obtain ⟨h1, h2⟩ := all_cons_split P hb
        simp only [fullLog_cons, fullLog_congr]
        exact List.forall_mem_append.2 ⟨h1, ih ca rb ha h2⟩

end Provenance

theorem all_getT_go (ρ : Env) (P : Call → Prop) (n : Nat) (dl : Bool) (p : TPipe) (i : Nat)
    (hg : ∀ j, ∀ c ∈ (getT ρ p j).1, P c) (fuel t : Nat) (lg : Log) (acc : List Val) (hl : ∀ c ∈ lg, P c) :
    ∀ c ∈ (getT.go ρ n dl p i t fuel lg acc).1, P c := by
  induction fuel generalizing t lg acc with
  | zero => rw [getT.go]; exact hl
  | succ fuel ih =>
    rw [getT.go]
    have hj := hg (i * n + t)
    rcases h : getT ρ p (i * n + t) with ⟨l, r⟩
    rw [h] at hj
    have hll : ∀ c ∈ lg ++ l, P c := List.forall_mem_append.2 ⟨hl, hj⟩
    cases r with
    | ok v => exact ih _ _ _ hll
    | error er =>
      simp only
      split
      · exact ih _ _ _ hll
      · exact hll

theorem all_sliceT (ρ : Env) (P : Call → Prop) (p : TPipe) (hg : ∀ j, ∀ c ∈ (getT ρ p j).1, P c)
    (sel : List Nat) : ∀ c ∈ (sliceT ρ p sel).fullLog, P c := by
  induction sel with
  | nil => simp [sliceT]
  | cons j rest ih =>
    rw [sliceT]
    have hj := hg j
    rcases h : getT ρ p j with ⟨l, r⟩
    rw [h] at hj
    cases r with
    | ok v =>
      simp only [fullLog_cons, fullLog_congr]
      exact List.forall_mem_append.2 ⟨hj, ih⟩
    | error er => simpa only [fullLog_nil] using hj

theorem all_catchT (ρ : Env) (P : Call → Prop) (E : List Err) (p : TPipe) (hg : ∀ j, ∀ c ∈ (getT ρ p j).1, P c)
    (sel : List Nat) (pending : Log) (hp : ∀ c ∈ pending, P c) :
    ∀ c ∈ (catchT ρ E p sel pending).fullLog, P c := by
  induction sel generalizing pending with
  | nil => simpa [catchT] using hp
  | cons j rest ih =>
    rw [catchT]
    have hj := hg j
    rcases h : getT ρ p j with ⟨l, r⟩
    rw [h] at hj
    have hpl : ∀ c ∈ pending ++ l, P c := List.forall_mem_append.2 ⟨hp, hj⟩
    cases r with
    | ok v =>
      simp only [fullLog_cons, fullLog_congr]
      exact List.forall_mem_append.2 ⟨hpl, ih [] (by simp)⟩
    | error er =>
      simp only
      split
      · exact ih _ hpl
      · simpa only [fullLog_nil] using hpl

/-- every call of an iteration and of an index access belongs to a `map`/`filter` stage of the pipeline -/
theorem provenance (ρ : Env) (p : TPipe) :
    (∀ c ∈ (iterT ρ p).fullLog, c.stage ∈ stages p) ∧ (∀ i, ∀ c ∈ (getT ρ p i).1, c.stage ∈ stages p) := by
  induction p with
  | src xs =>
    constructor
    · rw [iterT]
      simp only [TStream.fullLog, flatten_map_fst_nil]
      simp
    · intro i; rw [getT]; simp
  | map sid f p ih =>
    constructor
    · rw [iterT]
      exact all_log_map _ ρ sid f _ _ _ (fun c hc => by simp [stages, ih.1 c hc]) (fun v => by simp [stages])
    · intro i
      rw [getT]
      have := ih.2 i
      rcases h : getT ρ p i with ⟨lg, r⟩
      rw [h] at this
      cases r with
      | ok v =>
        simp only [List.forall_mem_append, List.forall_mem_singleton]
        exact ⟨fun c hc => by simp [stages, this c hc], by simp [stages]⟩
      | error er => exact fun c hc => by simp [stages, this c hc]
  | filter sid f p ih =>
    constructor
    · rw [iterT]
      exact all_log_filter _ ρ sid f _ _ _ _ (fun c hc => by simp [stages, ih.1 c hc]) (by simp)
        (fun v => by simp [stages])
    · intro i; rw [getT]; simp
  | batch n dl p ih =>
    constructor
    · rw [iterT]
      exact all_log_batch _ n dl _ _ _ _ _ ih.1 (by simp)
    · intro i
      rw [getT]
      exact all_getT_go ρ _ n _ p i ih.2 _ _ _ _ (by simp)
  | unbatch p ih =>
    constructor
    · rw [iterT]
      exact all_log_unbatch _ _ _ _ _ ih.1 (by simp)
    · intro i; rw [getT]; simp
  | concat p q ihp ihq =>
    constructor
    · rw [iterT]
      exact all_log_append _ _ _ (fun c hc => by simp [stages, ihp.1 c hc]) (fun c hc => by simp [stages, ihq.1 c hc])
    · intro i
      rw [getT]
      cases lenT p with
      | none => simp
      | some n =>
        simp only
        split
        · exact fun c hc => by simp [stages, ihp.2 _ c hc]
        · exact fun c hc => by simp [stages, ihq.2 _ c hc]
  | slice sel p ih =>
    constructor
    · rw [iterT]
      exact all_sliceT ρ _ p ih.2 sel
    · intro i
      rw [getT]
      cases sel[i]? with
      | none => simp
      | some j => exact ih.2 j
  | zip p q ihp ihq =>
    constructor
    · rw [iterT]
      exact all_log_zip _ _ _ _ _ _ _ (fun c hc => by simp [stages, ihp.1 c hc])
        (fun c hc => by simp [stages, ihq.1 c hc])
    · intro i
      rw [getT]
      have hp := ihp.2 i
      have hq := ihq.2 i
      rcases h : getT ρ p i with ⟨la, ra⟩
      rw [h] at hp
      cases ra with
      | error er => exact fun c hc => by simp [stages, hp c hc]
      | ok a =>
        simp only
        rcases h' : getT ρ q i with ⟨lb, rb⟩
        rw [h'] at hq
        have : ∀ c ∈ la ++ lb, c.stage ∈ stages (.zip p q) :=
          List.forall_mem_append.2 ⟨fun c hc => by simp [stages, hp c hc], fun c hc => by simp [stages, hq c hc]⟩
        cases rb <;> exact this
  | localShuffle bs choices final p ih =>
    constructor
    · rw [iterT]
      exact all_log_local _ bs _ _ _ _ _ _ _ ih.1 (by simp)
    · intro i; rw [getT]; simp
  | «catch» E p ih =>
    constructor
    · rw [iterT]
      cases lenT p with
      | none => simp
      | some n => exact all_catchT ρ _ E p ih.2 _ [] (by simp)
    · intro i; rw [getT]; simp
  | reshuffle perm p ih =>
    constructor
    · rw [iterT]
      exact all_sliceT ρ _ p ih.2 perm
    · intro i; rw [getT]; simp
  | cache p ih =>
    constructor
    · rw [iterT]
      cases lenT p with
      | none => simp
      | some n => exact all_sliceT ρ _ p ih.2 _
    · intro i; rw [getT]; exact ih.2 i
  | tile r p ih =>
    constructor
    · rw [iterT]
      exact all_log_tile _ _ ih.1 r
    · intro i
      rw [getT]
      cases lenT p with
      | none => simp
      | some n =>
        simp only
        split
        · exact ih.2 _
        · simp
  | intersperse p q ihp ihq =>
    constructor
    · rw [iterT]
      cases lenT p with
      | none => simp
      | some n₁ =>
        cases lenT q with
        | none => simp
        | some n₂ =>
          exact all_log_inter _ _ _ _ _ _ _ _ (fun c hc => by simp [stages, ihp.1 c hc])
            (fun c hc => by simp [stages, ihq.1 c hc])
    · intro i
      rw [getT]
      cases lenT p with
      | none => simp
      | some n₁ =>
        cases lenT q with
        | none => simp
        | some n₂ =>
          simp only
          cases (intersperseOrder [n₁, n₂])[i]? with
          | none => simp
          | some o =>
            simp only
            split
            · exact fun c hc => by simp [stages, ihp.2 _ c hc]
            · exact fun c hc => by simp [stages, ihq.2 _ c hc]


/-! ### `catch`: the index-driven walk that skips caught failures -/

/-- `ds[j]` fails with an exception that `except E` does not catch -/
def uncaught (ρ : Env) (E : List Err) (p : TPipe) (j : Nat) : Bool :=
  match (getT ρ p j).2 with
  | .error e => !e.isAny E
  | .ok _ => false

/-- the value of `ds[j]` if it succeeds -/
def okVal (ρ : Env) (p : TPipe) (j : Nat) : Option Val :=
  match (getT ρ p j).2 with
  | .ok v => some v
  | .error _ => none

/-- the exception of `ds[j]` if it fails -/
def errOf (ρ : Env) (p : TPipe) (j : Nat) : Option Err :=
  match (getT ρ p j).2 with
  | .ok _ => none
  | .error e => some e

/-- the number of positions of `sel` before the first uncaught failure -/
def catchStop (ρ : Env) (E : List Err) (p : TPipe) (sel : List Nat) : Nat :=
  (sel.takeWhile (fun j => !uncaught ρ E p j)).length

theorem catchStop_le (ρ : Env) (E : List Err) (p : TPipe) (sel : List Nat) : catchStop ρ E p sel ≤ sel.length :=
  (List.takeWhile_sublist _).length_le

theorem catchStop_before (ρ : Env) (E : List Err) (p : TPipe) (sel : List Nat) :
    ∀ j ∈ sel.take (catchStop ρ E p sel), uncaught ρ E p j = false := by
  induction sel with
  | nil => simp
  | cons x rest ih =>
    unfold catchStop at ih ⊢
    rw [List.takeWhile_cons]
    cases hx : uncaught ρ E p x with
    | true => simp
    | false =>
      simp only [Bool.not_false, if_true, List.length_cons, List.take_succ_cons, List.mem_cons]
      rintro j (rfl | hj)
      · exact hx
      · exact ih j hj

theorem catchStop_at (ρ : Env) (E : List Err) (p : TPipe) (sel : List Nat) (j : Nat)
    (h : sel[catchStop ρ E p sel]? = some j) : uncaught ρ E p j = true := by
  induction sel with
  | nil => simp at h
  | cons x rest ih =>
    unfold catchStop at ih h
    rw [List.takeWhile_cons] at h
    cases hx : uncaught ρ E p x with
    | true =>
      rw [hx] at h
      simp at h
      rw [← h]; exact hx
    | false =>
      rw [hx] at h
      simp only [Bool.not_false, if_true, List.length_cons, List.getElem?_cons_succ] at h
      exact ih h

/-- the complete description of the catch walk over the positions `sel`, with `m = catchStop … sel`:
    it yields the successes among the first `m` positions, has evaluated exactly the positions `0 … m`
    (each once, in order) and ends with the exception of position `m`, if there is one -/
theorem catch_walk (ρ : Env) (E : List Err) (p : TPipe) (sel : List Nat) (pending : Log) :
    (catchT ρ E p sel pending).chunks.map (·.2) = (sel.take (catchStop ρ E p sel)).filterMap (okVal ρ p) ∧
    (catchT ρ E p sel pending).fullLog =
      pending ++ ((sel.take (catchStop ρ E p sel + 1)).map (fun j => (getT ρ p j).1)).flatten ∧
    (catchT ρ E p sel pending).err = (sel[catchStop ρ E p sel]?).bind (errOf ρ p) := by
  induction sel generalizing pending with
  | nil => simp [catchT, catchStop]
  | cons j rest ih =>
    rw [catchT]
    unfold catchStop at ih ⊢
    rw [List.takeWhile_cons]
    rcases h : getT ρ p j with ⟨lg, r⟩
    cases r with
    | ok v =>
      have hu : uncaught ρ E p j = false := by simp [uncaught, h]
      have hv : okVal ρ p j = some v := by simp [okVal, h]
      obtain ⟨h1, h2, h3⟩ := ih []
      simp [hu, hv, h1, h2, h3, h, fullLog_congr]
    | error e =>
      by_cases hc : e.isAny E = true
      · have hu : uncaught ρ E p j = false := by simp [uncaught, h, hc]
        have hv : okVal ρ p j = none := by simp [okVal, h]
        obtain ⟨h1, h2, h3⟩ := ih (pending ++ lg)
        simp [hu, hv, h1, h2, h3, h, hc]
      · have hu : uncaught ρ E p j = true := by simp [uncaught, h, hc]
        have he : errOf ρ p j = some e := by simp [errOf, h]
        simp [hu, he, h, hc]

/-- no look-ahead: when the consumer holds `k` results the walk has evaluated a prefix `sel.take m` of the
    positions (i), the successes among them are exactly the results handed out (ii), and the prefix ends with a
    success (iii) — the position of the last result; nothing after it has been touched -/
theorem catch_no_lookahead_gen (ρ : Env) (E : List Err) (p : TPipe) (sel : List Nat) (pending : Log) (k : Nat) :
    ∃ m, m ≤ sel.length ∧
      (catchT ρ E p sel pending).logAfter k =
        (if m = 0 then [] else pending) ++ ((sel.take m).map (fun j => (getT ρ p j).1)).flatten ∧
      (sel.take m).filterMap (okVal ρ p) = ((catchT ρ E p sel pending).chunks.take k).map (·.2) ∧
      (m = 0 ∨ ∃ j, sel[m - 1]? = some j ∧ (okVal ρ p j).isSome = true) := by
  induction sel generalizing pending k with
  | nil => exact ⟨0, by simp [catchT]⟩
  | cons j rest ih =>
    cases k with
    | zero => exact ⟨0, by simp⟩
    | succ k =>
      rw [catchT]
      rcases h : getT ρ p j with ⟨lg, r⟩
      cases r with
      | ok v =>
        have hv : okVal ρ p j = some v := by simp [okVal, h]
        obtain ⟨m, hm, h1, h2, h3⟩ := ih [] k
        refine ⟨m + 1, by simpa using hm, ?_, ?_, ?_⟩
        · simp [h1, h]
        · simp [hv, h2]
        · right
          cases m with
          | zero => exact ⟨j, by simp, by simp [hv]⟩
          | succ m =>
            rcases h3 with h3 | h3
            · omega
            · simpa using h3
      | error e =>
        simp only
        split
        · have hv : okVal ρ p j = none := by simp [okVal, h]
          obtain ⟨m, hm, h1, h2, h3⟩ := ih (pending ++ lg) (k + 1)
          cases m with
          | zero => exact ⟨0, by simp, by simpa using h1, by simpa using h2, Or.inl rfl⟩
          | succ m =>
            refine ⟨m + 2, by simpa using hm, ?_, ?_, ?_⟩
            · simpa [h] using h1
            · simpa [hv] using h2
            · right
              rcases h3 with h3 | h3
              · omega
              · simpa using h3
        · exact ⟨0, by simp⟩

/-! ### `tile`: `r` passes over the input -/

theorem tileT_one (t : TStream) : tileT t 1 = t := by
  obtain ⟨cs, tl, e⟩ := t
  cases e <;> simp [tileT, appendT]

/-- a pass that fails ends the whole iteration -/
theorem tileT_err (t : TStream) (e : Err) (h : t.err = some e) (r : Nat) : tileT t (r + 1) = t := by
  rw [tileT, appendT, h]

theorem erase_tile (t : TStream) (r : Nat) :
    (tileT t r).erase = (List.replicate r t.erase).foldr Stream.append Stream.nil := by
  induction r with
  | zero => rfl
  | succ r ih => rw [tileT, erase_append, ih, List.replicate_succ, List.foldr_cons]

theorem fullLog_append (a b : TStream) (h : a.err = none) : (appendT a b).fullLog = a.fullLog ++ b.fullLog := by
  unfold appendT
  rw [h]
  simp only
  cases hb : b.chunks with
  | nil => simp [TStream.fullLog, hb]
  | cons c rest => obtain ⟨lg, v⟩ := c; simp [TStream.fullLog, hb]

/-- every pass re-executes the calls of the input (the input is iterated afresh each time) -/
theorem fullLog_tile (t : TStream) (h : t.err = none) (r : Nat) :
    (tileT t r).fullLog = (List.replicate r t.fullLog).flatten := by
  induction r with
  | zero => simp [tileT]
  | succ r ih => rw [tileT, fullLog_append _ _ h, ih, List.replicate_succ, List.flatten_cons]

/-! ### `intersperse` -/

/-- the interleaving loop from the iterator state "`pa` chunks of the first part and `pb` chunks of the second part
    are consumed", along a piece `suf` of a table whose entries carry the right positions: every entry finds its
    chunk, the loop ends normally and no tail is executed -/
theorem inter_spec (A B : List (Log × Val)) (tla tlb : Log) (ea eb : Option Err) (suf : List OrdEntry) (pa pb : Nat)
    (hd : ∀ t o, suf[t]? = some o →
      (o.d = 0 ∧ o.j = pa + ordCount (suf.take t) 0 ∧ o.j < A.length) ∨
      (o.d = 1 ∧ o.j = pb + ordCount (suf.take t) 1 ∧ o.j < B.length)) :
    (interT suf (A.drop pa) tla ea (B.drop pb) tlb eb).chunks.map some =
        suf.map (fun o => if o.d == 0 then A[o.j]? else B[o.j]?) ∧
    (interT suf (A.drop pa) tla ea (B.drop pb) tlb eb).tail = [] ∧
    (interT suf (A.drop pa) tla ea (B.drop pb) tlb eb).err = none := by
  induction suf generalizing pa pb with
  | nil => simp [interT]
  | cons o rest ih =>
    rw [interT_cons]
    rcases hd 0 o (by simp) with ⟨h0, hj, hlt⟩ | ⟨h0, hj, hlt⟩
    · simp only [List.take_zero, ordCount, List.countP_nil, Nat.add_zero] at hj
      have hlt' : pa < A.length := by omega
      obtain ⟨h1, h2, h3⟩ := ih (pa + 1) pb (by
        intro t o' ho'
        rcases hd (t + 1) o' (by simpa using ho') with ⟨a1, a2, a3⟩ | ⟨a1, a2, a3⟩
        · left
          refine ⟨a1, ?_, a3⟩
          simp only [List.take_succ_cons, ordCount, List.countP_cons, h0, beq_self_eq_true, if_true] at a2
          simp only [ordCount]; omega
        · right
          refine ⟨a1, ?_, a3⟩
          simpa [ordCount, List.countP_cons, h0] using a2)
      rw [List.drop_eq_getElem_cons hlt']
      simp [h0, h1, h2, h3, hj, List.getElem?_eq_getElem hlt']
    · simp only [List.take_zero, ordCount, List.countP_nil, Nat.add_zero] at hj
      have hlt' : pb < B.length := by omega
      obtain ⟨h1, h2, h3⟩ := ih pa (pb + 1) (by
        intro t o' ho'
        rcases hd (t + 1) o' (by simpa using ho') with ⟨a1, a2, a3⟩ | ⟨a1, a2, a3⟩
        · left
          refine ⟨a1, ?_, a3⟩
          simpa [ordCount, List.countP_cons, h0] using a2
        · right
          refine ⟨a1, ?_, a3⟩
          simp only [List.take_succ_cons, ordCount, List.countP_cons, h0, beq_self_eq_true, if_true] at a2
          simp only [ordCount]; omega)
      rw [List.drop_eq_getElem_cons hlt']
      simp [h0, h1, h2, h3, hj, List.getElem?_eq_getElem hlt']

/-- along the table of two parts with `n₁` and `n₂` examples whose traced streams have that many chunks -/
theorem inter_order (A B : List (Log × Val)) (tla tlb : Log) (ea eb : Option Err) :
    (interT (intersperseOrder [A.length, B.length]) A tla ea B tlb eb).chunks.map some =
        (intersperseOrder [A.length, B.length]).map (fun o => if o.d == 0 then A[o.j]? else B[o.j]?) ∧
    (interT (intersperseOrder [A.length, B.length]) A tla ea B tlb eb).tail = [] ∧
    (interT (intersperseOrder [A.length, B.length]) A tla ea B tlb eb).err = none := by
  have := inter_spec A B tla tlb ea eb (intersperseOrder [A.length, B.length]) 0 0 (by
    intro t o ho
    have hok := order_ok [A.length, B.length] t o ho
    obtain ⟨hlt, hj, _, _⟩ := order_entries [A.length, B.length] o (List.mem_of_getElem? ho)
    simp only [List.length_cons, List.length_nil] at hlt
    have : o.d = 0 ∨ o.d = 1 := by omega
    rcases this with h0 | h0
    · left
      refine ⟨h0, ?_, ?_⟩
      · rw [← hok, h0]; simp
      · simpa [h0] using hj
    · right
      refine ⟨h0, ?_, ?_⟩
      · rw [← hok, h0]; simp
      · simpa [h0] using hj)
  simpa using this

end LazyDs.Trace

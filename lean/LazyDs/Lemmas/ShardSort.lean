/-
  Helper lemmas for C15 (shards / `split`) and C18 (`sort`, `groupby`).
  Core Lean only.
-/
import LazyDs.Model.Stage

namespace LazyDs.ShardSort
open LazyDs

/-! ## `np.array_split` arithmetic -/

theorem sectionStart_zero (n k : Nat) : sectionStart n k 0 = 0 := by
  simp [sectionStart]

theorem sectionStart_succ (n k i : Nat) :
    sectionStart n k (i + 1) = sectionStart n k i + (n / k + (if i < n % k then 1 else 0)) := by
  unfold sectionStart
  rw [Nat.succ_mul]
  split <;> omega

theorem sectionStart_le_succ (n k i : Nat) : sectionStart n k i ≤ sectionStart n k (i + 1) := by
  rw [sectionStart_succ]; exact Nat.le_add_right _ _

theorem sectionStart_mono (n k : Nat) {i j : Nat} (h : i ≤ j) :
    sectionStart n k i ≤ sectionStart n k j := by
  induction j with
  | zero => have : i = 0 := by omega
            subst this; exact Nat.le_refl _
  | succ j ih =>
    by_cases hij : i ≤ j
    · exact Nat.le_trans (ih hij) (sectionStart_le_succ n k j)
    · have : i = j + 1 := by omega
      subst this; exact Nat.le_refl _

theorem sectionStart_last (n k : Nat) (hk : 1 ≤ k) : sectionStart n k k = n := by
  unfold sectionStart
  have h1 : n % k < k := Nat.mod_lt _ (by omega)
  have h2 : k * (n / k) + n % k = n := Nat.div_add_mod n k
  rw [Nat.min_eq_right (Nat.le_of_lt h1)]
  exact h2

theorem sectionStart_le (n k i : Nat) (hk : 1 ≤ k) (hi : i ≤ k) : sectionStart n k i ≤ n := by
  have := sectionStart_mono n k hi
  rwa [sectionStart_last n k hk] at this

theorem sectionIdx_eq_range' (n k i : Nat) :
    sectionIdx n k i
      = List.range' (sectionStart n k i) (sectionStart n k (i + 1) - sectionStart n k i) := by
  unfold sectionIdx
  rw [List.range'_eq_map_range]
  apply List.map_congr_left
  intro x _; omega

theorem sectionIdx_length (n k i : Nat) :
    (sectionIdx n k i).length = n / k + (if i < n % k then 1 else 0) := by
  rw [sectionIdx_eq_range', List.length_range', sectionStart_succ]
  exact Nat.add_sub_cancel_left ..

theorem mem_sectionIdx {n k i x : Nat} :
    x ∈ sectionIdx n k i ↔ sectionStart n k i ≤ x ∧ x < sectionStart n k (i + 1) := by
  rw [sectionIdx_eq_range', List.mem_range'_1]
  have := sectionStart_le_succ n k i
  omega

/-- telescoping concatenation of contiguous runs -/
theorem flatten_runs (f : Nat → Nat) (hf : ∀ i, f i ≤ f (i + 1)) (k : Nat) :
    ((List.range k).map (fun i => List.range' (f i) (f (i + 1) - f i))).flatten
      = List.range' (f 0) (f k - f 0) := by
  induction k with
  | zero => simp
  | succ k ih =>
    have h0 : f 0 ≤ f k := by
      clear ih
      induction k with
      | zero => exact Nat.le_refl _
      | succ k ih => exact Nat.le_trans ih (hf k)
    rw [List.range_succ, List.map_append, List.flatten_append, ih]
    simp only [List.map_cons, List.map_nil, List.flatten_cons, List.flatten_nil, List.append_nil]
    have e1 : f k = f 0 + 1 * (f k - f 0) := by omega
    have e2 : f (k + 1) - f 0 = (f k - f 0) + (f (k + 1) - f k) := by have := hf k; omega
    rw [e2, ← List.range'_append (step := 1), ← e1]

theorem sections_concat (n k : Nat) (hk : 1 ≤ k) :
    ((List.range k).map (sectionIdx n k)).flatten = List.range n := by
  have h : (List.range k).map (sectionIdx n k)
      = (List.range k).map (fun i => List.range' (sectionStart n k i)
          (sectionStart n k (i + 1) - sectionStart n k i)) := by
    apply List.map_congr_left
    intro i _; exact sectionIdx_eq_range' n k i
  rw [h, flatten_runs (sectionStart n k) (sectionStart_le_succ n k) k,
    sectionStart_zero, sectionStart_last n k hk, List.range_eq_range']
  simp

/-! ## `mapM` over `Except`, `resolveIdx` -/

theorem mapM_ok {ε α β : Type} (f : α → Except ε β) (g : α → β) :
    ∀ (l : List α), (∀ x ∈ l, f x = .ok (g x)) → l.mapM f = .ok (l.map g)
  | [], _ => rfl
  | a :: l, h => by
    rw [List.mapM_cons, h a (List.mem_cons_self ..),
      mapM_ok f g l (fun x hx => h x (List.mem_cons_of_mem _ hx))]
    rfl

theorem mapM_ok_length {ε α β : Type} (f : α → Except ε β) :
    ∀ (l : List α) (r : List β), l.mapM f = .ok r → r.length = l.length
  | [], r, h => by
    have : r = [] := by
      simp only [List.mapM_nil] at h
      cases h; rfl
    subst this; rfl
  | a :: l, r, h => by
    rw [List.mapM_cons] at h
    cases hfa : f a with
    | error e => rw [hfa] at h; cases h
    | ok b =>
      cases hl : l.mapM f with
      | error e => rw [hfa, hl] at h; cases h
      | ok bs =>
        rw [hfa, hl] at h
        have : r = b :: bs := by cases h; rfl
        subst this
        simp [mapM_ok_length f l bs hl]

theorem resolveIdx_ofNat (n : Nat) :
    ∀ (l : List Nat), (∀ x ∈ l, x < n) → resolveIdx n (l.map Int.ofNat) = .ok l
  | [], _ => rfl
  | a :: l, h => by
    have ha : a < n := h a (List.mem_cons_self ..)
    have ih := resolveIdx_ofNat n l (fun x hx => h x (List.mem_cons_of_mem _ hx))
    simp only [List.map_cons, resolveIdx, ih]
    have h1 : ¬ (Int.ofNat a < 0) := by simp
    simp only [h1, if_false]
    have h2 : ¬ ((Int.ofNat a : Int) ≥ (n : Int)) := by
      simp only [Int.ofNat_eq_natCast]; omega
    simp [ha]

theorem mkSlice_idx_ok (d : DS) (n : Nat) (l : List Nat)
    (hix : d.indexable = true) (hg : d.sliceGuard = .ok ()) (hn : d.len = .ok n)
    (hl : ∀ x ∈ l, x < n) :
    mkSlice (.idx (l.map Int.ofNat)) d = .ok (sliceDS l d) := by
  simp [mkSlice, hg, hix, hn, resolveSlice, resolveIdx_ofNat n l hl, bind, Except.bind]

/-! ## `sorted(zip(values, count()))` -/

section SortSec
variable {κ : Type}

/-- `lt` is a strict total order (Boolean valued) -/
structure StrictTotal (lt : κ → κ → Bool) : Prop where
  irrefl : ∀ a, lt a a = false
  trans : ∀ a b c, lt a b = true → lt b c = true → lt a c = true
  total : ∀ a b, a ≠ b → lt a b = true ∨ lt b a = true

theorem StrictTotal.asymm {lt : κ → κ → Bool} (h : StrictTotal lt) {a b : κ}
    (hab : lt a b = true) : lt b a = false := by
  cases hba : lt b a with
  | false => rfl
  | true => have := h.trans a b a hab hba; rw [h.irrefl] at this; cases this

theorem pairLeBy_iff {lt : κ → κ → Bool} (h : StrictTotal lt) (a b : κ × Nat) :
    pairLeBy lt a b = true ↔ (lt a.1 b.1 = true ∨ (a.1 = b.1 ∧ a.2 ≤ b.2)) := by
  unfold pairLeBy
  constructor
  · intro hp
    by_cases h1 : lt a.1 b.1 = true
    · exact Or.inl h1
    · by_cases h2 : lt b.1 a.1 = true
      · simp [h1, h2] at hp
      · simp only [h1, h2, if_false, Bool.false_eq_true, decide_eq_true_eq] at hp
        refine Or.inr ⟨?_, hp⟩
        apply Classical.byContradiction
        intro hne
        cases h.total _ _ hne with
        | inl h => exact h1 h
        | inr h => exact h2 h
  · intro hp
    cases hp with
    | inl h1 => simp [h1]
    | inr h2 =>
      obtain ⟨he, hle⟩ := h2
      simp [he, h.irrefl, hle]

theorem pairLeBy_trans {lt : κ → κ → Bool} (h : StrictTotal lt) (a b c : κ × Nat)
    (hab : pairLeBy lt a b = true) (hbc : pairLeBy lt b c = true) : pairLeBy lt a c = true := by
  rw [pairLeBy_iff h] at *
  rcases hab with h1 | ⟨e1, l1⟩ <;> rcases hbc with h2 | ⟨e2, l2⟩
  · exact Or.inl (h.trans _ _ _ h1 h2)
  · exact Or.inl (e2 ▸ h1)
  · exact Or.inl (e1 ▸ h2)
  · exact Or.inr ⟨e1.trans e2, Nat.le_trans l1 l2⟩

theorem pairLeBy_total {lt : κ → κ → Bool} (h : StrictTotal lt) (a b : κ × Nat) :
    (pairLeBy lt a b || pairLeBy lt b a) = true := by
  rw [Bool.or_eq_true, pairLeBy_iff h, pairLeBy_iff h]
  by_cases he : a.1 = b.1
  · rcases Nat.le_total a.2 b.2 with hl | hl
    · exact Or.inl (Or.inr ⟨he, hl⟩)
    · exact Or.inr (Or.inr ⟨he.symm, hl⟩)
  · rcases h.total _ _ he with hl | hl
    · exact Or.inl (Or.inl hl)
    · exact Or.inr (Or.inl hl)

/-- the sorted `(value, index)` tuples -/
def sortedPairs (lt : κ → κ → Bool) (ks : List κ) : List (κ × Nat) :=
  (ks.zipIdx).mergeSort (pairLeBy lt)

theorem sortOrderBy_eq (lt : κ → κ → Bool) (ks : List κ) (rev : Bool) :
    sortOrderBy lt ks rev
      = (if rev then ((sortedPairs lt ks).map (·.2)).reverse else (sortedPairs lt ks).map (·.2)) := by
  unfold sortOrderBy sortedPairs
  cases rev <;> simp

theorem sortedPairs_perm (lt : κ → κ → Bool) (ks : List κ) :
    (sortedPairs lt ks).Perm ks.zipIdx := List.mergeSort_perm _ _

theorem mem_sortedPairs {lt : κ → κ → Bool} {ks : List κ} {p : κ × Nat} :
    p ∈ sortedPairs lt ks ↔ ks[p.2]? = some p.1 := by
  rw [(sortedPairs_perm lt ks).mem_iff, List.mem_zipIdx_iff_getElem?]

theorem sortedPairs_snd_perm (lt : κ → κ → Bool) (ks : List κ) :
    ((sortedPairs lt ks).map (·.2)).Perm (List.range ks.length) := by
  have h := (sortedPairs_perm lt ks).map (·.2)
  have e : (ks.zipIdx).map (·.2) = List.range ks.length := by
    rw [List.range_eq_range']; exact List.zipIdx_map_snd 0 ks
  rwa [e] at h

theorem sortOrderBy_perm (lt : κ → κ → Bool) (ks : List κ) (rev : Bool) :
    (sortOrderBy lt ks rev).Perm (List.range ks.length) := by
  rw [sortOrderBy_eq]
  cases rev
  · exact sortedPairs_snd_perm lt ks
  · exact (List.reverse_perm _).trans (sortedPairs_snd_perm lt ks)

theorem sortedPairs_pairwise {lt : κ → κ → Bool} (h : StrictTotal lt) (ks : List κ) :
    (sortedPairs lt ks).Pairwise (fun a b => pairLeBy lt a b = true) :=
  List.pairwise_mergeSort (pairLeBy_trans h) (pairLeBy_total h) _

theorem sortedPairs_snd_nodup (lt : κ → κ → Bool) (ks : List κ) :
    (sortedPairs lt ks).Pairwise (fun a b => a.2 ≠ b.2) := by
  have : ((sortedPairs lt ks).map (·.2)).Nodup :=
    (sortedPairs_snd_perm lt ks).nodup_iff.mpr List.nodup_range
  exact List.pairwise_map.mp this

theorem getElem!_of_getElem? [Inhabited κ] {ks : List κ} {i : Nat} {a : κ}
    (h : ks[i]? = some a) : ks[i]! = a := by
  simp [h]

/-- ascending: keys non-decreasing, ties in increasing index order -/
theorem sortedPairs_snd_sorted [Inhabited κ] {lt : κ → κ → Bool} (h : StrictTotal lt) (ks : List κ) :
    ((sortedPairs lt ks).map (·.2)).Pairwise
      (fun i j => lt (ks[j]!) (ks[i]!) = false ∧ (ks[i]! = ks[j]! → i < j)) := by
  rw [List.pairwise_map]
  refine List.Pairwise.imp_of_mem ?_
    ((sortedPairs_pairwise h ks).and (sortedPairs_snd_nodup lt ks))
  intro a b ha hb hab
  obtain ⟨hle, hne⟩ := hab
  rw [getElem!_of_getElem? (mem_sortedPairs.mp ha), getElem!_of_getElem? (mem_sortedPairs.mp hb)]
  rw [pairLeBy_iff h] at hle
  rcases hle with hlt | ⟨he, hl⟩
  · refine ⟨h.asymm hlt, ?_⟩
    intro he; rw [he, h.irrefl] at hlt; cases hlt
  · refine ⟨by rw [he]; exact h.irrefl _, fun _ => by omega⟩

theorem sortOrderBy_sorted [Inhabited κ] {lt : κ → κ → Bool} (h : StrictTotal lt) (ks : List κ) :
    (sortOrderBy lt ks false).Pairwise
      (fun i j => lt (ks[j]!) (ks[i]!) = false ∧ (ks[i]! = ks[j]! → i < j)) := by
  rw [sortOrderBy_eq]; exact sortedPairs_snd_sorted h ks

theorem sortOrderBy_sorted_reverse [Inhabited κ] {lt : κ → κ → Bool} (h : StrictTotal lt) (ks : List κ) :
    (sortOrderBy lt ks true).Pairwise
      (fun i j => lt (ks[i]!) (ks[j]!) = false ∧ (ks[i]! = ks[j]! → j < i)) := by
  rw [sortOrderBy_eq]
  simp only [if_true, List.pairwise_reverse]
  exact (sortedPairs_snd_sorted h ks).imp (fun ⟨h1, h2⟩ => ⟨h1, fun e => h2 e.symm⟩)

theorem intLt_strictTotal : StrictTotal intLt where
  irrefl a := by simp [intLt]
  trans a b c := by simp only [intLt, decide_eq_true_eq]; omega
  total a b := by simp only [intLt, decide_eq_true_eq]; omega

theorem strLt_strictTotal : StrictTotal strLt where
  irrefl a := by simp [strLt, String.lt_irrefl]
  trans a b c := by simp only [strLt, decide_eq_true_eq]; exact String.lt_trans
  total a b := by
    simp only [strLt, decide_eq_true_eq]
    intro hne
    by_cases h : a < b
    · exact Or.inl h
    · by_cases h' : b < a
      · exact Or.inr h'
      · exact absurd (String.le_antisymm (String.not_lt.mp h') (String.not_lt.mp h)) hne

end SortSec

/-! ## `sorted(keys)` -/

theorem sortKeys_perm (ks : List String) (rev : Bool) : (sortKeys ks rev).Perm ks := by
  unfold sortKeys
  cases rev
  · exact List.mergeSort_perm _ _
  · exact List.mergeSort_perm _ _

theorem sortKeys_sorted (ks : List String) : (sortKeys ks false).Pairwise (fun a b => a ≤ b) := by
  have h := List.pairwise_mergeSort (le := strLe)
    (by intro a b c; simp only [strLe, decide_eq_true_eq]; exact String.le_trans)
    (by intro a b; simp only [strLe, Bool.or_eq_true, decide_eq_true_eq]; exact String.le_total a b)
    ks
  exact h.imp (by intro a b; simp [strLe])

theorem sortKeys_sorted_reverse (ks : List String) :
    (sortKeys ks true).Pairwise (fun a b => b ≤ a) := by
  have h := List.pairwise_mergeSort (le := fun a b => strLe b a)
    (by intro a b c; simp only [strLe, decide_eq_true_eq]; exact fun h1 h2 => String.le_trans h2 h1)
    (by intro a b; simp only [strLe, Bool.or_eq_true, decide_eq_true_eq]; exact String.le_total b a)
    ks
  exact h.imp (by intro a b; simp [strLe])

/-! ## `groupby` -/

/-- the `groupby` loop from an arbitrary accumulator -/
def groupFold (l : List (SKey × Nat)) (acc : List (SKey × List Nat)) : List (SKey × List Nat) :=
  l.foldl (fun acc (g, i) => groupInsert g i acc) acc

theorem groupIndices_eq (gs : List SKey) : groupIndices gs = groupFold gs.zipIdx [] := rfl

theorem groupFold_cons (g : SKey) (i : Nat) (l : List (SKey × Nat)) (acc : List (SKey × List Nat)) :
    groupFold ((g, i) :: l) acc = groupFold l (groupInsert g i acc) := rfl

theorem groupInsert_flatten_perm (g : SKey) (i : Nat) :
    ∀ acc : List (SKey × List Nat),
      (((groupInsert g i acc).map (·.2)).flatten).Perm (i :: ((acc.map (·.2)).flatten))
  | [] => by simp [groupInsert]
  | (g', is) :: rest => by
    unfold groupInsert
    split
    · simp only [List.map_cons, List.flatten_cons, List.append_assoc]
      exact List.perm_middle
    · simp only [List.map_cons, List.flatten_cons]
      exact ((groupInsert_flatten_perm g i rest).append_left is).trans List.perm_middle

theorem groupFold_flatten_perm :
    ∀ (l : List (SKey × Nat)) (acc : List (SKey × List Nat)),
      (((groupFold l acc).map (·.2)).flatten).Perm (((acc.map (·.2)).flatten) ++ l.map (·.2))
  | [], acc => by simp [groupFold]
  | (g, i) :: l, acc => by
    rw [groupFold_cons]
    refine (groupFold_flatten_perm l _).trans ?_
    refine ((groupInsert_flatten_perm g i acc).append_right _).trans ?_
    simp only [List.map_cons, List.cons_append]
    exact List.perm_middle.symm

theorem groupInsert_ids (g : SKey) (i : Nat) :
    ∀ acc : List (SKey × List Nat),
      (groupInsert g i acc).map (·.1)
        = if g ∈ acc.map (·.1) then acc.map (·.1) else acc.map (·.1) ++ [g]
  | [] => by simp [groupInsert]
  | (g', is) :: rest => by
    unfold groupInsert
    by_cases h : g' = g
    · simp [h]
    · have h' : ¬ g = g' := fun e => h e.symm
      simp only [h, if_false, List.map_cons, List.mem_cons, h', false_or, groupInsert_ids g i rest]
      split <;> simp

theorem groupInsert_nodup (g : SKey) (i : Nat) (acc : List (SKey × List Nat))
    (h : (acc.map (·.1)).Nodup) : ((groupInsert g i acc).map (·.1)).Nodup := by
  rw [groupInsert_ids]
  split
  · exact h
  · rename_i hg
    rw [List.nodup_append]
    refine ⟨h, by simp, ?_⟩
    intro a ha b hb
    simp only [List.mem_singleton] at hb
    subst hb
    intro e; subst e; exact hg ha

/-- every entry of `groupInsert g i acc` is an old entry, or the entry of `g` extended by `i` -/
theorem mem_groupInsert {g : SKey} {i : Nat} {g' : SKey} {is' : List Nat} :
    ∀ {acc : List (SKey × List Nat)}, (g', is') ∈ groupInsert g i acc →
      (g', is') ∈ acc ∨ (g' = g ∧ (is' = [i] ∨ ∃ is, (g, is) ∈ acc ∧ is' = is ++ [i]))
  | [], h => by
    simp only [groupInsert, List.mem_singleton, Prod.mk.injEq] at h
    exact Or.inr ⟨h.1, Or.inl h.2⟩
  | (g0, is0) :: rest, h => by
    unfold groupInsert at h
    split at h
    · rename_i he
      subst he
      rcases List.mem_cons.mp h with h | h
      · simp only [Prod.mk.injEq] at h
        exact Or.inr ⟨h.1, Or.inr ⟨is0, List.mem_cons_self .., h.2⟩⟩
      · exact Or.inl (List.mem_cons_of_mem _ h)
    · rcases List.mem_cons.mp h with h | h
      · exact Or.inl (h ▸ List.mem_cons_self ..)
      · rcases mem_groupInsert h with h | ⟨e, h | ⟨is, hm, e'⟩⟩
        · exact Or.inl (List.mem_cons_of_mem _ h)
        · exact Or.inr ⟨e, Or.inl h⟩
        · exact Or.inr ⟨e, Or.inr ⟨is, List.mem_cons_of_mem _ hm, e'⟩⟩

/-- invariant of the `groupby` loop after the examples `0 … m-1` -/
structure GroupInv (gs : List SKey) (m : Nat) (acc : List (SKey × List Nat)) : Prop where
  ids : ∀ g is, (g, is) ∈ acc → ∀ i ∈ is, gs[i]? = some g
  bound : ∀ g is, (g, is) ∈ acc → ∀ i ∈ is, i < m
  order : ∀ g is, (g, is) ∈ acc → is.Pairwise (· < ·)
  nodup : (acc.map (·.1)).Nodup

theorem GroupInv.step {gs : List SKey} {m : Nat} {acc : List (SKey × List Nat)} {g : SKey}
    (h : GroupInv gs m acc) (hg : gs[m]? = some g) : GroupInv gs (m + 1) (groupInsert g m acc) where
  ids g' is' hm i hi := by
    rcases mem_groupInsert hm with hm | ⟨e, e' | ⟨is, hm', e'⟩⟩
    · exact h.ids _ _ hm i hi
    · subst e e'; simp only [List.mem_singleton] at hi; subst hi; exact hg
    · subst e e'
      rcases List.mem_append.mp hi with hi | hi
      · exact h.ids _ _ hm' i hi
      · simp only [List.mem_singleton] at hi; subst hi; exact hg
  bound g' is' hm i hi := by
    rcases mem_groupInsert hm with hm | ⟨e, e' | ⟨is, hm', e'⟩⟩
    · exact Nat.lt_succ_of_lt (h.bound _ _ hm i hi)
    · subst e'; simp only [List.mem_singleton] at hi; omega
    · subst e'
      rcases List.mem_append.mp hi with hi | hi
      · exact Nat.lt_succ_of_lt (h.bound _ _ hm' i hi)
      · simp only [List.mem_singleton] at hi; omega
  order g' is' hm := by
    rcases mem_groupInsert hm with hm | ⟨e, e' | ⟨is, hm', e'⟩⟩
    · exact h.order _ _ hm
    · subst e'; exact List.pairwise_singleton _ _
    · subst e'
      rw [List.pairwise_append]
      refine ⟨h.order _ _ hm', List.pairwise_singleton _ _, ?_⟩
      intro a ha b hb
      simp only [List.mem_singleton] at hb
      subst hb
      exact h.bound _ _ hm' a ha
  nodup := groupInsert_nodup g m acc h.nodup

theorem groupFold_inv (gs : List SKey) :
    ∀ (l : List SKey) (m : Nat) (acc : List (SKey × List Nat)),
      (∀ j, j < l.length → gs[m + j]? = l[j]?) → GroupInv gs m acc →
      GroupInv gs (m + l.length) (groupFold (l.zipIdx m) acc)
  | [], m, acc, _, h => h
  | g :: l, m, acc, hl, h => by
    rw [List.zipIdx_cons, groupFold_cons]
    have hg : gs[m]? = some g := by simpa using hl 0 (by simp)
    have := groupFold_inv gs l (m + 1) _ (fun j hj => by
      have := hl (j + 1) (by simp; omega)
      simpa [Nat.add_assoc, Nat.add_comm 1 j] using this) (h.step hg)
    simpa [Nat.add_assoc, Nat.add_comm 1] using this

theorem groupIndices_inv (gs : List SKey) : GroupInv gs gs.length (groupIndices gs) := by
  have := groupFold_inv gs gs 0 [] (fun j _ => by simp)
    ⟨by simp, by simp, by simp, by simp⟩
  simpa [groupIndices_eq] using this

theorem groupIndices_flatten_perm (gs : List SKey) :
    (((groupIndices gs).map (·.2)).flatten).Perm (List.range gs.length) := by
  have h := groupFold_flatten_perm gs.zipIdx []
  have e : (gs.zipIdx).map (·.2) = List.range gs.length := by
    rw [List.range_eq_range']; exact List.zipIdx_map_snd 0 gs
  rw [e] at h
  simpa [groupIndices_eq] using h

end LazyDs.ShardSort

/-
  Helper lemmas for C15 (shards / `split`) and C18 (`sort`, `groupby`).
  Core Lean only.
-/
import LazyDs.Model.Stage

namespace LazyDs.ShardSort
open LazyDs

/-! ## `np.array_split` arithmetic -/

theorem sectionStart_zero (n k : Nat) : sectionStart n k 0 = 0 := by
  simp [sectionStart]

theorem sectionStart_succ (n k i : Nat) :
    sectionStart n k (i + 1) = sectionStart n k i + (n / k + (if i < n % k then 1 else 0)) := by
  unfold sectionStart
  rw [Nat.succ_mul]
  split <;> omega

theorem sectionStart_le_succ (n k i : Nat) : sectionStart n k i ≤ sectionStart n k (i + 1) := by
  rw [sectionStart_succ]; exact Nat.le_add_right _ _

theorem sectionStart_mono (n k : Nat) {i j : Nat} (h : i ≤ j) :
    sectionStart n k i ≤ sectionStart n k j := by
  induction j with
  | zero => have : i = 0 := by omega
            subst this; exact Nat.le_refl _
  | succ j ih =>
    by_cases hij : i ≤ j
    · exact Nat.le_trans (ih hij) (sectionStart_le_succ n k j)
    · have : i = j + 1 := by omega
      subst this; exact Nat.le_refl _

theorem sectionStart_last (n k : Nat) (hk : 1 ≤ k) : sectionStart n k k = n := by
  unfold sectionStart
  have h1 : n % k < k := Nat.mod_lt _ (by omega)
  have h2 : k * (n / k) + n % k = n := Nat.div_add_mod n k
  rw [Nat.min_eq_right (Nat.le_of_lt h1)]
  exact h2

theorem sectionStart_le (n k i : Nat) (hk : 1 ≤ k) (hi : i ≤ k) : sectionStart n k i ≤ n := by
  have := sectionStart_mono n k hi
  rwa [sectionStart_last n k hk] at this

theorem sectionIdx_eq_range' (n k i : Nat) :
    sectionIdx n k i
      = List.range' (sectionStart n k i) (sectionStart n k (i + 1) - sectionStart n k i) := by
  unfold sectionIdx
  rw [List.range'_eq_map_range]
  apply List.map_congr_left
  intro x _; omega

theorem sectionIdx_length (n k i : Nat) :
    (sectionIdx n k i).length = n / k + (if i < n % k then 1 else 0) := by
  rw [sectionIdx_eq_range', List.length_range', sectionStart_succ]
  exact Nat.add_sub_cancel_left ..

theorem mem_sectionIdx {n k i x : Nat} :
    x ∈ sectionIdx n k i ↔ sectionStart n k i ≤ x ∧ x < sectionStart n k (i + 1) := by
  rw [sectionIdx_eq_range', List.mem_range'_1]
  have := sectionStart_le_succ n k i
  omega

/-- telescoping concatenation of contiguous runs -/
theorem flatten_runs (f : Nat → Nat) (hf : ∀ i, f i ≤ f (i + 1)) (k : Nat) :
    ((List.range k).map (fun i => List.range' (f i) (f (i + 1) - f i))).flatten
      = List.range' (f 0) (f k - f 0) := by
  induction k with
  | zero => simp
  | succ k ih =>
    have h0 : f 0 ≤ f k := by
      clear ih
      induction k with
      | zero => exact Nat.le_refl _
      | succ k ih => exact Nat.le_trans ih (hf k)
    rw [List.range_succ, List.map_append, List.flatten_append, ih]
    simp only [List.map_cons, List.map_nil, List.flatten_cons, List.flatten_nil, List.append_nil]
    have e1 : f k = f 0 + 1 * (f k - f 0) := by omega
    have e2 : f (k + 1) - f 0 = (f k - f 0) + (f (k + 1) - f k) := by have := hf k; omega
    rw [e2, ← List.range'_append (step := 1), ← e1]

theorem sections_concat (n k : Nat) (hk : 1 ≤ k) :
    ((List.range k).map (sectionIdx n k)).flatten = List.range n := by
  have h : (List.range k).map (sectionIdx n k)
      = (List.range k).map (fun i => List.range' (sectionStart n k i)
          (sectionStart n k (i + 1) - sectionStart n k i)) := by
    apply List.map_congr_left
    intro i _; exact sectionIdx_eq_range' n k i
  rw [h, flatten_runs (sectionStart n k) (sectionStart_le_succ n k) k,
    sectionStart_zero, sectionStart_last n k hk, List.range_eq_range']
  simp

/-! ## `mapM` over `Except`, `resolveIdx` -/

theorem mapM_ok {ε α β : Type} (f : α → Except ε β) (g : α → β) :
    ∀ (l : List α), (∀ x ∈ l, f x = .ok (g x)) → l.mapM f = .ok (l.map g)
  | [], _ => rfl
  | a :: l, h => by
    rw [List.mapM_cons, h a (List.mem_cons_self ..),
      mapM_ok f g l (fun x hx => h x (List.mem_cons_of_mem _ hx))]
    rfl

theorem mapM_ok_length {ε α β : Type} (f : α → Except ε β) :
    ∀ (l : List α) (r : List β), l.mapM f = .ok r → r.length = l.length
  | [], r, h => by
    have : r = [] := by
      simp only [List.mapM_nil] at h
      cases h; rfl
    subst this; rfl
  | a :: l, r, h => by
    rw [List.mapM_cons] at h
    cases hfa : f a with
    | error e => rw [hfa] at h; cases h
    | ok b =>
      cases hl : l.mapM f with
      | error e => rw [hfa, hl] at h; cases h
      | ok bs =>
        rw [hfa, hl] at h
        have : r = b :: bs := by cases h; rfl
        subst this
        simp [mapM_ok_length f l bs hl]

theorem resolveIdx_ofNat (n : Nat) :
    ∀ (l : List Nat), (∀ x ∈ l, x < n) → resolveIdx n (l.map Int.ofNat) = .ok l
  | [], _ => rfl
  | a :: l, h => by
    have ha : a < n := h a (List.mem_cons_self ..)
    have ih := resolveIdx_ofNat n l (fun x hx => h x (List.mem_cons_of_mem _ hx))
    simp only [List.map_cons, resolveIdx, ih]
    have h1 : ¬ (Int.ofNat a < 0) := by simp
    simp only [h1, if_false]
    have h2 : ¬ ((Int.ofNat a : Int) ≥ (n : Int)) := by
      simp only [Int.ofNat_eq_natCast]; omega
    simp [ha]

theorem mkSlice_idx_ok (d : DS) (n : Nat) (l : List Nat)
    (hix : d.indexable = true) (hg : d.sliceGuard = .ok ()) (hn : d.len = .ok n)
    (hl : ∀ x ∈ l, x < n) :
    mkSlice (.idx (l.map Int.ofNat)) d = .ok (sliceDS l d) := by
  simp [mkSlice, hg, hix, hn, resolveSlice, resolveIdx_ofNat n l hl, bind, Except.bind]

end LazyDs.ShardSort

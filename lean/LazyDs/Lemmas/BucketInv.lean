/-
  Invariants of the dynamic-bucket loop (`LazyDs.Model.Bucket`) used by the C17 theorems.

  Structure of the argument
  * `step` is cut into its four phases (`place`, `complete`, `expire`, `over`); `step_eq` is `rfl`.
  * `place` + `complete` are characterised by `place_complete_spec`; the three phases that only
    take buckets away (`complete`, `expire`, `over`) all satisfy the relation `Shrink`.
  * `Inv` is the loop invariant (counter, bucket predicate `Q`, creation indices, expiry, buffer bound),
    `OutOK` says where the batches of one pass come from.  `step_spec` is the single preservation
    lemma, `runAux_spec`/`run_spec` lift it to whole runs.
  * Conservation is proved by counting occurrences (`List.perm_iff_count`), so every permutation
    goal becomes linear arithmetic.
  * The bucket predicate `Q` is a parameter (`Closed ops Q`): `Q` holds for `init e` and is kept by
    `append b e` whenever `b` is still open (not completed) and `assess b e` accepted the example.
  CORE LEAN ONLY.
-/
import LazyDs.Model.Bucket

namespace LazyDs.Bucket

variable {β : Type}

/-! ### bookkeeping functions -/

/-- the number of examples withheld in the open buckets -/
def cnt (ops : BucketOps β) (l : List (β × Nat)) : Nat :=
  (l.map (fun bc => (ops.data bc.1).length)).sum

/-- all examples withheld in the open buckets -/
def content (ops : BucketOps β) (l : List (β × Nat)) : List Ex :=
  (l.map (fun bc => ops.data bc.1)).flatten

/-- how often example `a` is handed out (emitted or dropped) by one pass -/
def Out.count (o : Out) (a : Ex) : Nat :=
  o.emitted.flatten.count a + o.dropped.flatten.count a

@[simp] theorem cnt_nil (ops : BucketOps β) : cnt ops [] = 0 := rfl
@[simp] theorem cnt_cons (ops : BucketOps β) (x : β × Nat) (l) :
    cnt ops (x :: l) = (ops.data x.1).length + cnt ops l := by simp [cnt]
@[simp] theorem cnt_append (ops : BucketOps β) (l l' : List (β × Nat)) :
    cnt ops (l ++ l') = cnt ops l + cnt ops l' := by simp [cnt, List.sum_append]

@[simp] theorem content_nil (ops : BucketOps β) : content ops [] = [] := rfl
@[simp] theorem content_cons (ops : BucketOps β) (x : β × Nat) (l) :
    content ops (x :: l) = ops.data x.1 ++ content ops l := by simp [content]
@[simp] theorem content_append (ops : BucketOps β) (l l' : List (β × Nat)) :
    content ops (l ++ l') = content ops l ++ content ops l' := by simp [content]

@[simp] theorem Out.count_empty (a : Ex) : Out.count {} a = 0 := rfl
@[simp] theorem Out.count_append (o o' : Out) (a : Ex) :
    (o.append o').count a = o.count a + o'.count a := by
  simp [Out.count, Out.append, List.count_append]; omega
@[simp] theorem Out.count_emit (d : List Ex) (a : Ex) :
    Out.count { emitted := [d] } a = d.count a := by simp [Out.count]
@[simp] theorem count_release (ops : BucketOps β) (p : Params) (b : β) (a : Ex) :
    (release ops p b).count a = (ops.data b).count a := by
  unfold release; split <;> simp [Out.count]

/-! ### the bucket predicate and where batches come from -/

/-- `Q` is established by `init` and kept by every `append` the loop can perform -/
structure Closed (ops : BucketOps β) (Q : β → Prop) : Prop where
  init : ∀ e, Q (ops.init e)
  append : ∀ b e, Q b → ops.completed b = false → ops.assess b e = true → Q (ops.append b e)

theorem Closed.and {ops : BucketOps β} {Q Q' : β → Prop} (h : Closed ops Q) (h' : Closed ops Q') :
    Closed ops (fun b => Q b ∧ Q' b) :=
  ⟨fun e => ⟨h.init e, h'.init e⟩,
   fun b e hq hc ha => ⟨h.append b e hq.1 hc ha, h'.append b e hq.2 hc ha⟩⟩

/-- buckets are never empty -/
theorem closed_nonempty {ops : BucketOps β} (law : Lawful ops) :
    Closed ops (fun b => ops.data b ≠ []) :=
  ⟨fun e => by simp [law.data_init], fun b e _ _ _ => by simp [law.data_append]⟩

/-- every emitted batch is the data of a `Q`-bucket, which is completed if `drop_incomplete`;
    every dropped batch is the data of a `Q`-bucket and only exists under `drop_incomplete` -/
def OutOK (ops : BucketOps β) (p : Params) (Q : β → Prop) (o : Out) : Prop :=
  (∀ b ∈ o.emitted, ∃ bk, Q bk ∧ (p.dropIncomplete = true → ops.completed bk = true) ∧ ops.data bk = b) ∧
  (∀ b ∈ o.dropped, ∃ bk, Q bk ∧ p.dropIncomplete = true ∧ ops.data bk = b)

theorem OutOK.empty {ops : BucketOps β} {p Q} : OutOK ops p Q {} := by
  constructor <;> intro b hb <;> cases hb

theorem OutOK.append {ops : BucketOps β} {p Q o o'} (h : OutOK ops p Q o) (h' : OutOK ops p Q o') :
    OutOK ops p Q (o.append o') := by
  constructor
  · intro b hb
    rcases List.mem_append.1 hb with hb | hb
    · exact h.1 b hb
    · exact h'.1 b hb
  · intro b hb
    rcases List.mem_append.1 hb with hb | hb
    · exact h.2 b hb
    · exact h'.2 b hb

theorem OutOK.release {ops : BucketOps β} {p : Params} {Q : β → Prop} {b : β} (hq : Q b) :
    OutOK ops p Q (release ops p b) := by
  unfold Bucket.release
  split
  · rename_i hd
    constructor
    · intro x hx; simp at hx
    · intro x hx
      simp at hx
      exact ⟨b, hq, hd, hx.symm⟩
  · rename_i hd
    constructor
    · intro x hx
      simp at hx
      exact ⟨b, hq, fun h => absurd h hd, hx.symm⟩
    · intro x hx; simp at hx

theorem OutOK.emit {ops : BucketOps β} {p : Params} {Q : β → Prop} {b : β} (hq : Q b)
    (hc : ops.completed b = true) : OutOK ops p Q { emitted := [ops.data b] } := by
  constructor
  · intro x hx
    simp at hx
    exact ⟨b, hq, fun _ => hc, hx.symm⟩
  · intro x hx; simp at hx

/-! ### the four phases of one pass -/

/-- first fit, else a new bucket at the end -/
def place (ops : BucketOps β) (e : Ex) (l : List (β × Nat)) (i : Nat) : List (β × Nat) × Nat :=
  match tryAppend ops e l 0 with
  | some r => r
  | none => (l ++ [(ops.init e, i)], l.length)

/-- completion of the bucket that took the example -/
def complete (ops : BucketOps β) (l : List (β × Nat)) (n j : Nat) : List (β × Nat) × Nat × Out :=
  match l[j]? with
  | some (b, _) =>
    if ops.completed b then (l.eraseIdx j, n - (ops.data b).length, { emitted := [ops.data b] })
    else (l, n, {})
  | none => (l, n, {})

/-- expiry (at most one bucket per pass) -/
def expire (ops : BucketOps β) (p : Params) (i : Nat) (l : List (β × Nat)) (n : Nat) :
    List (β × Nat) × Nat × Out :=
  match p.expiration with
  | none => (l, n, {})
  | some ex =>
    match expireOne ops p i ex l with
    | some (rest, b) => (rest, n - (ops.data b).length, release ops p b)
    | none => (l, n, {})

/-- overflow -/
def over (ops : BucketOps β) (p : Params) (l : List (β × Nat)) (n : Nat) :
    List (β × Nat) × Nat × Out :=
  match p.maxBuffered with
  | none => (l, n, {})
  | some m => overflow ops p m l n

/-- `step` is the composition of its four phases (by unfolding) -/
theorem step_eq (ops : BucketOps β) (p : Params) (s : St β) (e : Ex) :
    step ops p s e =
      (let r1 := place ops e s.buckets s.i
       let r2 := complete ops r1.1 (s.buffered + 1) r1.2
       let r3 := expire ops p s.i r2.1 r2.2.1
       let r4 := over ops p r3.1 r3.2.1
       ({ buckets := r4.1, buffered := r4.2.1, i := s.i + 1 },
        (r2.2.2.append r3.2.2).append r4.2.2)) := rfl

/-! ### phases that only take buckets away -/

/-- `(l, n)` becomes `(l', n')` by giving up some buckets whose data is handed out in `o` -/
structure Shrink (ops : BucketOps β) (p : Params) (Q : β → Prop)
    (l : List (β × Nat)) (n : Nat) (l' : List (β × Nat)) (n' : Nat) (o : Out) : Prop where
  sub : l'.Sublist l
  cnt : n = cnt ops l → n' = cnt ops l'
  count : ∀ a, o.count a + (content ops l').count a = (content ops l).count a
  ok : (∀ bc ∈ l, Q bc.1) → OutOK ops p Q o

theorem Shrink.refl {ops : BucketOps β} {p Q l n} : Shrink ops p Q l n l n {} :=
  ⟨List.Sublist.refl _, id, fun a => by simp, fun _ => OutOK.empty⟩

theorem Shrink.trans {ops : BucketOps β} {p Q l n l' n' o l'' n'' o'}
    (h : Shrink ops p Q l n l' n' o) (h' : Shrink ops p Q l' n' l'' n'' o') :
    Shrink ops p Q l n l'' n'' (o.append o') where
  sub := h'.sub.trans h.sub
  cnt hn := h'.cnt (h.cnt hn)
  count a := by have := h.count a; have := h'.count a; simp; omega
  ok hq := (h.ok hq).append (h'.ok fun bc hbc => hq bc (h.sub.subset hbc))

/-- giving up the single bucket `(b, c)` -/
theorem Shrink.remove {ops : BucketOps β} {p : Params} {Q : β → Prop} {pre post : List (β × Nat)}
    {b : β} {c n : Nat} {o : Out} (hcount : ∀ a, o.count a = (ops.data b).count a)
    (hok : Q b → OutOK ops p Q o) :
    Shrink ops p Q (pre ++ (b, c) :: post) n (pre ++ post) (n - (ops.data b).length) o where
  sub := List.Sublist.append (List.Sublist.refl _) (List.sublist_cons_self _ _)
  cnt hn := by simp at hn ⊢; omega
  count a := by simp [hcount a, List.count_append]; omega
  ok hq := hok (hq (b, c) (by simp))

/-! #### `complete` -/

theorem complete_at (ops : BucketOps β) (pre post : List (β × Nat)) (b : β) (c n : Nat) :
    complete ops (pre ++ (b, c) :: post) n pre.length =
      if ops.completed b then (pre ++ post, n - (ops.data b).length, { emitted := [ops.data b] })
      else (pre ++ (b, c) :: post, n, {}) := by
  unfold complete
  have h1 : (pre ++ (b, c) :: post)[pre.length]? = some (b, c) := by simp
  have h2 : (pre ++ (b, c) :: post).eraseIdx pre.length = pre ++ post := by
    rw [List.eraseIdx_append_of_length_le (Nat.le_refl _)]; simp
  rw [h1]; simp only [h2]

/-! #### `expireOne` / `expire` -/

theorem expireOne_some {ops : BucketOps β} {p : Params} {i ex : Nat} :
    ∀ {l rest : List (β × Nat)} {b : β}, expireOne ops p i ex l = some (rest, b) →
      ∃ pre c post, l = pre ++ (b, c) :: post ∧ rest = pre ++ post ∧ i - c ≥ ex ∧
        ∀ bc ∈ pre, i - bc.2 < ex
  | [], _, _, h => by simp [expireOne] at h
  | (b0, c0) :: l, rest, b, h => by
    unfold expireOne at h
    split at h
    · rename_i hge
      simp only [Option.some.injEq, Prod.mk.injEq] at h
      obtain ⟨rfl, rfl⟩ := h
      exact ⟨[], c0, l, rfl, rfl, hge, by simp⟩
    · rename_i hlt
      split at h
      · rename_i rest' b' heq
        simp only [Option.some.injEq, Prod.mk.injEq] at h
        obtain ⟨rfl, rfl⟩ := h
        obtain ⟨pre, c, post, rfl, rfl, hge, hpre⟩ := expireOne_some heq
        refine ⟨(b0, c0) :: pre, c, post, rfl, rfl, hge, ?_⟩
        intro bc hbc
        rcases List.mem_cons.1 hbc with rfl | hbc
        · simp only; omega
        · exact hpre bc hbc
      · cases h

theorem expireOne_none {ops : BucketOps β} {p : Params} {i ex : Nat} :
    ∀ {l : List (β × Nat)}, expireOne ops p i ex l = none → ∀ bc ∈ l, i - bc.2 < ex
  | [], _ => by simp
  | (b0, c0) :: l, h => by
    unfold expireOne at h
    split at h
    · cases h
    · rename_i hlt
      split at h
      · cases h
      · rename_i heq
        intro bc hbc
        rcases List.mem_cons.1 hbc with rfl | hbc
        · simp only; omega
        · exact expireOne_none heq bc hbc

theorem expire_shrink (ops : BucketOps β) (p : Params) (Q : β → Prop) (i : Nat)
    (l : List (β × Nat)) (n : Nat) :
    Shrink ops p Q l n (expire ops p i l n).1 (expire ops p i l n).2.1 (expire ops p i l n).2.2 := by
  unfold expire
  split
  · exact Shrink.refl
  · split
    · rename_i heq
      obtain ⟨pre, c, post, rfl, rfl, -, -⟩ := expireOne_some heq
      exact Shrink.remove (count_release ops p _) OutOK.release
    · exact Shrink.refl

/-- after the expiry phase of the pass with index `i` no bucket has reached the age `ex`, provided
    that before the pass no bucket had and creation indices are distinct -/
theorem expire_age (ops : BucketOps β) (p : Params) (i ex : Nat) (l : List (β × Nat)) (n : Nat)
    (hex : p.expiration = some ex) (hsorted : l.Pairwise (fun a b => a.2 < b.2))
    (hage : ∀ bc ∈ l, i ≤ bc.2 + ex) :
    ∀ bc ∈ (expire ops p i l n).1, i + 1 ≤ bc.2 + ex := by
  unfold expire
  simp only [hex]
  split
  · rename_i rest b heq
    obtain ⟨pre, c, post, rfl, rfl, hge, hpre⟩ := expireOne_some heq
    intro bc hbc
    have hc := hage (b, c) (by simp)
    rw [List.pairwise_append] at hsorted
    obtain ⟨-, hpost, hcross⟩ := hsorted
    rcases List.mem_append.1 hbc with h | h
    · have := hpre bc h; omega
    · have := (List.pairwise_cons.1 hpost).1 bc h
      omega
  · rename_i heq
    intro bc hbc
    have := expireOne_none heq bc hbc
    omega

/-! #### `overflow` / `over` -/

theorem overflow_shrink (ops : BucketOps β) (p : Params) (Q : β → Prop) (m : Nat) :
    ∀ (l : List (β × Nat)) (n : Nat),
      Shrink ops p Q l n (overflow ops p m l n).1 (overflow ops p m l n).2.1 (overflow ops p m l n).2.2
  | [], n => by simp only [overflow]; exact Shrink.refl
  | (b, c) :: rest, n => by
    simp only [overflow]
    split
    · have ih := overflow_shrink ops p Q m rest (n - (ops.data b).length)
      have h1 : Shrink ops p Q ((b, c) :: rest) n rest (n - (ops.data b).length) (release ops p b) :=
        Shrink.remove (pre := []) (count_release ops p _) OutOK.release
      exact h1.trans ih
    · exact Shrink.refl

theorem overflow_bound (ops : BucketOps β) (p : Params) (m : Nat) :
    ∀ (l : List (β × Nat)) (n : Nat), n = cnt ops l → (overflow ops p m l n).2.1 ≤ m
  | [], n, h => by simp only [overflow]; simp at h; omega
  | (b, c) :: rest, n, h => by
    simp only [overflow]
    split
    · exact overflow_bound ops p m rest _ (by simp at h; omega)
    · simp only; omega

theorem over_shrink (ops : BucketOps β) (p : Params) (Q : β → Prop) (l : List (β × Nat)) (n : Nat) :
    Shrink ops p Q l n (over ops p l n).1 (over ops p l n).2.1 (over ops p l n).2.2 := by
  unfold over
  split
  · exact Shrink.refl
  · exact overflow_shrink ops p Q _ l n

theorem over_bound (ops : BucketOps β) (p : Params) (m : Nat) (l : List (β × Nat)) (n : Nat)
    (hm : p.maxBuffered = some m) (hn : n = cnt ops l) : (over ops p l n).2.1 ≤ m := by
  unfold over
  rw [hm]
  exact overflow_bound ops p m l n hn

/-! #### `tryAppend` / `place` followed by `complete` -/

theorem tryAppend_some {ops : BucketOps β} {e : Ex} :
    ∀ {l : List (β × Nat)} {k : Nat} {l' : List (β × Nat)} {j : Nat},
      tryAppend ops e l k = some (l', j) →
      ∃ pre b c post, l = pre ++ (b, c) :: post ∧ l' = pre ++ (ops.append b e, c) :: post ∧
        j = k + pre.length ∧ ops.assess b e = true
  | [], _, _, _, h => by simp [tryAppend] at h
  | (b0, c0) :: l, k, l', j, h => by
    unfold tryAppend at h
    split at h
    · rename_i ha
      simp only [Option.some.injEq, Prod.mk.injEq] at h
      obtain ⟨rfl, rfl⟩ := h
      exact ⟨[], b0, c0, l, rfl, rfl, rfl, ha⟩
    · split at h
      · rename_i rest' k' heq
        simp only [Option.some.injEq, Prod.mk.injEq] at h
        obtain ⟨rfl, rfl⟩ := h
        obtain ⟨pre, b, c, post, rfl, rfl, rfl, ha⟩ := tryAppend_some heq
        exact ⟨(b0, c0) :: pre, b, c, post, rfl, rfl, by simp; omega, ha⟩
      · cases h

/-- the combined effect of the first two phases on a list of open `Q`-buckets -/
structure PCSpec (ops : BucketOps β) (p : Params) (Q : β → Prop) (e : Ex) (i : Nat)
    (l : List (β × Nat)) (n : Nat) (l' : List (β × Nat)) (n' : Nat) (o : Out) : Prop where
  cnt : n = cnt ops l → n' = cnt ops l'
  count : ∀ a, o.count a + (content ops l').count a = (content ops l).count a + [e].count a
  good : ∀ bc ∈ l', Q bc.1 ∧ ops.completed bc.1 = false
  idx : (l'.map Prod.snd).Sublist (l.map Prod.snd ++ [i])
  ok : OutOK ops p Q o

theorem place_complete_spec {ops : BucketOps β} (law : Lawful ops) {Q : β → Prop}
    (cl : Closed ops Q) (p : Params) (e : Ex) (i : Nat) (l : List (β × Nat)) (n : Nat)
    (hgood : ∀ bc ∈ l, Q bc.1 ∧ ops.completed bc.1 = false) :
    PCSpec ops p Q e i l n
      (complete ops (place ops e l i).1 (n + 1) (place ops e l i).2).1
      (complete ops (place ops e l i).1 (n + 1) (place ops e l i).2).2.1
      (complete ops (place ops e l i).1 (n + 1) (place ops e l i).2).2.2 := by
  unfold place
  split
  · rename_i r heq
    obtain ⟨l1, j⟩ := r
    obtain ⟨pre, b, c, post, rfl, rfl, rfl, ha⟩ := tryAppend_some heq
    have hb := hgood (b, c) (by simp)
    have hq : Q (ops.append b e) := cl.append b e hb.1 hb.2 ha
    simp only [Nat.zero_add, complete_at]
    split
    · rename_i hc
      refine ⟨?_, ?_, ?_, ?_, OutOK.emit hq hc⟩
      · intro hn; simp [law.data_append] at hn ⊢; omega
      · intro a; simp [law.data_append, List.count_append, List.count_cons] <;> omega
      · intro bc hbc
        exact hgood bc (by
          rcases List.mem_append.1 hbc with h | h
          · exact List.mem_append_left _ h
          · exact List.mem_append_right _ (List.mem_cons_of_mem _ h))
      · simp only [List.map_append, List.map_cons]
        exact (List.Sublist.append (List.Sublist.refl _) (List.sublist_cons_self _ _)).trans
          (List.sublist_append_left _ _)
    · rename_i hc
      refine ⟨?_, ?_, ?_, ?_, OutOK.empty⟩
      · intro hn; simp [law.data_append] at hn ⊢; omega
      · intro a; simp [law.data_append, List.count_append, List.count_cons] <;> omega
      · intro bc hbc
        rcases List.mem_append.1 hbc with h | h
        · exact hgood bc (List.mem_append_left _ h)
        · rcases List.mem_cons.1 h with rfl | h
          · exact ⟨hq, by simpa using hc⟩
          · exact hgood bc (List.mem_append_right _ (List.mem_cons_of_mem _ h))
      · simp only [List.map_append, List.map_cons]
        exact List.sublist_append_left _ _
  · have hq : Q (ops.init e) := cl.init e
    have := complete_at ops l [] (ops.init e) i (n + 1)
    simp only [this]
    split
    · rename_i hc
      refine ⟨?_, ?_, ?_, ?_, OutOK.emit hq hc⟩
      · intro hn; simp [law.data_init] at hn ⊢; omega
      · intro a; simp [law.data_init, List.count_cons] <;> omega
      · intro bc hbc; exact hgood bc (by simpa using hbc)
      · simp only [List.append_nil]
        exact List.sublist_append_left _ _
    · rename_i hc
      refine ⟨?_, ?_, ?_, ?_, OutOK.empty⟩
      · intro hn; simp [law.data_init] at hn ⊢; omega
      · intro a; simp [law.data_init, List.count_append, List.count_cons] <;> omega
      · intro bc hbc
        rcases List.mem_append.1 hbc with h | h
        · exact hgood bc h
        · simp at h; subst h
          exact ⟨hq, by simpa using hc⟩
      · simp

/-! ### the loop invariant -/

/-- the loop invariant; it holds before and after every pass -/
structure Inv (ops : BucketOps β) (p : Params) (Q : β → Prop) (s : St β) : Prop where
  /-- the counter is the number of withheld examples -/
  count : s.buffered = cnt ops s.buckets
  /-- every open bucket satisfies `Q` and is not completed -/
  good : ∀ bc ∈ s.buckets, Q bc.1 ∧ ops.completed bc.1 = false
  /-- creation indices are indices of passes that already happened -/
  idx_lt : ∀ bc ∈ s.buckets, bc.2 < s.i
  /-- creation indices increase strictly along the list -/
  idx_sorted : s.buckets.Pairwise (fun a b => a.2 < b.2)
  /-- no open bucket has seen `expiration` further examples -/
  age : ∀ ex, p.expiration = some ex → ∀ bc ∈ s.buckets, s.i ≤ bc.2 + ex
  /-- at most `max_buffered_examples` examples are withheld -/
  bound : ∀ m, p.maxBuffered = some m → s.buffered ≤ m

theorem inv_init (ops : BucketOps β) (p : Params) (Q : β → Prop) : Inv ops p Q init := by
  constructor <;> simp [init]

theorem step_i (ops : BucketOps β) (p : Params) (s : St β) (e : Ex) :
    (step ops p s e).1.i = s.i + 1 := rfl

/-- one pass keeps the invariant, hands out only `Q`-buckets, and conserves the examples -/
theorem step_spec {ops : BucketOps β} (law : Lawful ops) {Q : β → Prop} (cl : Closed ops Q)
    (p : Params) (s : St β) (e : Ex) (inv : Inv ops p Q s) :
    Inv ops p Q (step ops p s e).1 ∧ OutOK ops p Q (step ops p s e).2 ∧
    ∀ a, (step ops p s e).2.count a + (content ops (step ops p s e).1.buckets).count a =
      (content ops s.buckets).count a + [e].count a := by
  simp only [step_eq]
  have h12 := place_complete_spec law cl p e s.i s.buckets s.buffered inv.good
  generalize (complete ops (place ops e s.buckets s.i).1 (s.buffered + 1)
    (place ops e s.buckets s.i).2) = r2 at h12
  obtain ⟨l2, n2, o1⟩ := r2
  simp only at h12 ⊢
  have h3 := expire_shrink ops p Q s.i l2 n2
  have hage3 := (expire_age ops p s.i · l2 n2)
  generalize expire ops p s.i l2 n2 = r3 at h3 hage3
  obtain ⟨l3, n3, o2⟩ := r3
  simp only at h3 hage3 ⊢
  have h4 := over_shrink ops p Q l3 n3
  have hb4 := (over_bound ops p · l3 n3)
  generalize over ops p l3 n3 = r4 at h4 hb4
  obtain ⟨l4, n4, o3⟩ := r4
  simp only at h4 hb4 ⊢
  have h34 := h3.trans h4
  have hn2 : n2 = cnt ops l2 := h12.cnt inv.count
  -- facts about the creation indices after the first two phases
  have hidx2 : ∀ bc ∈ l2, bc.2 < s.i + 1 := by
    intro bc hbc
    have := h12.idx.subset (List.mem_map_of_mem (f := Prod.snd) hbc)
    rcases List.mem_append.1 this with h | h
    · obtain ⟨bc', hbc', heq⟩ := List.mem_map.1 h
      have := inv.idx_lt bc' hbc'; omega
    · simp at h; omega
  have hsorted2 : l2.Pairwise (fun a b => a.2 < b.2) := by
    have hs : (s.buckets.map Prod.snd ++ [s.i]).Pairwise (· < ·) := by
      rw [List.pairwise_append]
      refine ⟨List.pairwise_map.2 inv.idx_sorted, by simp, ?_⟩
      intro a ha b hb
      obtain ⟨bc', hbc', rfl⟩ := List.mem_map.1 ha
      simp at hb; subst hb
      exact inv.idx_lt bc' hbc'
    exact List.pairwise_map.1 (hs.sublist h12.idx)
  have hage2 : ∀ ex, p.expiration = some ex → ∀ bc ∈ l2, s.i ≤ bc.2 + ex := by
    intro ex hex bc hbc
    have := h12.idx.subset (List.mem_map_of_mem (f := Prod.snd) hbc)
    rcases List.mem_append.1 this with h | h
    · obtain ⟨bc', hbc', heq⟩ := List.mem_map.1 h
      have := inv.age ex hex bc' hbc'; omega
    · simp at h; omega
  refine ⟨⟨?_, ?_, ?_, ?_, ?_, ?_⟩, ?_, ?_⟩
  · exact h34.cnt hn2
  · intro bc hbc; exact h12.good bc (h34.sub.subset hbc)
  · intro bc hbc; exact hidx2 bc (h34.sub.subset hbc)
  · exact hsorted2.sublist h34.sub
  · intro ex hex bc hbc
    exact hage3 ex hex hsorted2 (hage2 ex hex) bc (h4.sub.subset hbc)
  · intro m hm
    exact hb4 m hm (h3.cnt hn2)
  · exact (h12.ok.append (h3.ok fun bc hbc => (h12.good bc hbc).1)).append
      (h4.ok fun bc hbc => (h12.good bc (h3.sub.subset hbc)).1)
  · intro a
    have := h12.count a; have := h3.count a; have := h4.count a
    simp only [Out.count_append]; omega

/-! ### whole runs -/

/-- `allEmitted`/`allDropped` as a count of one example -/
def outsCount (os : List Out) (a : Ex) : Nat :=
  (allEmitted os).flatten.count a + (allDropped os).flatten.count a

@[simp] theorem outsCount_nil (a : Ex) : outsCount [] a = 0 := rfl
@[simp] theorem outsCount_cons (o : Out) (os : List Out) (a : Ex) :
    outsCount (o :: os) a = o.count a + outsCount os a := by
  simp [outsCount, allEmitted, allDropped, Out.count, List.count_append]; omega
@[simp] theorem outsCount_append (os os' : List Out) (a : Ex) :
    outsCount (os ++ os') a = outsCount os a + outsCount os' a := by
  induction os with
  | nil => simp
  | cons o os ih => simp [ih]; omega

theorem runAux_spec {ops : BucketOps β} (law : Lawful ops) {Q : β → Prop} (cl : Closed ops Q)
    (p : Params) : ∀ (input : List Ex) (s : St β), Inv ops p Q s →
      Inv ops p Q (runAux ops p s input).2 ∧
      (runAux ops p s input).2.i = s.i + input.length ∧
      (∀ o ∈ (runAux ops p s input).1, OutOK ops p Q o) ∧
      ∀ a, outsCount (runAux ops p s input).1 a +
          (content ops (runAux ops p s input).2.buckets).count a =
        (content ops s.buckets).count a + input.count a
  | [], s, inv => by simp [runAux, inv]
  | e :: es, s, inv => by
    obtain ⟨inv', ok, hc⟩ := step_spec law cl p s e inv
    obtain ⟨invf, hi, okf, hcf⟩ := runAux_spec law cl p es _ inv'
    simp only [runAux]
    refine ⟨invf, ?_, ?_, ?_⟩
    · rw [hi, step_i]; simp; omega
    · intro o ho
      rcases List.mem_cons.1 ho with rfl | ho
      · exact ok
      · exact okf o ho
    · intro a
      have := hc a; have := hcf a
      simp only [outsCount_cons, List.count_cons, List.count_nil] at *
      omega

/-- the states reached by `runAux` on a longer input pass through the state reached on a prefix:
    "every reached state" is "the final state of every input" -/
theorem runAux_append (ops : BucketOps β) (p : Params) :
    ∀ (xs ys : List Ex) (s : St β),
      runAux ops p s (xs ++ ys) =
        ((runAux ops p s xs).1 ++ (runAux ops p (runAux ops p s xs).2 ys).1,
         (runAux ops p (runAux ops p s xs).2 ys).2)
  | [], ys, s => by simp [runAux]
  | x :: xs, ys, s => by simp [runAux, runAux_append ops p xs ys]

theorem flush_spec {ops : BucketOps β} {p : Params} {Q : β → Prop} :
    ∀ (l : List (β × Nat)) (acc : Out), OutOK ops p Q acc → (∀ bc ∈ l, Q bc.1) →
      OutOK ops p Q (l.foldl (fun o bc => o.append (release ops p bc.1)) acc) ∧
      ∀ a, (l.foldl (fun o bc => o.append (release ops p bc.1)) acc).count a =
        acc.count a + (content ops l).count a
  | [], acc, hacc, _ => by simp [hacc]
  | bc :: l, acc, hacc, hq => by
    have ih := flush_spec l (acc.append (release ops p bc.1))
      (hacc.append (OutOK.release (hq bc (by simp)))) (fun x hx => hq x (by simp [hx]))
    refine ⟨ih.1, fun a => ?_⟩
    have := ih.2 a
    simp only [List.foldl_cons, content_cons, List.count_append, Out.count_append,
      count_release] at this ⊢
    omega

theorem run_eq (ops : BucketOps β) (p : Params) (input : List Ex) :
    run ops p input =
      (runAux ops p init input).1 ++ [flush ops p (runAux ops p init input).2] := rfl

/-- the master theorem: every pass (and the flush) hands out only `Q`-buckets, and every input
    example is handed out exactly once -/
theorem run_spec {ops : BucketOps β} (law : Lawful ops) {Q : β → Prop} (cl : Closed ops Q)
    (p : Params) (input : List Ex) :
    (∀ o ∈ run ops p input, OutOK ops p Q o) ∧
    ∀ a, outsCount (run ops p input) a = input.count a := by
  obtain ⟨invf, -, okf, hcf⟩ := runAux_spec law cl p input init (inv_init ops p Q)
  have hf := flush_spec (ops := ops) (p := p) (Q := Q) (runAux ops p init input).2.buckets {}
    OutOK.empty (fun bc hbc => (invf.good bc hbc).1)
  rw [run_eq]
  constructor
  · intro o ho
    rcases List.mem_append.1 ho with ho | ho
    · exact okf o ho
    · simp at ho; subst ho; exact hf.1
  · intro a
    have := hcf a; have := hf.2 a
    simp only [outsCount_append, outsCount_cons, outsCount_nil, flush, init, content_nil,
      List.count_nil, Out.count_empty] at *
    omega

theorem mem_allEmitted {os : List Out} {b : List Ex} :
    b ∈ allEmitted os ↔ ∃ o ∈ os, b ∈ o.emitted := by
  simp only [allEmitted, List.mem_flatten, List.mem_map]
  constructor
  · rintro ⟨l, ⟨o, ho, rfl⟩, hb⟩; exact ⟨o, ho, hb⟩
  · rintro ⟨o, ho, hb⟩; exact ⟨_, ⟨o, ho, rfl⟩, hb⟩

theorem mem_allDropped {os : List Out} {b : List Ex} :
    b ∈ allDropped os ↔ ∃ o ∈ os, b ∈ o.dropped := by
  simp only [allDropped, List.mem_flatten, List.mem_map]
  constructor
  · rintro ⟨l, ⟨o, ho, rfl⟩, hb⟩; exact ⟨o, ho, hb⟩
  · rintro ⟨o, ho, hb⟩; exact ⟨_, ⟨o, ho, rfl⟩, hb⟩

/-- every emitted batch of a run is the data of a `Q`-bucket (completed under `drop_incomplete`) -/
theorem run_emitted {ops : BucketOps β} (law : Lawful ops) {Q : β → Prop} (cl : Closed ops Q)
    (p : Params) (input : List Ex) :
    ∀ b ∈ allEmitted (run ops p input), ∃ bk, Q bk ∧
      (p.dropIncomplete = true → ops.completed bk = true) ∧ ops.data bk = b := by
  intro b hb
  obtain ⟨o, ho, hbo⟩ := mem_allEmitted.1 hb
  exact ((run_spec law cl p input).1 o ho).1 b hbo

/-- every dropped batch of a run is the data of a `Q`-bucket, and `drop_incomplete` is set -/
theorem run_dropped {ops : BucketOps β} (law : Lawful ops) {Q : β → Prop} (cl : Closed ops Q)
    (p : Params) (input : List Ex) :
    ∀ b ∈ allDropped (run ops p input), ∃ bk, Q bk ∧ p.dropIncomplete = true ∧ ops.data bk = b := by
  intro b hb
  obtain ⟨o, ho, hbo⟩ := mem_allDropped.1 hb
  exact ((run_spec law cl p input).1 o ho).2 b hbo

/-- the invariant holds in every state reached from `init` -/
theorem inv_reached {ops : BucketOps β} (law : Lawful ops) {Q : β → Prop} (cl : Closed ops Q)
    (p : Params) (input : List Ex) :
    Inv ops p Q (runAux ops p init input).2 ∧ (runAux ops p init input).2.i = input.length := by
  obtain ⟨invf, hi, -, -⟩ := runAux_spec law cl p input init (inv_init ops p Q)
  exact ⟨invf, by simpa [init] using hi⟩

/-! ### reachable states -/

/-- the states the loop can be in between two passes -/
inductive Reachable (ops : BucketOps β) (p : Params) : St β → Prop
  | init : Reachable ops p init
  | step {s : St β} (e : Ex) : Reachable ops p s → Reachable ops p (step ops p s e).1

theorem reachable_runAux (ops : BucketOps β) (p : Params) :
    ∀ (input : List Ex) (s : St β), Reachable ops p s → Reachable ops p (runAux ops p s input).2
  | [], _, h => h
  | e :: es, _, h => reachable_runAux ops p es _ (Reachable.step e h)

/-- the reachable states are exactly the final states of `runAux` from `init` on some input, so a
    statement about `(runAux ops p init input).2` for every `input` is a statement about every
    reachable state -/
theorem reachable_iff (ops : BucketOps β) (p : Params) (s : St β) :
    Reachable ops p s ↔ ∃ input, (runAux ops p init input).2 = s := by
  constructor
  · intro h
    induction h with
    | init => exact ⟨[], rfl⟩
    | step e _ ih =>
      obtain ⟨input, rfl⟩ := ih
      exact ⟨input ++ [e], by rw [runAux_append]; rfl⟩
  · rintro ⟨input, rfl⟩
    exact reachable_runAux ops p input init Reachable.init

/-! ### the time-series bucket -/

theorem ts_lawful (tp : TSParams) : Lawful (tsOps tp) := ⟨fun _ => rfl, fun _ _ => rfl⟩

/-- a bucket that holds `n` examples is completed (`n = batch_size`) -/
theorem ts_completed_of_length (tp : TSParams) (b : TSBucket)
    (h : ((tsOps tp).data b).length ≥ tp.batchSize) : (tsOps tp).completed b = true := by
  simp only [tsOps] at h ⊢
  simp [h]

/-- generic size bound: if holding `n ≥ 1` examples forces completion, no bucket exceeds `n` -/
theorem closed_size {ops : BucketOps β} (law : Lawful ops) (n : Nat) (hn : 1 ≤ n)
    (hcomp : ∀ b, (ops.data b).length ≥ n → ops.completed b = true) :
    Closed ops (fun b => (ops.data b).length ≤ n) := by
  constructor
  · intro e; simp [law.data_init, hn]
  · intro b e _ hc _
    have : ¬ (ops.data b).length ≥ n := fun h => by simp [hcomp b h] at hc
    simp [law.data_append]; omega

/-- `maxLen`/`minLen` bound the member lengths and are within the padding rate of each other -/
def TSPad (tp : TSParams) (b : TSBucket) : Prop :=
  (∀ x ∈ b.data, x.len ≤ b.maxLen ∧ b.minLen ≤ x.len) ∧
  b.maxLen * (tp.den - tp.num) ≤ b.minLen * tp.den

theorem ts_closed_pad (tp : TSParams) : Closed (tsOps tp) (TSPad tp) := by
  constructor
  · intro e
    refine ⟨by simp [tsOps], ?_⟩
    exact Nat.mul_le_mul_left _ (Nat.sub_le _ _)
  · intro b e hq _ ha
    obtain ⟨hmem, hpad⟩ := hq
    simp only [tsOps, Bool.and_eq_true, decide_eq_true_eq] at ha
    obtain ⟨⟨-, h1⟩, h2⟩ := ha
    have h3 : e.len * (tp.den - tp.num) ≤ e.len * tp.den :=
      Nat.mul_le_mul_left _ (Nat.sub_le _ _)
    constructor
    · intro x hx
      simp only [tsOps] at hx ⊢
      rcases List.mem_append.1 hx with hx | hx
      · have := hmem x hx
        exact ⟨Nat.le_trans this.1 (Nat.le_max_left _ _), Nat.le_trans (Nat.min_le_left _ _) this.2⟩
      · simp at hx; subst hx
        exact ⟨Nat.le_max_right _ _, Nat.min_le_right _ _⟩
    · simp only [tsOps]
      generalize tp.den - tp.num = d at *
      rw [Nat.max_def, Nat.min_def]
      split <;> split <;> omega

/-- the `max_total_size` clause as a bucket predicate -/
def TSTotal (m : Nat) (b : TSBucket) : Prop :=
  (∀ x ∈ b.data, x.len ≤ b.maxLen) ∧ (2 ≤ b.data.length → b.data.length * b.maxLen ≤ m)

theorem ts_closed_total (tp : TSParams) (m : Nat) (hm : tp.maxTotal = some m) :
    Closed (tsOps tp) (TSTotal m) := by
  constructor
  · intro e
    refine ⟨by simp [tsOps], ?_⟩
    simp [tsOps]
  · intro b e hq _ ha
    obtain ⟨hmem, -⟩ := hq
    simp only [tsOps, hm, Bool.and_eq_true, decide_eq_true_eq] at ha
    obtain ⟨⟨h0, -⟩, -⟩ := ha
    constructor
    · intro x hx
      simp only [tsOps] at hx ⊢
      rcases List.mem_append.1 hx with hx | hx
      · exact Nat.le_trans (hmem x hx) (Nat.le_max_left _ _)
      · simp at hx; subst hx
        exact Nat.le_max_right _ _
    · intro _
      simp only [tsOps, List.length_append, List.length_singleton]
      exact h0

end LazyDs.Bucket
